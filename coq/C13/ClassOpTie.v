(* C13 — the class-operation theorems in the checker's own terms: CorrT.law_codes on the model's
   runs.  CorrT.law_tag_t judges by mro_rule on the user classes with CorrT.add_decl; on
   single-inheritance hierarchies it is empty exactly when law_hist_ta on roots ++ h is. *)
From Coq Require Import ZArith List Bool Lia Sorted.
From TV Require Import Common.Harness C13.Model C13.Law C13.Corr C13.CorrT C13.Proofs C13.MapProofs C13.ClassOpProofs C13.ClassOpInd C13.ClassOpSub C13.ClassOpDag C13.ClassOpSubRun C13.ClassOpGlobal C13.ClassOpChain.
Import ListNotations.
Open Scope Z_scope.

Lemma forallb_upd : forall {A} (f : A -> bool) l i x, forallb f l = true -> f x = true -> forallb f (upd l i x) = true.
Proof.
  induction l as [|y r IH]; intros [|i] x H Hx; simpl in *; auto; apply andb_true_iff in H; destruct H as [H1 H2];
    apply andb_true_iff; auto.
Qed.

Lemma single_add_decl : forall h k n p, single h = true -> single (add_decl h k n p) = true.
Proof.
  intros h k n p H. unfold add_decl. destruct (nth_error h (k - length roots)) as [cd|] eqn:E; [|exact H].
  destruct (Nat.leb (length roots) k); [|exact H].
  unfold single in *. apply forallb_upd; [exact H|]. cbn [c_bases].
  rewrite forallb_forall in H. apply (H cd). apply (nth_error_In _ _ E).
Qed.

Lemma length_add_decl : forall h k n p, length (add_decl h k n p) = length h.
Proof.
  intros h k n p. unfold add_decl. destruct (nth_error h (k - length roots)); [|reflexivity].
  destruct (Nat.leb (length roots) k); [apply upd_length|reflexivity].
Qed.

(* class calls only on user classes (the roots are never extended) *)
Fixpoint user_calls (hist : list (top * obs)) : bool :=
  match hist with
  | [] => true
  | (TClass k _ _, _) :: r => Nat.leb 3 k && user_calls r
  | _ :: r => user_calls r
  end.

Lemma law_tag_t_ta : forall hist objs h i lss,
  single h = true -> forallb (fun k => Nat.ltb k (length (roots ++ h))) objs = true ->
  user_calls hist = true ->
  law_tag_t objs h i lss hist = [] <-> law_hist_ta objs (roots ++ h) i lss hist = [].
Proof.
  induction hist as [|[t ob] r IH]; intros objs h i lss Hs Ho Hu; [simpl; tauto|].
  destruct t as [j o|k n p].
  - cbn [law_tag_t law_hist_ta]. cbn [user_calls] in Hu.
    set (k := nth j objs O).
    assert (Hk : (k < length (roots ++ h))%nat).
    { destruct (nth_in_or_default j objs O) as [Hin|Hd].
      - rewrite forallb_forall in Ho. apply Nat.ltb_lt. apply (Ho _ Hin).
      - unfold k. rewrite Hd. rewrite app_length. simpl. lia. }
    assert (E : forall m, mro_rule h k m = class_rule (vis_nth (visible (roots ++ h)) k) m)
      by (intro m; apply (mro_spec_single h k m Hs Hk)).
    rewrite <- (law_step_ext _ _ E), <- (law_next_ext _ _ E).
    destruct (law_step (mro_rule h k) (nth j lss l_init) o ob) as [|z l] eqn:El.
    + simpl. apply IH; auto.
    + split; intro H; exfalso.
      * destruct (rule_eqb (mro_rule h k (op_name o)) (spec_rule h k (op_name o))); simpl in H; discriminate.
      * simpl in H. discriminate.
  - cbn [law_tag_t law_hist_ta]. cbn [user_calls] in Hu. apply andb_true_iff in Hu. destruct Hu as [H3 Hu].
    apply Nat.leb_le in H3.
    destruct (o_out ob); try (apply IH; auto).
    rewrite (app_decl_roots h k n p H3). apply IH; auto.
    + apply single_add_decl. exact Hs.
    + rewrite app_length, length_add_decl, <- app_length. exact Ho.
Qed.

Lemma run_t_user_calls : forall hh objs ts st,
  forallb (fun t => match t with TClass k _ _ => Nat.leb 3 k | _ => true end) ts = true ->
  user_calls (run_t hh objs st ts) = true.
Proof.
  intros hh objs. induction ts as [|t r IH]; intros st H; [reflexivity|].
  simpl in H. apply andb_true_iff in H. destruct H as [H1 H2].
  cbn [run_t]. destruct (step_t hh objs st t) as [st' ob]. destruct t; cbn [user_calls]; [apply IH; exact H2|].
  apply andb_true_iff. split; [exact H1|apply IH; exact H2].
Qed.

(* the checker's law function on the model's runs: single-inheritance user classes h, any number of
   fresh objects of any classes, object operations and add_class_trait calls on any user classes *)
Lemma checker_law_codes_on_model_runs : forall h objs ts,
  single h = true -> chainb (roots ++ h) = true ->
  forallb plain_t (tables (roots ++ h)) = true ->
  forallb (fun c => Nat.ltb c (length (roots ++ h))) objs = true ->
  forallb (fun t => match t with TClass k _ _ => Nat.leb 3 k | _ => true end) ts = true ->
  tokb (roots ++ h) objs (tables (roots ++ h), map (fun _ => ([], [])) objs) (roots ++ h) ts = true ->
  law_codes (h, objs, run_t (roots ++ h) objs (tables (roots ++ h), map (fun _ => ([], [])) objs) ts) = [].
Proof.
  intros h objs ts Hs Hch HP Ho Hu Hok. unfold law_codes.
  apply (law_tag_t_ta _ objs h 0 _ Hs Ho (run_t_user_calls _ _ ts _ Hu)).
  apply chain_law; assumption.
Qed.
