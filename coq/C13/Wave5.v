(* C13 — fifth wave: the ABC variants of the root classes (C13-v1), class-body default values for
   inherited traits (C13-v2), names a class owns through a List declaration (C13-v3). *)
From Coq Require Import ZArith List Bool Lia.
From TV Require Import Common.Harness C13.Model C13.Law C13.Corr C13.CorrT C13.Proofs.
Import ListNotations.
Open Scope Z_scope.

(* ---------- C13-v1 ---------- *)
(* ABCHasTraits(HasTraits) declares nothing, ABCHasStrictTraits(ABCHasTraits) declares _ = Disallow:
   as user classes 3 and 4.  Their declarative tables are those of HasTraits and HasStrictTraits. *)
Definition abc_classes : list classdef := [mkClass [] [0%nat]; mkClass [([95], PDisallow)] [3%nat]].

Lemma abc_tables : vis_nth (visible (roots ++ abc_classes)) 3 = vis_nth (visible roots) 0 /\
                   vis_nth (visible (roots ++ abc_classes)) 4 = vis_nth (visible roots) 1.
Proof. vm_compute. split; reflexivity. Qed.

Lemma abc_strict_rule : forall n, spec_rule abc_classes 4 n = spec_rule [] 1 n.
Proof. intro n. unfold spec_rule. rewrite app_nil_r. rewrite (proj2 abc_tables). reflexivity. Qed.

Lemma abc_plain_rule : forall n, spec_rule abc_classes 3 n = spec_rule [] 0 n.
Proof. intro n. unfold spec_rule. rewrite app_nil_r. rewrite (proj1 abc_tables). reflexivity. Qed.

(* ---------- C13-v2 ---------- *)
Lemma redefault_keeps_readonly : forall d v, redefault (PReadOnly d) v = PReadOnly v.
Proof. reflexivity. Qed.
Lemma redefault_keeps_validator : forall k d v, redefault (PTyped k d) v = PTyped k v.
Proof. reflexivity. Qed.

(* a ReadOnly re-defaulted in a class body is never assignable (the default is the defining value) *)
Lemma redefault_readonly_rejects : forall pt s n d v w,
  assoc n (s_itd s) = None -> assoc n (s_ctd s) = Some (redefault (PReadOnly d) v) -> Z.eqb v VUndef = false ->
  o_out (snd (step pt s (OSet n w))) = Raise TraitError.
Proof.
  intros pt s n d v w Hi Hc Hv. cbn [redefault] in Hc. simpl step. unfold lookup_set. rewrite Hi, Hc.
  cbn [setattr_m setattr]. rewrite Hv. reflexivity.
Qed.

(* ---------- C13-v3 ---------- *)
(* a name the class owns — here name_items of a List declared in the body — is an existing definition
   for _add_class_trait: rejected on the class itself, kept on a subclass *)
Lemma owned_name_blocks_add_class_trait : forall ct pt m p, ends_us m = false -> amem m ct = true ->
  add_class1 false (ct, pt) m p = None /\ add_class1 true (ct, pt) m p = Some (ct, pt).
Proof. intros ct pt m p He Ha. unfold add_class1. rewrite He, Ha. split; reflexivity. Qed.

Lemma list_declaration_owns_items : forall n, ends_us n = false ->
  amem (n ++ items_suffix) (fst (own_tables [(n, PList)])) = true.
Proof.
  intros n He. unfold own_tables. cbn [fold_left own_step]. rewrite He. cbn [subs fold_left fst snd aset].
  unfold amem. destruct (name_eqb n (n ++ items_suffix)) eqn:E; cbn [assoc]; rewrite ?E, ?name_eqb_refl; reflexivity.
Qed.
