(* C13 — correspondence and law for classes with a trait_added listener (seeded change C13-n2).
   One case = user classes, the class of the two fresh instances, the listener table of that
   class (prefix -> policy), and the history: (second instance?, operation, observation, code of
   the instance trait obj._instance_traits().get(name) after the step (handler class and default) — None when there is none). *)
From Coq Require Import ZArith List Bool.
From TV Require Import Common.Harness C13.Model C13.Law C13.Corr.
Import ListNotations.
Open Scope Z_scope.

Definition case :=
  (list classdef * nat * list (name * policy) * list (bool * op * obs * option Z))%type.

(* what the driver reports of an instance trait: handler class and default *)
Definition inst_code (p : policy) : Z :=
  match p with
  | PPython => 0 | PAny d => 1000 + d | PDisallow => 2000 | PReadOnly d => 3000 + d
  | PConstant c => 4000 + c | PEvent _ => 5000
  | PTyped VInt d => 61000 + d | PTyped VStr d => 62000 + d | PTyped VCInt d => 63000 + d
  | PTyped _ d => 69000 + d
  | PMap _ _ => 64000 | PList => 65000 | PShadow _ => 1999
  end.
Definition inst_kind (itd : list (name * policy)) (n : name) : option Z :=
  match assoc n itd with Some p => Some (inst_code p) | None => None end.

(* codes as in Corr.obs_diff, plus 6: the kind of the instance trait of the name afterwards *)
Fixpoint corr_hist_l (lst : list (name * policy)) (pt : ptab) (i : Z) (s : state2)
                     (h : list (bool * op * obs * option Z)) : list Z :=
  match h with
  | [] => []
  | (w, o, ob, k) :: r =>
      let '(s', m) := step2_l lst pt s w o in
      let '(_, a, b) := s' in
      map (fun c => 100 * i + c)
          (obs_diff m ob ++ chk 6 (opt_eqb Z.eqb (inst_kind (fst (if w then b else a)) (op_name o)) k))
      ++ corr_hist_l lst pt (i + 1) s' r
  end.

Definition corr_codes (c : case) : list Z :=
  let '(h, cl, lst, hist) := c in
  let t := class_tables h cl in
  corr_hist_l lst (snd t) 0 (init_state2 (fst t)) hist.

(* The law: "the instance trait of that name if one was added" governs — also when it is added
   DURING the access by the class's trait_added listener.  The bookkeeping takes the listener's
   trait over as soon as the observation shows an instance trait of the listener's kind for the
   name (before judging an access that found none in the bookkeeping; after an add_trait whose
   trait the listener replaced), and the triggering access itself is judged by that trait. *)
Definition adopt (lst : list (name * policy)) (ls : lstate) (n : name) (k : option Z) (only_if_absent : bool) : lstate :=
  match listener lst n, k with
  | Some lp, Some kk =>
      if Z.eqb kk (inst_code lp)
         && (if only_if_absent then negb (amem n (l_itd ls))
             else negb (opt_eqb Z.eqb (inst_kind (l_itd ls) n) (Some kk)))
      then mkL (aset n lp (l_itd ls)) (l_od ls) else ls
  | _, _ => ls
  end.

Definition is_access_op (o : op) : bool := match o with OGet _ | OSet _ _ | ODel _ => true | _ => false end.

Fixpoint law_tag_l (lst : list (name * policy)) (mr sr : name -> rule) (i : Z) (la lb : lstate)
                   (h : list (bool * op * obs * option Z)) : list Z :=
  match h with
  | [] => []
  | (w, o, ob, k) :: r =>
      let me0 := if w then lb else la in
      let me := if is_access_op o then adopt lst me0 (op_name o) k true else me0 in
      let nxt := adopt lst (law_next mr me o ob) (op_name o) k false in
      (match law_step mr me o ob with
       | [] => []
       | codes => if rule_eqb (mr (op_name o)) (sr (op_name o))
                  then map (fun c => 100 * i + c) codes else [100 * i + 99]
       end) ++ law_tag_l lst mr sr (i + 1) (if w then la else nxt) (if w then nxt else lb) r
  end.

Definition law_codes (c : case) : list Z :=
  let '(h, cl, lst, hist) := c in
  law_tag_l lst (mro_rule h cl) (spec_rule h cl) 0 l_init l_init hist.
