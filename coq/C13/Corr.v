(* C13 — correspondence: one case =
     the user classes h1 (created after the three root classes, bases by absolute index),
     an "early" history on a fresh instance of class k (may be empty),
     the user classes h2 created only after that history (may be empty),
     the main history on a fresh instance of class c,
   each history as (operation, observation recorded from the implementation). *)
From Coq Require Import ZArith List Bool.
From TV Require Import Common.Harness C13.Model C13.Law.
Import ListNotations.
Open Scope Z_scope.

Definition case :=
  (list classdef * nat * list (op * obs) * list classdef * nat * list (bool * op * obs) * list nat)%type.
(* the main history runs on two fresh instances of class c (flag true = the second one);
   last component: type(obj).__mro__ of the main instances as class indices *)

Definition outcome_eqb (a b : outcome) : bool :=
  match a, b with
  | Val x, Val y => Z.eqb x y
  | Done, Done => true
  | Raise x, Raise y => exn_eqb x y
  | _, _ => false
  end.

(* codes: 100*step + 1 outcome (class and value), 2 what obj.__dict__ holds for the name afterwards,
   4 for name + "_", 5 for name[:-1] *)
Definition obs_diff (m i : obs) : list Z :=
  chk 1 (outcome_eqb (o_out m) (o_out i))
  ++ chk 2 (opt_eqb Z.eqb (o_stored m) (o_stored i))
  ++ chk 4 (opt_eqb Z.eqb (o_shadow m) (o_shadow i))
  ++ chk 5 (opt_eqb Z.eqb (o_base m) (o_base i)).

Fixpoint corr_hist (pt : ptab) (i : Z) (s : state) (h : list (op * obs)) : list Z :=
  match h with
  | [] => []
  | (o, ob) :: r =>
      let '(s', m) := step pt s o in
      map (fun c => 100 * i + c) (obs_diff m ob) ++ corr_hist pt (i + 1) s' r
  end.

Fixpoint corr_hist2 (pt : ptab) (i : Z) (s : state2) (h : list (bool * op * obs)) : list Z :=
  match h with
  | [] => []
  | (w, o, ob) :: r =>
      let '(s', m) := step2 pt s w o in
      map (fun c => 100 * i + c) (obs_diff m ob) ++ corr_hist2 pt (i + 1) s' r
  end.

Definition class_tables (h : list classdef) (c : nat) : ctab * ptab := tabs_nth (tables (roots ++ h)) c.

(* code 3 (at step 0): the law's C3 linearisation is not Python's __mro__ *)
Definition corr_codes (c : case) : list Z :=
  let '(h1, k, pre, h2, cl, hist, mro_obs) := c in
  let t1 := class_tables h1 k in
  let t := tabs_nth (staged_tables (roots ++ h1) k (map fst pre) h2) cl in
  chk 3 (list_eqb Nat.eqb (nth cl (mros (roots ++ h1 ++ h2)) []) mro_obs)
  ++ corr_hist (snd t1) 0 (init_state (fst t1)) pre
  ++ corr_hist2 (snd t) (Z.of_nat (length pre)) (init_state2 (fst t)) hist.

Definition vkind_eqb (a b : vkind) : bool :=
  match a, b with VInt, VInt | VStr, VStr | VCInt, VCInt | VNoneOnly, VNoneOnly => true | _, _ => false end.
Definition policy_eqb (a b : policy) : bool :=
  match a, b with
  | PPython, PPython | PDisallow, PDisallow | PEvent None, PEvent None | PList, PList => true
  | PEvent (Some k), PEvent (Some l) => vkind_eqb k l
  | PAny x, PAny y | PConstant x, PConstant y | PReadOnly x, PReadOnly y => Z.eqb x y
  | PMap m x, PMap l y => list_eqb (fun a b => Z.eqb (fst a) (fst b) && Z.eqb (snd a) (snd b)) m l && Z.eqb x y
  | PShadow m, PShadow l => list_eqb (fun a b => Z.eqb (fst a) (fst b) && Z.eqb (snd a) (snd b)) m l
  | PTyped k x, PTyped l y => vkind_eqb k l && Z.eqb x y
  | _, _ => false
  end.
Definition rule_eqb (a b : rule) : bool :=
  match a, b with
  | RPol p, RPol q => policy_eqb p q
  | RDunder, RDunder | RNone, RNone => true
  | _, _ => false
  end.

(* [law_hist mr] with one refinement of the failure codes only: a failure on a name whose
   class-level rule differs between the MRO reading [mr] and the code's base-order reading [sr]
   is reported as clause 99 (Proofs.law_tag_nil: law_tag = [] <-> law_hist = []) *)
Fixpoint law_tag (mr sr : name -> rule) (i : Z) (ls : lstate) (h : list (op * obs)) : list Z :=
  match h with
  | [] => []
  | (o, ob) :: r =>
      (match law_step mr ls o ob with
       | [] => []
       | codes => if rule_eqb (mr (op_name o)) (sr (op_name o))
                  then map (fun c => 100 * i + c) codes else [100 * i + 99]
       end) ++ law_tag mr sr (i + 1) (law_next mr ls o ob) r
  end.

Fixpoint law_tag2 (mr sr : name -> rule) (i : Z) (la lb : lstate) (h : list (bool * op * obs)) : list Z :=
  match h with
  | [] => []
  | (w, o, ob) :: r =>
      let me := if w then lb else la in
      (match law_step mr me o ob with
       | [] => []
       | codes => if rule_eqb (mr (op_name o)) (sr (op_name o))
                  then map (fun c => 100 * i + c) codes else [100 * i + 99]
       end) ++ law_tag2 mr sr (i + 1) (if w then la else law_next mr me o ob) (if w then law_next mr me o ob else lb) r
  end.

(* the law knows nothing of caches nor of the order in which update_traits_class_dict merges
   the bases: the class-level rule is that of the declarations along the MRO *)
Definition law_codes (c : case) : list Z :=
  let '(h1, k, pre, h2, cl, hist, _) := c in
  law_tag (mro_rule h1 k) (spec_rule h1 k) 0 l_init pre
  ++ law_tag2 (mro_rule (h1 ++ h2) cl) (spec_rule (h1 ++ h2) cl) (Z.of_nat (length pre)) l_init l_init hist.
