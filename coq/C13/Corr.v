(* C13 — correspondence: one case = the user classes (created after the three root
   classes, bases by absolute index), the index of the class whose instance is
   used, and the history of (operation, observation recorded from the implementation). *)
From Coq Require Import ZArith List Bool.
From TV Require Import Common.Harness C13.Model C13.Law.
Import ListNotations.
Open Scope Z_scope.

Definition case := (list classdef * nat * list (op * obs))%type.

Definition outcome_eqb (a b : outcome) : bool :=
  match a, b with
  | Val x, Val y => Z.eqb x y
  | Done, Done => true
  | Raise x, Raise y => exn_eqb x y
  | _, _ => false
  end.

(* codes: 100*step + 1 outcome (class and value), 2 what obj.__dict__ holds for the name afterwards *)
Definition obs_diff (m i : obs) : list Z :=
  chk 1 (outcome_eqb (o_out m) (o_out i))
  ++ chk 2 (opt_eqb Z.eqb (o_stored m) (o_stored i)).

Fixpoint corr_hist (pt : ptab) (i : Z) (s : state) (h : list (op * obs)) : list Z :=
  match h with
  | [] => []
  | (o, ob) :: r =>
      let '(s', m) := step pt s o in
      map (fun c => 100 * i + c) (obs_diff m ob) ++ corr_hist pt (i + 1) s' r
  end.

Definition class_tables (h : list classdef) (c : nat) : ctab * ptab := tabs_nth (tables (roots ++ h)) c.

Definition corr_codes (c : case) : list Z :=
  let '(h, k, hist) := c in
  let t := class_tables h k in
  corr_hist (snd t) 0 (init_state (fst t)) hist.

Definition law_codes (c : case) : list Z :=
  let '(h, k, hist) := c in law_hist (spec_rule h k) 0 l_init hist.
