(* C13 — correspondence: one case =
     the user classes h1 (created after the three root classes, bases by absolute index),
     an "early" history on a fresh instance of class k (may be empty),
     the user classes h2 created only after that history (may be empty),
     the main history on a fresh instance of class c,
   each history as (operation, observation recorded from the implementation). *)
From Coq Require Import ZArith List Bool.
From TV Require Import Common.Harness C13.Model C13.Law.
Import ListNotations.
Open Scope Z_scope.

Definition case := (list classdef * nat * list (op * obs) * list classdef * nat * list (op * obs))%type.

Definition outcome_eqb (a b : outcome) : bool :=
  match a, b with
  | Val x, Val y => Z.eqb x y
  | Done, Done => true
  | Raise x, Raise y => exn_eqb x y
  | _, _ => false
  end.

(* codes: 100*step + 1 outcome (class and value), 2 what obj.__dict__ holds for the name afterwards *)
Definition obs_diff (m i : obs) : list Z :=
  chk 1 (outcome_eqb (o_out m) (o_out i))
  ++ chk 2 (opt_eqb Z.eqb (o_stored m) (o_stored i)).

Fixpoint corr_hist (pt : ptab) (i : Z) (s : state) (h : list (op * obs)) : list Z :=
  match h with
  | [] => []
  | (o, ob) :: r =>
      let '(s', m) := step pt s o in
      map (fun c => 100 * i + c) (obs_diff m ob) ++ corr_hist pt (i + 1) s' r
  end.

Definition class_tables (h : list classdef) (c : nat) : ctab * ptab := tabs_nth (tables (roots ++ h)) c.

Definition corr_codes (c : case) : list Z :=
  let '(h1, k, pre, h2, cl, hist) := c in
  let t1 := class_tables h1 k in
  let t := tabs_nth (staged_tables (roots ++ h1) k (map fst pre) h2) cl in
  corr_hist (snd t1) 0 (init_state (fst t1)) pre
  ++ corr_hist (snd t) (Z.of_nat (length pre)) (init_state (fst t)) hist.

(* the law knows nothing of caches: the class-level rule is that of the declarations *)
Definition law_codes (c : case) : list Z :=
  let '(h1, k, pre, h2, cl, hist) := c in
  law_hist (spec_rule h1 k) 0 l_init pre
  ++ law_hist (spec_rule (h1 ++ h2) cl) (Z.of_nat (length pre)) l_init hist.
