(* C13 — add_class_trait: declarations added to a class at run time are governed exactly like the
   declarations of its body.  Inductive theorems for CorrT runs: any sequence of add_class_trait
   calls on the class of the object (accepted or rejected, explicit names and wildcards), then any
   history on a fresh instance. *)
From Coq Require Import ZArith List Bool Lia Sorted.
From TV Require Import Common.Harness C13.Model C13.Law C13.Corr C13.Proofs C13.MapProofs C13.ClassOpProofs.
From TV Require C13.CorrT.
Import ListNotations.
Open Scope Z_scope.

Notation TObj := C13.CorrT.TObj.
Notation TClass := C13.CorrT.TClass.
Notation step_t := C13.CorrT.step_t.
Notation add_decl := C13.CorrT.add_decl.

(* tables that agree with a declarative (visible) pair implement its rule *)
Lemma agree_rule : forall (t v : ctab * ptab) m,
  tab_eq (fst t) (fst v) -> tab_eq (snd t) (snd v) -> StronglySorted len_ge (snd t) ->
  model_rule (fst t) (snd t) m = class_rule v m.
Proof.
  intros t v m A B S. unfold model_rule, class_rule. rewrite (A m).
  destruct (assoc m (fst v)); auto. destruct (dunder m); auto.
  pose proof (first_match_best m _ _ S B) as E. unfold wild in E.
  destruct (first_match m (snd t)) as [[? ?]|]; destruct (best m (snd v)) as [[? ?]|]; auto.
Qed.

Definition Agr (t v : ctab * ptab) : Prop :=
  tab_eq (fst t) (fst v) /\ tab_eq (snd t) (snd v) /\ StronglySorted len_ge (snd t).

Lemma own_tables_snoc : forall l d, own_tables (l ++ [d]) = own_step (own_tables l) d.
Proof. intros. unfold own_tables. rewrite fold_left_app. reflexivity. Qed.

Lemma assoc_aset_app : forall (O B : list (name * policy)) n p m,
  assoc m (aset n p O ++ B) = if name_eqb n m then Some p else assoc m (O ++ B).
Proof. intros. rewrite !assoc_app, assoc_aset. destruct (name_eqb n m); reflexivity. Qed.

(* one accepted add_class_trait on the class itself = the declaration appended to the class body *)
Lemma Agr_add : forall V cd t n p t', plainp p = true ->
  Agr t (vis_class V cd) -> add_class1 false t n p = Some t' ->
  Agr t' (vis_class V (mkClass (c_decls cd ++ [(n, p)]) (c_bases cd))).
Proof.
  intros V cd [ct pt] n p t' Hp (A & B & S) H. unfold vis_class in *. cbn [c_decls c_bases fst snd] in *.
  rewrite own_tables_snoc. destruct (own_tables (c_decls cd)) as [O W] eqn:EO. cbn [fst snd] in *.
  unfold add_class1 in H. unfold own_step.
  assert (Hs : subs n p = []) by (destruct p; try discriminate Hp; reflexivity).
  destruct (ends_us n) eqn:Eu.
  - (* wildcard *)
    destruct (amem (removelast n) pt) eqn:Em; [discriminate|]. inversion H; subst t'. clear H.
    cbn [fst snd]. split; [exact A|]. split; [|apply sort_len_sorted].
    cbn [fst snd]. intro m. rewrite assoc_sort_len, assoc_app.
    set (Bp := flat_map (fun b => snd (vis_nth V b)) (c_bases cd)) in *.
    transitivity (match assoc m (aset (removelast n) p W ++ Bp) with
                  | Some v => Some v | None => assoc m [([], PPython)] end);
      [|symmetry; exact (assoc_close (aset (removelast n) p W ++ Bp) m)].
    rewrite assoc_aset_app.
    assert (Bm : forall j, assoc j pt = match assoc j (W ++ Bp) with
                                        | Some v => Some v | None => assoc j [([], PPython)] end)
      by (intro j; rewrite (B j); exact (assoc_close (W ++ Bp) j)).
    rewrite (Bm m). unfold amem in Em. rewrite (Bm (removelast n)) in Em.
    destruct (name_eqb (removelast n) m) eqn:E.
    + apply name_eqb_eq in E. subst m.
      destruct (assoc (removelast n) (W ++ Bp)); [discriminate|].
      destruct (assoc (removelast n) [([], PPython)]); [discriminate|]. simpl. rewrite name_eqb_refl. reflexivity.
    + destruct (assoc m (W ++ Bp)); auto. destruct (assoc m [([], PPython)]); auto. simpl. rewrite E. reflexivity.
  - (* explicit name *)
    destruct (amem n ct) eqn:Em; [discriminate|]. inversion H; subst t'. clear H.
    rewrite Hs. cbn [fold_left fst snd]. split; [|split; auto].
    cbn [fst snd]. intro m. rewrite assoc_aset_app, assoc_aset, (A m). reflexivity.
Qed.

(* ---- the class inside its hierarchy ---- *)
Lemma visible_from_length : forall h V, length (visible_from V h) = (length V + length h)%nat.
Proof.
  induction h as [|cd r IH]; intro V; simpl; [lia|]. rewrite IH, app_length. simpl. lia.
Qed.
Lemma visible_from_keeps : forall h V i, (i < length V)%nat ->
  nth i (visible_from V h) ([], []) = nth i V ([], []).
Proof.
  induction h as [|cd r IH]; intros V i Hi; simpl; auto.
  rewrite IH by (rewrite app_length; simpl; lia). apply app_nth1. exact Hi.
Qed.
Lemma visible_at : forall pre cd post,
  vis_nth (visible (pre ++ cd :: post)) (length pre) = vis_class (visible pre) cd.
Proof.
  intros pre cd post. unfold vis_nth, visible, visible_from. rewrite fold_left_app. simpl.
  fold (visible_from (fold_left (fun t c => t ++ [vis_class t c]) pre [] ++
                      [vis_class (fold_left (fun t c => t ++ [vis_class t c]) pre []) cd]) post).
  fold (visible_from [] pre).
  assert (L : length (visible_from [] pre) = length pre) by (rewrite visible_from_length; reflexivity).
  rewrite visible_from_keeps by (rewrite app_length; simpl; lia).
  rewrite app_nth2 by lia. rewrite L, Nat.sub_diag. reflexivity.
Qed.

Lemma tables_from_length : forall h T, length (tables_from T h) = (length T + length h)%nat.
Proof.
  induction h as [|cd r IH]; intro T; simpl; [lia|]. rewrite IH, app_length. simpl. lia.
Qed.
Lemma tables_from_keeps : forall h T i, (i < length T)%nat ->
  nth i (tables_from T h) ([], []) = nth i T ([], []).
Proof.
  induction h as [|cd r IH]; intros T i Hi; simpl; auto.
  rewrite IH by (rewrite app_length; simpl; lia). apply app_nth1. exact Hi.
Qed.
Lemma tables_at : forall pre cd post,
  tabs_nth (tables (pre ++ cd :: post)) (length pre) = build_class (tables pre) cd.
Proof.
  intros pre cd post. unfold tabs_nth, tables, tables_from. rewrite fold_left_app. simpl.
  fold (tables_from (fold_left (fun t c => t ++ [build_class t c]) pre [] ++
                     [build_class (fold_left (fun t c => t ++ [build_class t c]) pre []) cd]) post).
  fold (tables_from [] pre).
  assert (L : length (tables_from [] pre) = length pre) by (rewrite tables_from_length; reflexivity).
  rewrite tables_from_keeps by (rewrite app_length; simpl; lia).
  rewrite app_nth2 by lia. rewrite L, Nat.sub_diag. reflexivity.
Qed.

Lemma Agr_built : forall pre cd post,
  Agr (tabs_nth (tables (pre ++ cd :: post)) (length pre)) (vis_nth (visible (pre ++ cd :: post)) (length pre)).
Proof.
  intros. rewrite tables_at, visible_at. apply build_vis_agree. apply agree_all.
Qed.

(* ---- add_class on the table list ---- *)
Lemma map_idx_nth : forall {A B} (f : nat -> A -> B) l i0 k d d',
  (k < length l)%nat -> nth k (map_idx f i0 l) d' = f (i0 + k)%nat (nth k l d).
Proof.
  induction l as [|x r IH]; intros i0 k d d' Hk; simpl in Hk; [lia|].
  destruct k; simpl.
  - rewrite Nat.add_0_r. reflexivity.
  - rewrite (IH (S i0) k d d') by lia. f_equal. lia.
Qed.
Lemma map_idx_length : forall {A B} (f : nat -> A -> B) l i0, length (map_idx f i0 l) = length l.
Proof. induction l; intros; simpl; auto. Qed.

Lemma add_class_at : forall hh T k n p T' out, (k < length T)%nat -> add_class hh T k n p = (T', out) ->
  length T' = length T /\
  match add_class1 false (tabs_nth T k) n p with
  | Some tk => out = Done /\ tabs_nth T' k = tk
  | None => out = Raise TraitError /\ T' = T
  end.
Proof.
  intros hh T k n p T' out Hk H. unfold add_class in H.
  destruct (add_class1 false (tabs_nth T k) n p) as [tk|]; inversion H; subst; clear H.
  - split; [apply map_idx_length|]. split; auto. unfold tabs_nth.
    rewrite map_idx_nth with (d := (@nil (name * policy), @nil (name * policy))) by exact Hk.
    simpl. rewrite Nat.eqb_refl. reflexivity.
  - auto.
Qed.


(* ---- a sequence of add_class_trait calls on class k, then a history on a fresh instance ---- *)
Definition app_decl (hh : list classdef) (k : nat) (d : name * policy) : list classdef :=
  match nth_error hh k with
  | Some cd => C13.CorrT.upd hh k (mkClass (c_decls cd ++ [d]) (c_bases cd))
  | None => hh
  end.

Lemma upd_at : forall {A} (pre : list A) x y post, C13.CorrT.upd (pre ++ x :: post) (length pre) y = pre ++ y :: post.
Proof. induction pre as [|a r IH]; intros; simpl; [reflexivity|]. rewrite IH. reflexivity. Qed.
Lemma app_decl_at : forall pre cd post d,
  app_decl (pre ++ cd :: post) (length pre) d = pre ++ mkClass (c_decls cd ++ [d]) (c_bases cd) :: post.
Proof.
  intros. unfold app_decl. rewrite nth_error_app2 by lia. rewrite Nat.sub_diag. simpl. apply upd_at.
Qed.

(* the class operations: the model's tables and the hierarchy the law computes its rule from *)
Fixpoint class_phase (hh0 : list classdef) (k : nat) (T : list (ctab * ptab)) (H : list classdef)
                     (adds : list (name * policy)) : list (ctab * ptab) * list classdef :=
  match adds with
  | [] => (T, H)
  | (n, p) :: r =>
      let '(T', out) := add_class hh0 T k n p in
      class_phase hh0 k T' (match out with Done => app_decl H k (n, p) | _ => H end) r
  end.

Definition plain_t (t : ctab * ptab) : bool := plain_tab (fst t) && plain_tab (snd t).

Lemma plain_sort_len : forall l, plain_tab l = true -> plain_tab (sort_len l) = true.
Proof.
  intros l H. apply plain_tab_In. intros k p Hi. apply (proj1 (sort_len_In _ _)) in Hi.
  apply (proj1 (plain_tab_In l) H _ _ Hi).
Qed.
Lemma plain_app1 : forall l e, plain_tab l = true -> plainp (snd e) = true -> plain_tab (l ++ [e]) = true.
Proof. intros l e H He. unfold plain_tab. rewrite forallb_app. simpl. rewrite He. unfold plain_tab in H. rewrite H. reflexivity. Qed.

Lemma plain_add_class1 : forall b t n p t', plain_t t = true -> plainp p = true ->
  add_class1 b t n p = Some t' -> plain_t t' = true.
Proof.
  intros b [ct pt] n p t' Ht Hp H. unfold plain_t in *. cbn [fst snd] in *.
  apply andb_true_iff in Ht. destruct Ht as [H1 H2]. unfold add_class1 in H.
  destruct (ends_us n).
  - destruct (amem (removelast n) pt); [destruct b; inversion H; subst; simpl; rewrite H1, H2; reflexivity|].
    inversion H; subst. cbn [fst snd]. rewrite H1. simpl. apply plain_sort_len. apply plain_app1; auto.
  - destruct (amem n ct); [destruct b; inversion H; subst; simpl; rewrite H1, H2; reflexivity|].
    inversion H; subst. cbn [fst snd]. rewrite H2, plain_aset; auto.
Qed.

Lemma class_phase_inv : forall hh0 pre post adds T cd,
  (length pre < length T)%nat ->
  Agr (tabs_nth T (length pre)) (vis_nth (visible (pre ++ cd :: post)) (length pre)) ->
  plain_t (tabs_nth T (length pre)) = true ->
  forallb (fun e => plainp (snd e)) adds = true ->
  exists cd', snd (class_phase hh0 (length pre) T (pre ++ cd :: post) adds) = pre ++ cd' :: post /\
    c_bases cd' = c_bases cd /\
    Agr (tabs_nth (fst (class_phase hh0 (length pre) T (pre ++ cd :: post) adds)) (length pre))
        (vis_nth (visible (pre ++ cd' :: post)) (length pre)) /\
    plain_t (tabs_nth (fst (class_phase hh0 (length pre) T (pre ++ cd :: post) adds)) (length pre)) = true.
Proof.
  intros hh0 pre post. induction adds as [|[n p] r IH]; intros T cd Hk HA HP Hf.
  - exists cd. simpl. auto.
  - simpl in Hf. apply andb_true_iff in Hf. destruct Hf as [Hp Hr]. cbn [class_phase].
    destruct (add_class hh0 T (length pre) n p) as [T' out] eqn:E.
    destruct (add_class_at hh0 T (length pre) n p T' out Hk E) as [HL Hc].
    destruct (add_class1 false (tabs_nth T (length pre)) n p) as [tk|] eqn:E1.
    + destruct Hc as [-> Htk]. rewrite app_decl_at.
      set (cd1 := mkClass (c_decls cd ++ [(n, p)]) (c_bases cd)).
      destruct (IH T' cd1) as (cd' & A & B & C & D); auto; try lia.
      * rewrite Htk, visible_at. rewrite visible_at in HA. apply (Agr_add _ cd _ n p tk Hp HA E1).
      * rewrite Htk. apply (plain_add_class1 false _ n p tk HP Hp E1).
      * exists cd'. auto.
    + destruct Hc as [-> ->]. apply IH; auto.
Qed.

Lemma tables_length : forall hh, length (tables hh) = length hh.
Proof. intro hh. unfold tables. rewrite tables_from_length. reflexivity. Qed.

(* (2a) any class of any hierarchy (its ancestors may be anything, multiple inheritance included):
   any sequence of add_class_trait calls on that class, accepted or rejected, explicit names and
   wildcards in any order; then every clean history on a fresh instance satisfies the law whose
   class-level rule is computed from the hierarchy WITH the accepted run-time declarations. *)
Lemma class_ops_then_history : forall pre cd post adds ops i,
  let hh := pre ++ cd :: post in
  let k := length pre in
  plain_t (tabs_nth (tables hh) k) = true ->
  forallb (fun e => plainp (snd e)) adds = true ->
  let ph := class_phase hh k (tables hh) hh adds in
  let t := tabs_nth (fst ph) k in
  clean_run (snd t) (init_state (fst t)) ops = true ->
  law_hist (class_rule (vis_nth (visible (snd ph)) k)) i l_init (run (snd t) (init_state (fst t)) ops) = [].
Proof.
  intros pre cd post adds ops i hh k HP Hf ph t Hc. subst t ph k hh.
  assert (Hk : (length pre < length (tables (pre ++ cd :: post)))%nat)
    by (rewrite tables_length, app_length; simpl; lia).
  destruct (class_phase_inv (pre ++ cd :: post) pre post adds (tables (pre ++ cd :: post)) cd Hk
              (Agr_built pre cd post) HP Hf) as (cd' & E & _ & (A & B & S) & Pl).
  rewrite E. unfold plain_t in Pl. apply andb_true_iff in Pl. destruct Pl as [P1 P2].
  rewrite <- (law_hist_ext (model_rule _ _) _ (fun m => agree_rule _ _ m A B S)).
  apply run_law; auto.
Qed.

(* ---- the same in terms of the runs the checker evaluates (CorrT.step_t) ---- *)
Fixpoint law_hist_ta (objs : list nat) (H : list classdef) (i : Z) (lss : list lstate)
                     (hist : list (C13.CorrT.top * obs)) : list Z :=
  match hist with
  | [] => []
  | (C13.CorrT.TObj j o, ob) :: r =>
      let me := nth j lss l_init in
      let rl := class_rule (vis_nth (visible H) (nth j objs O)) in
      map (fun c => 100 * i + c) (law_step rl me o ob)
      ++ law_hist_ta objs H (i + 1) (C13.CorrT.upd lss j (law_next rl me o ob)) r
  | (C13.CorrT.TClass k n p, ob) :: r =>
      law_hist_ta objs (match o_out ob with Done => app_decl H k (n, p) | _ => H end) (i + 1) lss r
  end.

(* the class operations of a run: no law codes, the tables and the hierarchy of [class_phase] *)
Lemma run_t_class_phase : forall hh0 k adds T H insts rest i lss,
  law_hist_ta [k] H i lss (run_t hh0 [k] (T, insts) (map (fun e => C13.CorrT.TClass k (fst e) (snd e)) adds ++ rest)) =
  law_hist_ta [k] (snd (class_phase hh0 k T H adds)) (i + Z.of_nat (length adds)) lss
              (run_t hh0 [k] (fst (class_phase hh0 k T H adds), insts) rest).
Proof.
  intros hh0 k. induction adds as [|[n p] r IH]; intros T H insts rest i lss.
  - simpl. rewrite Z.add_0_r. reflexivity.
  - cbn [map app run_t class_phase fst snd]. unfold C13.CorrT.step_t at 1.
    destruct (add_class hh0 T k n p) as [T' out] eqn:E. cbn [law_hist_ta o_out].
    rewrite IH. replace (i + 1 + Z.of_nat (length r)) with (i + Z.of_nat (length ((n, p) :: r)))
      by (simpl length; lia). reflexivity.
Qed.

Lemma set_ctab_length : forall T k c, (k < length T)%nat -> length (set_ctab T k c) = length T.
Proof.
  unfold set_ctab. induction T as [|[c0 p0] r IH]; intros k c H; simpl in H; [lia|].
  destruct k; simpl; auto. rewrite IH by lia. reflexivity.
Qed.

(* the object operations of a run on the single instance: Model.run on the tables of its class *)
Lemma run_t_object : forall hh0 H k ops T itd od i ls, (k < length T)%nat ->
  law_hist_ta [k] H i [ls] (run_t hh0 [k] (T, [(itd, od)]) (map (C13.CorrT.TObj 0) ops)) =
  law_hist (class_rule (vis_nth (visible H) k)) i ls
           (run (snd (tabs_nth T k)) (mkState (fst (tabs_nth T k)) itd od) ops).
Proof.
  intros hh0 H k. induction ops as [|o r IH]; intros T itd od i ls Hk; [reflexivity|].
  cbn [map run_t run]. unfold C13.CorrT.step_t. cbn [nth fst snd].
  destruct (step (snd (tabs_nth T k)) (mkState (fst (tabs_nth T k)) itd od) o) as [s' ob] eqn:E.
  cbn [law_hist_ta law_hist nth C13.CorrT.upd fst snd].
  rewrite (IH (set_ctab T k (s_ctd s')) (s_itd s') (s_od s')) by (rewrite set_ctab_length; auto).
  rewrite (set_ctab_nth T k (s_ctd s') Hk). cbn [fst snd]. destruct s'; reflexivity.
Qed.

(* (2a) for the runs of CorrT: add_class_trait calls on the class of the object, then its history *)
Lemma class_ops_run : forall pre cd post adds ops i,
  let hh := pre ++ cd :: post in
  let k := length pre in
  plain_t (tabs_nth (tables hh) k) = true ->
  forallb (fun e => plainp (snd e)) adds = true ->
  let t := tabs_nth (fst (class_phase hh k (tables hh) hh adds)) k in
  clean_run (snd t) (init_state (fst t)) ops = true ->
  law_hist_ta [k] hh i [l_init]
    (run_t hh [k] (tables hh, [([], [])])
           (map (fun e => C13.CorrT.TClass k (fst e) (snd e)) adds ++ map (C13.CorrT.TObj 0) ops)) = [].
Proof.
  intros pre cd post adds ops i hh k HP Hf t Hc.
  rewrite run_t_class_phase.
  assert (Hk : (k < length (fst (class_phase hh k (tables hh) hh adds)))%nat).
  { subst k hh.
    assert (L : forall adds T H, length (fst (class_phase (pre ++ cd :: post) (length pre) T H adds)) = length T).
    { induction adds0 as [|[n p] r IH]; intros T H; [reflexivity|]. cbn [class_phase].
      destruct (add_class (pre ++ cd :: post) T (length pre) n p) as [T' out] eqn:E. rewrite IH.
      unfold add_class in E. destruct (add_class1 false (tabs_nth T (length pre)) n p); inversion E; subst; auto.
      apply map_idx_length. }
    rewrite L, tables_length, app_length. simpl. lia. }
  rewrite (run_t_object hh _ k ops _ [] [] _ l_init Hk).
  apply (class_ops_then_history pre cd post adds ops); auto.
Qed.

(* the checker's bookkeeping of run-time declarations (CorrT.add_decl on the user classes) is
   [app_decl] on the whole hierarchy *)
Lemma app_decl_roots : forall h k n p, (3 <= k)%nat ->
  app_decl (roots ++ h) k (n, p) = roots ++ C13.CorrT.add_decl h k n p.
Proof.
  intros h k n p Hk. destruct k as [|[|[|j]]]; try lia. unfold app_decl, C13.CorrT.add_decl, roots.
  cbn [app nth_error length Nat.sub Nat.leb]. rewrite ?Nat.sub_0_r. destruct (nth_error h j); [|reflexivity].
  cbn [C13.CorrT.upd app]. reflexivity.
Qed.

(* the two listed findings: with a name touched (hence cached) before the matching add_class_trait
   the law fails on the model too *)
Definition n_cax : name := [99; 97; 120].
Definition n_zz : name := [122; 122].
Lemma cached_wildcard_refutes :
  let hh := roots ++ [mkClass [] [0%nat]] in
  law_hist_ta [3%nat] hh 0 [l_init]
    (run_t hh [3%nat] (tables hh, [([], [])])
       [C13.CorrT.TObj 0 (OGet n_cax); C13.CorrT.TClass 3 [99; 95] (PTyped VInt 7); C13.CorrT.TObj 0 (OGet n_cax)]) <> [].
Proof. vm_compute. discriminate. Qed.
Lemma cached_class_trait_refutes :
  let hh := roots ++ [mkClass [] [0%nat]; mkClass [] [3%nat]] in
  law_hist_ta [4%nat] hh 0 [l_init]
    (run_t hh [4%nat] (tables hh, [([], [])])
       [C13.CorrT.TObj 0 (OGet n_zz); C13.CorrT.TClass 3 n_zz (PTyped VStr 102); C13.CorrT.TObj 0 (OGet n_zz)]) <> [].
Proof. vm_compute. discriminate. Qed.

(* ================================================================== *)
(* (2b) add_class_trait on the object's own class INTERLEAVED with its operations *)

Lemma best_app_nomatch : forall m l e, is_prefix (fst e) m = false -> best m (l ++ [e]) = best m l.
Proof.
  intros m l [q p] H. simpl in H. induction l as [|[k v] r IH]; simpl.
  - rewrite H. reflexivity.
  - rewrite IH. reflexivity.
Qed.

(* a name the new wildcard cannot change the rule of: declared, __x__, or not matched *)
Definition wcond (ct0 : ctab) (q m : name) : bool := amem m ct0 || dunder m || negb (is_prefix q m).

Lemma model_rule_add_wild : forall ct0 pt q p m, StronglySorted len_ge pt -> wcond ct0 q m = true ->
  model_rule ct0 (sort_len (pt ++ [(q, p)])) m = model_rule ct0 pt m.
Proof.
  intros ct0 pt q p m S H. unfold model_rule, wcond, amem in *.
  destruct (assoc m ct0); auto. destruct (dunder m); auto. simpl in H. apply negb_true_iff in H.
  pose proof (first_match_best m (sort_len (pt ++ [(q, p)])) (pt ++ [(q, p)]) (sort_len_sorted _)
                (fun k => assoc_sort_len _ k)) as E1.
  pose proof (first_match_best m pt pt S (fun k => eq_refl)) as E2.
  rewrite (best_app_nomatch m pt (q, p) H) in E1. unfold wild in E1, E2.
  destruct (first_match m (sort_len (pt ++ [(q, p)]))) as [[? ?]|]; destruct (first_match m pt) as [[? ?]|];
    destruct (best m pt) as [[? ?]|]; congruence.
Qed.

Section Own.
  Variable ct0 : ctab.
  Variable pt : ptab.

  Lemma Inv_add_explicit : forall s ls n p, Inv ct0 pt s ls -> assoc n (s_ctd s) = None -> plainp p = true ->
    amem n (s_itd s) || storing (RPol p) || negb (amem n (s_od s)) = true ->
    Inv (aset n p ct0) pt (mkState (aset n p (s_ctd s)) (s_itd s) (s_od s)) ls.
  Proof.
    intros s ls n p HI Hn Hp Hs. destruct (inv_plain4 _ _ _ _ HI) as (P1 & P2 & P3 & P4).
    assert (MR : forall m, name_eqb n m = false -> model_rule (aset n p ct0) pt m = model_rule ct0 pt m)
      by (intros m E; unfold model_rule; rewrite assoc_aset, E; reflexivity).
    constructor; simpl.
    - apply (inv_itd _ _ _ _ HI).
    - apply (inv_od _ _ _ _ HI).
    - intros m x. rewrite !assoc_aset. destruct (name_eqb n m); auto. apply (inv_c1 _ _ _ _ HI).
    - intros m x. rewrite assoc_aset. destruct (name_eqb n m) eqn:E.
      + apply name_eqb_eq in E. subst m. intro Hx. inversion Hx; subst. left.
        unfold model_rule. rewrite assoc_aset, name_eqb_refl. reflexivity.
      + intro Hx. rewrite (MR m E). apply (inv_c2 _ _ _ _ HI _ _ Hx).
    - intros m v Hm. unfold gov. simpl. destruct (assoc m (s_itd s)) as [x|] eqn:Ei.
      + pose proof (inv_st _ _ _ _ HI _ _ Hm) as H. unfold gov in H. rewrite Ei in H. exact H.
      + destruct (name_eqb n m) eqn:E.
        * apply name_eqb_eq in E. subst m. unfold amem in Hs. rewrite Ei, Hm in Hs. simpl in Hs.
          rewrite orb_false_r in Hs. unfold model_rule. rewrite assoc_aset, name_eqb_refl. exact Hs.
        * rewrite (MR m E). pose proof (inv_st _ _ _ _ HI _ _ Hm) as H. unfold gov in H. rewrite Ei in H. exact H.
    - apply plain4; auto; apply plain_aset; auto.
  Qed.

  Lemma Inv_add_wild : forall s ls q p, Inv ct0 pt s ls -> StronglySorted len_ge pt -> plainp p = true ->
    forallb (fun e => wcond ct0 q (fst e)) (s_ctd s) = true ->
    forallb (fun e => amem (fst e) (s_itd s) || wcond ct0 q (fst e)) (s_od s) = true ->
    Inv ct0 (sort_len (pt ++ [(q, p)])) s ls.
  Proof.
    intros s ls q p HI S Hp Hc Ho. destruct (inv_plain4 _ _ _ _ HI) as (P1 & P2 & P3 & P4).
    rewrite forallb_forall in Hc, Ho.
    constructor.
    - apply (inv_itd _ _ _ _ HI).
    - apply (inv_od _ _ _ _ HI).
    - apply (inv_c1 _ _ _ _ HI).
    - intros m x Hx. rewrite (model_rule_add_wild ct0 pt q p m S (Hc _ (assoc_In _ _ _ Hx))).
      apply (inv_c2 _ _ _ _ HI _ _ Hx).
    - intros m v Hm. pose proof (inv_st _ _ _ _ HI _ _ Hm) as H. unfold gov in *.
      destruct (assoc m (s_itd s)) as [x|] eqn:Ei; auto.
      pose proof (Ho _ (assoc_In _ _ _ Hm)) as Hw. unfold amem in Hw. simpl in Hw. rewrite Ei in Hw. simpl in Hw.
      rewrite (model_rule_add_wild ct0 pt q p m S Hw). exact H.
    - apply plain4; auto. apply plain_sort_len. apply plain_app1; auto.
  Qed.
End Own.

Inductive oop := OObj (o : op) | OCls (n : name) (p : policy).

(* the object and (the prefix list of) its class; the class dictionary is s_ctd of the object *)
Definition ostep (sp : state * ptab) (x : oop) : (state * ptab) * obs :=
  match x with
  | OObj o => let '(s', ob) := step (snd sp) (fst sp) o in ((s', snd sp), ob)
  | OCls n p =>
      match add_class1 false (s_ctd (fst sp), snd sp) n p with
      | Some t' => ((mkState (fst t') (s_itd (fst sp)) (s_od (fst sp)), snd t'), mkObs Done None None None)
      | None => (sp, mkObs (Raise TraitError) None None None)
      end
  end.
Fixpoint orun (sp : state * ptab) (xs : list oop) : list (oop * obs) :=
  match xs with
  | [] => []
  | x :: r => let '(sp', ob) := ostep sp x in (x, ob) :: orun sp' r
  end.

Fixpoint law_hist_o (k : nat) (H : list classdef) (i : Z) (ls : lstate) (hist : list (oop * obs)) : list Z :=
  match hist with
  | [] => []
  | (OObj o, ob) :: r =>
      let rl := class_rule (vis_nth (visible H) k) in
      map (fun c => 100 * i + c) (law_step rl ls o ob) ++ law_hist_o k H (i + 1) (law_next rl ls o ob) r
  | (OCls n p, ob) :: r =>
      law_hist_o k (match o_out ob with Done => app_decl H k (n, p) | _ => H end) (i + 1) ls r
  end.

(* excluded: finding 1; Map/List traits; and the cached-name finding — a wildcard accepted at run
   time must not match a name that is already resolved (cached in the class dictionary) or stored,
   unless that name is declared, an instance trait governs it, or it is a __x__ name; an explicit
   name accepted at run time must not have a value stored under it already unless its trait stores *)
Definition oclean (k : nat) (sp : state * ptab) (H : list classdef) (x : oop) : bool :=
  let D := fst (vis_nth (visible H) k) in
  let s := fst sp in
  match x with
  | OObj o => clean_step s o
  | OCls n p =>
      plainp p &&
      if ends_us n then
        amem (removelast n) (snd sp) ||
        (forallb (fun e => wcond D (removelast n) (fst e)) (s_ctd s) &&
         forallb (fun e => amem (fst e) (s_itd s) || wcond D (removelast n) (fst e)) (s_od s))
      else
        amem n (s_ctd s) || (amem n (s_itd s) || storing (RPol p) || negb (amem n (s_od s)))
  end.
Fixpoint oclean_run (k : nat) (sp : state * ptab) (H : list classdef) (xs : list oop) : bool :=
  match xs with
  | [] => true
  | x :: r => oclean k sp H x &&
              oclean_run k (fst (ostep sp x))
                (match x, o_out (snd (ostep sp x)) with OCls n p, Done => app_decl H k (n, p) | _, _ => H end) r
  end.

Lemma wcond_ext : forall a b q m, tab_eq a b -> wcond a q m = wcond b q m.
Proof. intros a b q m E. unfold wcond, amem. rewrite (E m). reflexivity. Qed.

Section OwnRun.
  Variable pre post : list classdef.
  Notation k := (length pre).

  Definition J (sp : state * ptab) (ls : lstate) (H : list classdef) : Prop :=
    exists ct0 cd, H = pre ++ cd :: post /\
      Agr (ct0, snd sp) (vis_nth (visible H) k) /\ Inv ct0 (snd sp) (fst sp) ls.

  Lemma ostep_ok : forall sp ls H x i, J sp ls H -> oclean k sp H x = true ->
    law_hist_o k H i ls [(x, snd (ostep sp x))] = [] /\
    J (fst (ostep sp x))
      (match x with OObj o => law_next (class_rule (vis_nth (visible H) k)) ls o (snd (ostep sp x)) | OCls _ _ => ls end)
      (match x, o_out (snd (ostep sp x)) with OCls n p, Done => app_decl H k (n, p) | _, _ => H end).
  Proof.
    intros [s pt] ls H x i (ct0 & cd & EH & HA & HI) Hc. cbn [fst snd] in *.
    pose proof HA as (A & B & S). cbn [fst snd] in A, B, S.
    assert (RL : forall m, model_rule ct0 pt m = class_rule (vis_nth (visible H) k) m)
      by (intro m; apply (agree_rule (ct0, pt) _ m A B S)).
    destruct x as [o|n p].
    - (* an operation of the object *)
      simpl in Hc. destruct (step_ok ct0 pt s ls o HI Hc) as [Hl Hn].
      cbn [ostep fst snd]. destruct (step pt s o) as [s' ob] eqn:E. cbn [fst snd law_hist_o] in *.
      rewrite <- (law_step_ext _ _ RL), <- (law_next_ext _ _ RL), Hl. split; [reflexivity|].
      exists ct0, cd. auto.
    - (* add_class_trait on the class *)
      cbn [law_hist_o]. split; [reflexivity|].
      unfold oclean in Hc. cbn [fst snd] in Hc. apply andb_true_iff in Hc. destruct Hc as [Hp Hc].
      cbn [ostep fst snd]. unfold add_class1.
      destruct (ends_us n) eqn:Eu.
      + destruct (amem (removelast n) pt) eqn:Em.
        * cbn. exists ct0, cd. auto.
        * cbn [fst snd o_out]. simpl in Hc. apply andb_true_iff in Hc. destruct Hc as [Hc1 Hc2].
          rewrite EH, app_decl_at. eexists ct0, _. split; [reflexivity|]. split.
          -- rewrite visible_at. rewrite EH, visible_at in HA.
             apply (Agr_add _ cd (ct0, pt) n p _ Hp HA). unfold add_class1. rewrite Eu, Em. reflexivity.
          -- cbn [fst snd]. replace (mkState (s_ctd s) (s_itd s) (s_od s)) with s by (destruct s; reflexivity).
             apply (Inv_add_wild ct0 pt s ls (removelast n) p HI S Hp).
             ++ rewrite forallb_forall in Hc1. apply forallb_forall. intros e He.
                rewrite (wcond_ext _ _ _ _ A). apply Hc1. exact He.
             ++ rewrite forallb_forall in Hc2. apply forallb_forall. intros e He.
                rewrite (wcond_ext _ _ _ _ A). apply Hc2. exact He.
      + destruct (amem n (s_ctd s)) eqn:Em.
        * cbn. exists ct0, cd. auto.
        * cbn [fst snd o_out]. simpl in Hc.
          assert (Hn0 : assoc n (s_ctd s) = None) by (unfold amem in Em; destruct (assoc n (s_ctd s)); [discriminate|reflexivity]).
          assert (Hn1 : amem n ct0 = false).
          { unfold amem. destruct (assoc n ct0) eqn:E0; auto. rewrite (inv_c1 _ _ _ _ HI _ _ E0) in Hn0. discriminate. }
          rewrite EH, app_decl_at. eexists (aset n p ct0), _. split; [reflexivity|]. split.
          -- rewrite visible_at. rewrite EH, visible_at in HA.
             apply (Agr_add _ cd (ct0, pt) n p _ Hp HA). unfold add_class1. rewrite Eu, Hn1. reflexivity.
          -- cbn [fst snd]. apply (Inv_add_explicit ct0 pt s ls n p HI Hn0 Hp Hc).
  Qed.

  Lemma orun_law : forall xs sp ls H i, J sp ls H -> oclean_run k sp H xs = true ->
    law_hist_o k H i ls (orun sp xs) = [].
  Proof.
    induction xs as [|x r IH]; intros sp ls H i HJ Hc; [reflexivity|].
    cbn [oclean_run] in Hc. apply andb_true_iff in Hc. destruct Hc as [H1 H2].
    destruct (ostep_ok sp ls H x i HJ H1) as [A B].
    cbn [orun]. remember (ostep sp x) as res eqn:E in *. destruct res as [sp' ob]. cbn [fst snd] in *.
    destruct x as [o|n p]; cbn [law_hist_o] in *.
    - rewrite app_nil_r in A. rewrite A. cbn [app]. apply IH; [exact B|exact H2].
    - try rewrite <- E in B. try rewrite <- E in H2. cbn [fst snd] in B, H2. apply IH; [exact B|exact H2].
  Qed.
End OwnRun.

(* (2b) add_class_trait calls on the object's own class interleaved with its operations in any
   order and number *)
Lemma interleaved_class_ops : forall pre cd post xs i,
  let hh := pre ++ cd :: post in
  let k := length pre in
  let t := tabs_nth (tables hh) k in
  plain_t t = true ->
  oclean_run k (init_state (fst t), snd t) hh xs = true ->
  law_hist_o k hh i l_init (orun (init_state (fst t), snd t) xs) = [].
Proof.
  intros pre cd post xs i hh k t HP Hc. subst t k hh.
  apply (orun_law pre post xs _ _ _ i); auto.
  unfold plain_t in HP. apply andb_true_iff in HP. destruct HP as [P1 P2].
  exists (fst (tabs_nth (tables (pre ++ cd :: post)) (length pre))), cd. split; [reflexivity|]. split.
  - cbn [snd]. rewrite <- surjective_pairing. apply Agr_built.
  - cbn [fst snd]. apply Inv_init; auto.
Qed.

(* (2b) for the runs the checker evaluates: CorrT.step_t on the tables of all classes *)
Definition top_of (k : nat) (x : oop) : C13.CorrT.top :=
  match x with OObj o => C13.CorrT.TObj 0 o | OCls n p => C13.CorrT.TClass k n p end.

Lemma run_t_orun : forall hh0 k xs T itd od H i ls, (k < length T)%nat ->
  law_hist_ta [k] H i [ls] (run_t hh0 [k] (T, [(itd, od)]) (map (top_of k) xs)) =
  law_hist_o k H i ls (orun (mkState (fst (tabs_nth T k)) itd od, snd (tabs_nth T k)) xs).
Proof.
  intros hh0 k. induction xs as [|x r IH]; intros T itd od H i ls Hk; [reflexivity|].
  destruct x as [o|n p]; cbn [map top_of run_t orun ostep fst snd].
  - unfold C13.CorrT.step_t. cbn [nth fst snd].
    destruct (step (snd (tabs_nth T k)) (mkState (fst (tabs_nth T k)) itd od) o) as [s' ob] eqn:E.
    cbn [law_hist_ta law_hist_o nth C13.CorrT.upd fst snd].
    rewrite (IH (set_ctab T k (s_ctd s')) (s_itd s') (s_od s')) by (rewrite set_ctab_length; auto).
    rewrite (set_ctab_nth T k (s_ctd s') Hk). cbn [fst snd]. destruct s'; reflexivity.
  - unfold C13.CorrT.step_t. destruct (add_class hh0 T k n p) as [T' out] eqn:E.
    destruct (add_class_at hh0 T k n p T' out Hk E) as [HL Hc].
    cbn [s_ctd s_itd s_od].
    replace (fst (tabs_nth T k), snd (tabs_nth T k)) with (tabs_nth T k) by (destruct (tabs_nth T k); reflexivity).
    destruct (add_class1 false (tabs_nth T k) n p) as [tk|] eqn:E1.
    + destruct Hc as [-> Htk]. cbn [law_hist_ta law_hist_o o_out fst snd].
      rewrite (IH T' itd od) by lia. rewrite Htk. reflexivity.
    + destruct Hc as [-> ->]. cbn [law_hist_ta law_hist_o o_out]. rewrite (IH T itd od) by lia. reflexivity.
Qed.

Lemma interleaved_class_ops_run : forall pre cd post xs i,
  let hh := pre ++ cd :: post in
  let k := length pre in
  let t := tabs_nth (tables hh) k in
  plain_t t = true ->
  oclean_run k (init_state (fst t), snd t) hh xs = true ->
  law_hist_ta [k] hh i [l_init] (run_t hh [k] (tables hh, [([], [])]) (map (top_of k) xs)) = [].
Proof.
  intros pre cd post xs i hh k t HP Hc.
  rewrite run_t_orun by (subst k hh; rewrite tables_length, app_length; simpl; lia).
  apply (interleaved_class_ops pre cd post xs i HP Hc).
Qed.

(* ================================================================== *)
(* subclasses: add_class_trait on a base class reaches the existing subclasses as an INHERITED
   declaration ("added if absent"), on single-inheritance paths *)

(* the dictionary l' is l with (n -> p) added if n is absent *)
Definition ExtD (l l' : list (name * policy)) (n : name) (p : policy) : Prop :=
  forall m, assoc m l' = match assoc m l with
                         | Some x => Some x
                         | None => if name_eqb n m then Some p else None
                         end.
Definition Ext (v v' : ctab * ptab) (n : name) (p : policy) : Prop :=
  if ends_us n then tab_eq (fst v) (fst v') /\ ExtD (snd v) (snd v') (removelast n) p
  else ExtD (fst v) (fst v') n p /\ tab_eq (snd v) (snd v').

(* _add_class_trait(is_subclass=True) on tables that agree with the declarative pair v gives tables
   that agree with v extended by the inherited declaration *)
Lemma Agr_add_sub : forall t v v' n p t', plainp p = true ->
  Agr t v -> Ext v v' n p -> add_class1 true t n p = Some t' -> Agr t' v'.
Proof.
  intros [ct pt] v v' n p t' Hp (A & B & S) HE H. cbn [fst snd] in *. unfold add_class1 in H. unfold Ext in HE.
  unfold Agr.
  destruct (ends_us n).
  - destruct HE as [E1 E2]. destruct (amem (removelast n) pt) eqn:Em; inversion H; subst t'; clear H; cbn [fst snd].
    + split; [intro m; rewrite (A m); apply E1|]. split; auto.
      intro m. rewrite (E2 m), <- (B m). unfold amem in Em. destruct (assoc m pt) eqn:Ea; auto.
      destruct (name_eqb (removelast n) m) eqn:E; auto;
        try (apply name_eqb_eq in E; subst m; rewrite Ea in Em; discriminate).
    + split; [intro m; rewrite (A m); apply E1|]. split; [|apply sort_len_sorted].
      intro m. rewrite assoc_sort_len, assoc_app, (E2 m), <- (B m). destruct (assoc m pt); auto;
        try (simpl; destruct (name_eqb (removelast n) m); reflexivity).
  - destruct HE as [E1 E2]. destruct (amem n ct) eqn:Em; inversion H; subst t'; clear H; cbn [fst snd].
    + split; [|split; auto; intro m; rewrite (B m); apply E2].
      intro m. rewrite (E1 m), <- (A m). unfold amem in Em. destruct (assoc m ct) eqn:Ea; auto.
      destruct (name_eqb n m) eqn:E; auto;
        try (apply name_eqb_eq in E; subst m; rewrite Ea in Em; discriminate).
    + split; [|split; auto; intro m; rewrite (B m); apply E2].
      intro m. rewrite assoc_aset, (E1 m), <- (A m). unfold amem in Em.
      destruct (name_eqb n m) eqn:E.
      * apply name_eqb_eq in E. subst m. destruct (assoc n ct); [discriminate|reflexivity].
      * destruct (assoc m ct); reflexivity.
Qed.

(* an accepted call on the class itself extends its declarative pair *)
Lemma Ext_own : forall V cd n p, plainp p = true ->
  (if ends_us n then amem (removelast n) (snd (vis_class V cd)) else amem n (fst (vis_class V cd))) = false ->
  Ext (vis_class V cd) (vis_class V (mkClass (c_decls cd ++ [(n, p)]) (c_bases cd))) n p.
Proof.
  intros V cd n p Hp Hab. unfold Ext, vis_class in *. cbn [c_decls c_bases fst snd] in *.
  rewrite own_tables_snoc. destruct (own_tables (c_decls cd)) as [O W]. cbn [fst snd] in *.
  assert (Hs : subs n p = []) by (destruct p; try discriminate Hp; reflexivity).
  unfold own_step. destruct (ends_us n).
  - cbn [fst snd]. split; [intro; reflexivity|].
    set (Bp := flat_map (fun b => snd (vis_nth V b)) (c_bases cd)) in *.
    intro m.
    transitivity (match assoc m (aset (removelast n) p W ++ Bp) with Some v => Some v | None => assoc m [([], PPython)] end);
      [exact (assoc_close (aset (removelast n) p W ++ Bp) m)|].
    change (if amem [] (W ++ Bp) then W ++ Bp else (W ++ Bp) ++ [([], PPython)]) with (close (W ++ Bp)) in *.
    rewrite assoc_close. unfold amem in Hab. rewrite assoc_close in Hab.
    rewrite assoc_aset_app. destruct (name_eqb (removelast n) m) eqn:E.
    + apply name_eqb_eq in E. subst m. destruct (assoc (removelast n) (W ++ Bp)); [discriminate|].
      destruct (assoc (removelast n) [([], PPython)]); [discriminate|]. reflexivity.
    + destruct (assoc m (W ++ Bp)); auto. destruct (assoc m [([], PPython)]); reflexivity.
  - rewrite Hs. cbn [fold_left fst snd]. split; [|intro; reflexivity].
    intro m. rewrite assoc_aset_app. unfold amem in Hab.
    destruct (name_eqb n m) eqn:E.
    + apply name_eqb_eq in E. subst m.
      destruct (assoc n (O ++ flat_map (fun b => fst (vis_nth V b)) (c_bases cd))); [discriminate|reflexivity].
    + destruct (assoc m (O ++ flat_map (fun b => fst (vis_nth V b)) (c_bases cd))); reflexivity.
Qed.

(* ... and the extension is inherited through the body of a class with that single base *)
Lemma Ext_inherit : forall V V' cd b n p, c_bases cd = [b] ->
  Ext (vis_nth V b) (vis_nth V' b) n p -> assoc [] (snd (vis_nth V b)) <> None ->
  Ext (vis_class V cd) (vis_class V' cd) n p.
Proof.
  intros V V' cd b n p Hb HE Hcl. unfold Ext, vis_class in *. rewrite Hb. cbn [flat_map]. rewrite !app_nil_r.
  destruct (own_tables (c_decls cd)) as [O W]. cbn [fst snd].
  destruct (ends_us n).
  - destruct HE as [E1 E2]. split; [intro m; rewrite !assoc_app, (E1 m); reflexivity|].
    intro m.
    transitivity (match assoc m (W ++ snd (vis_nth V' b)) with Some v => Some v | None => assoc m [([], PPython)] end);
      [exact (assoc_close (W ++ snd (vis_nth V' b)) m)|].
    assert (Cl : assoc m (if amem [] (W ++ snd (vis_nth V b)) then W ++ snd (vis_nth V b)
                          else (W ++ snd (vis_nth V b)) ++ [([], PPython)]) =
                 match assoc m (W ++ snd (vis_nth V b)) with Some v => Some v | None => assoc m [([], PPython)] end)
      by exact (assoc_close (W ++ snd (vis_nth V b)) m).
    rewrite Cl, !assoc_app, (E2 m). destruct (assoc m W); auto.
    destruct (assoc m (snd (vis_nth V b))) eqn:Eb; auto.
    destruct (name_eqb (removelast n) m) eqn:E; [|destruct (assoc m [([], PPython)]); reflexivity].
    (* the added wildcard: not "", because the base's list is closed *)
    apply name_eqb_eq in E. subst m. destruct (removelast n) as [|c r] eqn:Er; [contradiction|]. reflexivity.
  - destruct HE as [E1 E2]. split; [|].
    + intro m. rewrite !assoc_app, (E1 m). destruct (assoc m O); reflexivity.
    + intro m. unfold amem. rewrite !assoc_app, (E2 []).
      destruct (match assoc [] W with Some v => Some v | None => assoc [] (snd (vis_nth V' b)) end);
        rewrite ?assoc_app, (E2 m); reflexivity.
Qed.
