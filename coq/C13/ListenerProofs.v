(* C13 — a trait_added listener that declares traits lazily (seeded change C13-n2):
   direct statements about Model.step_l. *)
From Coq Require Import ZArith List Bool Lia.
From TV Require Import Common.Harness C13.Model C13.Law C13.Corr C13.Proofs.
From TV Require C13.CorrL.   (* so that the checker's listener evaluation is built with the proofs *)
Import ListNotations.
Open Scope Z_scope.

(* without a listener step_l is step: everything proved of step applies *)
Lemma step_l_nil : forall pt s o, step_l [] pt s o = step pt s o.
Proof. reflexivity. Qed.

(* names the listener does not cover, and names already known to the object or its class *)
Lemma step_l_not_covered : forall lst pt s o, listener lst (op_name o) = None -> step_l lst pt s o = step pt s o.
Proof. intros lst pt s o H. unfold step_l. rewrite H. reflexivity. Qed.
Lemma step_l_known : forall lst pt s o,
  amem (op_name o) (s_itd s) || amem (op_name o) (s_ctd s) = true -> step_l lst pt s o = step pt s o.
Proof. intros lst pt s o H. unfold step_l. destruct (listener lst (op_name o)); auto. rewrite H. reflexivity. Qed.

Section First.
  Variable lst : list (name * policy).
  Variable pt : ptab.
  Variable s : state.
  Variable n : name.
  Variable lp : policy.
  Hypothesis covered : listener lst n = Some lp.
  Hypothesis fresh_i : assoc n (s_itd s) = None.
  Hypothesis fresh_c : assoc n (s_ctd s) = None.

  (* the state in which the access continues: resolved trait cached, listener's trait installed *)
  Definition after_listener (s' : state) : state := mkState (s_ctd s') (aset n lp (s_itd s')) (s_od s').

  Lemma unknown : amem n (s_itd s) || amem n (s_ctd s) = false.
  Proof. unfold amem. rewrite fresh_i, fresh_c. reflexivity. Qed.

  (* first touch = assignment: it is the assignment under the listener's instance trait *)
  Lemma first_set : forall v p s', prefix_trait pt s n true = inl (p, s') ->
    step_l lst pt s (OSet n v) = setattr_m pt (after_listener s') n lp v.
  Proof.
    intros v p s' H. unfold step_l. cbn [op_name]. rewrite covered, unknown, H.
    simpl step. unfold lookup_set. cbn [s_itd after_listener]. rewrite assoc_aset, name_eqb_refl. reflexivity.
  Qed.
  Lemma first_del : forall p s', prefix_trait pt s n true = inl (p, s') ->
    step_l lst pt s (ODel n) = delattr (after_listener s') n lp.
  Proof.
    intros p s' H. unfold step_l. cbn [op_name]. rewrite covered, unknown, H.
    simpl step. unfold lookup_set. cbn [s_itd]. rewrite assoc_aset, name_eqb_refl. reflexivity.
  Qed.
  (* first touch = read (nothing stored): the read under the listener's instance trait *)
  Lemma first_get : forall p s', assoc n (s_od s) = None -> prefix_trait pt s n false = inl (p, s') ->
    s_od s' = s_od s ->
    step_l lst pt s (OGet n) = getattr_m pt (after_listener s') n lp.
  Proof.
    intros p s' Ho H Hod. unfold step_l. cbn [op_name]. unfold amem at 3. rewrite covered, unknown, Ho, H.
    assert (Ho' : assoc n (s_od s') = None) by (rewrite Hod; exact Ho).
    simpl step. unfold get_with. cbn [s_od s_itd]. rewrite Ho', assoc_aset, name_eqb_refl. reflexivity.
  Qed.

  Lemma prefix_trait_od : forall b p s', prefix_trait pt s n b = inl (p, s') -> s_od s' = s_od s.
  Proof.
    intros b p s'. unfold prefix_trait. destruct (dunder n).
    - destruct b; [|discriminate]. intro E. inversion E. reflexivity.
    - destruct (first_match n pt) as [[q p1]|]; [|discriminate]. intro E. inversion E. reflexivity.
  Qed.

  (* the demo of C13-n2, for every class, object state and undeclared name:
     an invalid first write is rejected by the Int / typed trait the listener installs *)
  Lemma first_write_invalid_rejected : forall k d v p s',
    lp = PTyped k d -> prefix_trait pt s n true = inl (p, s') -> v <> VUndef -> validate k v = None ->
    o_out (snd (step_l lst pt s (OSet n v))) = Raise TraitError /\
    assoc n (s_itd (fst (step_l lst pt s (OSet n v)))) = Some lp /\
    assoc n (s_od (fst (step_l lst pt s (OSet n v)))) = assoc n (s_od s).
  Proof.
    intros k d v p s' El H Hv Hk. rewrite (first_set v p s' H). unfold after_listener. rewrite El. cbn [setattr_m setattr].
    apply Z.eqb_neq in Hv. rewrite Hv, Hk. cbn. rewrite assoc_aset, name_eqb_refl.
    rewrite (prefix_trait_od _ _ _ H). auto.
  Qed.
  (* a Constant installed by the listener is not overwritten by the first write, and reads its value *)
  Lemma first_write_to_constant_rejected : forall c v p s',
    lp = PConstant c -> prefix_trait pt s n true = inl (p, s') ->
    o_out (snd (step_l lst pt s (OSet n v))) = Raise TraitError /\
    assoc n (s_od (fst (step_l lst pt s (OSet n v)))) = assoc n (s_od s).
  Proof.
    intros c v p s' El H. rewrite (first_set v p s' H). unfold after_listener. rewrite El. cbn.
    rewrite (prefix_trait_od _ _ _ H). auto.
  Qed.
  (* a first read yields the default / the constant of the listener's trait *)
  Lemma first_read_is_listener_default : forall p s', assoc n (s_od s) = None ->
    prefix_trait pt s n false = inl (p, s') ->
    (forall k d, lp = PTyped k d -> o_out (snd (step_l lst pt s (OGet n))) = Val d) /\
    (forall c, lp = PConstant c -> o_out (snd (step_l lst pt s (OGet n))) = Val c).
  Proof.
    intros p s' Ho H. rewrite (first_get p s' Ho H (prefix_trait_od _ _ _ H)).
    unfold after_listener. split; intros ? ? E || intros ? E; rewrite E; reflexivity.
  Qed.
End First.

Fixpoint run_l (lst : list (name * policy)) (pt : ptab) (s : state) (ops : list op) : list (op * obs) :=
  match ops with
  | [] => []
  | o :: r => let '(s', ob) := step_l lst pt s o in (o, ob) :: run_l lst pt s' r
  end.

(* without a listener the law for listener classes adopts nothing *)
Lemma adopt_nil : forall ls n k b, C13.CorrL.adopt [] ls n k b = ls.
Proof. reflexivity. Qed.
