(* C13 — correspondence and law for histories with add_class_trait (seeded change C13-t2).
   One case = user classes (all created first), the class of every object (fresh instances created
   before the history), and the history of object operations (object number, op) and class
   operations add_class_trait(class k, name, trait). *)
From Coq Require Import ZArith List Bool.
From TV Require Import Common.Harness C13.Model C13.Law C13.Corr.
Import ListNotations.
Open Scope Z_scope.

Inductive top := TObj (i : nat) (o : op) | TClass (k : nat) (n : name) (p : policy).
Definition case := (list classdef * list nat * list (top * obs))%type.

Fixpoint upd {A} (l : list A) (i : nat) (x : A) : list A :=
  match l, i with
  | [], _ => []
  | _ :: r, O => x :: r
  | y :: r, S j => y :: upd r j x
  end.

Definition tstate := (list (ctab * ptab) * list inst)%type.

Definition step_t (h : list classdef) (objs : list nat) (s : tstate) (t : top) : tstate * obs :=
  let '(T, insts) := s in
  match t with
  | TObj i o =>
      let k := nth i objs O in
      let me := nth i insts ([], []) in
      let '(s', ob) := step (snd (tabs_nth T k)) (mkState (fst (tabs_nth T k)) (fst me) (snd me)) o in
      ((set_ctab T k (s_ctd s'), upd insts i (s_itd s', s_od s')), ob)
  | TClass k n p =>
      let '(T', out) := add_class h T k n p in
      ((T', insts), mkObs out None None None)
  end.

Fixpoint corr_hist_t (h : list classdef) (objs : list nat) (i : Z) (s : tstate) (hist : list (top * obs)) : list Z :=
  match hist with
  | [] => []
  | (t, ob) :: r =>
      let '(s', m) := step_t h objs s t in
      map (fun c => 100 * i + c) (obs_diff m ob) ++ corr_hist_t h objs (i + 1) s' r
  end.

Definition corr_codes (c : case) : list Z :=
  let '(h, objs, hist) := c in
  corr_hist_t (roots ++ h) objs 0 (tables (roots ++ h), map (fun _ => ([], [])) objs) hist.

(* The law: a declaration added to class k at run time is a declaration of class k from then on —
   the class-level rule ("class trait of that name, own or inherited, else the wildcard with the
   LONGEST matching prefix") is computed from the hierarchy with that declaration appended to the
   body of class k.  The outcome of add_class_trait itself is not judged; a successful one counts. *)
Definition add_decl (h : list classdef) (k : nat) (n : name) (p : policy) : list classdef :=
  (* k is absolute (roots first); only user classes are ever extended *)
  let j := (k - length roots)%nat in
  match nth_error h j with
  | Some cd => if Nat.leb (length roots) k then upd h j (mkClass (c_decls cd ++ [(n, p)]) (c_bases cd)) else h
  | None => h
  end.

Fixpoint law_tag_t (objs : list nat) (h : list classdef) (i : Z) (lss : list lstate) (hist : list (top * obs)) : list Z :=
  match hist with
  | [] => []
  | (TObj j o, ob) :: r =>
      let k := nth j objs O in
      let me := nth j lss l_init in
      let mr := mro_rule h k in
      let sr := spec_rule h k in
      (match law_step mr me o ob with
       | [] => []
       | codes => if rule_eqb (mr (op_name o)) (sr (op_name o))
                  then map (fun c => 100 * i + c) codes else [100 * i + 99]
       end) ++ law_tag_t objs h (i + 1) (upd lss j (law_next mr me o ob)) r
  | (TClass k n p, ob) :: r =>
      law_tag_t objs (match o_out ob with Done => add_decl h k n p | _ => h end) (i + 1) lss r
  end.

Definition law_codes (c : case) : list Z :=
  let '(h, objs, hist) := c in
  law_tag_t objs h 0 (map (fun _ => l_init) objs) hist.
