(* C13 — property theorems (continued: class operations on any classes and objects, Map / List lives); same conventions as Props.v. *)
From Coq Require Import ZArith List Bool Lia.
From TV Require Import Common.Harness C13.Model C13.Law C13.Corr C13.Proofs C13.MapProofs C13.ListenerProofs C13.ClassOpProofs C13.ListenerInd C13.ClassOpInd C13.ClassOpSub C13.MapInterleave C13.ClassOpDag C13.ClassOpSubRun C13.ClassOpGlobal C13.ClassOpChain C13.ListLife C13.ListenerInd2 C13.ClassOpTie.
Import ListNotations.
Open Scope Z_scope.


(* the model side: the recursion over __subclasses__ visits every such descendant *)
Theorem add_class_trait_visits_every_descendant :
  forall hh0 hh k n,
    (forall i, i <> k -> c_bases (nth i hh dcls) = c_bases (nth i hh0 dcls)) ->
    forall j, Reach hh k n j -> j <> k -> forall f, (j - k <= f)%nat -> is_desc hh0 f j k = true.
Proof. exact desc_reach. Qed.
Print Assumptions add_class_trait_visits_every_descendant.

(* the name condition is necessary for the base-order reading (and the MRO reading sides with the
   implementation on the witness) *)
Theorem diamond_with_name_on_another_route_refuted :
  exists hh k j adds ops,
    (k < j)%nat /\ (j < length hh)%nat /\
    plain_t (tabs_nth (tables hh) k) = true /\ plain_t (tabs_nth (tables hh) j) = true /\
    forallb (fun e => plainp (snd e)) adds = true /\
    let ph := class_phase hh k (tables hh) hh adds in
    let t := tabs_nth (fst ph) j in
    clean_run (snd t) (init_state (fst t)) ops = true /\
    law_hist (class_rule (vis_nth (visible (snd ph)) j)) 0 l_init (run (snd t) (init_state (fst t)) ops) <> [] /\
    law_hist (mro_rule (skipn 3 (snd ph)) j) 0 l_init (run (snd t) (init_state (fst t)) ops) = [].
Proof. exact dag_condition_needed. Qed.
Print Assumptions diamond_with_name_on_another_route_refuted.

(* Non-vacuity: Base(HasStrictTraits) declares tr_ = ReadOnly; L(Base); R(Base) declares z = Any(5);
   M(HasTraits) declares m = Any(9); D(L, M, R) declares z = Any(6).  On Base at run time: t_ = Int
   (accepted, new to D), tr_ = Disallow (rejected), tq = Constant(3) (accepted, new to D), z = Event
   (accepted on Base; D defines z itself).  On a D instance: trx write-once, tc an Int, tq the
   constant, z D's own, m from the mixin, w rejected. *)
Example multiple_inheritance_runtime_declarations_nontrivial :
  let hh := roots ++ [mkClass [([116; 114; 95], PReadOnly VUndef)] [1%nat]; mkClass [] [3%nat];
                      mkClass [([122], PAny 5)] [3%nat]; mkClass [([109], PAny 9)] [0%nat];
                      mkClass [([122], PAny 6)] [4%nat; 6%nat; 5%nat]] in
  let adds := [([116; 95], PTyped VInt 7); ([116; 114; 95], PDisallow); ([116; 113], PConstant 3); ([122], PEvent None)] in
  let ph := class_phase hh 3 (tables hh) hh adds in
  let t := tabs_nth (fst ph) 7 in
  let ops := [OSet [116; 114; 120] 101; OSet [116; 114; 120] 102; OGet [116; 114; 120]; OGet [116; 99]; OSet [116; 99] 101;
              OGet [116; 113]; OGet [122]; OGet [109]; OGet [119]] in
  phase_ok hh 3 7 (tables hh) hh adds /\
  plain_t (tabs_nth (tables hh) 3) = true /\ plain_t (tabs_nth (tables hh) 7) = true /\
  clean_run (snd t) (init_state (fst t)) ops = true /\
  map (fun e => length (c_decls e)) (snd ph) = [3; 1; 2; 4; 0; 1; 1; 1]%nat /\
  map (fun x => o_out (snd x)) (run (snd t) (init_state (fst t)) ops) =
  [Done; Raise TraitError; Val 101; Val 7; Raise TraitError; Val 3; Val 6; Val 9; Raise AttributeError].
Proof.
  split.
  - vm_compute. split; [|split; [|split; [|exact I]]]; reach.
  - vm_compute. repeat split; reflexivity.
Qed.

(* ------------------------------------------------------------------ *)
(* Depth round, item 2 continued: add_class_trait calls on a BASE class k interleaved, in any order
   and number, with the operations of a live instance of a SUBCLASS j (single or multiple
   inheritance; coq/C13/ClassOpSubRun.v).  [sstep] is Model.add_class seen from classes k and j
   (first theorem).  [sok] asks, step by step: an object operation is clean; a class call has a
   plain trait and, if accepted on k, (a) finds j reachable for its name ([Reach], as above) and
   (b) does not meet the cached-name findings on the object ([sub_clean]: a wildcard must not match a
   name already resolved or stored unless declared / governed by an instance trait / __x__; an
   explicit name must not be a merely cached resolution of j, nor have a value stored under it
   unless its trait stores). *)

Theorem subclass_step_is_the_model_add_class :
  forall hh T k j n p T' out,
    (k < length T)%nat -> (j < length T)%nat -> j <> k -> is_desc hh (length hh) j k = true ->
    add_class hh T k n p = (T', out) ->
    let s := mkState (fst (tabs_nth T j)) [] [] in
    let r := sstep (s, snd (tabs_nth T j)) (tabs_nth T k) (OCls n p) in
    o_out (snd r) = out /\ snd (fst r) = tabs_nth T' k /\
    (s_ctd (fst (fst (fst r))), snd (fst (fst r))) = tabs_nth T' j.
Proof. exact sstep_is_add_class. Qed.
Print Assumptions subclass_step_is_the_model_add_class.

Theorem law_holds_on_base_class_operations_interleaved_with_subclass_instance :
  forall hh k j xs i,
    (k < j)%nat -> (j < length hh)%nat ->
    let tk := tabs_nth (tables hh) k in
    let tj := tabs_nth (tables hh) j in
    plain_t tj = true ->
    sok k j (init_state (fst tj), snd tj) tk hh xs ->
    law_hist_s k j hh i l_init (srun (init_state (fst tj), snd tj) tk xs) = [].
Proof. exact interleaved_base_class_ops. Qed.
Print Assumptions law_holds_on_base_class_operations_interleaved_with_subclass_instance.

(* the step behind it: an inherited run-time declaration arriving on the class of a live object *)
Theorem inherited_runtime_declaration_on_a_live_object :
  forall ct0 pt s ls v v' n p,
    Inv ct0 pt s ls -> Agr (ct0, pt) v -> Ext v v' n p -> plainp p = true ->
    sub_clean (fst v) s pt n p = true ->
    exists ct0', Agr (ct0', snd (sub_add s pt n p)) v' /\
                 Inv ct0' (snd (sub_add s pt n p)) (fst (sub_add s pt n p)) ls.
Proof. exact sub_step_ok. Qed.
Print Assumptions inherited_runtime_declaration_on_a_live_object.

(* Non-vacuity: the diamond of the previous example; on Base at run time, between the operations of
   a D instance: t_ = Int (accepted), tr_ = Disallow (rejected), tq = Constant(3), z = Event. *)
Example base_class_operations_interleaved_nontrivial :
  let hh := roots ++ [mkClass [([116; 114; 95], PReadOnly VUndef)] [1%nat]; mkClass [] [3%nat];
                      mkClass [([122], PAny 5)] [3%nat]; mkClass [([109], PAny 9)] [0%nat];
                      mkClass [([122], PAny 6)] [4%nat; 6%nat; 5%nat]] in
  let xs := [OObj (OGet [119]); OCls [116; 95] (PTyped VInt 7); OObj (OGet [116; 99]); OObj (OSet [116; 114; 120] 101);
             OCls [116; 114; 95] PDisallow; OObj (OSet [116; 114; 120] 102); OObj (OGet [116; 114; 120]);
             OCls [116; 113] (PConstant 3); OObj (OGet [116; 113]); OObj (OSet [116; 99] 101);
             OCls [122] (PEvent None); OObj (OGet [122]); OObj (OGet [109]); OObj (OGet [119])] in
  let tk := tabs_nth (tables hh) 3 in
  let tj := tabs_nth (tables hh) 7 in
  sok 3 7 (init_state (fst tj), snd tj) tk hh xs /\
  plain_t tj = true /\
  map (fun x => o_out (snd x)) (srun (init_state (fst tj), snd tj) tk xs) =
  [Raise AttributeError; Done; Val 7; Done; Raise TraitError; Raise TraitError; Val 101; Done; Val 3;
   Raise TraitError; Done; Val 6; Val 9; Raise AttributeError].
Proof.
  split.
  - vm_compute.
    repeat match goal with |- _ /\ _ => split | |- true = true => reflexivity | |- True => exact I | |- Reach _ _ _ _ => reach end.
  - vm_compute. repeat split; reflexivity.
Qed.

(* the same for the runs the checker evaluates (CorrT.step_t on the tables of all classes, one
   object of class j, class calls on class k) *)
Theorem checker_runs_with_base_class_calls_are_subclass_runs :
  forall hh0 k j, j <> k -> is_desc hh0 (length hh0) j k = true ->
  forall xs T itd od H i ls, (k < length T)%nat -> (j < length T)%nat ->
    law_hist_ta [j] H i [ls] (run_t hh0 [j] (T, [(itd, od)]) (map (top_of k) xs)) =
    law_hist_s k j H i ls (srun (mkState (fst (tabs_nth T j)) itd od, snd (tabs_nth T j)) (tabs_nth T k) xs).
Proof. exact run_t_srun. Qed.
Print Assumptions checker_runs_with_base_class_calls_are_subclass_runs.

Theorem law_holds_on_base_class_operation_runs_with_subclass_instance :
  forall hh k j xs i,
    (k < j)%nat -> (j < length hh)%nat -> is_desc hh (length hh) j k = true ->
    let tk := tabs_nth (tables hh) k in
    let tj := tabs_nth (tables hh) j in
    plain_t tj = true ->
    sok k j (init_state (fst tj), snd tj) tk hh xs ->
    law_hist_ta [j] hh i [l_init] (run_t hh [j] (tables hh, [([], [])]) (map (top_of k) xs)) = [].
Proof. exact interleaved_base_class_ops_run. Qed.
Print Assumptions law_holds_on_base_class_operation_runs_with_subclass_instance.

Example diamond_subclass_is_a_descendant :
  let hh := roots ++ [mkClass [([116; 114; 95], PReadOnly VUndef)] [1%nat]; mkClass [] [3%nat];
                      mkClass [([122], PAny 5)] [3%nat]; mkClass [([109], PAny 9)] [0%nat];
                      mkClass [([122], PAny 6)] [4%nat; 6%nat; 5%nat]] in
  is_desc hh (length hh) 7 3 = true /\ is_desc hh (length hh) 6 3 = false.
Proof. vm_compute. split; reflexivity. Qed.

(* ------------------------------------------------------------------ *)
(* Depth round, item 2, general form (coq/C13/ClassOpGlobal.v): the runs the checker evaluates for
   add_class_trait — CorrT.step_t on the tables of ALL classes, any number of live objects of any
   classes, object operations and add_class_trait calls on ANY classes in any order.  One global
   invariant [GI] (every class: its tables agree with the declarative pair of the hierarchy as
   declared so far and satisfy the cache invariant; every object: the plain invariant against the
   tables of its class).  [tok] asks, step by step ([tclean]): an object operation is clean; a
   class call has a plain trait and, if accepted on class k, for every other class c: c is a
   descendant the model visits and [Reach] holds, or c is not and [Unaff] holds; and neither the
   classes reached nor the live objects of those classes meet the cached-name findings / finding 1
   ([sub_clean]). *)

Theorem law_holds_on_runs_with_class_operations_on_any_classes_and_objects :
  forall hh objs ts i,
    (forall c, (c < length hh)%nat -> plain_t (tabs_nth (tables hh) c) = true) ->
    (forall j, (j < length objs)%nat -> (nth j objs O < length hh)%nat) ->
    tok hh objs (tables hh, map (fun _ => ([], [])) objs) hh ts ->
    law_hist_ta objs hh i (map (fun _ => l_init) objs)
                (run_t hh objs (tables hh, map (fun _ => ([], [])) objs) ts) = [].
Proof. exact global_law. Qed.
Print Assumptions law_holds_on_runs_with_class_operations_on_any_classes_and_objects.

Theorem law_holds_on_runs_from_any_state_of_the_global_invariant :
  forall hh0 objs ts T insts lss H C0 i,
    GI hh0 objs T insts lss H C0 -> tok hh0 objs (T, insts) H ts ->
    law_hist_ta objs H i lss (run_t hh0 objs (T, insts) ts) = [].
Proof. exact global_run_law. Qed.
Print Assumptions law_holds_on_runs_from_any_state_of_the_global_invariant.

(* the two steps *)
Theorem object_step_preserves_the_global_invariant :
  forall hh0 objs T insts lss H C0 i o,
    GI hh0 objs T insts lss H C0 -> (i < length objs)%nat ->
    clean_step (ostate T (nth i objs O) (nth i insts ([], []))) o = true ->
    let c := nth i objs O in
    let rl := class_rule (vis_nth (visible H) c) in
    let r := C13.CorrT.step_t hh0 objs (T, insts) (C13.CorrT.TObj i o) in
    law_step rl (nth i lss l_init) o (snd r) = [] /\
    GI hh0 objs (fst (fst r)) (snd (fst r)) (C13.CorrT.upd lss i (law_next rl (nth i lss l_init) o (snd r))) H C0.
Proof. exact gi_obj_step. Qed.
Print Assumptions object_step_preserves_the_global_invariant.

Theorem class_step_preserves_the_global_invariant :
  forall hh0 objs T insts lss H C0 k n p,
    GI hh0 objs T insts lss H C0 -> tclean hh0 objs T insts H (C13.CorrT.TClass k n p) ->
    let r := C13.CorrT.step_t hh0 objs (T, insts) (C13.CorrT.TClass k n p) in
    exists C0', GI hh0 objs (fst (fst r)) (snd (fst r)) lss
                   (match o_out (snd r) with Done => app_decl H k (n, p) | _ => H end) C0'.
Proof. exact gi_cls_step. Qed.
Print Assumptions class_step_preserves_the_global_invariant.

(* Non-vacuity, in the shape the generator produces: A(HasStrictTraits) declares tr_ = ReadOnly;
   B(A); C(B) declares z = Any(5); live objects a, c, b.  Calls: A.t_ = Int; B.q = Any(8);
   A.tr_ = Disallow (rejected); A.z = Event (new to B, C keeps its own); interleaved with reads
   and writes on the three objects. *)
Example runs_with_class_operations_nontrivial :
  let hh := roots ++ [mkClass [([116; 114; 95], PReadOnly VUndef)] [1%nat]; mkClass [] [3%nat]; mkClass [([122], PAny 5)] [4%nat]] in
  let objs := [3%nat; 5%nat; 4%nat] in
  let ts := [C13.CorrT.TClass 3 [116; 95] (PTyped VInt 7); C13.CorrT.TObj 1 (OGet [116; 99]);
             C13.CorrT.TObj 2 (OSet [116; 99] 101);
             C13.CorrT.TClass 4 [113] (PAny 8); C13.CorrT.TObj 0 (OGet [113]); C13.CorrT.TObj 1 (OGet [113]);
             C13.CorrT.TClass 3 [116; 114; 95] PDisallow;
             C13.CorrT.TClass 3 [122] (PEvent None); C13.CorrT.TObj 1 (OGet [122]); C13.CorrT.TObj 2 (OGet [122]);
             C13.CorrT.TObj 0 (OSet [116; 114; 120] 101); C13.CorrT.TObj 0 (OSet [116; 114; 120] 102)] in
  tok hh objs (tables hh, map (fun _ => ([], [])) objs) hh ts /\
  forallb plain_t (tables hh) = true /\
  map (fun x => o_out (snd x)) (run_t hh objs (tables hh, map (fun _ => ([], [])) objs) ts) =
  [Done; Val 7; Raise TraitError; Done; Raise AttributeError; Val 8; Raise TraitError; Done;
   Val 5; Raise AttributeError; Done; Raise TraitError].
Proof.
  split.
  - apply tok_of_tokb_fresh; vm_compute; reflexivity.
  - vm_compute. split; reflexivity.
Qed.

(* ------------------------------------------------------------------ *)
(* ... and for single-inheritance hierarchies (every class at most one base, declared before it:
   the shape the generator produces; coq/C13/ClassOpChain.v) the reachability hypotheses hold by
   themselves, so the hypothesis is ONE BOOLEAN over the run ([tokb]): object operations clean,
   traits plain, and for each accepted call the classes reached and their live objects do not
   meet the cached-name findings / finding 1 ([sub_clean]). *)

Theorem law_holds_on_single_inheritance_runs_with_class_operations :
  forall hh objs ts i,
    chainb hh = true ->
    forallb plain_t (tables hh) = true ->
    forallb (fun c => Nat.ltb c (length hh)) objs = true ->
    tokb hh objs (tables hh, map (fun _ => ([], [])) objs) hh ts = true ->
    law_hist_ta objs hh i (map (fun _ => l_init) objs)
                (run_t hh objs (tables hh, map (fun _ => ([], [])) objs) ts) = [].
Proof. exact chain_law. Qed.
Print Assumptions law_holds_on_single_inheritance_runs_with_class_operations.

Theorem single_inheritance_classes_are_reached_or_unaffected :
  forall hh0 H k n,
    chain hh0 -> length H = length hh0 ->
    (forall i, c_bases (nth i H dcls) = c_bases (nth i hh0 dcls)) ->
    forall c, (c < length hh0)%nat -> forall f, (c < f)%nat ->
      (is_desc hh0 f c k = true -> Reach H k n c) /\
      (is_desc hh0 f c k = false -> c <> k -> Unaff H k c).
Proof. exact chain_classes. Qed.
Print Assumptions single_inheritance_classes_are_reached_or_unaffected.

Theorem boolean_step_hypothesis_implies_the_general_one :
  forall hh0 objs T insts lss H C0 t,
    chain hh0 -> GI hh0 objs T insts lss H C0 ->
    tcleanb hh0 objs T insts H t = true -> tclean hh0 objs T insts H t.
Proof. exact tcleanb_tclean. Qed.
Print Assumptions boolean_step_hypothesis_implies_the_general_one.

Theorem boolean_run_hypothesis_implies_the_general_one :
  forall hh objs ts,
    chainb hh = true ->
    forallb plain_t (tables hh) = true ->
    forallb (fun c => Nat.ltb c (length hh)) objs = true ->
    tokb hh objs (tables hh, map (fun _ => ([], [])) objs) hh ts = true ->
    tok hh objs (tables hh, map (fun _ => ([], [])) objs) hh ts.
Proof. exact tok_of_tokb_fresh. Qed.
Print Assumptions boolean_run_hypothesis_implies_the_general_one.

(* Non-vacuity: the hierarchy and objects of the previous example, a longer run (also C.w =
   Constant(3) on the leaf class) *)
Example single_inheritance_runs_nontrivial :
  let hh := roots ++ [mkClass [([116; 114; 95], PReadOnly VUndef)] [1%nat]; mkClass [] [3%nat]; mkClass [([122], PAny 5)] [4%nat]] in
  let objs := [3%nat; 5%nat; 4%nat] in
  let ts := [C13.CorrT.TClass 3 [116; 95] (PTyped VInt 7); C13.CorrT.TObj 0 (OGet [116; 99]); C13.CorrT.TObj 1 (OGet [116; 99]);
             C13.CorrT.TObj 2 (OSet [116; 99] 101);
             C13.CorrT.TClass 4 [113] (PAny 8); C13.CorrT.TObj 0 (OGet [113]); C13.CorrT.TObj 1 (OGet [113]); C13.CorrT.TObj 2 (OGet [113]);
             C13.CorrT.TClass 3 [116; 114; 95] PDisallow;
             C13.CorrT.TClass 5 [119] (PConstant 3); C13.CorrT.TObj 1 (OGet [119]); C13.CorrT.TObj 2 (OGet [119]);
             C13.CorrT.TClass 3 [122] (PEvent None); C13.CorrT.TObj 1 (OGet [122]); C13.CorrT.TObj 2 (OGet [122]);
             C13.CorrT.TObj 0 (OSet [116; 114; 120] 101); C13.CorrT.TObj 0 (OSet [116; 114; 120] 102)] in
  chainb hh = true /\ forallb plain_t (tables hh) = true /\
  forallb (fun c => Nat.ltb c (length hh)) objs = true /\
  tokb hh objs (tables hh, map (fun _ => ([], [])) objs) hh ts = true /\
  map (fun x => o_out (snd x)) (run_t hh objs (tables hh, map (fun _ => ([], [])) objs) ts) =
  [Done; Val 7; Val 7; Raise TraitError; Done; Raise AttributeError; Val 8; Val 8; Raise TraitError; Done;
   Val 3; Raise AttributeError; Done; Val 5; Raise AttributeError; Done; Raise TraitError].
Proof. vm_compute. repeat split; reflexivity. Qed.

(* ------------------------------------------------------------------ *)
(* Depth round, extra: the law on the life of a List instance trait (coq/C13/ListLife.v) — until
   now only the install/remove theorems above.  [lpair_op n o]: o is a get / set / del of n or of
   n_items; [LPair]: List at n, its items event at n_items, nothing stored under n_items. *)

Theorem list_pair_step_obeys_the_law :
  forall (crule : name -> rule) pt n s ls o,
    LPair n s -> Agree s ls -> lpair_op n o = true ->
    law_step crule ls o (snd (step pt s o)) = [] /\ LPair n (fst (step pt s o)) /\
    Agree (fst (step pt s o)) (law_next crule ls o (snd (step pt s o))).
Proof. exact lpair_step. Qed.
Print Assumptions list_pair_step_obeys_the_law.

(* from any state whose bookkeeping agrees, under any class-level rule and any class tables:
   add_trait(n, List(Int)), any history on n and n_items, with or without remove_trait(n) *)
Theorem law_holds_on_the_life_of_a_list_trait :
  forall (crule : name -> rule) pt n ops s ls i,
    Agree s ls -> assoc (n ++ items_suffix) (s_od s) = None -> forallb (lpair_op n) ops = true ->
    law_hist crule i ls (run pt s (OAdd n PList :: ops)) = [] /\
    law_hist crule i ls (run pt s (OAdd n PList :: ops ++ [ORem n])) = [].
Proof. exact list_life. Qed.
Print Assumptions law_holds_on_the_life_of_a_list_trait.

Theorem law_holds_on_list_trait_of_a_fresh_object :
  forall (crule : name -> rule) ct pt n ops i,
    forallb (lpair_op n) ops = true ->
    law_hist crule i l_init (run pt (init_state ct) (OAdd n PList :: ops)) = [] /\
    law_hist crule i l_init (run pt (init_state ct) (OAdd n PList :: ops ++ [ORem n])) = [].
Proof. exact list_life_fresh. Qed.
Print Assumptions law_holds_on_list_trait_of_a_fresh_object.

(* every class without Map/List declarations, any clean history on plain traits, then the life *)
Theorem law_holds_on_histories_with_list_traits :
  forall h c pre n ops i,
    plain_class h c = true ->
    let t := class_tables h c in
    clean_run (snd t) (init_state (fst t)) pre = true ->
    amem (n ++ items_suffix) (s_od (final_state (snd t) (init_state (fst t)) pre)) = false ->
    forallb (lpair_op n) ops = true ->
    law_hist (spec_rule h c) i l_init (run (snd t) (init_state (fst t)) (pre ++ OAdd n PList :: ops)) = [] /\
    law_hist (spec_rule h c) i l_init (run (snd t) (init_state (fst t)) (pre ++ OAdd n PList :: ops ++ [ORem n])) = [].
Proof. exact plain_then_list_life_spec. Qed.
Print Assumptions law_holds_on_histories_with_list_traits.

(* any access that changes __dict__ at its own name only keeps the law's bookkeeping in agreement *)
Theorem access_keeps_the_bookkeeping_in_agreement :
  forall (crule : name -> rule) pt s ls o,
    Agree s ls -> is_access o = true ->
    (forall a, name_eqb (op_name o) a = false -> assoc a (s_od (fst (step pt s o))) = assoc a (s_od s)) ->
    Agree (fst (step pt s o)) (law_next crule ls o (snd (step pt s o))).
Proof. exact access_agree. Qed.
Print Assumptions access_keeps_the_bookkeeping_in_agreement.

(* the hypothesis on n_items is needed (finding 1 under the installed sub-trait) *)
Theorem stale_value_under_items_event_refuted :
  exists (crule : name -> rule) ct pt n ops,
    forallb (lpair_op n) ops = true /\
    law_hist crule 0 l_init (run pt (init_state ct) (OSet (n ++ items_suffix) 5 :: OAdd n PList :: ops)) <> [].
Proof. exact stale_items_value_refutes. Qed.
Print Assumptions stale_value_under_items_event_refuted.

(* Non-vacuity: strict class with the wildcard a_ = Int; a plain prefix; add_trait("ab", List(Int));
   reads (empty list), rejected and Undefined assignments, the items event (read refused, None
   accepted, 5 rejected), deletes; remove_trait; afterwards both names are the wildcard's again *)
Example list_life_nontrivial :
  let t := class_tables [mkClass [([97; 95], PTyped VInt 7)] [1%nat]] 3 in
  let pre := [OSet [97; 98; 95] 5; OGet [98]; OAdd [98] (PAny 5); OSet [98] 6] in
  let ni := [97; 98] ++ items_suffix in
  let ops := [OGet [97; 98]; OSet [97; 98] 5; OGet ni; OSet ni 200; OSet ni 5; OSet [97; 98] 201; OGet [97; 98];
              ODel [97; 98]; ODel ni; OGet [97; 98]] in
  plain_class [mkClass [([97; 95], PTyped VInt 7)] [1%nat]] 3 = true /\
  clean_run (snd t) (init_state (fst t)) pre = true /\
  amem ni (s_od (final_state (snd t) (init_state (fst t)) pre)) = false /\
  forallb (lpair_op [97; 98]) ops = true /\
  map (fun x => o_out (snd x))
      (run (snd t) (init_state (fst t)) (pre ++ OAdd [97; 98] PList :: ops ++ [ORem [97; 98]; OGet [97; 98]; OGet ni])) =
  [Done; Raise AttributeError; Done; Done; Done; Val 300; Raise TraitError; Raise AttributeError; Done;
   Raise TraitError; Done; Val 201; Done; Done; Val 300; Val 1; Val 7; Val 7].
Proof. vm_compute. repeat split; reflexivity. Qed.

(* ------------------------------------------------------------------ *)
(* Depth round, item 1 continued: TWO instances of a class with a trait_added listener, every
   interleaving of their histories (Model.step2_l, the runs CorrL evaluates; coq/C13/ListenerInd2.v).
   The instances share the class dictionary only: a name resolved by the first touch of one
   instance is a known name for the other, whose listener is not called for it. *)
Theorem law_holds_on_two_instance_listener_histories :
  forall h c lst ops i,
    plain_class h c = true ->
    (forall n lp, listener lst n = Some lp -> plainp lp = true) ->
    let t := class_tables h c in
    lclean_run2 (snd t) lst (init_state2 (fst t)) ops = true ->
    law_hist2_l lst (spec_rule h c) i l_init l_init (run2_lk lst (snd t) (init_state2 (fst t)) ops) = [].
Proof. exact law_listener_two_instances. Qed.
Print Assumptions law_holds_on_two_instance_listener_histories.

(* the checker's law codes for listener classes (CorrL.law_tag_l, any two-instance history) are
   empty exactly when the un-relabelled law is *)
Theorem two_instance_listener_law_codes_relabelling_is_faithful :
  forall lst mr sr h i la lb,
    C13.CorrL.law_tag_l lst mr sr i la lb h = [] <-> law_hist2_l lst mr i la lb h = [].
Proof. exact law_tag_l_nil. Qed.
Print Assumptions two_instance_listener_law_codes_relabelling_is_faithful.

(* Non-vacuity: the class and listener of listener_history_nontrivial, two instances: the second
   instance finds n_b already resolved (strict class: refused) while the first reads the listener's
   Int; add_trait replaced by the listener; remove_trait on the instance that has no trait *)
Example two_instance_listener_history_nontrivial :
  let t := class_tables [mkClass [([97; 95], PTyped VStr 102)] [1%nat]] 3 in
  let lst := [([110; 95], PTyped VInt 7); ([107; 95], PConstant 42); ([101; 95], PEvent None)] in
  let ops := [(false, OSet [110; 95; 98] 101); (true, OGet [110; 95; 98]); (true, OSet [110; 95; 98] 5); (false, OGet [110; 95; 98]);
              (true, OSet [107; 95; 99] 1); (false, OGet [107; 95; 99]); (false, OAdd [110; 95; 102] (PTyped VStr 102));
              (true, OSet [110; 95; 102] 101); (false, OSet [110; 95; 102] 101); (true, ORem [110; 95; 98]); (true, OGet [110; 95; 98]);
              (false, OGet [122])] in
  lclean_run2 (snd t) lst (init_state2 (fst t)) ops = true /\
  map (fun x => o_out (snd (fst x))) (run2_lk lst (snd t) (init_state2 (fst t)) ops) =
  [Raise TraitError; Raise AttributeError; Raise TraitError; Val 7; Raise TraitError; Raise AttributeError; Done;
   Raise TraitError; Raise TraitError; Val 0; Raise AttributeError; Raise AttributeError].
Proof. vm_compute. split; reflexivity. Qed.

(* ------------------------------------------------------------------ *)
(* Depth round, item 2, in the checker's own terms (coq/C13/ClassOpTie.v): CorrT.law_codes — the
   function ./check evaluates on the implementation's observations (mro_rule on the user classes,
   CorrT.add_decl, re-labelling) — returns no code on the MODEL's runs: single-inheritance user
   classes h, any number of fresh objects of any classes, object operations and add_class_trait
   calls on any user classes, in any order, under the boolean [tokb]. *)
Theorem checker_law_codes_vanish_on_model_runs_with_class_operations :
  forall h objs ts,
    single h = true -> chainb (roots ++ h) = true ->
    forallb plain_t (tables (roots ++ h)) = true ->
    forallb (fun c => Nat.ltb c (length (roots ++ h))) objs = true ->
    forallb (fun t => match t with C13.CorrT.TClass k _ _ => Nat.leb 3 k | _ => true end) ts = true ->
    tokb (roots ++ h) objs (tables (roots ++ h), map (fun _ => ([], [])) objs) (roots ++ h) ts = true ->
    C13.CorrT.law_codes (h, objs, run_t (roots ++ h) objs (tables (roots ++ h), map (fun _ => ([], [])) objs) ts) = [].
Proof. exact checker_law_codes_on_model_runs. Qed.
Print Assumptions checker_law_codes_vanish_on_model_runs_with_class_operations.

(* on any history (model's or implementation's): the checker's codes are empty exactly when the
   declarative law with the declarations appended is *)
Theorem checker_class_operation_law_is_the_declarative_law_on_single_inheritance :
  forall hist objs h i lss,
    single h = true -> forallb (fun k => Nat.ltb k (length (roots ++ h))) objs = true ->
    user_calls hist = true ->
    C13.CorrT.law_tag_t objs h i lss hist = [] <-> law_hist_ta objs (roots ++ h) i lss hist = [].
Proof. exact law_tag_t_ta. Qed.
Print Assumptions checker_class_operation_law_is_the_declarative_law_on_single_inheritance.

Example checker_law_codes_nontrivial :
  let h := [mkClass [([116; 114; 95], PReadOnly VUndef)] [1%nat]; mkClass [] [3%nat]; mkClass [([122], PAny 5)] [4%nat]] in
  let objs := [3%nat; 5%nat; 4%nat] in
  let ts := [C13.CorrT.TClass 3 [116; 95] (PTyped VInt 7); C13.CorrT.TObj 1 (OGet [116; 99]);
             C13.CorrT.TObj 2 (OSet [116; 99] 101);
             C13.CorrT.TClass 4 [113] (PAny 8); C13.CorrT.TObj 0 (OGet [113]); C13.CorrT.TObj 1 (OGet [113]);
             C13.CorrT.TClass 3 [116; 114; 95] PDisallow;
             C13.CorrT.TClass 3 [122] (PEvent None); C13.CorrT.TObj 1 (OGet [122]); C13.CorrT.TObj 2 (OGet [122]);
             C13.CorrT.TObj 0 (OSet [116; 114; 120] 101); C13.CorrT.TObj 0 (OSet [116; 114; 120] 102)] in
  single h = true /\ chainb (roots ++ h) = true /\ forallb plain_t (tables (roots ++ h)) = true /\
  forallb (fun c => Nat.ltb c (length (roots ++ h))) objs = true /\
  forallb (fun t => match t with C13.CorrT.TClass k _ _ => Nat.leb 3 k | _ => true end) ts = true /\
  tokb (roots ++ h) objs (tables (roots ++ h), map (fun _ => ([], [])) objs) (roots ++ h) ts = true.
Proof. vm_compute. repeat split; reflexivity. Qed.
