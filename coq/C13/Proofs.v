(* C13 — lemmas.  Part 1: names and dictionaries.  Part 2: the sorted prefix list.
   Part 3: every history of the model satisfies the law (for arbitrary class tables).
   Part 4: the tables built by update_traits_class_dict resolve names as the law's
   declarative rule does (resolve_order). *)
From Coq Require Import ZArith List Bool Lia Sorted Permutation.
From TV Require Import Common.Harness C13.Model C13.Law C13.Corr.
Import ListNotations.
Open Scope Z_scope.

(* ------------------------------------------------------------------ *)
(* Part 1 *)

Lemma name_eqb_eq : forall a b, name_eqb a b = true <-> a = b.
Proof.
  induction a as [|x a IH]; destruct b as [|y b]; simpl; split; intro H; try congruence; try reflexivity.
  - apply andb_true_iff in H. destruct H as [H1 H2]. apply Z.eqb_eq in H1. apply IH in H2. congruence.
  - inversion H; subst. rewrite Z.eqb_refl. simpl. apply IH. reflexivity.
Qed.
Lemma name_eqb_refl : forall a, name_eqb a a = true.
Proof. intro a. apply name_eqb_eq. reflexivity. Qed.
Lemma name_eqb_neq : forall a b, a <> b -> name_eqb a b = false.
Proof. intros a b H. destruct (name_eqb a b) eqn:E; auto. apply name_eqb_eq in E. contradiction. Qed.
Lemma name_eqb_sym : forall a b, name_eqb a b = name_eqb b a.
Proof.
  intros a b. destruct (name_eqb a b) eqn:E.
  - apply name_eqb_eq in E. subst. symmetry. apply name_eqb_refl.
  - destruct (name_eqb b a) eqn:E2; auto. apply name_eqb_eq in E2. subst. rewrite name_eqb_refl in E. discriminate.
Qed.

Section AssocLemmas.
  Context {A : Type}.
  Implicit Types l : list (name * A).

  Lemma assoc_aset : forall l n v m, assoc m (aset n v l) = if name_eqb n m then Some v else assoc m l.
  Proof.
    induction l as [|[k w] r IH]; intros n v m; simpl.
    - rewrite name_eqb_sym. reflexivity.
    - destruct (name_eqb k n) eqn:E; simpl.
      + apply name_eqb_eq in E. subst k. destruct (name_eqb n m); reflexivity.
      + rewrite IH. destruct (name_eqb k m) eqn:E2; auto.
        apply name_eqb_eq in E2. subst k. rewrite name_eqb_sym, E. reflexivity.
  Qed.
  Lemma assoc_adel : forall l n m, assoc m (adel n l) = if name_eqb n m then None else assoc m l.
  Proof.
    induction l as [|[k w] r IH]; intros n m; simpl.
    - destruct (name_eqb n m); reflexivity.
    - destruct (name_eqb k n) eqn:E; simpl.
      + apply name_eqb_eq in E. subst k. rewrite IH. destruct (name_eqb n m); reflexivity.
      + rewrite IH. destruct (name_eqb k m) eqn:E2; auto.
        apply name_eqb_eq in E2. subst k. rewrite name_eqb_sym, E. reflexivity.
  Qed.
  Lemma adel_absent : forall l n, assoc n l = None -> adel n l = l.
  Proof.
    induction l as [|[k w] r IH]; intros n H; simpl in *; auto.
    destruct (name_eqb k n); try discriminate. rewrite IH; auto.
  Qed.
  Lemma assoc_app : forall l1 l2 n, assoc n (l1 ++ l2) = match assoc n l1 with Some v => Some v | None => assoc n l2 end.
  Proof.
    induction l1 as [|[k w] r IH]; intros; simpl; auto. destruct (name_eqb k n); auto.
  Qed.
  Lemma assoc_In : forall l n v, assoc n l = Some v -> In (n, v) l.
  Proof.
    induction l as [|[k w] r IH]; intros n v H; simpl in *; try discriminate.
    destruct (name_eqb k n) eqn:E.
    - apply name_eqb_eq in E. inversion H; subst. auto.
    - right. auto.
  Qed.
  Lemma In_assoc_some : forall l n v, In (n, v) l -> exists w, assoc n l = Some w.
  Proof.
    induction l as [|[k w] r IH]; intros n v H; simpl in *; [contradiction|].
    destruct (name_eqb k n) eqn:E; [eauto|]. destruct H as [H|H]; [|eauto].
    inversion H; subst. rewrite name_eqb_refl in E. discriminate.
  Qed.
End AssocLemmas.

Lemma is_prefix_length : forall p n, is_prefix p n = true -> (length p <= length n)%nat.
Proof.
  induction p as [|x p IH]; destruct n as [|y n]; simpl; intros H; try lia; try discriminate.
  apply andb_true_iff in H. destruct H as [_ H]. apply IH in H. lia.
Qed.
(* two prefixes of one name that have the same length are the same prefix *)
Lemma is_prefix_same_length : forall p q n,
  is_prefix p n = true -> is_prefix q n = true -> length p = length q -> p = q.
Proof.
  induction p as [|x p IH]; destruct q as [|y q]; intros n Hp Hq Hl; simpl in *; try discriminate; auto.
  destruct n as [|z n]; try discriminate.
  apply andb_true_iff in Hp. apply andb_true_iff in Hq. destruct Hp as [Hx Hp]. destruct Hq as [Hy Hq].
  apply Z.eqb_eq in Hx. apply Z.eqb_eq in Hy. f_equal; [congruence|]. apply (IH q n); auto.
Qed.

(* ------------------------------------------------------------------ *)
(* Part 2: prefix_list.sort(key=len, reverse=True) and the first match *)

Definition len_ge (a b : name * policy) : Prop := (length (fst b) <= length (fst a))%nat.

Lemma insert_len_In : forall e l x, In x (insert_len e l) <-> x = e \/ In x l.
Proof.
  induction l as [|y r IH]; intros x; simpl.
  - intuition.
  - destruct (Nat.ltb (length (fst e)) (length (fst y))); simpl; [rewrite IH|]; intuition.
Qed.
Lemma sort_len_In : forall l x, In x (sort_len l) <-> In x l.
Proof.
  induction l as [|e r IH]; intros x; simpl; [tauto|].
  rewrite insert_len_In, IH. intuition.
Qed.
Lemma insert_len_sorted : forall e l, StronglySorted len_ge l -> StronglySorted len_ge (insert_len e l).
Proof.
  induction l as [|y r IH]; intros H; simpl.
  - constructor; constructor.
  - inversion H as [|? ? Hs Hf]; subst.
    destruct (Nat.ltb (length (fst e)) (length (fst y))) eqn:E.
    + apply Nat.ltb_lt in E. constructor; auto.
      apply Forall_forall. intros x Hx. apply insert_len_In in Hx. destruct Hx as [->|Hx].
      * unfold len_ge. lia.
      * rewrite Forall_forall in Hf. auto.
    + apply Nat.ltb_ge in E. constructor; auto.
      constructor; [unfold len_ge; lia|].
      rewrite Forall_forall in *. intros x Hx. specialize (Hf x Hx). unfold len_ge in *. lia.
Qed.
Lemma sort_len_sorted : forall l, StronglySorted len_ge (sort_len l).
Proof. induction l; simpl; [constructor|apply insert_len_sorted; auto]. Qed.

(* the stable sort does not reorder entries of the same key, so dictionary look-up is unchanged *)
Lemma assoc_insert_len : forall e l m, assoc m (insert_len e l) = assoc m (e :: l).
Proof.
  induction l as [|y r IH]; intros m; simpl; auto.
  destruct (Nat.ltb (length (fst e)) (length (fst y))) eqn:E; auto.
  apply Nat.ltb_lt in E. destruct e as [ke ve], y as [ky vy]. simpl in *. rewrite IH. simpl.
  destruct (name_eqb ky m) eqn:E1; destruct (name_eqb ke m) eqn:E2; auto.
  apply name_eqb_eq in E1. apply name_eqb_eq in E2. subst. lia.
Qed.
Lemma assoc_sort_len : forall l m, assoc m (sort_len l) = assoc m l.
Proof.
  induction l as [|[k v] r IH]; intros m; simpl; auto.
  rewrite assoc_insert_len. simpl. rewrite IH. reflexivity.
Qed.

Lemma first_match_sound : forall n l q p, first_match n l = Some (q, p) -> In (q, p) l /\ is_prefix q n = true.
Proof.
  induction l as [|[k v] r IH]; intros q p H; simpl in *; try discriminate.
  destruct (is_prefix k n) eqn:E.
  - inversion H; subst. auto.
  - apply IH in H. tauto.
Qed.
Lemma first_match_none : forall n l, first_match n l = None -> forall q p, In (q, p) l -> is_prefix q n = false.
Proof.
  induction l as [|[k v] r IH]; intros H q p Hin; simpl in *; [contradiction|].
  destruct (is_prefix k n) eqn:E; try discriminate.
  destruct Hin as [Hin|Hin]; [inversion Hin; subst; auto|eauto].
Qed.
(* the sorted-by-length lemma *)
Lemma first_match_sorted_longest : forall n l q p,
  StronglySorted len_ge l -> first_match n l = Some (q, p) ->
  forall q' p', In (q', p') l -> is_prefix q' n = true -> (length q' <= length q)%nat.
Proof.
  induction l as [|[k v] r IH]; intros q p Hs H q' p' Hin Hp; simpl in *; [contradiction|].
  inversion Hs as [|? ? Hs' Hf]; subst.
  destruct (is_prefix k n) eqn:E.
  - inversion H; subst. destruct Hin as [Hin|Hin]; [inversion Hin; subst; lia|].
    rewrite Forall_forall in Hf. specialize (Hf _ Hin). unfold len_ge in Hf. simpl in Hf. lia.
  - destruct Hin as [Hin|Hin]; [inversion Hin; subst; congruence|]. eapply IH; eauto.
Qed.
Lemma first_match_is_dict_entry : forall n l q p, first_match n l = Some (q, p) ->
  exists p0, assoc q l = Some p0.
Proof. intros. apply first_match_sound in H. destruct H as [H _]. eapply In_assoc_some; eauto. Qed.

Lemma first_match_sort_longest : forall n l q p,
  first_match n (sort_len l) = Some (q, p) ->
  In (q, p) l /\ is_prefix q n = true /\
  forall q' p', In (q', p') l -> is_prefix q' n = true -> (length q' <= length q)%nat.
Proof.
  intros n l q p H. pose proof (first_match_sound _ _ _ _ H) as [Hin Hp].
  split; [apply sort_len_In; auto|]. split; auto.
  intros q' p' Hin' Hp'. eapply first_match_sorted_longest; eauto using sort_len_sorted.
  apply sort_len_In; eauto.
Qed.

(* ------------------------------------------------------------------ *)
(* Part 3: the law holds on every history of the model *)

Definition storing (g : rule) : bool :=
  match g with
  | RPol PPython | RPol (PAny _) | RPol (PTyped _ _) | RPol (PReadOnly _) | RDunder
  | RPol (PMap _ _) | RPol (PShadow _) | RPol PList => true
  | _ => false
  end.

(* plain = not a mapped trait (Map) nor its shadow: the traits Part 3 reasons about; mapped
   traits are covered by Part 9 and by the correspondence *)
Definition plain_tab (l : list (name * policy)) : bool := forallb (fun e => plainp (snd e)) l.

Lemma plain_assoc : forall l n p, plain_tab l = true -> assoc n l = Some p -> plainp p = true.
Proof.
  induction l as [|[k v] r IH]; intros n p H E; simpl in *; try discriminate.
  apply andb_true_iff in H. destruct H as [H1 H2].
  destruct (name_eqb k n); [inversion E; subst; auto|eauto].
Qed.
Lemma plain_aset : forall l n p, plain_tab l = true -> plainp p = true -> plain_tab (aset n p l) = true.
Proof.
  induction l as [|[k v] r IH]; intros n p H Hp; simpl in *; [rewrite Hp; reflexivity|].
  apply andb_true_iff in H. destruct H as [H1 H2].
  destruct (name_eqb k n); simpl; [rewrite Hp, H2; reflexivity|rewrite H1, IH; auto].
Qed.
Lemma plain_adel : forall l n, plain_tab l = true -> plain_tab (adel n l) = true.
Proof.
  induction l as [|[k v] r IH]; intros n H; simpl in *; auto.
  apply andb_true_iff in H. destruct H as [H1 H2].
  destruct (name_eqb k n); simpl; [auto|rewrite H1, IH; auto].
Qed.
Lemma plain_first_match : forall l n q p, plain_tab l = true -> first_match n l = Some (q, p) -> plainp p = true.
Proof.
  induction l as [|[k v] r IH]; intros n q p H E; simpl in *; try discriminate.
  apply andb_true_iff in H. destruct H as [H1 H2].
  destruct (is_prefix k n); [inversion E; subst; auto|eauto].
Qed.

(* excluded by [clean_run]: the trigger of the first listed finding (add_trait of a policy that
   stores nothing on a name whose value is already in obj.__dict__), and add_trait of a mapped
   trait (treated in Part 9) *)
Definition clean_step (s : state) (o : op) : bool :=
  match o with
  | OAdd n p => plainp p && (storing (RPol p) || negb (amem n (s_od s)))
  | _ => true
  end.

Section Run.
  Variable ct0 : ctab.
  Variable pt : ptab.

  Fixpoint clean_run (s : state) (ops : list op) : bool :=
    match ops with
    | [] => true
    | o :: r => clean_step s o && clean_run (fst (step pt s o)) r
    end.

  (* the class-level rule the object's class implements *)
  Definition model_rule (n : name) : rule :=
    match assoc n ct0 with
    | Some p => RPol p
    | None => if dunder n then RDunder
              else match first_match n pt with Some (_, p) => RPol p | None => RNone end
    end.

  Definition rel (g : rule) (p : policy) : Prop := g = RPol p \/ (g = RDunder /\ p = PAny VNone).

  Definition gov (s : state) (n : name) : rule :=
    match assoc n (s_itd s) with Some p => RPol p | None => model_rule n end.

  Record Inv (s : state) (ls : lstate) : Prop := mkInv {
    inv_itd : l_itd ls = s_itd s;
    inv_od : forall m, assoc m (l_od ls) = assoc m (s_od s);
    inv_c1 : forall m p, assoc m ct0 = Some p -> assoc m (s_ctd s) = Some p;
    inv_c2 : forall m p, assoc m (s_ctd s) = Some p -> rel (model_rule m) p;
    inv_st : forall m v, assoc m (s_od s) = Some v -> storing (gov s m) = true;
    inv_plain : plain_tab ct0 && plain_tab pt && plain_tab (s_itd s) && plain_tab (s_ctd s) = true
  }.

  Lemma inv_plain4 : forall s ls, Inv s ls ->
    plain_tab ct0 = true /\ plain_tab pt = true /\ plain_tab (s_itd s) = true /\ plain_tab (s_ctd s) = true.
  Proof.
    intros s ls H. pose proof (inv_plain _ _ H) as P.
    apply andb_true_iff in P. destruct P as [P P4]. apply andb_true_iff in P. destruct P as [P P3].
    apply andb_true_iff in P. destruct P as [P1 P2]. auto.
  Qed.
  Lemma plain4 : forall a b c d, plain_tab a = true -> plain_tab b = true -> plain_tab c = true -> plain_tab d = true ->
    plain_tab a && plain_tab b && plain_tab c && plain_tab d = true.
  Proof. intros a b c d -> -> -> ->. reflexivity. Qed.
  Lemma model_rule_plain : plain_tab ct0 = true -> plain_tab pt = true ->
    forall n p, rel (model_rule n) p -> plainp p = true.
  Proof.
    intros H0 Hp n p [E|[_ ->]]; [|reflexivity]. revert E. unfold model_rule.
    destruct (assoc n ct0) eqn:E0; [intro E; inversion E; subst; exact (plain_assoc _ _ _ H0 E0)|].
    destruct (dunder n); simpl; [discriminate|].
    destruct (first_match n pt) as [[q p1]|] eqn:Ef; simpl; [|discriminate].
    intro E. inversion E; subst. exact (plain_first_match _ _ _ _ Hp Ef).
  Qed.

  Lemma governing_gov : forall s ls n, Inv s ls -> governing model_rule ls n = gov s n.
  Proof. intros s ls n H. unfold governing, gov. rewrite (inv_itd _ _ H). reflexivity. Qed.

  Lemma chk3_nil : forall k1 k2 k3 a b c, a = true -> b = true -> c = true ->
    chk k1 a ++ chk k2 b ++ chk k3 c = [].
  Proof. intros; subst; reflexivity. Qed.

  (* --- the three handlers against the demands of the law --- *)
  Lemma getattr_ok : forall s n p g, rel g p -> assoc n (s_od s) = None ->
    let ob := snd (getattr s n p) in
    class_ok (fst (demand g None (OGet n))) (o_out ob) = true /\
    value_ok (fst (demand g None (OGet n))) (o_out ob) = true.
  Proof.
    intros s n p g [->|[-> ->]] Hn; [destruct p|]; simpl; rewrite ?Z.eqb_refl; auto.
  Qed.

  Lemma opt_eqb_refl : forall x : option Z, opt_eqb Z.eqb x x = true.
  Proof. destruct x; simpl; auto using Z.eqb_refl. Qed.

  Ltac fin := simpl; rewrite ?assoc_aset, ?assoc_adel, ?name_eqb_refl; simpl;
              rewrite ?Z.eqb_refl, ?opt_eqb_refl; auto.

  Lemma setattr_ok : forall s n p g v, rel g p ->
    let ob := snd (setattr s n p v) in
    let d := demand g (assoc n (s_od s)) (OSet n v) in
    class_ok (fst d) (o_out ob) = true /\ value_ok (fst d) (o_out ob) = true /\
    stored_ok (snd d) (o_stored ob) = true.
  Proof.
    intros s n p g v [->|[-> ->]]; [destruct p as [ |d| |d|c|k|k d|m d|m| ]|]; simpl; try (fin; fail).
    - (* ReadOnly *)
      destruct (negb (Z.eqb d VUndef)); simpl; [fin|].
      unfold defined. destruct (assoc n (s_od s)) as [w|] eqn:E; [destruct (Z.eqb w VUndef)|]; fin.
      rewrite E. fin.
    - (* Event *)
      destruct k as [k|]; [destruct (validate k v)|]; fin.
    - destruct (Z.eqb v VUndef); [|destruct (validate k v)]; fin.
    - destruct (Z.eqb v VUndef); fin.
  Qed.

  Lemma delattr_ok : forall s n p g, rel g p ->
    let ob := snd (delattr s n p) in
    let d := demand g (assoc n (s_od s)) (ODel n) in
    class_ok (fst d) (o_out ob) = true /\ value_ok (fst d) (o_out ob) = true /\
    stored_ok (snd d) (o_stored ob) = true.
  Proof.
    intros s n p g [->|[-> ->]]; [destruct p|]; simpl; try (fin; fail).
    unfold amem. destruct (assoc n (s_od s)) as [w|] eqn:E; fin. rewrite E. auto.
  Qed.

  (* --- what the handlers do to the state --- *)
  Definition handler (o : op) (s : state) (p : policy) : state * obs :=
    match o with
    | OSet n v => setattr s n p v
    | ODel n => delattr s n p
    | _ => getattr s (op_name o) p
    end.
  Definition is_access (o : op) : bool :=
    match o with OGet _ | OSet _ _ | ODel _ => true | _ => false end.

  Ltac hcases p s n :=
    destruct p; simpl; unfold amem;
    repeat match goal with
           | |- context [match assoc n (s_od s) with _ => _ end] => destruct (assoc n (s_od s)) eqn:?; simpl
           | |- context [if ?b then _ else _] => destruct b eqn:?; simpl
           | |- context [match validate ?k ?v with _ => _ end] => destruct (validate k v) eqn:?; simpl
           | |- context [match ?k with Some _ => _ | None => _ end] => is_var k; destruct k; simpl
           end.

  Lemma handler_keeps : forall o s p, is_access o = true ->
    s_itd (fst (handler o s p)) = s_itd s /\ s_ctd (fst (handler o s p)) = s_ctd s /\
    o_stored (snd (handler o s p)) = assoc (op_name o) (s_od (fst (handler o s p))).
  Proof.
    intros o s p H. destruct o as [n|n v|n|n q|n]; try discriminate; simpl; hcases p s n; auto.
  Qed.

  Lemma handler_frame : forall o s p m, is_access o = true -> m <> op_name o ->
    assoc m (s_od (fst (handler o s p))) = assoc m (s_od s).
  Proof.
    intros o s p m H Hm.
    assert (Hn : name_eqb (op_name o) m = false) by (apply name_eqb_neq; congruence).
    destruct o as [n|n v|n|n q|n]; try discriminate; simpl in *; hcases p s n;
      rewrite ?assoc_aset, ?assoc_adel, ?Hn; auto.
  Qed.

  Lemma handler_stores : forall o s p g w, is_access o = true -> rel g p ->
    (forall v, assoc (op_name o) (s_od s) = Some v -> storing g = true) ->
    assoc (op_name o) (s_od (fst (handler o s p))) = Some w -> storing g = true.
  Proof.
    intros o s p g w H [->|[-> ->]] Hold; [|reflexivity].
    destruct o as [n|n v|n|n q|n]; try discriminate; simpl in *; destruct p; simpl; auto;
      unfold amem;
      repeat match goal with
             | |- context [match assoc n (s_od s) with _ => _ end] => destruct (assoc n (s_od s)) eqn:?; simpl
             | |- context [if ?b then _ else _] => destruct b eqn:?; simpl
             | |- context [match validate ?k ?v with _ => _ end] => destruct (validate k v) eqn:?; simpl
             | |- context [match ?k with Some _ => _ | None => _ end] => is_var k; destruct k; simpl
             end; intros Hs; try (eapply Hold; eauto; fail);
      rewrite ?assoc_adel, ?name_eqb_refl in Hs; try discriminate; eauto.
  Qed.

  (* --- invariant bookkeeping --- *)
  Lemma Inv_resync : forall s ls s2 n,
    Inv s ls -> s_itd s2 = s_itd s -> s_ctd s2 = s_ctd s ->
    (forall m, m <> n -> assoc m (s_od s2) = assoc m (s_od s)) ->
    (forall v, assoc n (s_od s2) = Some v -> storing (gov s n) = true) ->
    Inv s2 (mkL (l_itd ls) (match assoc n (s_od s2) with Some v => aset n v (l_od ls) | None => adel n (l_od ls) end)).
  Proof.
    intros s ls s2 n H Hi Hc Hf Hst. constructor; simpl.
    - rewrite Hi. apply (inv_itd _ _ H).
    - intro m. destruct (name_eqb n m) eqn:E.
      + apply name_eqb_eq in E. subst m.
        destruct (assoc n (s_od s2)); rewrite ?assoc_aset, ?assoc_adel, name_eqb_refl; reflexivity.
      + assert (m <> n) by (intro; subst; rewrite name_eqb_refl in E; discriminate).
        rewrite (Hf m) by auto. rewrite <- (inv_od _ _ H).
        destruct (assoc n (s_od s2)); rewrite ?assoc_aset, ?assoc_adel, E; reflexivity.
    - intros m p Hm. rewrite Hc. eapply inv_c1; eauto.
    - intros m p Hm. rewrite Hc in Hm. eapply inv_c2; eauto.
    - intros m v Hm. unfold gov. rewrite Hi. fold (gov s m).
      destruct (name_eqb n m) eqn:E.
      + apply name_eqb_eq in E. subst m. eauto.
      + assert (m <> n) by (intro; subst; rewrite name_eqb_refl in E; discriminate).
        rewrite Hf in Hm by auto. eapply inv_st; eauto.
    - rewrite Hi, Hc. apply (inv_plain _ _ H).
  Qed.

  Definition ctd_ext (s s1 : state) (n : name) : Prop :=
    s_od s1 = s_od s /\ s_itd s1 = s_itd s /\
    (s_ctd s1 = s_ctd s \/
     (assoc n (s_ctd s) = None /\ exists p, s_ctd s1 = aset n p (s_ctd s) /\ rel (model_rule n) p)).

  Lemma Inv_ctd_ext : forall s ls s1 n, Inv s ls -> ctd_ext s s1 n -> Inv s1 ls.
  Proof.
    intros s ls s1 n H (Ho & Hi & Hc). constructor.
    - rewrite Hi. apply (inv_itd _ _ H).
    - intro m. rewrite Ho. apply (inv_od _ _ H).
    - intros m p Hm. destruct Hc as [->|(Hn & q & -> & Hr)]; [eapply inv_c1; eauto|].
      rewrite assoc_aset. destruct (name_eqb n m) eqn:E; [|eapply inv_c1; eauto].
      apply name_eqb_eq in E. subst m. rewrite (inv_c1 _ _ H _ _ Hm) in Hn. discriminate.
    - intros m p Hm. destruct Hc as [Hc|(Hn & q & Hc & Hr)]; rewrite Hc in Hm; [eapply inv_c2; eauto|].
      rewrite assoc_aset in Hm. destruct (name_eqb n m) eqn:E; [|eapply inv_c2; eauto].
      apply name_eqb_eq in E. subst m. inversion Hm; subst. exact Hr.
    - intros m v Hm. unfold gov. rewrite Hi. fold (gov s m). rewrite Ho in Hm. eapply inv_st; eauto.
    - destruct (inv_plain4 _ _ H) as (P1 & P2 & P3 & P4). rewrite Hi. apply plain4; auto.
      destruct Hc as [->|(Hn & q & -> & Hr)]; auto. apply plain_aset; auto.
      eapply model_rule_plain; eauto.
  Qed.

  Lemma ct0_none : forall s ls n, Inv s ls -> assoc n (s_ctd s) = None -> assoc n ct0 = None.
  Proof.
    intros s ls n H Hn. destruct (assoc n ct0) eqn:E; auto. rewrite (inv_c1 _ _ H _ _ E) in Hn. discriminate.
  Qed.

  (* has_traits_setattro's look-up finds a policy the governing rule stands for *)
  Lemma lookup_set_inl : forall s ls n p s1, Inv s ls -> lookup_set pt s n = inl (p, s1) ->
    rel (gov s n) p /\ ctd_ext s s1 n.
  Proof.
    intros s ls n p s1 H. unfold lookup_set, gov, ctd_ext.
    destruct (assoc n (s_itd s)) as [p0|] eqn:Ei.
    - intro E. inversion E; subst. split; [left; reflexivity|auto].
    - destruct (assoc n (s_ctd s)) as [p0|] eqn:Ec.
      + intro E. inversion E; subst. split; [eapply inv_c2; eauto|auto].
      + unfold prefix_trait, model_rule. rewrite (ct0_none _ _ _ H Ec).
        destruct (dunder n).
        * intro E. inversion E; subst. simpl. split; [right; auto|].
          repeat split; auto. right. split; auto. exists (PAny VNone). split; auto.
          right. auto.
        * destruct (first_match n pt) as [[q p1]|] eqn:Ef; intro E; inversion E; subst. simpl.
          split; [left; reflexivity|]. repeat split; auto. right. split; auto. exists p. split; auto.
          left. reflexivity.
  Qed.
  Lemma lookup_set_inr : forall s ls n e, Inv s ls -> lookup_set pt s n = inr e -> gov s n = RNone.
  Proof.
    intros s ls n e H. unfold lookup_set, gov.
    destruct (assoc n (s_itd s)); [discriminate|].
    destruct (assoc n (s_ctd s)) eqn:Ec; [discriminate|].
    unfold prefix_trait, model_rule. rewrite (ct0_none _ _ _ H Ec).
    destruct (dunder n); [discriminate|]. destruct (first_match n pt) as [[q p1]|]; [discriminate|auto].
  Qed.

  (* the look-up and handlers of Model.step for plain traits, and the law's bookkeeping for them *)
  Definition step_p (s : state) (o : op) : state * obs :=
    match o with
    | OGet n =>
        match assoc n (s_od s) with
        | Some v => out s n (Val v)
        | None =>
            match assoc n (s_itd s) with
            | Some p => getattr s n p
            | None =>
                match assoc n (s_ctd s) with
                | Some p => getattr s n p
                | None =>
                    match prefix_trait pt s n false with
                    | inl (p, s') => getattr s' n p
                    | inr e => out s n (Raise e)
                    end
                end
            end
        end
    | OSet n v =>
        match lookup_set pt s n with
        | inl (p, s') => setattr s' n p v
        | inr e => out s n (Raise e)
        end
    | ODel n =>
        match lookup_set pt s n with
        | inl (p, s') => delattr s' n p
        | inr e => out s n (Raise e)
        end
    | OAdd n p => out (mkState (s_ctd s) (aset n p (s_itd s)) (s_od s)) n Done
    | ORem n =>
        match assoc n (s_itd s) with
        | Some _ => out (mkState (s_ctd s) (adel n (s_itd s)) (adel n (s_od s))) n (Val 1)
        | None => if amem n (s_ctd s) then out (set_od s (adel n (s_od s))) n (Val 0) else out s n (Val 0)
        end
    end.

  Definition law_next0 (ls : lstate) (o : op) (ob : obs) : lstate :=
    let n := op_name o in
    let itd := match o, o_out ob with
               | OAdd _ p, Done => aset n p (l_itd ls)
               | ORem _, Val _ => adel n (l_itd ls)
               | _, _ => l_itd ls
               end in
    mkL itd (match o_stored ob with Some v => aset n v (l_od ls) | None => adel n (l_od ls) end).

  Lemma gov_plain : forall s ls, Inv s ls -> forall n p, gov s n = RPol p -> plainp p = true.
  Proof.
    intros s ls HI n p. destruct (inv_plain4 _ _ HI) as (P1 & P2 & P3 & P4). unfold gov.
    destruct (assoc n (s_itd s)) eqn:E; [intro H; inversion H; subst; exact (plain_assoc _ _ _ P3 E)|].
    intro H. eapply model_rule_plain; eauto. left. exact H.
  Qed.

  Lemma demand_m_gov : forall s ls, Inv s ls -> forall n sb o,
    demand_m model_rule ls (gov s n) sb o = demand (gov s n) sb o.
  Proof.
    intros s ls HI n sb o. destruct (gov s n) as [p| |] eqn:Eg; try reflexivity.
    pose proof (gov_plain _ _ HI _ _ Eg) as Hp. destruct p; try discriminate Hp; reflexivity.
  Qed.

  Lemma rel_plain : forall s ls, Inv s ls -> forall n p, rel (gov s n) p -> plainp p = true.
  Proof. intros s ls HI n p [E|[_ ->]]; [eapply gov_plain; eauto|reflexivity]. Qed.

  Lemma demand_m_plain : forall ls g p sb o, rel g p -> plainp p = true -> demand_m model_rule ls g sb o = demand g sb o.
  Proof. intros ls g p sb o [->|[-> ->]] H; [destruct p; try discriminate H|]; reflexivity. Qed.

  Lemma access_handler : forall s ls o p, is_access o = true -> Inv s ls -> rel (gov s (op_name o)) p ->
    (forall n, o = OGet n -> assoc n (s_od s) = None) ->
    law_step model_rule ls o (snd (handler o s p)) = [] /\
    Inv (fst (handler o s p)) (law_next0 ls o (snd (handler o s p))).
  Proof.
    intros s ls o p Ha HI Hr Hg. pose proof (rel_plain _ _ HI _ _ Hr) as Hpl. split.
    - unfold law_step. rewrite (governing_gov _ _ _ HI), (inv_od _ _ HI).
      rewrite (demand_m_plain ls _ p _ o Hr Hpl).
      destruct o as [n|n v|n|n q|n]; try discriminate; simpl op_name in *.
      + rewrite (Hg n eq_refl). pose proof (getattr_ok s n p _ Hr (Hg n eq_refl)) as [A B].
        simpl handler. destruct (demand (gov s n) None (OGet n)) as [w ws] eqn:E.
        assert (ws = None) by (simpl in E; inversion E; reflexivity). subst ws.
        simpl in A, B. apply chk3_nil; auto.
      + pose proof (setattr_ok s n p _ v Hr) as (A & B & D). simpl handler.
        destruct (demand (gov s n) (assoc n (s_od s)) (OSet n v)) as [w ws]. simpl in A, B, D.
        apply chk3_nil; auto.
      + pose proof (delattr_ok s n p _ Hr) as (A & B & D). simpl handler.
        destruct (demand (gov s n) (assoc n (s_od s)) (ODel n)) as [w ws]. simpl in A, B, D.
        apply chk3_nil; auto.
    - destruct (handler_keeps o s p Ha) as (Ki & Kc & Ks).
      assert (E : law_next0 ls o (snd (handler o s p)) =
                  mkL (l_itd ls) (match assoc (op_name o) (s_od (fst (handler o s p))) with
                                  | Some v => aset (op_name o) v (l_od ls)
                                  | None => adel (op_name o) (l_od ls) end)).
      { unfold law_next0. rewrite Ks. destruct o; try discriminate; reflexivity. }
      rewrite E. apply Inv_resync with (s := s); auto.
      + intros m Hm. apply handler_frame; auto.
      + intros v Hv. eapply handler_stores; eauto. intros v0 Hv0. eapply inv_st; eauto.
  Qed.

  Lemma gov_ctd_ext : forall s s1 n m, ctd_ext s s1 n -> gov s1 m = gov s m.
  Proof. intros s s1 n m (_ & Hi & _). unfold gov. rewrite Hi. reflexivity. Qed.

  Lemma step_ok0 : forall s ls o, Inv s ls -> clean_step s o = true ->
    law_step model_rule ls o (snd (step_p s o)) = [] /\
    Inv (fst (step_p s o)) (law_next0 ls o (snd (step_p s o))).
  Proof.
    intros s ls o HI Hc. destruct o as [n|n v|n|n q|n].
    - (* Get *)
      simpl step_p. destruct (assoc n (s_od s)) as [v|] eqn:Eo.
      + (* value in obj.__dict__ *)
        pose proof (inv_st _ _ HI _ _ Eo) as Hst. split.
        * unfold law_step. rewrite (governing_gov _ _ _ HI), (inv_od _ _ HI). simpl op_name. rewrite Eo.
          destruct (gov s n) as [p| |] eqn:Eg; simpl in Hst; try discriminate;
            [pose proof (gov_plain _ _ HI _ _ Eg) as Hp; destruct p; simpl in Hst, Hp; try discriminate|];
            simpl; rewrite Z.eqb_refl; reflexivity.
        * unfold out, law_next0; simpl. rewrite Eo.
          replace (mkL (l_itd ls) (aset n v (l_od ls))) with
            (mkL (l_itd ls) (match assoc n (s_od s) with Some v => aset n v (l_od ls) | None => adel n (l_od ls) end))
            by (rewrite Eo; reflexivity).
          apply Inv_resync with (s := s); auto.
      + destruct (assoc n (s_itd s)) as [p|] eqn:Ei.
        * apply (access_handler s ls (OGet n) p); auto.
          -- unfold gov. simpl. rewrite Ei. left. reflexivity.
          -- intros n0 E. inversion E; subst. auto.
        * destruct (assoc n (s_ctd s)) as [p|] eqn:Ec.
          -- apply (access_handler s ls (OGet n) p); auto.
             ++ unfold gov. simpl. rewrite Ei. eapply inv_c2; eauto.
             ++ intros n0 E. inversion E; subst. auto.
          -- unfold prefix_trait.
             assert (Hg : gov s n = model_rule n) by (unfold gov; rewrite Ei; reflexivity).
             pose proof (ct0_none _ _ _ HI Ec) as H0.
             destruct (dunder n) eqn:Ed.
             ++ (* __x__ read that finds nothing: AttributeError, the law is silent *)
                split.
                ** unfold law_step. rewrite (governing_gov _ _ _ HI), (inv_od _ _ HI). simpl op_name.
                   rewrite Hg. unfold model_rule. rewrite H0, Ed, Eo. reflexivity.
                ** unfold out, law_next0; simpl. rewrite Eo.
                   replace (mkL (l_itd ls) (adel n (l_od ls))) with
                     (mkL (l_itd ls) (match assoc n (s_od s) with Some v => aset n v (l_od ls) | None => adel n (l_od ls) end))
                     by (rewrite Eo; reflexivity).
                   apply Inv_resync with (s := s); auto; intros v0 Hv; rewrite Eo in Hv; discriminate.
             ++ destruct (first_match n pt) as [[q p]|] eqn:Ef.
                ** set (s1 := mkState (aset n p (s_ctd s)) (s_itd s) (s_od s)).
                   assert (Hx : ctd_ext s s1 n).
                   { unfold ctd_ext, s1; simpl. repeat split; auto. right. split; auto. exists p. split; auto.
                     left. unfold model_rule. rewrite H0, Ed, Ef. reflexivity. }
                   apply (access_handler s1 ls (OGet n) p); auto.
                   --- eapply Inv_ctd_ext; eauto.
                   --- simpl op_name. rewrite (gov_ctd_ext _ _ _ _ Hx), Hg. left.
                       unfold model_rule. rewrite H0, Ed, Ef. reflexivity.
                   --- intros n0 E. inversion E; subst. auto.
                ** split.
                   --- unfold law_step. rewrite (governing_gov _ _ _ HI), (inv_od _ _ HI). simpl op_name.
                       rewrite Hg. unfold model_rule. rewrite H0, Ed, Ef. reflexivity.
                   --- unfold out, law_next0; simpl. rewrite Eo.
                       replace (mkL (l_itd ls) (adel n (l_od ls))) with
                         (mkL (l_itd ls) (match assoc n (s_od s) with Some v => aset n v (l_od ls) | None => adel n (l_od ls) end))
                         by (rewrite Eo; reflexivity).
                       apply Inv_resync with (s := s); auto; intros v0 Hv; rewrite Eo in Hv; discriminate.
    - (* Set *)
      simpl step_p. destruct (lookup_set pt s n) as [[p s1]|e] eqn:El.
      + destruct (lookup_set_inl _ _ _ _ _ HI El) as [Hr Hx].
        apply (access_handler s1 ls (OSet n v) p); auto.
        * eapply Inv_ctd_ext; eauto.
        * simpl op_name. rewrite (gov_ctd_ext _ _ _ _ Hx). exact Hr.
        * intros n0 E. discriminate.
      + pose proof (lookup_set_inr _ _ _ _ HI El) as Hn. split.
        * unfold law_step. rewrite (governing_gov _ _ _ HI). simpl op_name. rewrite Hn. reflexivity.
        * unfold out, law_next0; simpl.
          apply Inv_resync with (s := s); auto; intros v0 Hv; eapply inv_st; eauto.
    - (* Del *)
      simpl step_p. destruct (lookup_set pt s n) as [[p s1]|e] eqn:El.
      + destruct (lookup_set_inl _ _ _ _ _ HI El) as [Hr Hx].
        apply (access_handler s1 ls (ODel n) p); auto.
        * eapply Inv_ctd_ext; eauto.
        * simpl op_name. rewrite (gov_ctd_ext _ _ _ _ Hx). exact Hr.
        * intros n0 E. discriminate.
      + pose proof (lookup_set_inr _ _ _ _ HI El) as Hn. split.
        * unfold law_step. rewrite (governing_gov _ _ _ HI). simpl op_name. rewrite Hn. reflexivity.
        * unfold out, law_next0; simpl.
          apply Inv_resync with (s := s); auto; intros v0 Hv; eapply inv_st; eauto.
    - (* add_trait *)
      simpl in Hc. apply andb_true_iff in Hc. destruct Hc as [Hq Hc].
      destruct (inv_plain4 _ _ HI) as (P1 & P2 & P3 & P4).
      split; [reflexivity|]. simpl. constructor; simpl.
      + rewrite (inv_itd _ _ HI). reflexivity.
      + intro m. destruct (assoc n (s_od s)) as [v|] eqn:Eo; rewrite ?assoc_aset, ?assoc_adel.
        * destruct (name_eqb n m) eqn:E; [|apply (inv_od _ _ HI)].
          apply name_eqb_eq in E. subst m. auto.
        * destruct (name_eqb n m) eqn:E; [|apply (inv_od _ _ HI)].
          apply name_eqb_eq in E. subst m. auto.
      + apply (inv_c1 _ _ HI).
      + apply (inv_c2 _ _ HI).
      + intros m v Hm. unfold gov. simpl. rewrite assoc_aset. destruct (name_eqb n m) eqn:E.
        * apply name_eqb_eq in E. subst m. unfold amem in Hc. rewrite Hm in Hc.
          simpl in Hc. rewrite orb_false_r in Hc. exact Hc.
        * fold (gov s m). eapply inv_st; eauto.
      + apply plain4; auto. apply plain_aset; auto.
    - (* remove_trait *)
      simpl step_p. destruct (assoc n (s_itd s)) as [p|] eqn:Ei.
      + destruct (inv_plain4 _ _ HI) as (P1 & P2 & P3 & P4).
        pose proof (plain_assoc _ _ _ P3 Ei) as Hp.
        split.
        * unfold law_step. simpl. unfold amem. rewrite (inv_itd _ _ HI), Ei.
          rewrite assoc_adel, name_eqb_refl. destruct p; try discriminate Hp; reflexivity.
        * unfold out, law_next0; simpl. rewrite assoc_adel, name_eqb_refl. constructor; simpl.
          -- rewrite (inv_itd _ _ HI). reflexivity.
          -- intro m. rewrite !assoc_adel. destruct (name_eqb n m); auto. apply (inv_od _ _ HI).
          -- apply (inv_c1 _ _ HI).
          -- apply (inv_c2 _ _ HI).
          -- intros m v Hm. rewrite assoc_adel in Hm. unfold gov; simpl. rewrite assoc_adel.
             destruct (name_eqb n m); [discriminate|]. fold (gov s m). eapply inv_st; eauto.
          -- apply plain4; auto. apply plain_adel; auto.
      + destruct (inv_plain4 _ _ HI) as (P1 & P2 & P3 & P4).
        assert (Hl : forall a b c, law_step model_rule ls (ORem n) (mkObs (Val 0) a b c) = []).
        { intros a b c. unfold law_step. simpl. unfold amem. rewrite (inv_itd _ _ HI), Ei. auto. }
        assert (Hgov : forall s2, s_itd s2 = s_itd s -> forall m, gov s2 m = gov s m)
          by (intros s2 E m; unfold gov; rewrite E; reflexivity).
        destruct (amem n (s_ctd s)); (split; [apply Hl|]).
        * unfold out, law_next0; simpl. rewrite assoc_adel, name_eqb_refl. constructor; simpl.
          -- rewrite (inv_itd _ _ HI). apply adel_absent; auto.
          -- intro m. rewrite !assoc_adel. destruct (name_eqb n m); auto. apply (inv_od _ _ HI).
          -- apply (inv_c1 _ _ HI).
          -- apply (inv_c2 _ _ HI).
          -- intros m v Hm. rewrite assoc_adel in Hm. rewrite Hgov by reflexivity.
             destruct (name_eqb n m); [discriminate|]. eapply inv_st; eauto.
          -- apply plain4; auto.
        * unfold out, law_next0; simpl.
          replace (adel n (l_itd ls)) with (l_itd ls)
            by (symmetry; apply adel_absent; rewrite (inv_itd _ _ HI); auto).
          apply Inv_resync with (s := s); auto; intros v0 Hv; eapply inv_st; eauto.
  Qed.

  (* --- Model.step on plain traits is [step_p]; the law's full bookkeeping agrees with [law_next0] --- *)
  Lemma getattr_m_plain : forall s n p, plainp p = true -> getattr_m pt s n p = getattr s n p.
  Proof. intros s n p H. destruct p; try discriminate H; reflexivity. Qed.
  Lemma setattr_m_plain : forall s n p v, plainp p = true -> setattr_m pt s n p v = setattr s n p v.
  Proof. intros s n p v H. destruct p; try discriminate H; reflexivity. Qed.

  Lemma step_plain_eq : forall s ls o, Inv s ls -> clean_step s o = true -> step pt s o = step_p s o.
  Proof.
    intros s ls o HI Hc. destruct (inv_plain4 _ _ HI) as (P1 & P2 & P3 & P4).
    destruct o as [n|n v|n|n q|n]; simpl.
    - unfold get_with. destruct (assoc n (s_od s)); auto.
      destruct (assoc n (s_itd s)) eqn:Ei; [apply getattr_m_plain; exact (plain_assoc _ _ _ P3 Ei)|].
      destruct (assoc n (s_ctd s)) eqn:Ec; [apply getattr_m_plain; exact (plain_assoc _ _ _ P4 Ec)|].
      unfold prefix_trait. destruct (dunder n); auto.
      destruct (first_match n pt) as [[q p]|] eqn:Ef; auto.
      apply getattr_m_plain. exact (plain_first_match _ _ _ _ P2 Ef).
    - destruct (lookup_set pt s n) as [[p s1]|e] eqn:El; auto.
      apply setattr_m_plain. destruct (lookup_set_inl _ _ _ _ _ HI El) as [Hr _].
      eapply rel_plain; eauto.
    - reflexivity.
    - simpl in Hc. apply andb_true_iff in Hc. destruct Hc as [Hq _].
      destruct q; try discriminate Hq; reflexivity.
    - unfold rem1, amem. destruct (assoc n (s_itd s)) as [p|] eqn:Ei.
      + pose proof (plain_assoc _ _ _ P3 Ei) as Hp.
        destruct p; try discriminate Hp; simpl; rewrite Ei; reflexivity.
      + destruct (assoc n (s_ctd s)) as [p|] eqn:Ec; [|reflexivity].
        pose proof (plain_assoc _ _ _ P4 Ec) as Hp.
        destruct p; try discriminate Hp; simpl; rewrite Ei, Ec; reflexivity.
  Qed.

  Lemma step_p_out : forall s o, exists s' x, step_p s o = out s' (op_name o) x.
  Proof.
    intros s o. destruct o as [n|n v|n|n q|n]; simpl;
      unfold lookup_set, prefix_trait, getattr, setattr, delattr;
      repeat match goal with
             | |- context [match ?x with _ => _ end] => destruct x
             end; eauto.
  Qed.

  Lemma resync_same : forall (l : list (name * Z)) m v, assoc m l = v ->
    forall k, assoc k (resync m v l) = assoc k l.
  Proof.
    intros l m v E k. unfold resync. destruct v as [x|]; rewrite ?assoc_aset, ?assoc_adel;
      destruct (name_eqb m k) eqn:Em; auto; apply name_eqb_eq in Em; subst; auto.
  Qed.

  Lemma Inv_od_ext : forall s itd lod lod', Inv s (mkL itd lod) ->
    (forall k, assoc k lod' = assoc k lod) -> Inv s (mkL itd lod').
  Proof.
    intros s itd lod lod' H E. destruct H as [A B C1 C2 D P]. constructor; simpl in *; auto.
    intro m. rewrite E. auto.
  Qed.

  Lemma law_next_bridge : forall s ls o, Inv s ls -> clean_step s o = true ->
    Inv (fst (step_p s o)) (law_next0 ls o (snd (step_p s o))) ->
    Inv (fst (step_p s o)) (law_next model_rule ls o (snd (step_p s o))).
  Proof.
    intros s ls o HI Hc H0. destruct (inv_plain4 _ _ HI) as (P1 & P2 & P3 & P4).
    destruct (step_p_out s o) as (s' & x & E). rewrite E in *. simpl fst in *. simpl snd in *.
    assert (Ei : l_itd (law_next model_rule ls o (snd (out s' (op_name o) x))) =
                 l_itd (law_next0 ls o (snd (out s' (op_name o) x)))).
    { unfold law_next, law_next0, out; simpl. destruct o as [n|n v|n|n q|n]; auto.
      - simpl in Hc. apply andb_true_iff in Hc. destruct Hc as [Hq _].
        destruct q; try discriminate Hq; reflexivity.
      - destruct x; auto. unfold found_trait. rewrite (inv_itd _ _ HI). cbn [op_name].
        destruct (assoc n (s_itd s)) as [p|] eqn:Ea.
        + pose proof (plain_assoc _ _ _ P3 Ea) as Hp. destruct p; try discriminate Hp; reflexivity.
        + destruct (model_rule n) as [p| |] eqn:Em; auto.
          assert (Hp : plainp p = true) by (eapply model_rule_plain; eauto; left; exact Em).
          destruct p; try discriminate Hp; reflexivity. }
    remember (law_next0 ls o (snd (out s' (op_name o) x))) as l0 eqn:El0.
    destruct l0 as [itd0 od0]. simpl in Ei.
    pose proof (inv_od _ _ H0) as Hod. simpl in Hod.
    assert (Eod0 : od0 = resync (op_name o) (assoc (op_name o) (s_od s')) (l_od ls)).
    { unfold law_next0, out in El0. simpl in El0. inversion El0. reflexivity. }
    match goal with |- Inv _ ?L => set (ln := L) end.
    assert (Ei' : l_itd ln = itd0) by exact Ei.
    assert (Eln : ln = mkL (l_itd ln) (l_od ln)) by (destruct ln; reflexivity).
    rewrite Eln, Ei'. apply Inv_od_ext with (lod := od0); [rewrite El0; exact H0|].
    unfold ln, law_next, out. cbn [snd o_stored o_shadow o_base o_out l_od].
    match goal with |- context [adel (_ ++ items_suffix) ?B] => set (b := B) end.
    assert (Tail : forall k, assoc k b = assoc k od0).
    { intro k. unfold b. rewrite <- Eod0.
      assert (Hod' : forall m, assoc m od0 = assoc m (s_od s'))
        by (intro m; rewrite Eod0; unfold resync; apply Hod).
      assert (E2 : forall k, assoc k (resync (op_name o ++ [US]) (assoc (op_name o ++ [US]) (s_od s')) od0) = assoc k od0)
        by (apply resync_same; apply Hod').
      destruct (ends_us (op_name o)); [|apply E2].
      rewrite resync_same; [apply E2|]. rewrite E2. apply Hod'. }
    intro k. destruct o as [n|n v|n|n q|n]; try apply Tail.
    destruct x; try apply Tail. unfold found_trait. cbn [op_name].
    rewrite (inv_itd _ _ HI). destruct (assoc n (s_itd s)) as [p|] eqn:Ea.
    - pose proof (plain_assoc _ _ _ P3 Ea) as Hp. destruct p; try discriminate Hp; apply Tail.
    - destruct (model_rule n) as [p| |] eqn:Em; try apply Tail.
      assert (Hp : plainp p = true) by (eapply model_rule_plain; eauto; left; exact Em).
      destruct p; try discriminate Hp; apply Tail.
  Qed.

  Lemma step_ok : forall s ls o, Inv s ls -> clean_step s o = true ->
    law_step model_rule ls o (snd (step pt s o)) = [] /\
    Inv (fst (step pt s o)) (law_next model_rule ls o (snd (step pt s o))).
  Proof.
    intros s ls o HI Hc. rewrite (step_plain_eq s ls o HI Hc).
    destruct (step_ok0 s ls o HI Hc) as [A B]. split; auto. apply law_next_bridge; auto.
  Qed.

  Lemma Inv_init : plain_tab ct0 = true -> plain_tab pt = true -> Inv (init_state ct0) l_init.
  Proof.
    intros P1 P2. constructor; simpl; auto; try discriminate.
    - intros m p H. left. unfold model_rule. rewrite H. reflexivity.
    - rewrite P1, P2. reflexivity.
  Qed.

  Lemma run_law_inv : forall ops s ls i, Inv s ls -> clean_run s ops = true ->
    law_hist model_rule i ls (run pt s ops) = [].
  Proof.
    induction ops as [|o r IH]; intros s ls i HI Hc; simpl; auto.
    simpl in Hc. apply andb_true_iff in Hc. destruct Hc as [Hc1 Hc2].
    destruct (step_ok s ls o HI Hc1) as [Hl Hn].
    destruct (step pt s o) as [s' ob] eqn:E. simpl in *. rewrite Hl. simpl. apply IH; auto.
  Qed.

  Lemma run_law : forall ops i, plain_tab ct0 = true -> plain_tab pt = true ->
    clean_run (init_state ct0) ops = true ->
    law_hist model_rule i l_init (run pt (init_state ct0) ops) = [].
  Proof. intros. apply run_law_inv; auto using Inv_init. Qed.
End Run.

(* ------------------------------------------------------------------ *)
(* Part 4: the tables of update_traits_class_dict against the declarative rule *)

(* (q, p) is THE wildcard governing n in the dictionary l: a matching prefix of maximal length *)
Definition Best (l : ptab) (n q : name) (p : policy) : Prop :=
  assoc q l = Some p /\ is_prefix q n = true /\
  forall q' p', assoc q' l = Some p' -> is_prefix q' n = true -> (length q' <= length q)%nat.

Lemma Best_unique : forall l n q1 p1 q2 p2, Best l n q1 p1 -> Best l n q2 p2 -> q1 = q2 /\ p1 = p2.
Proof.
  intros l n q1 p1 q2 p2 (A1 & B1 & C1) (A2 & B2 & C2).
  assert (q1 = q2).
  { apply (is_prefix_same_length q1 q2 n); auto.
    pose proof (C1 _ _ A2 B2). pose proof (C2 _ _ A1 B1). lia. }
  subst. split; congruence.
Qed.
Lemma Best_ext : forall l l' n q p, (forall k, assoc k l = assoc k l') -> Best l n q p -> Best l' n q p.
Proof.
  intros l l' n q p H (A & B & C). repeat split; auto.
  - rewrite <- H. auto.
  - intros q' p' H1 H2. rewrite <- H in H1. eauto.
Qed.

Lemma prefix_neq : forall k q n, is_prefix k n = false -> is_prefix q n = true -> name_eqb k q = false.
Proof. intros. apply name_eqb_neq. intro. subst. congruence. Qed.

Lemma first_match_assoc : forall n l q p, first_match n l = Some (q, p) -> assoc q l = Some p.
Proof.
  induction l as [|[k v] r IH]; intros q p H; simpl in *; try discriminate.
  destruct (is_prefix k n) eqn:E.
  - inversion H; subst. rewrite name_eqb_refl. reflexivity.
  - pose proof (first_match_sound _ _ _ _ H) as [_ Hq]. rewrite (prefix_neq _ _ _ E Hq). auto.
Qed.

Lemma first_match_Best : forall n l q p, StronglySorted len_ge l -> first_match n l = Some (q, p) -> Best l n q p.
Proof.
  intros n l q p Hs H. split; [eapply first_match_assoc; eauto|].
  split; [eapply first_match_sound; eauto|].
  intros q' p' H1 H2. eapply first_match_sorted_longest; eauto using assoc_In.
Qed.

Lemma best_spec : forall n l,
  match best n l with
  | Some (q, p) => assoc q l = Some p /\ is_prefix q n = true /\
                   forall q' p', In (q', p') l -> is_prefix q' n = true -> (length q' <= length q)%nat
  | None => forall q' p', In (q', p') l -> is_prefix q' n = false
  end.
Proof.
  induction l as [|[k v] r IH]; simpl; [intros; contradiction|].
  destruct (is_prefix k n) eqn:E.
  - destruct (best n r) as [[q0 p0]|].
    + destruct IH as (A & B & C). destruct (Nat.ltb (length k) (length q0)) eqn:El.
      * apply Nat.ltb_lt in El. repeat split; auto.
        -- rewrite name_eqb_neq; auto. intro; subst; lia.
        -- intros q' p' [Hi|Hi] Hp; [inversion Hi; subst; lia|eauto].
      * apply Nat.ltb_ge in El. rewrite name_eqb_refl. repeat split; auto.
        intros q' p' [Hi|Hi] Hp; [inversion Hi; subst; lia|]. specialize (C _ _ Hi Hp). lia.
    + rewrite name_eqb_refl. repeat split; auto.
      intros q' p' [Hi|Hi] Hp; [inversion Hi; subst; lia|]. rewrite (IH _ _ Hi) in Hp. discriminate.
  - destruct (best n r) as [[q0 p0]|].
    + destruct IH as (A & B & C). repeat split; auto.
      * rewrite (prefix_neq _ _ _ E B). auto.
      * intros q' p' [Hi|Hi] Hp; [inversion Hi; subst; congruence|eauto].
    + intros q' p' [Hi|Hi]; [inversion Hi; subst; auto|eauto].
Qed.

Lemma best_Best : forall n l q p, best n l = Some (q, p) -> Best l n q p.
Proof.
  intros n l q p H. pose proof (best_spec n l) as S. rewrite H in S. destruct S as (A & B & C).
  repeat split; auto. intros q' p' H1 H2. eauto using assoc_In.
Qed.

Definition wild (o : option (name * policy)) : rule :=
  match o with Some (_, p) => RPol p | None => RNone end.

(* first match in the sorted table = longest matching wildcard of the declarations *)
Lemma first_match_best : forall n l l', StronglySorted len_ge l -> (forall k, assoc k l = assoc k l') ->
  wild (first_match n l) = wild (best n l').
Proof.
  intros n l l' Hs He.
  destruct (first_match n l) as [[q p]|] eqn:E1; destruct (best n l') as [[q' p']|] eqn:E2; simpl; auto.
  - pose proof (Best_ext _ _ _ _ _ He (first_match_Best _ _ _ _ Hs E1)) as B1.
    pose proof (best_Best _ _ _ _ E2) as B2. destruct (Best_unique _ _ _ _ _ _ B1 B2). congruence.
  - exfalso. pose proof (first_match_Best _ _ _ _ Hs E1) as (A & B & _). rewrite He in A.
    pose proof (best_spec n l') as S. rewrite E2 in S. rewrite (S _ _ (assoc_In _ _ _ A)) in B. discriminate.
  - exfalso. pose proof (best_Best _ _ _ _ E2) as (A & B & _). rewrite <- He in A.
    rewrite (first_match_none _ _ E1 _ _ (assoc_In _ _ _ A)) in B. discriminate.
Qed.

(* merging a base: `if name not in ...` keeps what is there *)
Lemma merge_tab_assoc : forall base t n,
  assoc n (merge_tab t base) = match assoc n t with Some v => Some v | None => assoc n base end.
Proof.
  unfold merge_tab. induction base as [|[k v] r IH]; intros t n; simpl.
  - destruct (assoc n t); reflexivity.
  - rewrite IH. unfold amem. destruct (assoc k t) eqn:Ek.
    + destruct (assoc n t) eqn:En; auto. destruct (name_eqb k n) eqn:E; auto.
      apply name_eqb_eq in E. subst. congruence.
    + rewrite assoc_app. simpl. destruct (assoc n t); auto.
      destruct (name_eqb k n); auto.
Qed.

Definition tab_eq (a b : list (name * policy)) : Prop := forall n, assoc n a = assoc n b.

Lemma tab_eq_app : forall a b c, tab_eq a b -> tab_eq (a ++ c) (b ++ c).
Proof. intros a b c H n. rewrite !assoc_app, (H n). reflexivity. Qed.

Lemma merge_bases_fst : forall (T : list (ctab * ptab)) bases (a : ctab * ptab),
  fst (fold_left (fun acc b => (merge_tab (fst acc) (fst (tabs_nth T b)), merge_tab (snd acc) (snd (tabs_nth T b)))) bases a)
  = fold_left (fun t b => merge_tab t (fst (tabs_nth T b))) bases (fst a).
Proof. induction bases as [|b r IH]; intros a; simpl; auto. rewrite IH. reflexivity. Qed.
Lemma merge_bases_snd : forall (T : list (ctab * ptab)) bases (a : ctab * ptab),
  snd (fold_left (fun acc b => (merge_tab (fst acc) (fst (tabs_nth T b)), merge_tab (snd acc) (snd (tabs_nth T b)))) bases a)
  = fold_left (fun t b => merge_tab t (snd (tabs_nth T b))) bases (snd a).
Proof. induction bases as [|b r IH]; intros a; simpl; auto. rewrite IH. reflexivity. Qed.

Lemma merge_fold_assoc : forall (f g : nat -> list (name * policy)) bases t x,
  (forall b, tab_eq (f b) (g b)) -> tab_eq t x ->
  tab_eq (fold_left (fun t b => merge_tab t (f b)) bases t) (x ++ flat_map g bases).
Proof.
  induction bases as [|b r IH]; intros t x Hf Ht; simpl.
  - rewrite app_nil_r. auto.
  - rewrite app_assoc. apply IH; auto. intro n. rewrite merge_tab_assoc, assoc_app, Ht, Hf. reflexivity.
Qed.

(* invariant between the tables and the visible declarations of all classes created so far *)
Definition agree (T V : list (ctab * ptab)) : Prop :=
  length T = length V /\
  forall c, tab_eq (fst (tabs_nth T c)) (fst (vis_nth V c)) /\
            tab_eq (snd (tabs_nth T c)) (snd (vis_nth V c)) /\
            StronglySorted len_ge (snd (tabs_nth T c)).

Lemma build_vis_agree : forall T V cd, agree T V ->
  tab_eq (fst (build_class T cd)) (fst (vis_class V cd)) /\
  tab_eq (snd (build_class T cd)) (snd (vis_class V cd)) /\
  StronglySorted len_ge (snd (build_class T cd)).
Proof.
  intros T V cd [_ H]. unfold build_class, vis_class. simpl. rewrite merge_bases_fst, merge_bases_snd.
  split; [|split].
  - apply merge_fold_assoc; [intro b; apply H|intro; reflexivity].
  - intro n. rewrite assoc_sort_len.
    assert (E : tab_eq (fold_left (fun t b => merge_tab t (snd (tabs_nth T b))) (c_bases cd) (snd (own_tables (c_decls cd))))
                       (snd (own_tables (c_decls cd)) ++ flat_map (fun b => snd (vis_nth V b)) (c_bases cd)))
      by (apply merge_fold_assoc; [intro b; apply H|intro; reflexivity]).
    unfold amem. rewrite (E []).
    destruct (assoc [] (snd (own_tables (c_decls cd)) ++ flat_map (fun b => snd (vis_nth V b)) (c_bases cd))).
    + apply E.
    + apply tab_eq_app. exact E.
  - apply sort_len_sorted.
Qed.

Lemma agree_snoc : forall T V cd, agree T V -> agree (T ++ [build_class T cd]) (V ++ [vis_class V cd]).
Proof.
  intros T V cd HA. pose proof (build_vis_agree T V cd HA) as HB. destruct HA as [HL HA].
  split; [rewrite !app_length; simpl; lia|].
  intro c. unfold tabs_nth, vis_nth.
  destruct (Nat.lt_ge_cases c (length T)) as [Hc|Hc].
  - rewrite !app_nth1 by lia. apply HA.
  - rewrite !app_nth2 by lia. rewrite <- HL. destruct (c - length T)%nat as [|k]; simpl.
    + exact HB.
    + destruct k; simpl; repeat split; try (intro; reflexivity); constructor.
Qed.

Lemma agree_from : forall h T V, agree T V -> agree (tables_from T h) (visible_from V h).
Proof.
  induction h as [|cd r IH]; intros T V HA; simpl; auto.
  apply IH. apply agree_snoc. auto.
Qed.

Lemma agree_all : forall h, agree (tables h) (visible h).
Proof.
  intro h. apply agree_from. split; auto. intro c. unfold tabs_nth, vis_nth.
  destruct c; simpl; repeat split; try (intro; reflexivity); constructor.
Qed.

(* resolve_order: for every hierarchy, class and name the class tables built by
   update_traits_class_dict resolve the name exactly as the declarative rule of the law *)
Lemma resolve_order_lemma : forall h c n,
  model_rule (fst (tabs_nth (tables h) c)) (snd (tabs_nth (tables h) c)) n = class_rule (vis_nth (visible h) c) n.
Proof.
  intros h c n. destruct (agree_all h) as [_ H]. destruct (H c) as (A & B & S).
  unfold model_rule, class_rule. rewrite (A n).
  destruct (assoc n (fst (vis_nth (visible h) c))); auto.
  destruct (dunder n); auto.
  pose proof (first_match_best n _ _ S B) as E. unfold wild in E.
  destruct (first_match n (snd (tabs_nth (tables h) c))) as [[? ?]|];
    destruct (best n (snd (vis_nth (visible h) c))) as [[? ?]|]; auto.
Qed.

(* ------------------------------------------------------------------ *)
(* Part 5: the main theorem against the declarative rule, and the policy clauses *)

Lemma law_step_ext : forall (r1 r2 : name -> rule), (forall n, r1 n = r2 n) ->
  forall ls o ob, law_step r1 ls o ob = law_step r2 ls o ob.
Proof.
  intros r1 r2 He ls o ob. unfold law_step, demand_m, governing. rewrite !He. reflexivity.
Qed.
Lemma law_next_ext : forall (r1 r2 : name -> rule), (forall n, r1 n = r2 n) ->
  forall ls o ob, law_next r1 ls o ob = law_next r2 ls o ob.
Proof.
  intros r1 r2 He ls o ob. unfold law_next, found_trait. rewrite !He. reflexivity.
Qed.

Lemma law_hist_ext : forall (r1 r2 : name -> rule), (forall n, r1 n = r2 n) ->
  forall h i ls, law_hist r1 i ls h = law_hist r2 i ls h.
Proof.
  intros r1 r2 He. induction h as [|[o ob] r IH]; intros i ls; simpl; auto.
  rewrite IH, (law_step_ext _ _ He), (law_next_ext _ _ He). reflexivity.
Qed.

Lemma class_tables_rule : forall h c n,
  model_rule (fst (class_tables h c)) (snd (class_tables h c)) n = spec_rule h c n.
Proof. intros. unfold class_tables, spec_rule. apply resolve_order_lemma. Qed.

(* no mapped trait in the class tables (mapped traits: Part 9) *)
Definition plain_class (h : list classdef) (c : nat) : bool :=
  plain_tab (fst (class_tables h c)) && plain_tab (snd (class_tables h c)).

Lemma law_all_histories : forall h c ops i,
  plain_class h c = true ->
  clean_run (snd (class_tables h c)) (init_state (fst (class_tables h c))) ops = true ->
  law_hist (spec_rule h c) i l_init
           (run (snd (class_tables h c)) (init_state (fst (class_tables h c))) ops) = [].
Proof.
  intros h c ops i Hp Hc. apply andb_true_iff in Hp. destruct Hp as [P1 P2].
  rewrite <- (law_hist_ext _ _ (class_tables_rule h c)). apply run_law; auto.
Qed.

(* states reachable by clean histories satisfy the invariant *)
Lemma final_Inv : forall ct0 pt ops s ls, Inv ct0 pt s ls -> clean_run pt s ops = true ->
  exists ls', Inv ct0 pt (final_state pt s ops) ls'.
Proof.
  induction ops as [|o r IH]; intros s ls HI Hc; simpl; [eauto|].
  simpl in Hc. apply andb_true_iff in Hc. destruct Hc as [H1 H2].
  destruct (step_ok ct0 pt s ls o HI H1) as [_ Hn]. eapply IH; eauto.
Qed.

Lemma chk3_inv : forall k1 k2 k3 a b c, chk k1 a ++ chk k2 b ++ chk k3 c = [] -> a = true /\ b = true /\ c = true.
Proof. intros k1 k2 k3 [] [] []; simpl; intro H; try discriminate; auto. Qed.

Section Clauses.
  Variable ct0 : ctab.
  Variable pt : ptab.
  Notation gov := (gov ct0 pt).
  Notation Inv := (Inv ct0 pt).

  (* one access of a name: the observation is what the governing policy demands *)
  Lemma step_demand : forall s ls o, Inv s ls -> is_access o = true ->
    let ob := snd (step pt s o) in
    let d := demand (gov s (op_name o)) (assoc (op_name o) (s_od s)) o in
    class_ok (fst d) (o_out ob) = true /\ value_ok (fst d) (o_out ob) = true /\
    stored_ok (snd d) (o_stored ob) = true.
  Proof.
    intros s ls o HI Ha.
    assert (Hc : clean_step s o = true) by (destruct o; try discriminate; reflexivity).
    destruct (step_ok ct0 pt s ls o HI Hc) as [Hl _].
    unfold law_step in Hl. rewrite (governing_gov ct0 pt _ _ _ HI), (inv_od _ _ _ _ HI) in Hl.
    rewrite (demand_m_gov ct0 pt _ _ HI) in Hl.
    destruct o; try discriminate; simpl op_name in *;
      match type of Hl with context [demand ?g ?sb ?o] => destruct (demand g sb o) as [w ws] end;
      apply chk3_inv in Hl; exact Hl.
  Qed.

  Lemma class_raise : forall e o, class_ok (WRaise e) o = true -> o = Raise e.
  Proof. intros e [v| |e'] H; simpl in H; try discriminate. destruct e, e'; try discriminate; reflexivity. Qed.
  Lemma class_done : forall o, class_ok WDone o = true -> o = Done.
  Proof. intros [v| |e'] H; simpl in H; try discriminate; reflexivity. Qed.
  Lemma class_val : forall v o, class_ok (WVal v) o = true -> value_ok (WVal v) o = true -> o = Val v.
  Proof. intros v [v'| |e'] H1 H2; simpl in *; try discriminate. apply Z.eqb_eq in H2. congruence. Qed.
  Lemma stored_some : forall x st, stored_ok (Some x) st = true -> st = x.
  Proof.
    intros [a|] [b|] H; simpl in H; try discriminate; auto. apply Z.eqb_eq in H. congruence.
  Qed.

  Ltac crush_step :=
    unfold get_with, getattr_m, getattr0, getattr_map, setattr_m, post_map, nested_set, lookup_set,
           prefix_trait, getattr, setattr, delattr, rem1;
    repeat match goal with
           | |- context [match ?x with _ => _ end] => destruct x
           end.

  Lemma step_out : forall s o, exists s' x, step pt s o = out s' (op_name o) x.
  Proof.
    intros s o. destruct o as [n|n v|n|n q|n]; simpl.
    - crush_step; eauto.
    - crush_step; eauto.
    - crush_step; eauto.
    - eauto.
    - crush_step; eauto.
  Qed.

  Lemma step_stored : forall s o, o_stored (snd (step pt s o)) = assoc (op_name o) (s_od (fst (step pt s o))).
  Proof. intros s o. destruct (step_out s o) as (s' & x & E). rewrite E. reflexivity. Qed.

  Lemma step_stored_set : forall s n v,
    o_stored (snd (step pt s (OSet n v))) = assoc n (s_od (fst (step pt s (OSet n v)))).
  Proof. intros. exact (step_stored s (OSet n v)). Qed.
  Lemma step_stored_del : forall s n,
    o_stored (snd (step pt s (ODel n))) = assoc n (s_od (fst (step pt s (ODel n)))).
  Proof. intros. exact (step_stored s (ODel n)). Qed.

  (* --- instance traits change only by add_trait / remove_trait (mapped traits included) --- *)
  Lemma getattr_itd : forall s n p, s_itd (fst (getattr s n p)) = s_itd s.
  Proof. intros s n p. destruct p; reflexivity. Qed.
  Lemma setattr_itd : forall s n p v, s_itd (fst (setattr s n p v)) = s_itd s.
  Proof.
    intros s n p v. destruct p as [ |d| |d|c|k|k d|m d|m| ]; simpl; auto.
    - destruct (negb (Z.eqb d VUndef)); [reflexivity|].
      destruct (assoc n (s_od s)) as [w|]; [destruct (Z.eqb w VUndef)|]; reflexivity.
    - destruct k as [k|]; [destruct (validate k v)|]; reflexivity.
    - destruct (Z.eqb v VUndef); [|destruct (validate k v)]; reflexivity.
    - destruct (Z.eqb v VUndef); [|destruct (zassoc v m)]; reflexivity.
    - destruct (Z.eqb v VUndef); reflexivity.
  Qed.
  Lemma delattr_itd : forall s n p, s_itd (fst (delattr s n p)) = s_itd s.
  Proof. intros s n p. destruct p; simpl; auto. destruct (amem n (s_od s)); reflexivity. Qed.
  Lemma prefix_trait_itd : forall s n b p s', prefix_trait pt s n b = inl (p, s') -> s_itd s' = s_itd s.
  Proof.
    intros s n b p s'. unfold prefix_trait. destruct (dunder n).
    - destruct b; [|discriminate]. intro E. inversion E. reflexivity.
    - destruct (first_match n pt) as [[q p1]|]; [|discriminate]. intro E. inversion E. reflexivity.
  Qed.
  Lemma lookup_set_itd : forall s n p s', lookup_set pt s n = inl (p, s') -> s_itd s' = s_itd s.
  Proof.
    intros s n p s'. unfold lookup_set. destruct (assoc n (s_itd s)); [intro E; inversion E; reflexivity|].
    destruct (assoc n (s_ctd s)); [intro E; inversion E; reflexivity|]. apply prefix_trait_itd.
  Qed.
  Lemma nested_set_itd : forall s m w, s_itd (fst (nested_set pt s m w)) = s_itd s.
  Proof.
    intros s m w. unfold nested_set. destruct (lookup_set pt s m) as [[p s']|e] eqn:E; [|reflexivity].
    pose proof (setattr_itd s' m p w) as H. destruct (setattr s' m p w) as [s'' ob]. simpl in *.
    rewrite H. eapply lookup_set_itd; eauto.
  Qed.
  Lemma post_map_itd : forall s n m v, s_itd (fst (post_map pt s n m v)) = s_itd s.
  Proof. intros s n m v. unfold post_map. destruct (zassoc v m); [apply nested_set_itd|reflexivity]. Qed.
  Lemma getattr0_itd : forall s n p, s_itd (fst (getattr0 pt s n p)) = s_itd s.
  Proof.
    intros s n p. destruct p; try apply getattr_itd. unfold getattr0, getattr_map.
    pose proof (post_map_itd (set_od s (aset n d (s_od s))) n m d) as H.
    destruct (post_map pt (set_od s (aset n d (s_od s))) n m d) as [s1 e]. simpl in H.
    destruct e; simpl; exact H.
  Qed.
  Lemma get_with_itd : forall ga, (forall s n p, s_itd (fst (ga s n p)) = s_itd s) ->
    forall s n, s_itd (fst (get_with pt ga s n)) = s_itd s.
  Proof.
    intros ga H s n. unfold get_with. destruct (assoc n (s_od s)); [reflexivity|].
    destruct (assoc n (s_itd s)); [apply H|]. destruct (assoc n (s_ctd s)); [apply H|].
    destruct (prefix_trait pt s n false) as [[p s']|e] eqn:E; [|reflexivity].
    rewrite H. eapply prefix_trait_itd; eauto.
  Qed.
  Lemma getattr_m_itd : forall s n p, s_itd (fst (getattr_m pt s n p)) = s_itd s.
  Proof.
    intros s n p. destruct p; try apply getattr0_itd. unfold getattr_m.
    pose proof (get_with_itd (getattr0 pt) getattr0_itd s (removelast n)) as H.
    destruct (get_with pt (getattr0 pt) s (removelast n)) as [s1 ob]. simpl in H.
    destruct (o_out ob) as [x| |e]; simpl; auto. destruct (zassoc x m); simpl; auto.
  Qed.
  Lemma setattr_m_itd : forall s n p v, s_itd (fst (setattr_m pt s n p v)) = s_itd s.
  Proof.
    intros s n p v. destruct p; try apply setattr_itd. unfold setattr_m.
    destruct (negb (Z.eqb v VUndef) && match zassoc v m with Some _ => false | None => true end); [reflexivity|].
    destruct (assoc n (s_od s)) as [o|].
    - destruct (Z.eqb o v); [reflexivity|].
      pose proof (post_map_itd (set_od s (aset n v (s_od s))) n m v) as H.
      destruct (post_map pt (set_od s (aset n v (s_od s))) n m v) as [s3 e]. simpl in H. destruct e; exact H.
    - pose proof (post_map_itd (set_od s (aset n d (s_od s))) n m d) as H1.
      destruct (post_map pt (set_od s (aset n d (s_od s))) n m d) as [s1 e1]. simpl in H1.
      destruct e1; [exact H1|]. destruct (Z.eqb d v); [exact H1|].
      pose proof (post_map_itd (set_od s1 (aset n v (s_od s1))) n m v) as H.
      destruct (post_map pt (set_od s1 (aset n v (s_od s1))) n m v) as [s3 e]. simpl in H.
      destruct e; simpl; rewrite H; exact H1.
  Qed.

  Lemma step_itd_access : forall s o, is_access o = true -> s_itd (fst (step pt s o)) = s_itd s.
  Proof.
    intros s o Ha. destruct o as [n|n v|n|n q|n]; try discriminate; simpl.
    - apply get_with_itd. apply getattr_m_itd.
    - destruct (lookup_set pt s n) as [[p s']|e] eqn:E; [|reflexivity].
      rewrite setattr_m_itd. eapply lookup_set_itd; eauto.
    - destruct (lookup_set pt s n) as [[p s']|e] eqn:E; [|reflexivity].
      rewrite delattr_itd. eapply lookup_set_itd; eauto.
  Qed.

  (* get / set / del never change which trait governs any name *)
  Lemma gov_access_stable : forall s o m, is_access o = true -> gov (fst (step pt s o)) m = gov s m.
  Proof. intros s o m Ha. unfold Proofs.gov. rewrite step_itd_access; auto. Qed.

  (* --- strict_undeclared_rejected / Disallow --- *)
  Lemma disallow_rejects : forall s ls n v, Inv s ls -> gov s n = RPol PDisallow ->
    (assoc n (s_od s) = None -> o_out (snd (step pt s (OGet n))) = Raise AttributeError) /\
    o_out (snd (step pt s (OSet n v))) = Raise TraitError /\
    o_out (snd (step pt s (ODel n))) = Raise TraitError /\
    assoc n (s_od (fst (step pt s (OSet n v)))) = assoc n (s_od s).
  Proof.
    intros s ls n v HI Hg.
    pose proof (step_demand s ls (OGet n) HI eq_refl) as (G1 & _ & _).
    pose proof (step_demand s ls (OSet n v) HI eq_refl) as (S1 & _ & S3).
    pose proof (step_demand s ls (ODel n) HI eq_refl) as (D1 & _ & _).
    simpl op_name in *. rewrite Hg in *. cbn [demand fst snd] in G1, S1, S3, D1.
    repeat split; auto using class_raise.
    rewrite <- (step_stored_set s n v). apply stored_some in S3. exact S3.
  Qed.

  (* --- readonly_exactly_one_defining_assignment --- *)
  Lemma readonly_once : forall s ls n v w, Inv s ls -> gov s n = RPol (PReadOnly VUndef) ->
    defined (assoc n (s_od s)) = false -> v <> VUndef ->
    let s1 := fst (step pt s (OSet n v)) in
    o_out (snd (step pt s (OSet n v))) = Done /\
    o_out (snd (step pt s1 (OGet n))) = Val v /\
    o_out (snd (step pt s1 (OSet n w))) = Raise TraitError /\
    o_out (snd (step pt s1 (ODel n))) = Raise TraitError /\
    assoc n (s_od (fst (step pt s1 (OSet n w)))) = Some v.
  Proof.
    intros s ls n v w HI Hg Hd Hv s1.
    pose proof (step_demand s ls (OSet n v) HI eq_refl) as (S1 & _ & S3).
    simpl op_name in *. rewrite Hg in *. cbn [demand fst snd] in S1, S3. rewrite Hd in S1, S3. cbn [demand fst snd] in S1, S3.
    apply class_done in S1. apply stored_some in S3. rewrite (step_stored_set s n v) in S3. fold s1 in S3.
    destruct (step_ok ct0 pt s ls (OSet n v) HI eq_refl) as [_ HI1]. fold s1 in HI1.
    assert (Hg1 : gov s1 n = RPol (PReadOnly VUndef)) by (unfold s1; rewrite gov_access_stable; auto).
    assert (Hdef : defined (Some v) = true) by (simpl; apply negb_true_iff; apply Z.eqb_neq; exact Hv).
    pose proof (step_demand s1 _ (OGet n) HI1 eq_refl) as (G1 & G2 & _).
    pose proof (step_demand s1 _ (OSet n w) HI1 eq_refl) as (T1 & _ & T3).
    pose proof (step_demand s1 _ (ODel n) HI1 eq_refl) as (D1 & _ & _).
    simpl op_name in *. rewrite Hg1, S3 in *. cbn [demand fst snd] in G1, G2, T1, T3, D1.
    rewrite Hdef in T1, T3. cbn [demand fst snd] in T1, T3.
    repeat split; auto using class_raise, class_val.
    rewrite <- (step_stored_set s1 n w). apply stored_some in T3. exact T3.
  Qed.

  (* --- constant_never_changes --- *)
  Lemma constant_fixed : forall s ls n c v, Inv s ls -> gov s n = RPol (PConstant c) ->
    (assoc n (s_od s) = None -> o_out (snd (step pt s (OGet n))) = Val c) /\
    o_out (snd (step pt s (OSet n v))) = Raise TraitError /\
    o_out (snd (step pt s (ODel n))) = Raise TraitError /\
    assoc n (s_od (fst (step pt s (OSet n v)))) = assoc n (s_od s) /\
    assoc n (s_od (fst (step pt s (ODel n)))) = assoc n (s_od s).
  Proof.
    intros s ls n c v HI Hg.
    pose proof (step_demand s ls (OGet n) HI eq_refl) as (G1 & G2 & _).
    pose proof (step_demand s ls (OSet n v) HI eq_refl) as (S1 & _ & S3).
    pose proof (step_demand s ls (ODel n) HI eq_refl) as (D1 & _ & D3).
    simpl op_name in *. rewrite Hg in *. cbn [demand fst snd] in G1, G2, S1, S3, D1, D3.
    repeat split; auto using class_raise, class_val.
    - rewrite <- (step_stored_set s n v). apply stored_some in S3. exact S3.
    - rewrite <- (step_stored_del s n). apply stored_some in D3. exact D3.
  Qed.

  (* --- event_write_only --- *)
  Lemma event_wo : forall s ls n v, Inv s ls -> gov s n = RPol (PEvent None) ->
    o_out (snd (step pt s (OSet n v))) = Done /\
    (assoc n (s_od s) = None -> o_out (snd (step pt s (OGet n))) = Raise AttributeError) /\
    assoc n (s_od (fst (step pt s (OSet n v)))) = assoc n (s_od s).
  Proof.
    intros s ls n v HI Hg.
    pose proof (step_demand s ls (OGet n) HI eq_refl) as (G1 & _ & _).
    pose proof (step_demand s ls (OSet n v) HI eq_refl) as (S1 & _ & S3).
    simpl op_name in *. rewrite Hg in *. cbn [demand fst snd] in G1, S1, S3.
    repeat split; auto using class_raise, class_done.
    rewrite <- (step_stored_set s n v). apply stored_some in S3. exact S3.
  Qed.

  (* ReadOnly(d) with a given default: the default is the defining value, nothing can be assigned *)
  Lemma readonly_default_fixed : forall s ls n d v, Inv s ls -> gov s n = RPol (PReadOnly d) -> d <> VUndef ->
    (assoc n (s_od s) = None -> o_out (snd (step pt s (OGet n))) = Val d) /\
    o_out (snd (step pt s (OSet n v))) = Raise TraitError /\
    o_out (snd (step pt s (ODel n))) = Raise TraitError /\
    assoc n (s_od (fst (step pt s (OSet n v)))) = assoc n (s_od s).
  Proof.
    intros s ls n d v HI Hg Hd.
    pose proof (step_demand s ls (OGet n) HI eq_refl) as (G1 & G2 & _).
    pose proof (step_demand s ls (OSet n v) HI eq_refl) as (S1 & _ & S3).
    pose proof (step_demand s ls (ODel n) HI eq_refl) as (D1 & _ & _).
    simpl op_name in *. rewrite Hg in *. cbn [demand fst snd] in G1, G2, S1, S3, D1.
    assert (E : negb (Z.eqb d VUndef) = true) by (apply negb_true_iff; apply Z.eqb_neq; exact Hd).
    rewrite E in S1, S3. cbn [orb fst snd] in S1, S3.
    repeat split; auto using class_raise.
    - intro Hn. rewrite Hn in G1, G2. auto using class_val.
    - rewrite <- (step_stored_set s n v). apply stored_some in S3. exact S3.
  Qed.

  (* an Event with a value type: write-only, and fires only for values its validator accepts *)
  Lemma event_typed : forall s ls n k v, Inv s ls -> gov s n = RPol (PEvent (Some k)) ->
    o_out (snd (step pt s (OSet n v))) = (match validate k v with Some _ => Done | None => Raise TraitError end) /\
    (assoc n (s_od s) = None -> o_out (snd (step pt s (OGet n))) = Raise AttributeError) /\
    assoc n (s_od (fst (step pt s (OSet n v)))) = assoc n (s_od s).
  Proof.
    intros s ls n k v HI Hg.
    pose proof (step_demand s ls (OGet n) HI eq_refl) as (G1 & _ & _).
    pose proof (step_demand s ls (OSet n v) HI eq_refl) as (S1 & _ & S3).
    simpl op_name in *. rewrite Hg in *. cbn [demand fst snd] in G1, S1, S3.
    repeat split; auto using class_raise.
    - destruct (validate k v); cbn [fst] in S1; auto using class_raise, class_done.
    - rewrite <- (step_stored_set s n v).
      destruct (validate k v); cbn [snd] in S3; apply stored_some in S3; exact S3.
  Qed.

  (* in a state reached by a clean history nothing is stored under a non-storing policy *)
  Lemma nothing_stored : forall s ls n, Inv s ls -> storing (gov s n) = false -> assoc n (s_od s) = None.
  Proof.
    intros s ls n HI Hs. destruct (assoc n (s_od s)) eqn:E; auto.
    rewrite (inv_st _ _ _ _ HI _ _ E) in Hs. discriminate.
  Qed.

  (* --- untyped policies (private names, plain Python attributes): any value is accepted and read back --- *)
  Lemma untyped_accepts : forall s ls n v d, Inv s ls ->
    (gov s n = RPol (PAny d) \/ gov s n = RPol PPython \/ gov s n = RDunder) ->
    let s1 := fst (step pt s (OSet n v)) in
    o_out (snd (step pt s (OSet n v))) = Done /\ o_out (snd (step pt s1 (OGet n))) = Val v.
  Proof.
    intros s ls n v d HI Hg s1.
    pose proof (step_demand s ls (OSet n v) HI eq_refl) as (S1 & _ & S3). simpl op_name in *.
    assert (S1' : class_ok WDone (o_out (snd (step pt s (OSet n v)))) = true /\
                  stored_ok (Some (Some v)) (o_stored (snd (step pt s (OSet n v)))) = true)
      by (destruct Hg as [Hg|[Hg|Hg]]; rewrite Hg in S1, S3; simpl in S1, S3; auto).
    destruct S1' as [A B]. apply class_done in A. apply stored_some in B.
    rewrite (step_stored_set s n v) in B. fold s1 in B. split; auto.
    destruct (step_ok ct0 pt s ls (OSet n v) HI eq_refl) as [_ HI1]. fold s1 in HI1.
    pose proof (step_demand s1 _ (OGet n) HI1 eq_refl) as (G1 & G2 & _). simpl op_name in *.
    rewrite B in G1, G2. unfold s1 in G1, G2. rewrite gov_access_stable in G1, G2 by reflexivity.
    destruct Hg as [Hg|[Hg|Hg]]; rewrite Hg in G1, G2; simpl in G1, G2; auto using class_val.
  Qed.

  (* --- typed traits: the trait's own validator decides, for every validator --- *)
  Lemma typed_validates : forall s ls n k d v, Inv s ls -> gov s n = RPol (PTyped k d) -> v <> VUndef ->
    let s1 := fst (step pt s (OSet n v)) in
    match validate k v with
    | Some w => o_out (snd (step pt s (OSet n v))) = Done /\ o_out (snd (step pt s1 (OGet n))) = Val w
    | None => o_out (snd (step pt s (OSet n v))) = Raise TraitError /\ assoc n (s_od s1) = assoc n (s_od s)
    end.
  Proof.
    intros s ls n k d v HI Hg Hv s1.
    pose proof (step_demand s ls (OSet n v) HI eq_refl) as (S1 & _ & S3). simpl op_name in *.
    rewrite Hg in S1, S3. cbn [demand] in S1, S3.
    assert (E : Z.eqb v VUndef = false) by (apply Z.eqb_neq; exact Hv). rewrite E in S1, S3.
    destruct (validate k v) as [w|]; cbn [fst snd] in S1, S3.
    - apply class_done in S1. apply stored_some in S3. rewrite (step_stored_set s n v) in S3. fold s1 in S3.
      split; auto.
      destruct (step_ok ct0 pt s ls (OSet n v) HI eq_refl) as [_ HI1]. fold s1 in HI1.
      pose proof (step_demand s1 _ (OGet n) HI1 eq_refl) as (G1 & G2 & _). simpl op_name in *.
      rewrite S3 in G1, G2. unfold s1 in G1, G2. rewrite gov_access_stable in G1, G2 by reflexivity.
      rewrite Hg in G1, G2. cbn [demand fst snd] in G1, G2. auto using class_val.
    - split; [auto using class_raise|]. apply stored_some in S3.
      rewrite (step_stored_set s n v) in S3. exact S3.
  Qed.

  (* --- remove_trait_restores_class_rule --- *)
  Lemma remove_restores : forall s ls n, Inv s ls ->
    let s1 := fst (step pt s (ORem n)) in
    gov s1 n = model_rule ct0 pt n /\
    (forall m, m <> n -> gov s1 m = gov s m) /\
    (assoc n (s_itd s) <> None -> assoc n (s_od s1) = None /\ o_out (snd (step pt s (ORem n))) = Val 1) /\
    exists ls1, Inv s1 ls1.
  Proof.
    intros s ls n HI s1.
    destruct (step_ok ct0 pt s ls (ORem n) HI eq_refl) as [_ HI1]. fold s1 in HI1.
    pose proof (step_plain_eq ct0 pt s ls (ORem n) HI eq_refl) as Ep.
    assert (Hi : s_itd s1 = adel n (s_itd s)).
    { unfold s1. rewrite Ep. simpl. destruct (assoc n (s_itd s)) eqn:Ei; [reflexivity|].
      rewrite (adel_absent _ _ Ei). destruct (amem n (s_ctd s)); reflexivity. }
    split; [|split; [|split]].
    - unfold Proofs.gov. rewrite Hi, assoc_adel, name_eqb_refl. reflexivity.
    - intros m Hm. unfold Proofs.gov. rewrite Hi, assoc_adel, name_eqb_neq by congruence. reflexivity.
    - intro Hn. unfold s1. rewrite Ep. simpl. destruct (assoc n (s_itd s)); [|congruence].
      simpl. rewrite assoc_adel, name_eqb_refl. auto.
    - eauto.
  Qed.

  (* add_trait makes the instance trait govern, whatever the class says *)
  Lemma add_governs : forall s n p, gov (fst (step pt s (OAdd n p))) n = RPol p.
  Proof. intros. unfold Proofs.gov. simpl. rewrite assoc_aset, name_eqb_refl. reflexivity. Qed.
End Clauses.

(* the root classes: what is the class default *)
Definition n_traits_cache_ : name := removelast n_traits_cache__.

Lemma strict_default : forall n,
  name_eqb n_trait_added n = false -> name_eqb n_trait_modified n = false ->
  dunder n = false -> is_prefix n_traits_cache_ n = false ->
  spec_rule [] 1 n = RPol PDisallow.
Proof.
  intros n H1 H2 H3 H4. unfold spec_rule, class_rule.
  replace (vis_nth (visible (roots ++ [])) 1) with
    ([(n_trait_added, PEvent None); (n_trait_modified, PEvent None)],
     [([], PDisallow); (n_traits_cache_, PAny VNone); ([], PPython)]) by (vm_compute; reflexivity).
  cbn [fst snd assoc best]. rewrite H1, H2, H3, H4. cbn. reflexivity.
Qed.

Lemma private_default : forall n,
  name_eqb n_trait_added n = false -> name_eqb n_trait_modified n = false ->
  dunder n = false -> is_prefix n_traits_cache_ n = false ->
  spec_rule [] 2 n = if is_prefix [US] n then RPol (PAny VNone) else RPol PDisallow.
Proof.
  intros n H1 H2 H3 H4. unfold spec_rule, class_rule.
  replace (vis_nth (visible (roots ++ [])) 2) with
    ([(n_trait_added, PEvent None); (n_trait_modified, PEvent None)],
     [([US], PAny VNone); ([], PDisallow); (n_traits_cache_, PAny VNone); ([], PPython)]) by (vm_compute; reflexivity).
  cbn [fst snd assoc best]. rewrite H1, H2, H3, H4. destruct (is_prefix [US] n); cbn; reflexivity.
Qed.

Lemma plain_default : forall n,
  name_eqb n_trait_added n = false -> name_eqb n_trait_modified n = false ->
  dunder n = false -> is_prefix n_traits_cache_ n = false ->
  spec_rule [] 0 n = RPol PPython.
Proof.
  intros n H1 H2 H3 H4. unfold spec_rule, class_rule.
  replace (vis_nth (visible (roots ++ [])) 0) with
    ([(n_trait_added, PEvent None); (n_trait_modified, PEvent None)],
     [(n_traits_cache_, PAny VNone); ([], PPython)]) by (vm_compute; reflexivity).
  cbn [fst snd assoc best]. rewrite H1, H2, H3, H4. cbn. reflexivity.
Qed.

(* the listed finding: without the hypothesis [clean_run] the law fails on the model too *)
Definition n_ab : name := [97; 98].
Lemma stale_value_refutes : exists ops,
  law_hist (spec_rule [mkClass [] [0%nat]] 3) 0 l_init
    (run (snd (class_tables [mkClass [] [0%nat]] 3)) (init_state (fst (class_tables [mkClass [] [0%nat]] 3))) ops)
  <> [].
Proof. exists [OSet n_ab 5; OAdd n_ab (PEvent None); OGet n_ab]. vm_compute. discriminate. Qed.

(* ------------------------------------------------------------------ *)
(* Part 6: a second instance of the same class (shared cache) and classes created later *)

Lemma tables_app : forall a b, tables (a ++ b) = tables_from (tables a) b.
Proof. intros. unfold tables, tables_from. apply fold_left_app. Qed.

Lemma set_ctab_same : forall T k, set_ctab T k (fst (tabs_nth T k)) = T.
Proof.
  unfold set_ctab, tabs_nth. induction T as [|[ct pt] r IH]; intros k; destruct k; simpl; auto.
  f_equal. apply IH.
Qed.

(* nothing was used before the later classes are created: the staged tables are the plain ones *)
Lemma staged_no_pre : forall h1 k h2, staged_tables h1 k [] h2 = tables (h1 ++ h2).
Proof. intros. unfold staged_tables. simpl. rewrite set_ctab_same, tables_app. reflexivity. Qed.

Lemma set_ctab_nth : forall T k ct, (k < length T)%nat -> tabs_nth (set_ctab T k ct) k = (ct, snd (tabs_nth T k)).
Proof.
  unfold set_ctab, tabs_nth. induction T as [|[c0 p0] r IH]; intros k ct H; simpl in H; [lia|].
  destruct k; simpl; auto. apply IH. lia.
Qed.

Lemma staged_same_class : forall h c pre, (c < length (tables h))%nat ->
  tabs_nth (staged_tables h c pre []) c =
  (s_ctd (final_state (snd (tabs_nth (tables h) c)) (init_state (fst (tabs_nth (tables h) c))) pre),
   snd (tabs_nth (tables h) c)).
Proof. intros. unfold staged_tables. simpl. apply set_ctab_nth. auto. Qed.

(* a fresh object of a class whose dictionary already caches resolved names *)
Lemma Inv_second_instance : forall ct0 pt s ls, Inv ct0 pt s ls -> Inv ct0 pt (mkState (s_ctd s) [] []) l_init.
Proof.
  intros ct0 pt s ls H. constructor; simpl; auto; try discriminate.
  - apply (inv_c1 _ _ _ _ H).
  - apply (inv_c2 _ _ _ _ H).
  - destruct (inv_plain4 _ _ _ _ H) as (P1 & P2 & P3 & P4). rewrite P1, P2, P4. reflexivity.
Qed.

Lemma law_second_instance : forall h c pre ops i,
  plain_class h c = true ->
  let t := class_tables h c in
  clean_run (snd t) (init_state (fst t)) pre = true ->
  let s2 := mkState (s_ctd (final_state (snd t) (init_state (fst t)) pre)) [] [] in
  clean_run (snd t) s2 ops = true ->
  law_hist (spec_rule h c) i l_init (run (snd t) s2 ops) = [].
Proof.
  intros h c pre ops i Hpl t Hp s2 Hc. apply andb_true_iff in Hpl. destruct Hpl as [P1 P2].
  destruct (final_Inv (fst t) (snd t) pre _ _ (Inv_init (fst t) (snd t) P1 P2) Hp) as [ls' HI].
  rewrite <- (law_hist_ext _ _ (class_tables_rule h c)).
  apply run_law_inv; auto. eapply Inv_second_instance; eauto.
Qed.

(* the second listed finding: a class created after an instance of its base was used *)
Lemma late_class_refutes : exists h1 k pre h2 c ops,
  let t := tabs_nth (staged_tables (roots ++ h1) k pre h2) c in
  clean_run (snd t) (init_state (fst t)) ops = true /\
  law_hist (spec_rule (h1 ++ h2) c) 0 l_init (run (snd t) (init_state (fst t)) ops) <> [].
Proof.
  exists [mkClass [([97; 95], PTyped VInt 7)] [0%nat]], 3%nat, [OSet n_ab 1],
         [mkClass [([97; 95], PTyped VStr 102)] [3%nat]], 4%nat, [OSet n_ab 101].
  vm_compute. split; [reflexivity|discriminate].
Qed.

(* ------------------------------------------------------------------ *)
(* Part 7: the MRO reading of "inherited" *)

Lemma law_tag_nil : forall mr sr h i ls, law_tag mr sr i ls h = [] <-> law_hist mr i ls h = [].
Proof.
  intros mr sr. induction h as [|[o ob] r IH]; intros i ls; simpl; [tauto|].
  destruct (law_step mr ls o ob) as [|z l] eqn:E; simpl.
  - apply IH.
  - split; intro H; exfalso.
    + destruct (rule_eqb (mr (op_name o)) (sr (op_name o))); simpl in H; discriminate.
    + discriminate.
Qed.

Lemma best_ext : forall n l l', tab_eq l l' -> wild (best n l) = wild (best n l').
Proof.
  intros n l l' He.
  destruct (best n l) as [[q p]|] eqn:E1; destruct (best n l') as [[q' p']|] eqn:E2; simpl; auto.
  - pose proof (Best_ext _ _ _ _ _ He (best_Best _ _ _ _ E1)) as B1.
    pose proof (best_Best _ _ _ _ E2) as B2. destruct (Best_unique _ _ _ _ _ _ B1 B2). congruence.
  - exfalso. pose proof (best_Best _ _ _ _ E1) as (A & B & _). rewrite He in A.
    pose proof (best_spec n l') as S. rewrite E2 in S. rewrite (S _ _ (assoc_In _ _ _ A)) in B. discriminate.
  - exfalso. pose proof (best_Best _ _ _ _ E2) as (A & B & _). rewrite <- He in A.
    pose proof (best_spec n l) as S. rewrite E1 in S. rewrite (S _ _ (assoc_In _ _ _ A)) in B. discriminate.
Qed.

Lemma class_rule_ext : forall (v w : ctab * ptab) n,
  tab_eq (fst v) (fst w) -> tab_eq (snd v) (snd w) -> class_rule v n = class_rule w n.
Proof.
  intros v w n H1 H2. unfold class_rule. rewrite (H1 n). destruct (assoc n (fst w)); auto.
  destruct (dunder n); auto. pose proof (best_ext n _ _ H2) as E. unfold wild in E.
  destruct (best n (snd v)) as [[? ?]|]; destruct (best n (snd w)) as [[? ?]|]; auto.
Qed.

(* closing a wildcard list with the default entry *)
Definition close (l : ptab) : ptab := if amem [] l then l else l ++ [([], PPython)].

Lemma assoc_close : forall l n,
  assoc n (close l) = match assoc n l with Some v => Some v | None => assoc n [([], PPython)] end.
Proof.
  intros l n. unfold close, amem. destruct (assoc [] l) eqn:E.
  - destruct (assoc n l) eqn:En; auto. simpl. destruct n; simpl; auto. congruence.
  - rewrite assoc_app. reflexivity.
Qed.

Definition own_of (h : list classdef) (i : nat) : ctab * ptab := own_tables (c_decls (nth i h (mkClass [] []))).
Definition single (h : list classdef) : bool := forallb (fun cd => Nat.leb (length (c_bases cd)) 1) h.

Lemma mro_vis_unfold : forall h c,
  mro_vis h c = (flat_map (fun i => fst (own_of h i)) (nth c (mros h) []),
                 close (flat_map (fun i => snd (own_of h i)) (nth c (mros h) []))).
Proof. reflexivity. Qed.

(* invariant of the sequential creation of single-inheritance classes *)
Definition SI (done : list classdef) (V : list (ctab * ptab)) (M : list (list nat)) : Prop :=
  length V = length done /\ length M = length done /\
  forall c, (c < length done)%nat ->
    Forall (fun i => (i < length done)%nat) (nth c M []) /\
    tab_eq (fst (vis_nth V c)) (flat_map (fun i => fst (own_of done i)) (nth c M [])) /\
    tab_eq (snd (vis_nth V c)) (close (flat_map (fun i => snd (own_of done i)) (nth c M []))).

Lemma flat_map_own_ext : forall (f g : nat -> list (name * policy)) m,
  Forall (fun i => f i = g i) m -> flat_map f m = flat_map g m.
Proof. induction m as [|i r IH]; intro H; simpl; auto. inversion H; subst. rewrite H2, IH; auto. Qed.

Lemma own_of_snoc : forall done cd i, (i < length done)%nat -> own_of (done ++ [cd]) i = own_of done i.
Proof. intros. unfold own_of. rewrite app_nth1; auto. Qed.
Lemma own_of_last : forall done cd, own_of (done ++ [cd]) (length done) = own_tables (c_decls cd).
Proof. intros. unfold own_of. rewrite app_nth2, Nat.sub_diag; auto. Qed.

Lemma SI_snoc : forall done V M cd, SI done V M -> (length (c_bases cd) <= 1)%nat ->
  SI (done ++ [cd]) (V ++ [vis_class V cd]) (M ++ [mro_class M (length M) cd]).
Proof.
  intros done V M cd (LV & LM & H) Hb.
  split; [rewrite !app_length; simpl; lia|]. split; [rewrite !app_length; simpl; lia|].
  intros c Hc. rewrite app_length in Hc. simpl in Hc. unfold vis_nth.
  destruct (Nat.lt_ge_cases c (length done)) as [Hlt|Hge].
  - (* an earlier class: nothing changes *)
    rewrite !app_nth1 by lia. destruct (H c Hlt) as (F & A & B).
    assert (F' : Forall (fun i => (i < length (done ++ [cd]))%nat) (nth c M [])).
    { rewrite Forall_forall in *. intros i Hi. rewrite app_length. specialize (F i Hi). simpl. lia. }
    split; [exact F'|].
    rewrite (flat_map_own_ext (fun i => fst (own_of (done ++ [cd]) i)) (fun i => fst (own_of done i))),
            (flat_map_own_ext (fun i => snd (own_of (done ++ [cd]) i)) (fun i => snd (own_of done i))).
    + split; assumption.
    + rewrite Forall_forall in *. intros i Hi. rewrite own_of_snoc; auto.
    + rewrite Forall_forall in *. intros i Hi. rewrite own_of_snoc; auto.
  - (* the new class *)
    assert (c = length done) by lia. subst c.
    rewrite !app_nth2 by lia. rewrite LV, LM, !Nat.sub_diag. simpl nth.
    unfold mro_class, vis_class.
    destruct (c_bases cd) as [|b [|b2 r]] eqn:Eb; simpl in Hb; try lia; simpl flat_map.
    + (* no base *)
      rewrite !app_nil_r, own_of_last. rewrite app_length. simpl.
      split; [repeat constructor; lia|]. split; intro n; reflexivity.
    + (* one base *)
      rewrite !app_nil_r, own_of_last.
      destruct (Nat.lt_ge_cases b (length done)) as [Hbl|Hbg].
      * destruct (H b Hbl) as (F & A & B). fold (vis_nth V b). cbn [fst snd].
        assert (Eo1 : flat_map (fun i => fst (own_of (done ++ [cd]) i)) (nth b M []) =
                      flat_map (fun i => fst (own_of done i)) (nth b M []))
          by (apply flat_map_own_ext; rewrite Forall_forall in *; intros i Hi; rewrite own_of_snoc; auto).
        assert (Eo2 : flat_map (fun i => snd (own_of (done ++ [cd]) i)) (nth b M []) =
                      flat_map (fun i => snd (own_of done i)) (nth b M []))
          by (apply flat_map_own_ext; rewrite Forall_forall in *; intros i Hi; rewrite own_of_snoc; auto).
        rewrite Eo1, Eo2. split; [|split].
        -- constructor; [rewrite app_length; simpl; lia|].
           rewrite Forall_forall in *. intros i Hi. rewrite app_length. specialize (F i Hi). simpl. lia.
        -- intro n. rewrite !assoc_app, (A n). reflexivity.
        -- intro n.
           etransitivity; [exact (assoc_close (snd (own_tables (c_decls cd)) ++ snd (vis_nth V b)) n)|].
           rewrite assoc_close, !assoc_app, (B n), assoc_close.
           destruct (assoc n (snd (own_tables (c_decls cd)))); auto.
           destruct (assoc n (flat_map (fun i => snd (own_of done i)) (nth b M []))); auto.
           simpl. destruct n; auto.
      * (* dangling base index: an empty class *)
        unfold vis_nth. rewrite (nth_overflow V) by lia. rewrite (nth_overflow M) by lia. simpl. rewrite !app_nil_r.
        split; [repeat constructor; rewrite app_length; simpl; lia|]. split; intro n; reflexivity.
Qed.

Lemma SI_from : forall rest done V M, SI done V M -> single rest = true ->
  SI (done ++ rest) (visible_from V rest) (mros_from M rest).
Proof.
  induction rest as [|cd r IH]; intros done V M H Hs; simpl.
  - rewrite app_nil_r. exact H.
  - simpl in Hs. apply andb_true_iff in Hs. destruct Hs as [H1 H2]. apply Nat.leb_le in H1.
    replace (done ++ cd :: r) with ((done ++ [cd]) ++ r) by (rewrite <- app_assoc; reflexivity).
    apply IH; auto. apply SI_snoc; auto.
Qed.

(* in single-inheritance hierarchies the MRO reading and the code's base-order reading coincide *)
Lemma mro_rule_single : forall h c n, single h = true -> (c < length h)%nat ->
  class_rule (mro_vis h c) n = class_rule (vis_nth (visible h) c) n.
Proof.
  intros h c n Hs Hc.
  assert (S0 : SI [] [] []) by (split; [reflexivity|split; [reflexivity|intros c0 Hc0; simpl in Hc0; lia]]).
  pose proof (SI_from h [] [] [] S0 Hs) as (_ & _ & H). simpl in H.
  destruct (H c Hc) as (_ & A & B).
  rewrite mro_vis_unfold. apply class_rule_ext; simpl; intro k; symmetry; [apply A|apply B].
Qed.

Lemma single_roots_app : forall h, single h = true -> single (roots ++ h) = true.
Proof. intros h H. unfold single in *. rewrite forallb_app, H. reflexivity. Qed.

Lemma mro_spec_single : forall h c n, single h = true -> (c < length (roots ++ h))%nat ->
  mro_rule h c n = spec_rule h c n.
Proof. intros. unfold mro_rule, spec_rule. apply mro_rule_single; auto using single_roots_app. Qed.

(* main theorem under the MRO reading: wherever the two readings agree (in particular for
   every single-inheritance hierarchy) the law holds on every clean history *)
Lemma law_all_histories_mro : forall h c ops i,
  (forall n, mro_rule h c n = spec_rule h c n) ->
  plain_class h c = true ->
  clean_run (snd (class_tables h c)) (init_state (fst (class_tables h c))) ops = true ->
  law_hist (mro_rule h c) i l_init
           (run (snd (class_tables h c)) (init_state (fst (class_tables h c))) ops) = [].
Proof.
  intros h c ops i He Hp Hc. rewrite (law_hist_ext _ _ He). apply law_all_histories; auto.
Qed.

Lemma law_single_inheritance : forall h c ops i,
  single h = true -> (c < length (roots ++ h))%nat ->
  plain_class h c = true ->
  clean_run (snd (class_tables h c)) (init_state (fst (class_tables h c))) ops = true ->
  law_hist (mro_rule h c) i l_init
           (run (snd (class_tables h c)) (init_state (fst (class_tables h c))) ops) = [].
Proof. intros. apply law_all_histories_mro; auto. intro n. apply mro_spec_single; auto. Qed.

(* the third listed finding: class A(HasTraits): pass; class K(A, HasStrictTraits): pass; K().ab = 5 *)
Lemma mro_refutes : exists h c ops,
  clean_run (snd (class_tables h c)) (init_state (fst (class_tables h c))) ops = true /\
  law_hist (mro_rule h c) 0 l_init
           (run (snd (class_tables h c)) (init_state (fst (class_tables h c))) ops) <> [].
Proof.
  exists [mkClass [] [0%nat]; mkClass [] [3%nat; 1%nat]], 4%nat, [OSet n_ab 5].
  vm_compute. split; [reflexivity|discriminate].
Qed.

(* ------------------------------------------------------------------ *)
(* Part 8: two instances of one class, operations interleaved *)

Lemma law_tag2_nil : forall mr sr h i la lb, law_tag2 mr sr i la lb h = [] <-> law_hist2 mr i la lb h = [].
Proof.
  intros mr sr. induction h as [|[[w o] ob] r IH]; intros i la lb; simpl; [tauto|].
  destruct (law_step mr (if w then lb else la) o ob) as [|z l] eqn:E; simpl.
  - apply IH.
  - split; intro H; exfalso.
    + destruct (rule_eqb (mr (op_name o)) (sr (op_name o))); simpl in H; discriminate.
    + discriminate.
Qed.

Lemma law_hist2_ext : forall (r1 r2 : name -> rule), (forall n, r1 n = r2 n) ->
  forall h i la lb, law_hist2 r1 i la lb h = law_hist2 r2 i la lb h.
Proof.
  intros r1 r2 He. induction h as [|[[w o] ob] r IH]; intros i la lb; simpl; auto.
  rewrite IH, (law_step_ext _ _ He), (law_next_ext _ _ He). reflexivity.
Qed.

Definition st_of (ctd : ctab) (x : inst) : state := mkState ctd (fst x) (snd x).

Definition clean_step2 (s : state2) (w : bool) (o : op) : bool :=
  let '(ctd, a, b) := s in clean_step (st_of ctd (if w then b else a)) o.
Fixpoint clean_run2 (pt : ptab) (s : state2) (ops : list (bool * op)) : bool :=
  match ops with
  | [] => true
  | (w, o) :: r => clean_step2 s w o && clean_run2 pt (fst (step2 pt s w o)) r
  end.

(* the other instance only sees the class dictionary grow *)
Lemma Inv_other : forall ct0 pt s' ls' ctd x lx,
  Inv ct0 pt s' ls' -> Inv ct0 pt (st_of ctd x) lx -> Inv ct0 pt (st_of (s_ctd s') x) lx.
Proof.
  intros ct0 pt s' ls' ctd x lx H1 H2. constructor; simpl.
  - apply (inv_itd _ _ _ _ H2).
  - apply (inv_od _ _ _ _ H2).
  - apply (inv_c1 _ _ _ _ H1).
  - apply (inv_c2 _ _ _ _ H1).
  - intros m v Hm. apply (inv_st _ _ _ _ H2 m v Hm).
  - destruct (inv_plain4 _ _ _ _ H1) as (P1 & P2 & _ & P4).
    destruct (inv_plain4 _ _ _ _ H2) as (_ & _ & P3 & _). simpl in P3.
    rewrite P1, P2, P3, P4. reflexivity.
Qed.

Lemma run2_law_inv : forall ct0 pt ops ctd a b la lb i,
  Inv ct0 pt (st_of ctd a) la -> Inv ct0 pt (st_of ctd b) lb ->
  clean_run2 pt (ctd, a, b) ops = true ->
  law_hist2 (model_rule ct0 pt) i la lb (run2 pt (ctd, a, b) ops) = [].
Proof.
  intros ct0 pt. induction ops as [|[w o] r IH]; intros ctd a b la lb i Ha Hb Hc; simpl; auto.
  simpl in Hc. apply andb_true_iff in Hc. destruct Hc as [Hc1 Hc2].
  destruct w; simpl in *.
  - (* the second instance acts *)
    destruct (step_ok ct0 pt (st_of ctd b) lb o Hb Hc1) as [Hl Hn].
    unfold st_of in *. destruct (step pt (mkState ctd (fst b) (snd b)) o) as [s' ob] eqn:E. simpl in *.
    rewrite Hl. simpl. apply IH; auto.
    + apply (Inv_other ct0 pt s' _ ctd a la Hn Ha).
    + destruct s'; exact Hn.
  - destruct (step_ok ct0 pt (st_of ctd a) la o Ha Hc1) as [Hl Hn].
    unfold st_of in *. destruct (step pt (mkState ctd (fst a) (snd a)) o) as [s' ob] eqn:E. simpl in *.
    rewrite Hl. simpl. apply IH; auto.
    + destruct s'; exact Hn.
    + apply (Inv_other ct0 pt s' _ ctd b lb Hn Hb).
Qed.

Lemma law_two_instances : forall h c ops i,
  plain_class h c = true ->
  clean_run2 (snd (class_tables h c)) (init_state2 (fst (class_tables h c))) ops = true ->
  law_hist2 (spec_rule h c) i l_init l_init
            (run2 (snd (class_tables h c)) (init_state2 (fst (class_tables h c))) ops) = [].
Proof.
  intros h c ops i Hp Hc. apply andb_true_iff in Hp. destruct Hp as [P1 P2].
  rewrite <- (law_hist2_ext _ _ (class_tables_rule h c)).
  apply run2_law_inv; auto; apply Inv_init; auto.
Qed.

(* with the second instance idle the two-instance run is the one-instance run *)
Lemma run2_single : forall pt ops ctd a b,
  map (fun x => (snd (fst x), snd x)) (run2 pt (ctd, a, b) (map (pair false) ops)) = run pt (st_of ctd a) ops.
Proof.
  intros pt. induction ops as [|o r IH]; intros ctd a b; simpl; auto.
  unfold st_of. destruct (step pt (mkState ctd (fst a) (snd a)) o) as [s' ob] eqn:E. simpl.
  f_equal. rewrite IH. unfold st_of. destruct s'; reflexivity.
Qed.

(* ------------------------------------------------------------------ *)
(* Part 9: mapped traits (Map): the shadow name comes and goes with the trait.
   Direct statements about Model.step, for every state (no invariant needed). *)

Lemma name_app_neq : forall (n : name) x, name_eqb n (n ++ [x]) = false.
Proof.
  intros n x. apply name_eqb_neq. intro H. apply (f_equal (@length Z)) in H.
  rewrite app_length in H. simpl in H. lia.
Qed.

(* add_trait(name, Map(m)) installs the trait and, for name_, the shadow trait *)
Lemma add_mapped_installs : forall pt s n m d,
  let s' := fst (step pt s (OAdd n (PMap m d))) in
  assoc n (s_itd s') = Some (PMap m d) /\ assoc (n ++ [US]) (s_itd s') = Some (PShadow m) /\
  s_od s' = s_od s.
Proof.
  intros pt s n m d. simpl. rewrite !assoc_aset, name_eqb_refl, name_app_neq, name_eqb_refl. auto.
Qed.

(* remove_trait(name) of a mapped instance trait: the trait, its shadow trait, the value and
   the shadow value are all gone, so name and name_ are governed by the class-level rule again *)
Lemma remove_mapped_clears : forall pt s n m d,
  assoc n (s_itd s) = Some (PMap m d) ->
  (assoc (n ++ [US]) (s_itd s) <> None \/ amem (n ++ [US]) (s_ctd s) = true) ->
  let s' := fst (step pt s (ORem n)) in
  o_out (snd (step pt s (ORem n))) = Val 1 /\
  assoc n (s_itd s') = None /\ assoc (n ++ [US]) (s_itd s') = None /\
  assoc n (s_od s') = None /\ assoc (n ++ [US]) (s_od s') = None.
Proof.
  intros pt s n m d Hn Hs. simpl. rewrite Hn.
  change (fold_left rem1 (map fst (subs n (PMap m d))) s) with (rem1 s (n ++ [US])).
  assert (Ne : name_eqb (n ++ [US]) n = false) by (rewrite name_eqb_sym; apply name_app_neq).
  set (s1 := rem1 s (n ++ [US])).
  assert (F : assoc n (s_itd s1) = Some (PMap m d) /\ assoc (n ++ [US]) (s_itd s1) = None /\
              assoc (n ++ [US]) (s_od s1) = None).
  { unfold s1, rem1. destruct (assoc (n ++ [US]) (s_itd s)) as [q|] eqn:Eq; simpl.
    - rewrite !assoc_adel, Ne, name_eqb_refl. auto.
    - destruct Hs as [Hs|Hs]; [congruence|]. rewrite Hs. simpl.
      rewrite assoc_adel, name_eqb_refl. auto. }
  destruct F as (F1 & F2 & F3).
  unfold rem1 at 1 2 3 4 5. unfold amem. rewrite F1. simpl.
  rewrite !assoc_adel, name_eqb_refl, name_app_neq, F2, F3. auto.
Qed.

Lemma remove_mapped_restores_class_rule : forall ct0 pt s n m d,
  assoc n (s_itd s) = Some (PMap m d) ->
  (assoc (n ++ [US]) (s_itd s) <> None \/ amem (n ++ [US]) (s_ctd s) = true) ->
  let s' := fst (step pt s (ORem n)) in
  gov ct0 pt s' n = model_rule ct0 pt n /\ gov ct0 pt s' (n ++ [US]) = model_rule ct0 pt (n ++ [US]) /\
  assoc n (s_od s') = None /\ assoc (n ++ [US]) (s_od s') = None.
Proof.
  intros ct0 pt s n m d Hn Hs s'. destruct (remove_mapped_clears pt s n m d Hn Hs) as (_ & A & B & C & D).
  fold s' in A, B, C, D. unfold gov. rewrite A, B. auto.
Qed.

(* List traits (has_items): the name_items event trait comes and goes with the trait *)
Lemma name_app_neq2 : forall (n suf : name), suf <> [] -> name_eqb n (n ++ suf) = false /\ name_eqb (n ++ suf) n = false.
Proof.
  intros n suf H. assert (n <> n ++ suf).
  { intro E. apply (f_equal (@length Z)) in E. rewrite app_length in E. destruct suf; [congruence|simpl in E; lia]. }
  split; apply name_eqb_neq; congruence.
Qed.

Lemma add_list_installs : forall pt s n,
  let s' := fst (step pt s (OAdd n PList)) in
  assoc n (s_itd s') = Some PList /\
  assoc (n ++ items_suffix) (s_itd s') = Some (PEvent (Some VNoneOnly)) /\ s_od s' = s_od s.
Proof.
  intros pt s n. simpl. destruct (name_app_neq2 n items_suffix) as [N1 N2]; [discriminate|].
  rewrite !assoc_aset, name_eqb_refl, N1, name_eqb_refl. auto.
Qed.

Lemma remove_list_clears : forall pt s n,
  assoc n (s_itd s) = Some PList ->
  let s' := fst (step pt s (ORem n)) in
  o_out (snd (step pt s (ORem n))) = Val 1 /\
  assoc n (s_itd s') = None /\ assoc (n ++ items_suffix) (s_itd s') = None /\ assoc n (s_od s') = None.
Proof.
  intros pt s n Hn. simpl. rewrite Hn.
  change (fold_left rem1 (map fst (subs n PList)) s) with (rem1 s (n ++ items_suffix)).
  destruct (name_app_neq2 n items_suffix) as [N1 N2]; [discriminate|].
  set (s1 := rem1 s (n ++ items_suffix)).
  assert (F : assoc n (s_itd s1) = Some PList /\ assoc (n ++ items_suffix) (s_itd s1) = None).
  { unfold s1, rem1. destruct (assoc (n ++ items_suffix) (s_itd s)) as [q|] eqn:Eq; simpl.
    - rewrite !assoc_adel, N2, name_eqb_refl. auto.
    - destruct (amem (n ++ items_suffix) (s_ctd s)); simpl; auto. }
  destruct F as (F1 & F2).
  unfold rem1 at 1 2 3 4. unfold amem. rewrite F1. simpl.
  rewrite !assoc_adel, name_eqb_refl, N1, F2. auto.
Qed.
