(* C13 — the law on every history of a class with a trait_added listener (Model.step_l),
   by induction with the plain-trait invariant of Proofs.v. *)
From Coq Require Import ZArith List Bool Lia.
From TV Require Import Common.Harness C13.Model C13.Law C13.Corr C13.Proofs C13.ListenerProofs.
From TV Require C13.CorrL.
Import ListNotations.
Open Scope Z_scope.

Notation inst_code := C13.CorrL.inst_code.
Notation inst_kind := C13.CorrL.inst_kind.
Notation adopt := C13.CorrL.adopt.
Notation is_access_op := C13.CorrL.is_access_op.

(* one object: the history with the code of the instance trait of the name after each step *)
Fixpoint run_lk (lst : list (name * policy)) (pt : ptab) (s : state) (ops : list op) : list (op * obs * option Z) :=
  match ops with
  | [] => []
  | o :: r => let '(s', ob) := step_l lst pt s o in
              (o, ob, inst_kind (s_itd s') (op_name o)) :: run_lk lst pt s' r
  end.

(* the law for listener classes (CorrL.law_tag_l without the re-labelling), one object *)
Fixpoint law_hist_l (lst : list (name * policy)) (crule : name -> rule) (i : Z) (ls : lstate)
                    (h : list (op * obs * option Z)) : list Z :=
  match h with
  | [] => []
  | (o, ob, k) :: r =>
      let me := if is_access_op o then adopt lst ls (op_name o) k true else ls in
      let nxt := adopt lst (law_next crule me o ob) (op_name o) k false in
      map (fun c => 100 * i + c) (law_step crule me o ob) ++ law_hist_l lst crule (i + 1) nxt r
  end.

Lemma vkind_eqb_eq : forall a b, vkind_eqb a b = true -> a = b.
Proof. intros [] []; simpl; congruence. Qed.
Lemma policy_eqb_plain_eq : forall q p, plainp q = true -> policy_eqb q p = true -> q = p.
Proof.
  intros q p Hq H. destruct q as [ |d| |d|c|k|k d|m d|m| ]; try discriminate Hq;
    destruct p as [ |e| |e|c2|k2|k2 e|m2 e|m2| ]; try destruct k; try destruct k2;
    simpl in H; try discriminate H; auto;
    try (apply Z.eqb_eq in H; congruence);
    try (apply vkind_eqb_eq in H; congruence);
    try (apply andb_true_iff in H; destruct H as [H1 H2]; try discriminate H1; apply Z.eqb_eq in H2; congruence).
Qed.

Section LInd.
  Variable ct0 : ctab.
  Variable pt : ptab.
  Variable lst : list (name * policy).
  Hypothesis lst_plain : forall n lp, listener lst n = Some lp -> plainp lp = true.
  Notation crule := (model_rule ct0 pt).
  Notation Inv := (Inv ct0 pt).

  (* excluded: the first listed finding (a value-less trait over a stored value), also for the
     trait the listener installs; and an add_trait whose trait the listener replaces by another one
     that the observation (handler class + default) cannot tell from it *)
  Definition lclean (s : state) (o : op) : bool :=
    clean_step s o &&
    match listener lst (op_name o) with
    | None => true
    | Some lp =>
        if amem (op_name o) (s_itd s) || amem (op_name o) (s_ctd s) then true
        else (storing (RPol lp) || negb (amem (op_name o) (s_od s))) &&
             match o with
             | OAdd _ q => policy_eqb q lp || negb (Z.eqb (inst_code q) (inst_code lp))
             | _ => true
             end
    end.
  Fixpoint lclean_run (s : state) (ops : list op) : bool :=
    match ops with
    | [] => true
    | o :: r => lclean s o && lclean_run (fst (step_l lst pt s o)) r
    end.

  Lemma inst_kind_aset : forall itd n p, inst_kind (aset n p itd) n = Some (inst_code p).
  Proof. intros. unfold C13.CorrL.inst_kind. rewrite assoc_aset, name_eqb_refl. reflexivity. Qed.

  Lemma adopt_same : forall ls n k, k = inst_kind (l_itd ls) n -> adopt lst ls n k false = ls.
  Proof.
    intros ls n k E. unfold C13.CorrL.adopt. destruct (listener lst n) as [lp|]; auto.
    destruct k as [kk|]; auto. rewrite <- E. simpl. rewrite Z.eqb_refl. simpl.
    rewrite andb_false_r. reflexivity.
  Qed.
  Lemma adopt_absent_none : forall ls n, adopt lst ls n None true = ls.
  Proof. intros. unfold C13.CorrL.adopt. destruct (listener lst n); reflexivity. Qed.
  Lemma adopt_present : forall ls n k, amem n (l_itd ls) = true -> adopt lst ls n k true = ls.
  Proof.
    intros ls n k H. unfold C13.CorrL.adopt. destruct (listener lst n); auto. destruct k; auto.
    rewrite H. simpl. rewrite andb_false_r. reflexivity.
  Qed.

  (* installing a plain trait on a name without stored value (or a storing one) keeps the invariant *)
  Lemma Inv_set_itd : forall s ls n lp, Inv s ls -> plainp lp = true ->
    storing (RPol lp) || negb (amem n (s_od s)) = true ->
    Inv (mkState (s_ctd s) (aset n lp (s_itd s)) (s_od s)) (mkL (aset n lp (l_itd ls)) (l_od ls)).
  Proof.
    intros s ls n lp HI Hp Hs. destruct (inv_plain4 _ _ _ _ HI) as (P1 & P2 & P3 & P4).
    constructor; simpl.
    - rewrite (inv_itd _ _ _ _ HI). reflexivity.
    - apply (inv_od _ _ _ _ HI).
    - apply (inv_c1 _ _ _ _ HI).
    - apply (inv_c2 _ _ _ _ HI).
    - intros m v Hm. unfold gov. simpl. rewrite assoc_aset. destruct (name_eqb n m) eqn:E.
      + apply name_eqb_eq in E. subst m. unfold amem in Hs. rewrite Hm in Hs. simpl in Hs.
        rewrite orb_false_r in Hs. exact Hs.
      + apply (inv_st _ _ _ _ HI _ _ Hm).
    - apply plain4; auto. apply plain_aset; auto.
  Qed.

  (* caching the resolved trait keeps the invariant (as in lookup_set_inl) *)
  Lemma Inv_prefix_trait : forall s ls n b p s', Inv s ls ->
    assoc n (s_itd s) = None -> assoc n (s_ctd s) = None ->
    prefix_trait pt s n b = inl (p, s') -> Inv s' ls /\ s_itd s' = s_itd s /\ s_od s' = s_od s.
  Proof.
    intros s ls n b p s' HI Hi Hc H.
    assert (Hx : ctd_ext ct0 pt s s' n).
    { unfold ctd_ext. revert H. unfold prefix_trait, rel, model_rule.
      rewrite (ct0_none ct0 pt _ _ _ HI Hc).
      destruct (dunder n) eqn:Ed.
      - destruct b; [|discriminate]. intro E. inversion E; subst. simpl. repeat split; auto.
        right. split; auto. exists (PAny VNone). split; auto.
      - destruct (first_match n pt) as [[q p1]|] eqn:Ef; [|discriminate]. intro E. inversion E; subst. simpl.
        repeat split; auto. right. split; auto. exists p. split; auto. }
    split; [eapply Inv_ctd_ext; eauto|]. destruct Hx as (A & B & _). auto.
  Qed.

  Lemma aset_same : forall (l : list (name * policy)) n v, assoc n l = Some v -> aset n v l = l.
  Proof.
    induction l as [|[k w] r IH]; intros n v H; simpl in *; [discriminate|].
    destruct (name_eqb k n) eqn:E; [inversion H; reflexivity|]. rewrite IH; auto.
  Qed.

  Definition Lgood (s : state) (ls : lstate) (o : op) : Prop :=
    let s' := fst (step_l lst pt s o) in
    let ob := snd (step_l lst pt s o) in
    let k := inst_kind (s_itd s') (op_name o) in
    let me := if is_access_op o then adopt lst ls (op_name o) k true else ls in
    law_step crule me o ob = [] /\ Inv s' (adopt lst (law_next crule me o ob) (op_name o) k false).

  (* the listener is not called: the plain step *)
  Lemma Lgood_plain : forall s ls o, step_l lst pt s o = step pt s o -> Inv s ls -> clean_step s o = true ->
    Lgood s ls o.
  Proof.
    intros s ls o E HI Hc. unfold Lgood. rewrite E.
    destruct (step_ok ct0 pt s ls o HI Hc) as [Hl Hn].
    assert (Eme : (if is_access_op o then adopt lst ls (op_name o) (inst_kind (s_itd (fst (step pt s o))) (op_name o)) true
                   else ls) = ls).
    { destruct (is_access_op o) eqn:Ea; auto.
      assert (Ha : is_access o = true) by (destruct o; try discriminate Ea; reflexivity).
      rewrite (step_itd_access pt s o Ha). unfold C13.CorrL.inst_kind.
      destruct (assoc (op_name o) (s_itd s)) as [p|] eqn:Ei.
      - apply adopt_present. unfold amem. rewrite (inv_itd _ _ _ _ HI), Ei. reflexivity.
      - apply adopt_absent_none. }
    rewrite Eme. split; auto. rewrite adopt_same; auto. rewrite (inv_itd _ _ _ _ Hn). reflexivity.
  Qed.

  (* first touch of a covered name by get / set / del: resolution, listener, access *)
  Lemma Lgood_fire : forall s ls o lp b p s1, Inv s ls -> is_access o = true ->
    listener lst (op_name o) = Some lp ->
    assoc (op_name o) (s_itd s) = None -> assoc (op_name o) (s_ctd s) = None ->
    storing (RPol lp) || negb (amem (op_name o) (s_od s)) = true ->
    prefix_trait pt s (op_name o) b = inl (p, s1) ->
    step_l lst pt s o = step pt (mkState (s_ctd s1) (aset (op_name o) lp (s_itd s1)) (s_od s1)) o ->
    Lgood s ls o.
  Proof.
    intros s ls o lp b p s1 HI Ha Hcov Hi Hc Hst Hp E. unfold Lgood. rewrite E.
    destruct (Inv_prefix_trait s ls _ b p s1 HI Hi Hc Hp) as (HI1 & Ei1 & Eo1).
    assert (Hst1 : storing (RPol lp) || negb (amem (op_name o) (s_od s1)) = true) by (rewrite Eo1; exact Hst).
    pose proof (Inv_set_itd s1 ls (op_name o) lp HI1 (lst_plain _ _ Hcov) Hst1) as HI2.
    set (s2 := mkState (s_ctd s1) (aset (op_name o) lp (s_itd s1)) (s_od s1)) in *.
    set (me2 := mkL (aset (op_name o) lp (l_itd ls)) (l_od ls)) in *.
    assert (Hc2 : clean_step s2 o = true) by (destruct o; try discriminate Ha; reflexivity).
    destruct (step_ok ct0 pt s2 me2 o HI2 Hc2) as [Hl Hn].
    assert (Ek : inst_kind (s_itd (fst (step pt s2 o))) (op_name o) = Some (inst_code lp)).
    { rewrite (step_itd_access pt s2 o Ha). unfold s2. simpl. apply inst_kind_aset. }
    rewrite Ek.
    assert (Eme : (if is_access_op o then adopt lst ls (op_name o) (Some (inst_code lp)) true else ls) = me2).
    { assert (Ea : is_access_op o = true) by (destruct o; try discriminate Ha; reflexivity). rewrite Ea.
      unfold C13.CorrL.adopt. rewrite Hcov, Z.eqb_refl. unfold amem. rewrite (inv_itd _ _ _ _ HI), Hi. simpl.
      unfold me2. rewrite (inv_itd _ _ _ _ HI). reflexivity. }
    rewrite Eme. split; auto. rewrite adopt_same; auto.
    rewrite (inv_itd _ _ _ _ Hn), Ek. reflexivity.
  Qed.

  (* first touch of a covered name by add_trait: the listener's trait replaces the one just added *)
  Lemma Lgood_add : forall s ls n q lp, Inv s ls -> clean_step s (OAdd n q) = true ->
    listener lst n = Some lp -> assoc n (s_itd s) = None -> assoc n (s_ctd s) = None ->
    storing (RPol lp) || negb (amem n (s_od s)) = true ->
    policy_eqb q lp || negb (Z.eqb (inst_code q) (inst_code lp)) = true ->
    Lgood s ls (OAdd n q).
  Proof.
    intros s ls n q lp HI Hc Hcov Hi Hcc Hst Hq. unfold Lgood.
    assert (E : step_l lst pt s (OAdd n q) =
                (mkState (s_ctd (fst (step pt s (OAdd n q)))) (aset n lp (s_itd (fst (step pt s (OAdd n q)))))
                         (s_od (fst (step pt s (OAdd n q)))), snd (step pt s (OAdd n q)))).
    { unfold step_l. cbn [op_name]. unfold amem. rewrite Hcov, Hi, Hcc. simpl orb. cbv iota.
      destruct (step pt s (OAdd n q)); reflexivity. }
    rewrite E. cbn [fst snd s_itd op_name is_access_op C13.CorrL.is_access_op].
    destruct (step_ok ct0 pt s ls (OAdd n q) HI Hc) as [Hl Hn].
    set (s1 := fst (step pt s (OAdd n q))) in *. set (ob := snd (step pt s (OAdd n q))) in *.
    set (l1 := law_next crule ls (OAdd n q) ob) in *.
    assert (Hod : s_od s1 = s_od s) by reflexivity.
    assert (Hst1 : storing (RPol lp) || negb (amem n (s_od s1)) = true) by (rewrite Hod; exact Hst).
    pose proof (Inv_set_itd s1 l1 n lp Hn (lst_plain _ _ Hcov) Hst1) as HI2.
    split; [exact Hl|].
    assert (Hq1 : assoc n (s_itd s1) = Some q).
    { simpl in Hc. apply andb_true_iff in Hc. destruct Hc as [Hpq _].
      unfold s1. simpl. rewrite assoc_aset, name_eqb_refl. reflexivity. }
    assert (Hl1 : assoc n (l_itd l1) = Some q) by (rewrite (inv_itd _ _ _ _ Hn); exact Hq1).
    assert (Hpq : plainp q = true) by (simpl in Hc; apply andb_true_iff in Hc; tauto).
    clearbody l1.
    assert (Ead : adopt lst l1 n (inst_kind (aset n lp (s_itd s1)) n) false = mkL (aset n lp (l_itd l1)) (l_od l1)).
    { rewrite inst_kind_aset. unfold C13.CorrL.adopt. rewrite Hcov, Z.eqb_refl.
      unfold C13.CorrL.inst_kind. rewrite Hl1. simpl.
      destruct (Z.eqb (inst_code q) (inst_code lp)) eqn:Ec; simpl; [|reflexivity].
      (* same observation: then the traits are the same *)
      rewrite ?Ec in Hq. simpl in Hq. rewrite orb_false_r in Hq.
      apply (policy_eqb_plain_eq q lp Hpq) in Hq. rewrite Hq in Hl1.
      rewrite (aset_same (l_itd l1) n lp Hl1). destruct l1; reflexivity. }
    rewrite Ead. exact HI2.
  Qed.

  Lemma step_l_ok : forall s ls o, Inv s ls -> lclean s o = true -> Lgood s ls o.
  Proof.
    intros s ls o HI Hl. unfold lclean in Hl. apply andb_true_iff in Hl. destruct Hl as [Hc Hl].
    destruct (listener lst (op_name o)) as [lp|] eqn:Hcov.
    2: { apply Lgood_plain; auto. apply step_l_not_covered; auto. }
    destruct (amem (op_name o) (s_itd s) || amem (op_name o) (s_ctd s)) eqn:Hk.
    { apply Lgood_plain; auto. apply step_l_known; auto. }
    apply andb_true_iff in Hl. destruct Hl as [Hst Hq].
    apply orb_false_iff in Hk. destruct Hk as [Hk1 Hk2]. unfold amem in Hk1, Hk2.
    assert (Hi : assoc (op_name o) (s_itd s) = None) by (destruct (assoc (op_name o) (s_itd s)); [discriminate|reflexivity]).
    assert (Hcc : assoc (op_name o) (s_ctd s) = None) by (destruct (assoc (op_name o) (s_ctd s)); [discriminate|reflexivity]).
    assert (Unk : amem (op_name o) (s_itd s) || amem (op_name o) (s_ctd s) = false)
      by (unfold amem; rewrite Hi, Hcc; reflexivity).
    destruct o as [n|n v|n|n q|n]; cbn [op_name] in *.
    - (* Get *)
      destruct (amem n (s_od s)) eqn:Eo.
      + apply Lgood_plain; auto. unfold step_l. cbn [op_name]. rewrite Hcov, Unk, Eo. reflexivity.
      + destruct (prefix_trait pt s n false) as [[p s1]|e] eqn:Ep.
        * apply (Lgood_fire s ls (OGet n) lp false p s1); auto; try (cbn [op_name]; rewrite ?Eo; exact Hst).
          unfold step_l. cbn [op_name]. rewrite Hcov, Unk, Eo, Ep. reflexivity.
        * apply Lgood_plain; auto. unfold step_l. cbn [op_name]. rewrite Hcov, Unk, Eo, Ep. reflexivity.
    - destruct (prefix_trait pt s n true) as [[p s1]|e] eqn:Ep.
      + apply (Lgood_fire s ls (OSet n v) lp true p s1); auto.
        unfold step_l. cbn [op_name]. rewrite Hcov, Unk, Ep. reflexivity.
      + apply Lgood_plain; auto. unfold step_l. cbn [op_name]. rewrite Hcov, Unk, Ep. reflexivity.
    - destruct (prefix_trait pt s n true) as [[p s1]|e] eqn:Ep.
      + apply (Lgood_fire s ls (ODel n) lp true p s1); auto.
        unfold step_l. cbn [op_name]. rewrite Hcov, Unk, Ep. reflexivity.
      + apply Lgood_plain; auto. unfold step_l. cbn [op_name]. rewrite Hcov, Unk, Ep. reflexivity.
    - apply (Lgood_add s ls n q lp); auto.
    - apply Lgood_plain; auto. unfold step_l. cbn [op_name]. rewrite Hcov, Unk. reflexivity.
  Qed.

  Lemma run_lk_law : forall ops s ls i, Inv s ls -> lclean_run s ops = true ->
    law_hist_l lst crule i ls (run_lk lst pt s ops) = [].
  Proof.
    induction ops as [|o r IH]; intros s ls i HI Hc; [reflexivity|].
    simpl in Hc. apply andb_true_iff in Hc. destruct Hc as [H1 H2].
    destruct (step_l_ok s ls o HI H1) as [A B].
    cbn [run_lk]. destruct (step_l lst pt s o) as [s' ob]. cbn [fst snd law_hist_l] in *.
    rewrite A. cbn [map app]. apply IH; auto.
  Qed.
End LInd.

(* every class without Map/List declarations, every listener table of plain traits, every history *)
Lemma law_listener_histories : forall h c lst ops i,
  plain_class h c = true ->
  (forall n lp, listener lst n = Some lp -> plainp lp = true) ->
  let t := class_tables h c in
  lclean_run (snd t) lst (init_state (fst t)) ops = true ->
  law_hist_l lst (spec_rule h c) i l_init (run_lk lst (snd t) (init_state (fst t)) ops) = [].
Proof.
  intros h c lst ops i Hp Hl t Hc. apply andb_true_iff in Hp. destruct Hp as [P1 P2].
  assert (E : forall hist ls j, law_hist_l lst (model_rule (fst t) (snd t)) j ls hist = law_hist_l lst (spec_rule h c) j ls hist).
  { induction hist as [|[[o ob] k] r IH]; intros ls j; [reflexivity|]. cbn [law_hist_l].
    rewrite IH, (law_step_ext _ _ (class_tables_rule h c)), (law_next_ext _ _ (class_tables_rule h c)). reflexivity. }
  rewrite <- E. apply (run_lk_law (fst t) (snd t) lst Hl); auto. apply Inv_init; auto.
Qed.

(* the checker's law_codes for listener classes re-labels failures only *)
Lemma law_tag_l_single : forall lst mr sr h i la lb,
  C13.CorrL.law_tag_l lst mr sr i la lb (map (fun x => (false, fst (fst x), snd (fst x), snd x)) h) = [] <->
  law_hist_l lst mr i la h = [].
Proof.
  intros lst mr sr. induction h as [|[[o ob] k] r IH]; intros i la lb; [simpl; tauto|].
  cbn [map fst snd C13.CorrL.law_tag_l law_hist_l].
  destruct (law_step mr (if is_access_op o then adopt lst la (op_name o) k true else la) o ob) as [|z l] eqn:E.
  - simpl. apply IH.
  - split; intro H; exfalso.
    + destruct (rule_eqb (mr (op_name o)) (sr (op_name o))); simpl in H; discriminate.
    + simpl in H. discriminate.
Qed.
