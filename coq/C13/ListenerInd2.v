(* C13 — the law on every interleaving of the histories of TWO instances of a class with a
   trait_added listener (Model.step2_l, the runs of CorrL). *)
From Coq Require Import ZArith List Bool Lia.
From TV Require Import Common.Harness C13.Model C13.Law C13.Corr C13.Proofs C13.ListenerProofs C13.ListenerInd.
From TV Require C13.CorrL.
Import ListNotations.
Open Scope Z_scope.

Fixpoint run2_lk (lst : list (name * policy)) (pt : ptab) (s : state2) (ops : list (bool * op))
  : list (bool * op * obs * option Z) :=
  match ops with
  | [] => []
  | (w, o) :: r =>
      let '(s', ob) := step2_l lst pt s w o in
      let '(_, a, b) := s' in
      (w, o, ob, inst_kind (fst (if w then b else a)) (op_name o)) :: run2_lk lst pt s' r
  end.

(* CorrL.law_tag_l without the re-labelling *)
Fixpoint law_hist2_l (lst : list (name * policy)) (crule : name -> rule) (i : Z) (la lb : lstate)
                     (h : list (bool * op * obs * option Z)) : list Z :=
  match h with
  | [] => []
  | (w, o, ob, k) :: r =>
      let me0 := if w then lb else la in
      let me := if is_access_op o then adopt lst me0 (op_name o) k true else me0 in
      let nxt := adopt lst (law_next crule me o ob) (op_name o) k false in
      map (fun c => 100 * i + c) (law_step crule me o ob)
      ++ law_hist2_l lst crule (i + 1) (if w then la else nxt) (if w then nxt else lb) r
  end.

Lemma law_tag_l_nil : forall lst mr sr h i la lb,
  C13.CorrL.law_tag_l lst mr sr i la lb h = [] <-> law_hist2_l lst mr i la lb h = [].
Proof.
  intros lst mr sr. induction h as [|[[[w o] ob] k] r IH]; intros i la lb; [simpl; tauto|].
  cbn [C13.CorrL.law_tag_l law_hist2_l].
  destruct (law_step mr (if is_access_op o then adopt lst (if w then lb else la) (op_name o) k true
                         else (if w then lb else la)) o ob) as [|z l] eqn:E.
  - simpl. apply IH.
  - split; intro H; exfalso.
    + destruct (rule_eqb (mr (op_name o)) (sr (op_name o))); simpl in H; discriminate.
    + simpl in H. discriminate.
Qed.

Fixpoint lclean_run2 (pt : ptab) (lst : list (name * policy)) (s : state2) (ops : list (bool * op)) : bool :=
  match ops with
  | [] => true
  | (w, o) :: r =>
      (let '(ctd, a, b) := s in lclean lst (st_of ctd (if w then b else a)) o)
      && lclean_run2 pt lst (fst (step2_l lst pt s w o)) r
  end.

Lemma law_hist2_l_ext : forall lst (r1 r2 : name -> rule), (forall n, r1 n = r2 n) ->
  forall h i la lb, law_hist2_l lst r1 i la lb h = law_hist2_l lst r2 i la lb h.
Proof.
  intros lst r1 r2 E. induction h as [|[[[w o] ob] k] r IH]; intros i la lb; [reflexivity|].
  cbn [law_hist2_l]. rewrite IH, (law_step_ext _ _ E), (law_next_ext _ _ E). reflexivity.
Qed.

Lemma run2_lk_law : forall ct0 pt lst,
  (forall n lp, listener lst n = Some lp -> plainp lp = true) ->
  forall ops ctd a b la lb i,
  Inv ct0 pt (st_of ctd a) la -> Inv ct0 pt (st_of ctd b) lb ->
  lclean_run2 pt lst (ctd, a, b) ops = true ->
  law_hist2_l lst (model_rule ct0 pt) i la lb (run2_lk lst pt (ctd, a, b) ops) = [].
Proof.
  intros ct0 pt lst Hl. induction ops as [|[w o] r IH]; intros ctd a b la lb i Ha Hb Hc; [reflexivity|].
  cbn [lclean_run2] in Hc. apply andb_true_iff in Hc. destruct Hc as [Hc1 Hc2].
  cbn [run2_lk]. unfold step2_l in *.
  destruct w.
  - destruct (step_l_ok ct0 pt lst Hl (st_of ctd b) lb o Hb Hc1) as [A B]. unfold st_of in *.
    destruct (step_l lst pt (mkState ctd (fst b) (snd b)) o) as [s' ob] eqn:E.
    cbn [fst snd law_hist2_l] in *. rewrite A. cbn [map app].
    apply IH; auto.
    + apply (Inv_other ct0 pt s' _ ctd a la B Ha).
    + unfold st_of. cbn [fst snd]. destruct s'; exact B.
  - destruct (step_l_ok ct0 pt lst Hl (st_of ctd a) la o Ha Hc1) as [A B]. unfold st_of in *.
    destruct (step_l lst pt (mkState ctd (fst a) (snd a)) o) as [s' ob] eqn:E.
    cbn [fst snd law_hist2_l] in *. rewrite A. cbn [map app].
    apply IH; auto.
    + unfold st_of. cbn [fst snd]. destruct s'; exact B.
    + apply (Inv_other ct0 pt s' _ ctd b lb B Hb).
Qed.

(* every class without Map/List declarations, every listener table of plain traits, every
   interleaving of the histories of two instances *)
Lemma law_listener_two_instances : forall h c lst ops i,
  plain_class h c = true ->
  (forall n lp, listener lst n = Some lp -> plainp lp = true) ->
  let t := class_tables h c in
  lclean_run2 (snd t) lst (init_state2 (fst t)) ops = true ->
  law_hist2_l lst (spec_rule h c) i l_init l_init (run2_lk lst (snd t) (init_state2 (fst t)) ops) = [].
Proof.
  intros h c lst ops i Hp Hl t Hc. apply andb_true_iff in Hp. destruct Hp as [P1 P2].
  rewrite <- (law_hist2_l_ext lst _ _ (class_tables_rule h c)).
  apply (run2_lk_law (fst t) (snd t) lst Hl); auto; apply Inv_init; auto.
Qed.
