(* C13 — executable model of attribute-name resolution and access policies.

   Modelled code (line numbers of the tree the model was written against):
     traits/has_traits.py  update_traits_class_dict  l.399-713 (own traits l.443-508,
                           merge of the direct bases l.550-593, "" entry l.596-598,
                           sort l.606); HasTraits / HasStrictTraits / HasPrivateTraits
                           class bodies (l.1054, l.3462, l.3529-3532);
                           add_trait l.2799-2870; remove_trait l.2872-2905;
                           __prefix_trait__ l.3123-3180
     traits/ctraits.c      get_prefix_trait l.622-645; has_traits_setattro l.649-665;
                           has_traits_getattro l.836-884; get_trait(.,.,0) l.890-927;
                           getattr_python/event/trait/disallow/constant l.1919-2094;
                           setattr_python l.2167-2220; setattr_event l.2335-2367;
                           setattr_trait l.2373-2550; setattr_disallow/readonly/constant
                           l.2860-2927.

   Names are lists of character codes ('_' = 95).  Values are integer atoms
   (0..99 ints, 100..199 strings, 200 None, 201 Undefined).  No proofs here. *)
From Coq Require Import ZArith List Bool.
Import ListNotations.
Open Scope Z_scope.

(* ---------- names ---------- *)
Definition name := list Z.
Definition US : Z := 95.                       (* '_' *)
Definition VNone : Z := 200.
Definition VUndef : Z := 201.

Fixpoint name_eqb (a b : name) : bool :=
  match a, b with
  | [], [] => true
  | x :: a', y :: b' => Z.eqb x y && name_eqb a' b'
  | _, _ => false
  end.

(* prefix == name[:len(prefix)]   (has_traits.py l.3152) *)
Fixpoint is_prefix (p n : name) : bool :=
  match p, n with
  | [], _ => true
  | x :: p', y :: n' => Z.eqb x y && is_prefix p' n'
  | _ :: _, [] => false
  end.

Definition starts_uu (n : name) : bool :=
  match n with x :: y :: _ => Z.eqb x US && Z.eqb y US | _ => false end.
(* (name[:2] == "__") and (name[-2:] == "__")   (has_traits.py l.3128) *)
Definition dunder (n : name) : bool := starts_uu n && starts_uu (rev n).
(* name[-1:] == "_"   (has_traits.py l.467) *)
Definition ends_us (n : name) : bool :=
  match rev n with x :: _ => Z.eqb x US | [] => false end.

(* ---------- policies (kinds of trait) ---------- *)
(* validators: Some w = accepted and stored as w, None = TraitError.
   VInt = Int, VStr = Str, VCInt = CInt (a numeric string "k" is atom 100+k and converts to k),
   VFun = any other validator (used by the theorems, never by the generated cases) *)
Inductive vkind := VInt | VStr | VCInt | VFun (f : Z -> option Z).
Definition validate (k : vkind) (v : Z) : option Z :=
  match k with
  | VInt => if (0 <=? v) && (v <? 100) then Some v else None
  | VStr => if (100 <=? v) && (v <? 200) then Some v else None
  | VCInt => if (0 <=? v) && (v <? 100) then Some v
             else if (100 <=? v) && (v <? 200) then Some (v - 100) else None
  | VFun f => f v
  end.

Inductive policy :=
| PPython                         (* Python()            getattr_python / setattr_python *)
| PAny (d : Z)                    (* Any(d)              getattr_trait / setattr_trait, no validator *)
| PDisallow                       (* Disallow            getattr_disallow / setattr_disallow *)
| PReadOnly (d : Z)               (* ReadOnly / ReadOnly(d): getattr_trait / setattr_readonly; d = Undefined unless given *)
| PConstant (c : Z)               (* Constant(c)         getattr_constant / setattr_constant *)
| PEvent (k : option vkind)       (* Event() / Event(Int): getattr_event / setattr_event, optional validator *)
| PTyped (k : vkind) (d : Z).     (* Int(d) / Str(d)     getattr_trait / setattr_trait with validator *)

(* ---------- insertion-ordered dictionaries (Python dict) ---------- *)
Section Assoc.
  Context {A : Type}.
  Fixpoint assoc (n : name) (l : list (name * A)) : option A :=
    match l with
    | [] => None
    | (k, v) :: r => if name_eqb k n then Some v else assoc n r
    end.
  Definition amem (n : name) (l : list (name * A)) : bool :=
    match assoc n l with Some _ => true | None => false end.
  (* d[n] = v : replace in place, or append *)
  Fixpoint aset (n : name) (v : A) (l : list (name * A)) : list (name * A) :=
    match l with
    | [] => [(n, v)]
    | (k, w) :: r => if name_eqb k n then (k, v) :: r else (k, w) :: aset n v r
    end.
  Fixpoint adel (n : name) (l : list (name * A)) : list (name * A) :=
    match l with
    | [] => []
    | (k, w) :: r => if name_eqb k n then adel n r else (k, w) :: adel n r
    end.
End Assoc.

Definition ctab := list (name * policy).   (* __class_traits__ *)
(* __prefix_traits__: the list prefix_traits["*"] and the dict entries are
   updated together (l.507-508, 592-593, 597-598), so they are kept as one
   ordered association list *)
Definition ptab := list (name * policy).

(* ---------- class creation ---------- *)
Record classdef := mkClass {
  c_decls : list (name * policy);   (* trait declarations of the class body, in order *)
  c_bases : list nat                (* direct bases: indices of earlier classes *)
}.

(* l.443-508: a declaration whose name ends in '_' is a prefix (wildcard) trait *)
Definition own_step (acc : ctab * ptab) (d : name * policy) : ctab * ptab :=
  let '(ct, pt) := acc in
  let '(n, p) := d in
  if ends_us n then (ct, aset (removelast n) p pt)     (* l.506-508 *)
  else (aset n p ct, pt).                              (* l.468 *)
Definition own_tables (decls : list (name * policy)) : ctab * ptab :=
  fold_left own_step decls ([], []).

(* l.575-586: for name, value in base.__class_traits__: if name not in class_traits *)
Definition merge_tab (t base : list (name * policy)) : list (name * policy) :=
  fold_left (fun acc e => if amem (fst e) acc then acc else acc ++ [e]) base t.

(* prefix_list.sort(key=len, reverse=True): stable, longest first (l.606) *)
Fixpoint insert_len (e : name * policy) (l : ptab) : ptab :=
  match l with
  | [] => [e]
  | y :: r => if Nat.ltb (length (fst e)) (length (fst y)) then y :: insert_len e r
              else e :: l
  end.
Definition sort_len (l : ptab) : ptab := fold_right insert_len [] l.

Definition tabs_nth (tabs : list (ctab * ptab)) (b : nat) : ctab * ptab := nth b tabs ([], []).

Definition build_class (tabs : list (ctab * ptab)) (cd : classdef) : ctab * ptab :=
  let own := own_tables (c_decls cd) in
  (* l.550-593: the direct bases in order; class traits l.575-586, prefix traits l.589-593 *)
  let merged := fold_left (fun acc b => (merge_tab (fst acc) (fst (tabs_nth tabs b)),
                                         merge_tab (snd acc) (snd (tabs_nth tabs b))))
                          (c_bases cd) own in
  (* l.596-598 *)
  let pt := if amem [] (snd merged) then snd merged else snd merged ++ [([], PPython)] in
  (fst merged, sort_len pt).

(* classes are created one after the other *)
Definition tables_from (tabs : list (ctab * ptab)) (h : list classdef) : list (ctab * ptab) :=
  fold_left (fun t cd => t ++ [build_class t cd]) h tabs.
Definition tables (h : list classdef) : list (ctab * ptab) := tables_from [] h.

Definition str (l : list Z) : name := l.
(* "_traits_cache__", "trait_added", "trait_modified" *)
Definition n_traits_cache__ : name := [95;116;114;97;105;116;115;95;99;97;99;104;101;95;95].
Definition n_trait_added : name := [116;114;97;105;116;95;97;100;100;101;100].
Definition n_trait_modified : name := [116;114;97;105;116;95;109;111;100;105;102;105;101;100].

(* class 0 HasTraits (l.1054 and the two events), 1 HasStrictTraits (l.3462),
   2 HasPrivateTraits (l.3529, 3532) *)
Definition roots : list classdef :=
  [ mkClass [(n_traits_cache__, PAny VNone); (n_trait_added, PEvent None); (n_trait_modified, PEvent None)] [];
    mkClass [([US], PDisallow)] [0%nat];
    mkClass [([US; US], PAny VNone); ([US], PDisallow)] [0%nat] ].

(* ---------- one object ---------- *)
Inductive exn := AttributeError | TraitError | TypeError | OtherError.
Inductive outcome := Val (v : Z) | Done | Raise (e : exn).

Inductive op :=
| OGet (n : name) | OSet (n : name) (v : Z) | ODel (n : name)
| OAdd (n : name) (p : policy) | ORem (n : name).

Record obs := mkObs { o_out : outcome; o_stored : option Z }.   (* obj.__dict__.get(name) afterwards *)

Record state := mkState {
  s_ctd : ctab;                  (* obj->ctrait_dict = type(obj).__class_traits__, grows by caching *)
  s_itd : list (name * policy);  (* obj->itrait_dict *)
  s_od : list (name * Z)         (* obj->obj_dict *)
}.

Definition op_name (o : op) : name :=
  match o with OGet n | OSet n _ | ODel n | OAdd n _ | ORem n => n end.

(* first prefix of the sorted list that matches (has_traits.py l.3151-3155) *)
Fixpoint first_match (n : name) (pt : ptab) : option (name * policy) :=
  match pt with
  | [] => None
  | (q, p) :: r => if is_prefix q n then Some (q, p) else first_match n r
  end.

Section Object.
  Variable pt : ptab.            (* type(obj).__prefix_traits__ *)

  (* get_prefix_trait (ctraits.c l.622-645) calling __prefix_trait__ (l.3123-3180):
     Some policy and the class dict with the resolved trait cached, or the exception *)
  Definition prefix_trait (s : state) (n : name) (is_set : bool) : (policy * state) + exn :=
    if dunder n then                                            (* l.3128 *)
      if is_set then                                            (* l.3134: any_trait *)
        inl (PAny VNone, mkState (aset n (PAny VNone) (s_ctd s)) (s_itd s) (s_od s))
      else inr AttributeError                                   (* l.3139 *)
    else match first_match n pt with
         | Some (_, p) =>                                       (* ctraits.c l.630: cached *)
             inl (p, mkState (aset n p (s_ctd s)) (s_itd s) (s_od s))
         | None => inr OtherError                               (* l.3177 SystemError *)
         end.

  Definition set_od (s : state) (od : list (name * Z)) : state := mkState (s_ctd s) (s_itd s) od.
  Definition out (s : state) (n : name) (o : outcome) : state * obs := (s, mkObs o (assoc n (s_od s))).

  (* trait->getattr when the name is not in obj.__dict__ *)
  Definition getattr (s : state) (n : name) (p : policy) : state * obs :=
    match p with
    | PPython => out s n (Raise AttributeError)                 (* getattr_python: GenericGetAttr *)
    | PAny d | PTyped _ d | PReadOnly d =>                      (* getattr_trait l.1978-1984: default stored *)
        out (set_od s (aset n d (s_od s))) n (Val d)
    | PDisallow => out s n (Raise AttributeError)               (* getattr_disallow *)
    | PEvent _ => out s n (Raise AttributeError)                (* getattr_event *)
    | PConstant c => out s n (Val c)                            (* getattr_constant *)
    end.

  (* trait->setattr with a value *)
  Definition setattr (s : state) (n : name) (p : policy) (v : Z) : state * obs :=
    match p with
    | PPython | PAny _ => out (set_od s (aset n v (s_od s))) n Done
    | PTyped k _ =>                                             (* setattr_trait l.2444-2454 *)
        if Z.eqb v VUndef then out (set_od s (aset n v (s_od s))) n Done   (* Undefined is not validated *)
        else match validate k v with
             | Some w => out (set_od s (aset n w (s_od s))) n Done
             | None => out s n (Raise TraitError)
             end
    | PDisallow => out s n (Raise TraitError)
    | PConstant _ => out s n (Raise TraitError)
    | PEvent k =>                                               (* setattr_event l.2345-2352: nothing stored *)
        match k with
        | None => out s n Done
        | Some k' => match validate k' v with
                     | Some _ => out s n Done
                     | None => out s n (Raise TraitError)
                     end
        end
    | PReadOnly d =>                                            (* setattr_readonly l.2884-2902 *)
        if negb (Z.eqb d VUndef) then out s n (Raise TraitError)     (* l.2884: a default was given *)
        else
        match assoc n (s_od s) with
        | None => out (set_od s (aset n v (s_od s))) n Done
        | Some w => if Z.eqb w VUndef then out (set_od s (aset n v (s_od s))) n Done
                    else out s n (Raise TraitError)
        end
    end.

  (* trait->setattr with value NULL (delattr) *)
  Definition delattr (s : state) (n : name) (p : policy) : state * obs :=
    match p with
    | PPython => if amem n (s_od s) then out (set_od s (adel n (s_od s))) n Done
                 else out s n (Raise AttributeError)            (* setattr_python l.2199-2210 *)
    | PAny _ | PTyped _ _ => out (set_od s (adel n (s_od s))) n Done   (* setattr_trait l.2391-2405 *)
    | PDisallow => out s n (Raise TraitError)
    | PConstant _ => out s n (Raise TraitError)
    | PReadOnly _ => out s n (Raise TraitError)                 (* delete_readonly_error *)
    | PEvent _ => out s n Done                                  (* setattr_event, value == NULL *)
    end.

  (* has_traits_setattro l.649-665: instance dict, class dict, prefix trait *)
  Definition lookup_set (s : state) (n : name) : (policy * state) + exn :=
    match assoc n (s_itd s) with
    | Some p => inl (p, s)
    | None => match assoc n (s_ctd s) with
              | Some p => inl (p, s)
              | None => prefix_trait s n true
              end
    end.

  Definition step (s : state) (o : op) : state * obs :=
    match o with
    | OGet n =>                                                  (* has_traits_getattro l.836-884 *)
        match assoc n (s_od s) with
        | Some v => out s n (Val v)                             (* l.845-858: value in obj.__dict__ *)
        | None =>
            match assoc n (s_itd s) with
            | Some p => getattr s n p
            | None =>
                match assoc n (s_ctd s) with
                | Some p => getattr s n p
                | None =>                                       (* GenericGetAttr fails: no class attribute *)
                    match prefix_trait s n false with
                    | inl (p, s') => getattr s' n p
                    | inr e => out s n (Raise e)
                    end
                end
            end
        end
    | OSet n v =>
        match lookup_set s n with
        | inl (p, s') => setattr s' n p v
        | inr e => out s n (Raise e)
        end
    | ODel n =>
        match lookup_set s n with
        | inl (p, s') => delattr s' n p
        | inr e => out s n (Raise e)
        end
    | OAdd n p =>                                           (* add_trait l.2838: itrait_dict[name] = trait *)
        out (mkState (s_ctd s) (aset n p (s_itd s)) (s_od s)) n Done
    | ORem n =>                                          (* remove_trait l.2885-2905 *)
        match assoc n (s_itd s) with
        | Some _ => out (mkState (s_ctd s) (adel n (s_itd s)) (adel n (s_od s))) n (Val 1)
        | None => if amem n (s_ctd s)                           (* _trait(name, 0) finds the class trait *)
                  then out (set_od s (adel n (s_od s))) n (Val 0)
                  else out s n (Val 0)
        end
    end.

  Fixpoint run (s : state) (ops : list op) : list (op * obs) :=
    match ops with
    | [] => []
    | o :: r => let '(s', ob) := step s o in (o, ob) :: run s' r
    end.
End Object.

Definition init_state (ct : ctab) : state := mkState ct [] [].

(* ---------- classes created after an instance of an earlier class was used ----------
   get_prefix_trait stores the resolved trait in type(obj).__class_traits__ (ctraits.c l.630);
   a class created later merges that dictionary as it is then (has_traits.py l.575-586). *)
Fixpoint final_state (pt : ptab) (s : state) (ops : list op) : state :=
  match ops with
  | [] => s
  | o :: r => final_state pt (fst (step pt s o)) r
  end.

Definition set_ctab (T : list (ctab * ptab)) (k : nat) (ct : ctab) : list (ctab * ptab) :=
  firstn k T ++ match skipn k T with [] => [] | (_, pt) :: r => (ct, pt) :: r end.

(* classes h1, then the history [pre] on a fresh instance of class k, then classes h2 *)
Definition staged_tables (h1 : list classdef) (k : nat) (pre : list op) (h2 : list classdef)
  : list (ctab * ptab) :=
  let T1 := tables h1 in
  let t := tabs_nth T1 k in
  tables_from (set_ctab T1 k (s_ctd (final_state (snd t) (init_state (fst t)) pre))) h2.

(* ---------- two instances of one class, operations interleaved ----------
   Both share type(obj).__class_traits__ (with its cache); each has its own instance
   traits and its own __dict__.  [w] = true selects the second instance. *)
Definition inst := (list (name * policy) * list (name * Z))%type.
Definition state2 := (ctab * inst * inst)%type.

Definition step2 (pt : ptab) (s : state2) (w : bool) (o : op) : state2 * obs :=
  let '(ctd, a, b) := s in
  let me := if w then b else a in
  let '(s', ob) := step pt (mkState ctd (fst me) (snd me)) o in
  let me' := (s_itd s', s_od s') in
  ((s_ctd s', if w then a else me', if w then me' else b), ob).

Fixpoint run2 (pt : ptab) (s : state2) (ops : list (bool * op)) : list (bool * op * obs) :=
  match ops with
  | [] => []
  | (w, o) :: r => let '(s', ob) := step2 pt s w o in (w, o, ob) :: run2 pt s' r
  end.

Definition init_state2 (ct : ctab) : state2 := (ct, ([], []), ([], [])).
