(* C13 — executable model of attribute-name resolution and access policies.

   Modelled code (line numbers of the tree the model was written against):
     traits/has_traits.py  update_traits_class_dict  l.399-713 (own traits l.443-508,
                           merge of the direct bases l.550-593, "" entry l.596-598,
                           sort l.606); HasTraits / HasStrictTraits / HasPrivateTraits
                           class bodies (l.1054, l.3462, l.3529-3532);
                           add_trait l.2799-2870; remove_trait l.2872-2905;
                           __prefix_trait__ l.3123-3180
     traits/ctraits.c      get_prefix_trait l.622-645; has_traits_setattro l.649-665;
                           has_traits_getattro l.836-884; get_trait(.,.,0) l.890-927;
                           getattr_python/event/trait/disallow/constant l.1919-2094;
                           setattr_python l.2167-2220; setattr_event l.2335-2367;
                           setattr_trait l.2373-2550; setattr_disallow/readonly/constant
                           l.2860-2927.

   Names are lists of character codes ('_' = 95).  Values are integer atoms
   (0..99 ints, 100..199 strings, 200 None, 201 Undefined).  No proofs here. *)
From Coq Require Import ZArith List Bool.
Import ListNotations.
Open Scope Z_scope.

(* ---------- names ---------- *)
Definition name := list Z.
Definition US : Z := 95.                       (* '_' *)
Definition VNone : Z := 200.
Definition VUndef : Z := 201.

Fixpoint name_eqb (a b : name) : bool :=
  match a, b with
  | [], [] => true
  | x :: a', y :: b' => Z.eqb x y && name_eqb a' b'
  | _, _ => false
  end.

(* prefix == name[:len(prefix)]   (has_traits.py l.3152) *)
Fixpoint is_prefix (p n : name) : bool :=
  match p, n with
  | [], _ => true
  | x :: p', y :: n' => Z.eqb x y && is_prefix p' n'
  | _ :: _, [] => false
  end.

Definition starts_uu (n : name) : bool :=
  match n with x :: y :: _ => Z.eqb x US && Z.eqb y US | _ => false end.
(* (name[:2] == "__") and (name[-2:] == "__")   (has_traits.py l.3128) *)
Definition dunder (n : name) : bool := starts_uu n && starts_uu (rev n).
(* name[-1:] == "_"   (has_traits.py l.467) *)
Definition ends_us (n : name) : bool :=
  match rev n with x :: _ => Z.eqb x US | [] => false end.

(* ---------- policies (kinds of trait) ---------- *)
(* validators: Some w = accepted and stored as w, None = TraitError.
   VInt = Int, VStr = Str, VCInt = CInt (a numeric string "k" is atom 100+k and converts to k),
   VFun = any other validator (used by the theorems, never by the generated cases) *)
Inductive vkind := VInt | VStr | VCInt | VNoneOnly | VFun (f : Z -> option Z).
Definition validate (k : vkind) (v : Z) : option Z :=
  match k with
  | VInt => if (0 <=? v) && (v <? 100) then Some v else None
  | VStr => if (100 <=? v) && (v <? 200) then Some v else None
  | VCInt => if (0 <=? v) && (v <? 100) then Some v
             else if (100 <=? v) && (v <? 200) then Some (v - 100) else None
  | VNoneOnly => if Z.eqb v VNone then Some v else None   (* Instance(TraitListEvent): only None is acceptable *)
  | VFun f => f v
  end.

Inductive policy :=
| PPython                         (* Python()            getattr_python / setattr_python *)
| PAny (d : Z)                    (* Any(d)              getattr_trait / setattr_trait, no validator *)
| PDisallow                       (* Disallow            getattr_disallow / setattr_disallow *)
| PReadOnly (d : Z)               (* ReadOnly / ReadOnly(d): getattr_trait / setattr_readonly; d = Undefined unless given *)
| PConstant (c : Z)               (* Constant(c)         getattr_constant / setattr_constant *)
| PEvent (k : option vkind)       (* Event() / Event(Int): getattr_event / setattr_event, optional validator *)
| PTyped (k : vkind) (d : Z)      (* Int(d) / Str(d)     getattr_trait / setattr_trait with validator *)
| PMap (m : list (Z * Z)) (d : Z) (* Map(m, default_value=d): is_mapped, validate = key of m, post_setattr sets name_ *)
| PShadow (m : list (Z * Z))      (* mapped_trait_for(Map(m), name): Any whose default is m[getattr(obj, name)] *)
| PList.                          (* List(Int): has_items; default an empty TraitListObject (atom 300); no atom
                                     of the value universe is a list, so every assignment is rejected *)

Definition VEmptyList : Z := 300.
Definition items_suffix : name := [95; 105; 116; 101; 109; 115].     (* "_items" *)

Fixpoint zassoc (k : Z) (m : list (Z * Z)) : option Z :=
  match m with [] => None | (a, b) :: r => if Z.eqb a k then Some b else zassoc k r end.
(* traits that bring a sub-trait with them (handler.is_mapped) *)
Definition mapped_of (p : policy) : option (list (Z * Z)) :=
  match p with PMap m _ => Some m | _ => None end.
(* the sub-traits a trait brings with it under derived names: handler.has_items -> name_items =
   handler.items_event() (an Event of TraitListEvent), handler.is_mapped -> name_ = the shadow *)
Definition subs (n : name) (p : policy) : list (name * policy) :=
  match p with
  | PMap m _ => [(n ++ [US], PShadow m)]
  | PList => [(n ++ items_suffix, PEvent (Some VNoneOnly))]
  | _ => []
  end.
Definition plainp (p : policy) : bool :=
  match p with PMap _ _ | PShadow _ | PList => false | _ => true end.

(* ---------- insertion-ordered dictionaries (Python dict) ---------- *)
Section Assoc.
  Context {A : Type}.
  Fixpoint assoc (n : name) (l : list (name * A)) : option A :=
    match l with
    | [] => None
    | (k, v) :: r => if name_eqb k n then Some v else assoc n r
    end.
  Definition amem (n : name) (l : list (name * A)) : bool :=
    match assoc n l with Some _ => true | None => false end.
  (* d[n] = v : replace in place, or append *)
  Fixpoint aset (n : name) (v : A) (l : list (name * A)) : list (name * A) :=
    match l with
    | [] => [(n, v)]
    | (k, w) :: r => if name_eqb k n then (k, v) :: r else (k, w) :: aset n v r
    end.
  Fixpoint adel (n : name) (l : list (name * A)) : list (name * A) :=
    match l with
    | [] => []
    | (k, w) :: r => if name_eqb k n then adel n r else (k, w) :: adel n r
    end.
End Assoc.

Definition ctab := list (name * policy).   (* __class_traits__ *)
(* __prefix_traits__: the list prefix_traits["*"] and the dict entries are
   updated together (l.507-508, 592-593, 597-598), so they are kept as one
   ordered association list *)
Definition ptab := list (name * policy).

(* ---------- class creation ---------- *)
Record classdef := mkClass {
  c_decls : list (name * policy);   (* trait declarations of the class body, in order *)
  c_bases : list nat                (* direct bases: indices of earlier classes *)
}.

(* l.443-508: a declaration whose name ends in '_' is a prefix (wildcard) trait *)
Definition own_step (acc : ctab * ptab) (d : name * policy) : ctab * ptab :=
  let '(ct, pt) := acc in
  let '(n, p) := d in
  if ends_us n then (ct, aset (removelast n) p pt)     (* l.506-508 *)
  else (* l.468; l.473-491: class_traits[name + "_items"], class_traits[name + "_"] *)
       (fold_left (fun t e => aset (fst e) (snd e) t) (subs n p) (aset n p ct), pt).
Definition own_tables (decls : list (name * policy)) : ctab * ptab :=
  fold_left own_step decls ([], []).

(* l.575-586: for name, value in base.__class_traits__: if name not in class_traits *)
Definition merge_tab (t base : list (name * policy)) : list (name * policy) :=
  fold_left (fun acc e => if amem (fst e) acc then acc else acc ++ [e]) base t.

(* prefix_list.sort(key=len, reverse=True): stable, longest first (l.606) *)
Fixpoint insert_len (e : name * policy) (l : ptab) : ptab :=
  match l with
  | [] => [e]
  | y :: r => if Nat.ltb (length (fst e)) (length (fst y)) then y :: insert_len e r
              else e :: l
  end.
Definition sort_len (l : ptab) : ptab := fold_right insert_len [] l.

Definition tabs_nth (tabs : list (ctab * ptab)) (b : nat) : ctab * ptab := nth b tabs ([], []).

Definition build_class (tabs : list (ctab * ptab)) (cd : classdef) : ctab * ptab :=
  let own := own_tables (c_decls cd) in
  (* l.550-593: the direct bases in order; class traits l.575-586, prefix traits l.589-593 *)
  let merged := fold_left (fun acc b => (merge_tab (fst acc) (fst (tabs_nth tabs b)),
                                         merge_tab (snd acc) (snd (tabs_nth tabs b))))
                          (c_bases cd) own in
  (* l.596-598 *)
  let pt := if amem [] (snd merged) then snd merged else snd merged ++ [([], PPython)] in
  (fst merged, sort_len pt).

(* classes are created one after the other *)
Definition tables_from (tabs : list (ctab * ptab)) (h : list classdef) : list (ctab * ptab) :=
  fold_left (fun t cd => t ++ [build_class t cd]) h tabs.
Definition tables (h : list classdef) : list (ctab * ptab) := tables_from [] h.

Definition str (l : list Z) : name := l.
(* "_traits_cache__", "trait_added", "trait_modified" *)
Definition n_traits_cache__ : name := [95;116;114;97;105;116;115;95;99;97;99;104;101;95;95].
Definition n_trait_added : name := [116;114;97;105;116;95;97;100;100;101;100].
Definition n_trait_modified : name := [116;114;97;105;116;95;109;111;100;105;102;105;101;100].

(* class 0 HasTraits (l.1054 and the two events), 1 HasStrictTraits (l.3462),
   2 HasPrivateTraits (l.3529, 3532) *)
Definition roots : list classdef :=
  [ mkClass [(n_traits_cache__, PAny VNone); (n_trait_added, PEvent None); (n_trait_modified, PEvent None)] [];
    mkClass [([US], PDisallow)] [0%nat];
    mkClass [([US; US], PAny VNone); ([US], PDisallow)] [0%nat] ].

(* ---------- one object ---------- *)
Inductive exn := AttributeError | TraitError | TypeError | OtherError.
Inductive outcome := Val (v : Z) | Done | Raise (e : exn).

Inductive op :=
| OGet (n : name) | OSet (n : name) (v : Z) | ODel (n : name)
| OAdd (n : name) (p : policy) | ORem (n : name).

(* o_stored / o_shadow / o_base: obj.__dict__.get of name, of name + "_", and of name[:-1]
   (when name ends in '_') afterwards: the names one operation on name can touch *)
Record obs := mkObs { o_out : outcome; o_stored : option Z; o_shadow : option Z; o_base : option Z }.

Record state := mkState {
  s_ctd : ctab;                  (* obj->ctrait_dict = type(obj).__class_traits__, grows by caching *)
  s_itd : list (name * policy);  (* obj->itrait_dict *)
  s_od : list (name * Z)         (* obj->obj_dict *)
}.

Definition op_name (o : op) : name :=
  match o with OGet n | OSet n _ | ODel n | OAdd n _ | ORem n => n end.

(* first prefix of the sorted list that matches (has_traits.py l.3151-3155) *)
Fixpoint first_match (n : name) (pt : ptab) : option (name * policy) :=
  match pt with
  | [] => None
  | (q, p) :: r => if is_prefix q n then Some (q, p) else first_match n r
  end.

Section Object.
  Variable pt : ptab.            (* type(obj).__prefix_traits__ *)

  (* get_prefix_trait (ctraits.c l.622-645) calling __prefix_trait__ (l.3123-3180):
     Some policy and the class dict with the resolved trait cached, or the exception *)
  Definition prefix_trait (s : state) (n : name) (is_set : bool) : (policy * state) + exn :=
    if dunder n then                                            (* l.3128 *)
      if is_set then                                            (* l.3134: any_trait *)
        inl (PAny VNone, mkState (aset n (PAny VNone) (s_ctd s)) (s_itd s) (s_od s))
      else inr AttributeError                                   (* l.3139 *)
    else match first_match n pt with
         | Some (_, p) =>                                       (* ctraits.c l.630: cached *)
             inl (p, mkState (aset n p (s_ctd s)) (s_itd s) (s_od s))
         | None => inr OtherError                               (* l.3177 SystemError *)
         end.

  Definition set_od (s : state) (od : list (name * Z)) : state := mkState (s_ctd s) (s_itd s) od.
  Definition out (s : state) (n : name) (o : outcome) : state * obs :=
    (s, mkObs o (assoc n (s_od s)) (assoc (n ++ [US]) (s_od s))
              (if ends_us n then assoc (removelast n) (s_od s) else None)).

  (* trait->getattr when the name is not in obj.__dict__ *)
  Definition getattr (s : state) (n : name) (p : policy) : state * obs :=
    match p with
    | PPython => out s n (Raise AttributeError)                 (* getattr_python: GenericGetAttr *)
    | PAny d | PTyped _ d | PReadOnly d | PMap _ d =>           (* getattr_trait l.1978-1984: default stored *)
        out (set_od s (aset n d (s_od s))) n (Val d)            (* (PMap: post_setattr is added by [getattr_m]) *)
    | PShadow _ => out s n (Raise OtherError)                   (* handled by [getattr_m] *)
    | PList => out (set_od s (aset n VEmptyList (s_od s))) n (Val VEmptyList)   (* TraitListObject([]) stored *)
    | PDisallow => out s n (Raise AttributeError)               (* getattr_disallow *)
    | PEvent _ => out s n (Raise AttributeError)                (* getattr_event *)
    | PConstant c => out s n (Val c)                            (* getattr_constant *)
    end.

  (* trait->setattr with a value *)
  Definition setattr (s : state) (n : name) (p : policy) (v : Z) : state * obs :=
    match p with
    | PPython | PAny _ | PShadow _ => out (set_od s (aset n v (s_od s))) n Done
    | PMap m _ =>                                               (* validate_trait_map; post_setattr: [setattr_m] *)
        if Z.eqb v VUndef then out (set_od s (aset n v (s_od s))) n Done
        else match zassoc v m with
             | Some _ => out (set_od s (aset n v (s_od s))) n Done
             | None => out s n (Raise TraitError)
             end
    | PList =>                                                  (* no atom is a list: TraitError *)
        if Z.eqb v VUndef then out (set_od s (aset n v (s_od s))) n Done
        else out s n (Raise TraitError)
    | PTyped k _ =>                                             (* setattr_trait l.2444-2454 *)
        if Z.eqb v VUndef then out (set_od s (aset n v (s_od s))) n Done   (* Undefined is not validated *)
        else match validate k v with
             | Some w => out (set_od s (aset n w (s_od s))) n Done
             | None => out s n (Raise TraitError)
             end
    | PDisallow => out s n (Raise TraitError)
    | PConstant _ => out s n (Raise TraitError)
    | PEvent k =>                                               (* setattr_event l.2345-2352: nothing stored *)
        match k with
        | None => out s n Done
        | Some k' => match validate k' v with
                     | Some _ => out s n Done
                     | None => out s n (Raise TraitError)
                     end
        end
    | PReadOnly d =>                                            (* setattr_readonly l.2884-2902 *)
        if negb (Z.eqb d VUndef) then out s n (Raise TraitError)     (* l.2884: a default was given *)
        else
        match assoc n (s_od s) with
        | None => out (set_od s (aset n v (s_od s))) n Done
        | Some w => if Z.eqb w VUndef then out (set_od s (aset n v (s_od s))) n Done
                    else out s n (Raise TraitError)
        end
    end.

  (* trait->setattr with value NULL (delattr) *)
  Definition delattr (s : state) (n : name) (p : policy) : state * obs :=
    match p with
    | PPython => if amem n (s_od s) then out (set_od s (adel n (s_od s))) n Done
                 else out s n (Raise AttributeError)            (* setattr_python l.2199-2210 *)
    | PAny _ | PTyped _ _ | PMap _ _ | PShadow _ | PList =>
        out (set_od s (adel n (s_od s))) n Done                 (* setattr_trait l.2391-2405 *)
    | PDisallow => out s n (Raise TraitError)
    | PConstant _ => out s n (Raise TraitError)
    | PReadOnly _ => out s n (Raise TraitError)                 (* delete_readonly_error *)
    | PEvent _ => out s n Done                                  (* setattr_event, value == NULL *)
    end.

  (* has_traits_setattro l.649-665: instance dict, class dict, prefix trait *)
  Definition lookup_set (s : state) (n : name) : (policy * state) + exn :=
    match assoc n (s_itd s) with
    | Some p => inl (p, s)
    | None => match assoc n (s_ctd s) with
              | Some p => inl (p, s)
              | None => prefix_trait s n true
              end
    end.

  (* remove_trait l.2885-2905 for a trait without sub-traits: if _trait(name, 0) finds an instance
     or class trait, the value leaves obj.__dict__ and the instance trait (if any) is deleted *)
  Definition rem1 (s : state) (n : name) : state :=
    match assoc n (s_itd s) with
    | Some _ => mkState (s_ctd s) (adel n (s_itd s)) (adel n (s_od s))
    | None => if amem n (s_ctd s) then set_od s (adel n (s_od s)) else s
    end.

  (* ----- mapped traits (trait_types.Map l.3095-3190, trait_converters.mapped_trait_for) -----
     One level of nesting is modelled: the assignment obj.<name_> = m[value] made by
     Map.post_setattr and the read getattr(obj, name) made by the shadow's default run the
     full look-up with the plain handlers above; a Map whose shadow name is itself governed
     by a Map is cut there (never generated). *)
  Definition nested_set (s : state) (m : name) (w : Z) : state * option exn :=
    match lookup_set s m with
    | inl (p, s') => let '(s'', ob) := setattr s' m p w in
                     (s'', match o_out ob with Raise e => Some e | _ => None end)
    | inr e => (s, Some e)
    end.
  (* Map.post_setattr l.3183: setattr(object, name + "_", self.mapped_value(value)); KeyError if no key *)
  Definition post_map (s : state) (n : name) (m : list (Z * Z)) (v : Z) : state * option exn :=
    match zassoc v m with
    | None => (s, Some OtherError)
    | Some w => nested_set s (n ++ [US]) w
    end.

  (* has_traits_getattro l.836-884 with the handler [ga] for the trait found *)
  Definition get_with (ga : state -> name -> policy -> state * obs) (s : state) (n : name) : state * obs :=
    match assoc n (s_od s) with
    | Some v => out s n (Val v)                                 (* l.845-858: value in obj.__dict__ *)
    | None =>
        match assoc n (s_itd s) with
        | Some p => ga s n p
        | None =>
            match assoc n (s_ctd s) with
            | Some p => ga s n p
            | None =>                                           (* GenericGetAttr fails: no class attribute *)
                match prefix_trait s n false with
                | inl (p, s') => ga s' n p
                | inr e => out s n (Raise e)
                end
            end
        end
    end.

  (* getattr_trait of a Map: default stored (l.1978-1984), then post_setattr (l.1988-1994) *)
  Definition getattr_map (s : state) (n : name) (m : list (Z * Z)) (d : Z) : state * obs :=
    let '(s1, e) := post_map (set_od s (aset n d (s_od s))) n m d in
    match e with Some x => out s1 n (Raise x) | None => out s1 n (Val d) end.
  Definition getattr0 (s : state) (n : name) (p : policy) : state * obs :=
    match p with PMap m d => getattr_map s n m d | _ => getattr s n p end.
  (* the shadow's callable default (_mapped_trait_default): m[getattr(obj, name)], stored (l.1978-1984) *)
  Definition getattr_m (s : state) (n : name) (p : policy) : state * obs :=
    match p with
    | PShadow m =>
        let '(s1, ob) := get_with getattr0 s (removelast n) in
        match o_out ob with
        | Val x => match zassoc x m with
                   | Some w => out (set_od s1 (aset n w (s_od s1))) n (Val w)
                   | None =>                                     (* KeyError; a list value is unhashable *)
                       out s1 n (Raise (if Z.eqb x VEmptyList then TypeError else OtherError))
                   end
        | Raise e => out s1 n (Raise e)
        | Done => out s1 n (Raise OtherError)
        end
    | _ => getattr0 s n p
    end.

  (* setattr_trait l.2444-2550 for a Map (post_setattr <> NULL) *)
  Definition setattr_m (s : state) (n : name) (p : policy) (v : Z) : state * obs :=
    match p with
    | PMap m d =>
        if negb (Z.eqb v VUndef) && match zassoc v m with Some _ => false | None => true end
        then out s n (Raise TraitError)                         (* l.2447-2451 *)
        else
          (* l.2480-2512: old value; a missing one is the default, stored and post_setattr'ed *)
          let '(s1, old, e1) :=
            match assoc n (s_od s) with
            | Some o => (s, o, None)
            | None => let '(s', e) := post_map (set_od s (aset n d (s_od s))) n m d in (s', d, e)
            end in
          match e1 with
          | Some x => out s1 n (Raise x)
          | None =>
              let s2 := set_od s1 (aset n v (s_od s1)) in       (* l.2520 *)
              if Z.eqb old v then out s2 n Done                 (* l.2515-2517, 2533: not changed *)
              else let '(s3, e) := post_map s2 n m v in         (* l.2535-2541 *)
                   match e with Some x => out s3 n (Raise x) | None => out s3 n Done end
          end
    | _ => setattr s n p v
    end.

  Definition step (s : state) (o : op) : state * obs :=
    match o with
    | OGet n => get_with getattr_m s n
    | OSet n v =>
        match lookup_set s n with
        | inl (p, s') => setattr_m s' n p v
        | inr e => out s n (Raise e)
        end
    | ODel n =>
        match lookup_set s n with
        | inl (p, s') => delattr s' n p
        | inr e => out s n (Raise e)
        end
    | OAdd n p =>
        (* add_trait l.2825-2830: the sub-traits first, self.add_trait(name + "_items", ..) /
           self.add_trait(name + "_", mapped_trait_for(..)); l.2838: itrait_dict[name] = trait *)
        let itd := fold_left (fun t e => aset (fst e) (snd e) t) (subs n p) (s_itd s) in
        out (mkState (s_ctd s) (aset n p itd) (s_od s)) n Done
    | ORem n =>                                          (* remove_trait l.2885-2905 *)
        let found := match assoc n (s_itd s) with Some p => Some p | None => assoc n (s_ctd s) end in
        match found with
        | None => out s n (Val 0)                               (* _trait(name, 0) is None *)
        | Some p =>
            (* l.2890-2894: if handler.has_items: self.remove_trait(name + "_items");
               if handler.is_mapped: self.remove_trait(name + "_") *)
            let s1 := fold_left rem1 (map fst (subs n p)) s in
            let r := amem n (s_itd s1) in
            out (rem1 s1 n) n (Val (if r then 1 else 0))
        end
    end.

  Fixpoint run (s : state) (ops : list op) : list (op * obs) :=
    match ops with
    | [] => []
    | o :: r => let '(s', ob) := step s o in (o, ob) :: run s' r
    end.
End Object.

Definition init_state (ct : ctab) : state := mkState ct [] [].

(* ---------- classes created after an instance of an earlier class was used ----------
   get_prefix_trait stores the resolved trait in type(obj).__class_traits__ (ctraits.c l.630);
   a class created later merges that dictionary as it is then (has_traits.py l.575-586). *)
Fixpoint final_state (pt : ptab) (s : state) (ops : list op) : state :=
  match ops with
  | [] => s
  | o :: r => final_state pt (fst (step pt s o)) r
  end.

Definition set_ctab (T : list (ctab * ptab)) (k : nat) (ct : ctab) : list (ctab * ptab) :=
  firstn k T ++ match skipn k T with [] => [] | (_, pt) :: r => (ct, pt) :: r end.

(* classes h1, then the history [pre] on a fresh instance of class k, then classes h2 *)
Definition staged_tables (h1 : list classdef) (k : nat) (pre : list op) (h2 : list classdef)
  : list (ctab * ptab) :=
  let T1 := tables h1 in
  let t := tabs_nth T1 k in
  tables_from (set_ctab T1 k (s_ctd (final_state (snd t) (init_state (fst t)) pre))) h2.

(* ---------- two instances of one class, operations interleaved ----------
   Both share type(obj).__class_traits__ (with its cache); each has its own instance
   traits and its own __dict__.  [w] = true selects the second instance. *)
Definition inst := (list (name * policy) * list (name * Z))%type.
Definition state2 := (ctab * inst * inst)%type.

Definition step2 (pt : ptab) (s : state2) (w : bool) (o : op) : state2 * obs :=
  let '(ctd, a, b) := s in
  let me := if w then b else a in
  let '(s', ob) := step pt (mkState ctd (fst me) (snd me)) o in
  let me' := (s_itd s', s_od s') in
  ((s_ctd s', if w then a else me', if w then me' else b), ob).

Fixpoint run2 (pt : ptab) (s : state2) (ops : list (bool * op)) : list (bool * op * obs) :=
  match ops with
  | [] => []
  | (w, o) :: r => let '(s', ob) := step2 pt s w o in (w, o, ob) :: run2 pt s' r
  end.

Definition init_state2 (ct : ctab) : state2 := (ct, ([], []), ([], [])).

(* ---------- a trait_added listener that declares traits lazily ----------
   get_prefix_trait (ctraits.c l.622-645): after caching the resolved trait it assigns
   obj.trait_added = name (l.634) and then RE-READS the trait with get_trait(obj, name, 0)
   (l.638: instance dict first), so an instance trait that a trait_added listener installs with
   add_trait(name, ...) governs the very access that triggered the resolution.
   add_trait (has_traits.py l.2835-2870) fires trait_added itself when _trait(name, 0) was None,
   after itrait_dict[name] = trait: the listener's add_trait then overwrites that entry (inside
   the listener _trait(name, 0) is not None any more, so there is no further event).
   The listener is a table prefix -> policy of the class ("names starting with n_ are Int(7)");
   [step_l] wraps [step]: the resolution, the listener's add_trait, then the access itself.
   Cut: sub-traits of mapped traits and nested assignments do not call the listener. *)
Fixpoint listener (lst : list (name * policy)) (n : name) : option policy :=
  match lst with
  | [] => None
  | (q, p) :: r => if is_prefix q n then Some p else listener r n
  end.

Definition step_l (lst : list (name * policy)) (pt : ptab) (s : state) (o : op) : state * obs :=
  let n := op_name o in
  match listener lst n with
  | None => step pt s o
  | Some lp =>
      if amem n (s_itd s) || amem n (s_ctd s) then step pt s o      (* known name: no trait_added *)
      else
        let pre := fun (is_set : bool) =>
          match prefix_trait pt s n is_set with
          | inl (_, s') => step pt (mkState (s_ctd s') (aset n lp (s_itd s')) (s_od s')) o
          | inr _ => step pt s o                                     (* __x__ read: nothing resolved *)
          end in
        match o with
        | OGet _ => if amem n (s_od s) then step pt s o else pre false
        | OSet _ _ | ODel _ => pre true
        | OAdd _ _ => let '(s1, ob) := step pt s o in
                      (mkState (s_ctd s1) (aset n lp (s_itd s1)) (s_od s1), ob)
        | ORem _ => step pt s o
        end
  end.

Definition step2_l (lst : list (name * policy)) (pt : ptab) (s : state2) (w : bool) (o : op) : state2 * obs :=
  let '(ctd, a, b) := s in
  let me := if w then b else a in
  let '(s', ob) := step_l lst pt (mkState ctd (fst me) (snd me)) o in
  let me' := (s_itd s', s_od s') in
  ((s_ctd s', if w then a else me', if w then me' else b), ob).

(* ---------- add_class_trait: declarations added to a class at run time ----------
   HasTraits.add_class_trait (has_traits.py l.1091-1122): _add_class_trait on the class itself
   (is_subclass=False: an existing definition raises TraitError), then on all existing subclasses,
   transitively (is_subclass=True: an existing definition is kept silently).
   _add_class_trait (l.1126-1223): a name ending in '_' is a wildcard for name[:-1]: `if name in
   prefix_traits` -> already defined; else prefix_traits[name] = trait, prefix_list.append(name),
   prefix_list.sort(key=len, reverse=True) (l.1163-1170); an explicit name: `if
   class_traits.get(name) is not None` -> already defined (this includes names that are only cached
   resolutions), else class_traits[name] = trait (l.1223).  Plain traits only (no sub-traits). *)
Definition add_class1 (is_sub : bool) (t : ctab * ptab) (n : name) (p : policy) : option (ctab * ptab) :=
  let '(ct, pt) := t in
  if ends_us n then
    let q := removelast n in
    if amem q pt then (if is_sub then Some t else None)
    else Some (ct, sort_len (pt ++ [(q, p)]))
  else
    if amem n ct then (if is_sub then Some t else None)
    else Some (aset n p ct, pt).

(* class j is a (transitive) subclass of class k *)
Fixpoint is_desc (h : list classdef) (fuel : nat) (j k : nat) : bool :=
  match fuel with
  | O => false
  | S f => existsb (fun b => Nat.eqb b k || is_desc h f b k) (c_bases (nth j h (mkClass [] [])))
  end.

Fixpoint map_idx {A B} (f : nat -> A -> B) (i : nat) (l : list A) : list B :=
  match l with [] => [] | x :: r => f i x :: map_idx f (S i) r end.

Definition add_class (h : list classdef) (T : list (ctab * ptab)) (k : nat) (n : name) (p : policy)
  : list (ctab * ptab) * outcome :=
  match add_class1 false (tabs_nth T k) n p with
  | None => (T, Raise TraitError)
  | Some tk =>
      (map_idx (fun j t => if Nat.eqb j k then tk
                           else if is_desc h (length h) j k
                                then match add_class1 true t n p with Some x => x | None => t end
                                else t) 0 T, Done)
  end.

(* ================================================================== *)
(* Fourth wave of seeded changes (C13-u1, u2, u3).  Appended; nothing above is changed. *)

(* C13-u1.  A trait definition that went through CTrait.__getstate__ / __setstate__ (copy.copy,
   copy.deepcopy, pickle; ctraits.c _trait_getstate / _trait_setstate restore the getattr,
   setattr, post_setattr and validate handlers from their table indices) is the same definition:
   installed with add_trait / add_class_trait it governs exactly like the original. *)
Definition round_trip (p : policy) : policy := p.

(* C13-u3.  DelegatesTo(delegate, prefix = target) with modify semantics, one link: getattr_delegate
   reads getattr(delegate, target); setattr_delegate (ctraits.c) looks the target name up on the
   DELEGATE — instance trait, class trait, get_prefix_trait(delegate, target, 1) — and runs that
   trait's setattr on the delegate.  So an access made through attribute [a] of the delegating object
   is the access of [target] on the delegate object, governed by the delegate's rules; the histories
   of these cases are histories of the delegate object (the delegating object holds nothing). *)
Definition via_get (a target : name) : op := OGet target.
Definition via_set (a target : name) (v : Z) : op := OSet target v.
Definition via_del (a target : name) : op := ODel target.

(* C13-u2.  on_trait_change(handler, name) / on_trait_change(handler, name, remove=True)
   (has_traits.py _on_trait_change l.2195-2268).  Attaching calls self._trait(name, 2) (ctraits.c
   get_trait l.904-): the instance trait if there is one; else the class trait, resolving and caching a
   prefix trait with is_set = 0 if need be; a CLONE of it becomes the instance trait of the name (same
   handlers, i.e. the same policy) and carries the notifier.  Detaching calls self._trait(name, 1)
   and only edits the notifier list.  Neither changes which policy governs any name. *)
Inductive nop := NOp (o : op) | NListen (n : name) | NUnlisten (n : name).

Definition listen (pt : ptab) (s : state) (n : name) : state * obs :=
  match assoc n (s_itd s) with
  | Some _ => out s n Done
  | None =>
      match assoc n (s_ctd s) with
      | Some p => out (mkState (s_ctd s) (aset n p (s_itd s)) (s_od s)) n Done
      | None =>
          match prefix_trait pt s n false with
          | inl (p, s') => out (mkState (s_ctd s') (aset n p (s_itd s')) (s_od s')) n Done
          | inr e => out s n (Raise e)
          end
      end
  end.

Definition step_n (pt : ptab) (s : state) (x : nop) : state * obs :=
  match x with
  | NOp o => step pt s o
  | NListen n => listen pt s n
  | NUnlisten n => out s n Done
  end.

(* ================================================================== *)
(* Fifth wave (C13-v2).  A plain class attribute `name = value` in a class body whose name is a class
   trait of a base gives that trait a new default value (update_traits_class_dict l.530-546:
   class_traits[name] = ictrait(value), ictrait = the trait of the FIRST base, in order, whose class
   traits have the name; the value is not validated; CInt coerces it).  The new definition: *)
Definition redefault (p : policy) (v : Z) : policy :=
  match p with
  | PTyped k _ => PTyped k v
  | PAny _ => PAny v
  | PReadOnly _ => PReadOnly v          (* a ReadOnly with a given default: never assignable *)
  | _ => p
  end.

(* ================================================================== *)
(* Sixth wave (C13-w3).  copy.copy(obj) / pickle round trip of a HasTraits object:
   __reduce_ex__ = (__newobj__, (cls,), obj.__getstate__()); the new object is cls.__new__(cls) and
   __setstate__(state) assigns every entry with setattr (trait_set, has_traits.py l.1337-1360, 1449-1458):
   each name is governed by the COPY's own rules — instance traits are not copied.
   __getstate__ = trait_get(transient = None) (l.1299): the names of traits() (l.3017-3028: the declared
   class traits __base_traits__ in order, then the instance traits, then the names in obj.__dict__ that
   have a (cached) class trait) whose trait is not transient (Constant and Event are; Disallow is not,
   but its read raises unless a stale value shadows it), each with the value getattr gives (defaults are
   materialised on the original; a name whose read raises AttributeError is skipped).  The restore stops at the first assignment that raises;
   the half-restored object is dropped.  [ct0]: the declared class traits of the class. *)
Definition persists (p : policy) : bool :=
  match p with PPython | PAny _ | PTyped _ _ | PReadOnly _ | PDisallow => true | _ => false end.

Definition clone_names (ct0 : ctab) (s : state) : list name :=
  map fst ct0
  ++ filter (fun n => negb (amem n ct0)) (map fst (s_itd s))
  ++ filter (fun n => negb (amem n ct0) && negb (amem n (s_itd s)) && amem n (s_ctd s)) (map fst (s_od s)).

Fixpoint read_state (pt : ptab) (s : state) (ns : list name) : state * list (name * Z) :=
  match ns with
  | [] => (s, [])
  | n :: r =>
      match (match assoc n (s_itd s) with Some p => Some p | None => assoc n (s_ctd s) end) with
      | Some p =>
          if persists p then
            let '(s', ob) := step pt s (OGet n) in
            match o_out ob with
            | Val v => let '(s'', l) := read_state pt s' r in (s'', (n, v) :: l)
            | _ => read_state pt s' r
            end
          else read_state pt s r
      | None => read_state pt s r
      end
  end.

Fixpoint restore (pt : ptab) (s : state) (st : list (name * Z)) : state * option exn :=
  match st with
  | [] => (s, None)
  | (n, v) :: r =>
      let '(s', ob) := step pt s (OSet n v) in
      match o_out ob with
      | Raise e => (s', Some e)
      | _ => restore pt s' r
      end
  end.

(* two instances (ctd, a, b): a is copied; on success the copy becomes instance b.
   Result: new state, outcome, the state dictionary, what the copy holds for its names *)
Definition clone (ct0 : ctab) (pt : ptab) (s2 : state2)
  : state2 * outcome * list (name * Z) * list (name * option Z) :=
  let '(ctd, a, b) := s2 in
  let sa := mkState ctd (fst a) (snd a) in
  let '(sa', st) := read_state pt sa (clone_names ct0 sa) in
  let '(sb', e) := restore pt (mkState (s_ctd sa') [] []) st in
  match e with
  | Some x => ((s_ctd sb', (s_itd sa', s_od sa'), b), Raise x, st, [])
  | None => ((s_ctd sb', (s_itd sa', s_od sa'), (s_itd sb', s_od sb')), Done, st,
             map (fun nv => (fst nv, assoc (fst nv) (s_od sb'))) st)
  end.
