(* C13 — add_class_trait calls on a base class interleaved, in any order and number, with the
   operations of an instance of a subclass (single or multiple inheritance). *)
From Coq Require Import ZArith List Bool Lia Sorted.
From TV Require Import Common.Harness C13.Model C13.Law C13.Corr C13.Proofs C13.MapProofs C13.ClassOpProofs C13.ClassOpInd C13.ClassOpSub C13.ClassOpDag.
Import ListNotations.
Open Scope Z_scope.

(* _add_class_trait(is_subclass=True) on the class of a live object *)
Definition sub_add (s : state) (pt : ptab) (n : name) (p : policy) : state * ptab :=
  match add_class1 true (s_ctd s, pt) n p with
  | Some t' => (mkState (fst t') (s_itd s) (s_od s), snd t')
  | None => (s, pt)
  end.

(* what the call must not meet on the object (the two cached-name findings, finding 1) *)
Definition sub_clean (D : ctab) (s : state) (pt : ptab) (n : name) (p : policy) : bool :=
  if ends_us n then
    amem (removelast n) pt ||
    (forallb (fun e => wcond D (removelast n) (fst e)) (s_ctd s) &&
     forallb (fun e => amem (fst e) (s_itd s) || wcond D (removelast n) (fst e)) (s_od s))
  else
    if amem n (s_ctd s) then amem n D
    else amem n (s_itd s) || storing (RPol p) || negb (amem n (s_od s)).

Lemma ExtD_present : forall l l' n p, amem n l = true -> ExtD l l' n p -> tab_eq l l'.
Proof.
  intros l l' n p H E m. rewrite (E m). destruct (assoc m l) eqn:Em; [reflexivity|].
  destruct (name_eqb n m) eqn:En; [|reflexivity]. apply name_eqb_eq in En. subst m.
  unfold amem in H. rewrite Em in H. discriminate.
Qed.

Lemma sub_step_ok : forall ct0 pt s ls v v' n p,
  Inv ct0 pt s ls -> Agr (ct0, pt) v -> Ext v v' n p -> plainp p = true ->
  sub_clean (fst v) s pt n p = true ->
  exists ct0', Agr (ct0', snd (sub_add s pt n p)) v' /\ Inv ct0' (snd (sub_add s pt n p)) (fst (sub_add s pt n p)) ls.
Proof.
  intros ct0 pt s ls v v' n p HI HA HE Hp Hc.
  pose proof HA as (A & B & S). cbn [fst snd] in A, B, S.
  unfold sub_clean in Hc. unfold sub_add, add_class1.
  destruct (ends_us n) eqn:Eu.
  - destruct (amem (removelast n) pt) eqn:Em.
    + cbn [fst snd]. exists ct0. split.
      * apply (Agr_add_sub (ct0, pt) v v' n p (ct0, pt) Hp HA HE). unfold add_class1. rewrite Eu, Em. reflexivity.
      * replace (mkState (s_ctd s) (s_itd s) (s_od s)) with s by (destruct s; reflexivity). exact HI.
    + cbn [fst snd]. simpl in Hc. apply andb_true_iff in Hc. destruct Hc as [Hc1 Hc2].
      exists ct0. split.
      * apply (Agr_add_sub (ct0, pt) v v' n p _ Hp HA HE). unfold add_class1. rewrite Eu, Em. reflexivity.
      * replace (mkState (s_ctd s) (s_itd s) (s_od s)) with s by (destruct s; reflexivity).
        apply (Inv_add_wild ct0 pt s ls (removelast n) p HI S Hp).
        -- rewrite forallb_forall in Hc1. apply forallb_forall. intros e He.
           rewrite (wcond_ext _ _ _ _ A). apply Hc1. exact He.
        -- rewrite forallb_forall in Hc2. apply forallb_forall. intros e He.
           rewrite (wcond_ext _ _ _ _ A). apply Hc2. exact He.
  - destruct (amem n (s_ctd s)) eqn:Em.
    + cbn [fst snd]. exists ct0. split.
      * apply (Agr_add_sub (ct0, pt) v v' n p (ct0, pt) Hp HA HE). unfold add_class1. rewrite Eu.
        unfold amem in *. rewrite (A n). destruct (assoc n (fst v)); [reflexivity|discriminate].
      * replace (mkState (s_ctd s) (s_itd s) (s_od s)) with s by (destruct s; reflexivity). exact HI.
    + cbn [fst snd].
      assert (Hn0 : assoc n (s_ctd s) = None) by (unfold amem in Em; destruct (assoc n (s_ctd s)); [discriminate|reflexivity]).
      assert (Hn1 : amem n ct0 = false).
      { unfold amem. destruct (assoc n ct0) eqn:E0; auto. rewrite (inv_c1 _ _ _ _ HI _ _ E0) in Hn0. discriminate. }
      exists (aset n p ct0). split.
      * apply (Agr_add_sub (ct0, pt) v v' n p _ Hp HA HE). unfold add_class1. rewrite Eu, Hn1. reflexivity.
      * apply (Inv_add_explicit ct0 pt s ls n p HI Hn0 Hp Hc).
Qed.

(* the object of class j with (the prefix list of) its class, and the tables of the base class k *)
Definition sstep (sp : state * ptab) (tk : ctab * ptab) (x : oop) : (state * ptab) * (ctab * ptab) * obs :=
  match x with
  | OObj o => let '(s', ob) := step (snd sp) (fst sp) o in ((s', snd sp), tk, ob)
  | OCls n p =>
      match add_class1 false tk n p with
      | Some tk' => (sub_add (fst sp) (snd sp) n p, tk', mkObs Done None None None)
      | None => (sp, tk, mkObs (Raise TraitError) None None None)
      end
  end.
Fixpoint srun (sp : state * ptab) (tk : ctab * ptab) (xs : list oop) : list (oop * obs) :=
  match xs with
  | [] => []
  | x :: r => let '(sp', tk', ob) := sstep sp tk x in (x, ob) :: srun sp' tk' r
  end.

(* this is Model.add_class seen from the two classes *)
Lemma sstep_is_add_class : forall hh T k j n p T' out,
  (k < length T)%nat -> (j < length T)%nat -> j <> k -> is_desc hh (length hh) j k = true ->
  add_class hh T k n p = (T', out) ->
  let s := mkState (fst (tabs_nth T j)) [] [] in
  let r := sstep (s, snd (tabs_nth T j)) (tabs_nth T k) (OCls n p) in
  o_out (snd r) = out /\ snd (fst r) = tabs_nth T' k /\
  (s_ctd (fst (fst (fst r))), snd (fst (fst r))) = tabs_nth T' j.
Proof.
  intros hh T k j n p T' out Hk Hj Hne HD E s r. subst r s. cbn [sstep].
  destruct (add_class_at hh T k n p T' out Hk E) as [HL Hc].
  destruct (add_class1 false (tabs_nth T k) n p) as [tk|] eqn:E1.
  - destruct Hc as [-> Htk]. cbn [fst snd o_out]. split; [reflexivity|]. split; [symmetry; exact Htk|].
    pose proof (add_class_desc_at hh T k n p T' j HD Hne Hj E) as Es.
    unfold sub_add. cbn [s_ctd s_itd s_od].
    replace (fst (tabs_nth T j), snd (tabs_nth T j)) with (tabs_nth T j) by (destruct (tabs_nth T j); reflexivity).
    rewrite Es. cbn [fst snd s_ctd]. destruct (tabs_nth T' j); reflexivity.
  - destruct Hc as [-> ->]. cbn [fst snd o_out s_ctd]. split; [reflexivity|]. split; [reflexivity|].
    destruct (tabs_nth T j); reflexivity.
Qed.

Fixpoint law_hist_s (k j : nat) (H : list classdef) (i : Z) (ls : lstate) (hist : list (oop * obs)) : list Z :=
  match hist with
  | [] => []
  | (OObj o, ob) :: r =>
      let rl := class_rule (vis_nth (visible H) j) in
      map (fun c => 100 * i + c) (law_step rl ls o ob) ++ law_hist_s k j H (i + 1) (law_next rl ls o ob) r
  | (OCls n p, ob) :: r =>
      law_hist_s k j (match o_out ob with Done => app_decl H k (n, p) | _ => H end) (i + 1) ls r
  end.

Definition next_H (k : nat) (H : list classdef) (x : oop) (ob : obs) : list classdef :=
  match x, o_out ob with OCls n p, Done => app_decl H k (n, p) | _, _ => H end.

(* the hypothesis on one step: the boolean part (finding 1; Map/List; the cached-name findings seen
   from the subclass) and, for an accepted call, reachability of j for that name *)
Definition sclean (j : nat) (sp : state * ptab) (tk : ctab * ptab) (H : list classdef) (x : oop) : bool :=
  match x with
  | OObj o => clean_step (fst sp) o
  | OCls n p =>
      plainp p &&
      match add_class1 false tk n p with
      | Some _ => sub_clean (fst (vis_nth (visible H) j)) (fst sp) (snd sp) n p
      | None => true
      end
  end.

Fixpoint sok (k j : nat) (sp : state * ptab) (tk : ctab * ptab) (H : list classdef) (xs : list oop) : Prop :=
  match xs with
  | [] => True
  | x :: r =>
      sclean j sp tk H x = true /\
      match x, o_out (snd (sstep sp tk x)) with OCls n p, Done => Reach H k n j | _, _ => True end /\
      sok k j (fst (fst (sstep sp tk x))) (snd (fst (sstep sp tk x))) (next_H k H x (snd (sstep sp tk x))) r
  end.

Definition J2 (k j : nat) (sp : state * ptab) (tk : ctab * ptab) (ls : lstate) (H : list classdef) : Prop :=
  (k < j)%nat /\ (j < length H)%nat /\ Agr tk (vis_nth (visible H) k) /\
  exists ct0, Agr (ct0, snd sp) (vis_nth (visible H) j) /\ Inv ct0 (snd sp) (fst sp) ls.

Lemma sstep_ok : forall k j sp tk ls H x i, J2 k j sp tk ls H -> sclean j sp tk H x = true ->
  match x, o_out (snd (sstep sp tk x)) with OCls n p, Done => Reach H k n j | _, _ => True end ->
  law_hist_s k j H i ls [(x, snd (sstep sp tk x))] = [] /\
  J2 k j (fst (fst (sstep sp tk x))) (snd (fst (sstep sp tk x)))
     (match x with OObj o => law_next (class_rule (vis_nth (visible H) j)) ls o (snd (sstep sp tk x)) | OCls _ _ => ls end)
     (next_H k H x (snd (sstep sp tk x))).
Proof.
  intros k j [s pt] tk ls H x i (Hkj & Hj & Ak & ct0 & HA & HI) Hc HR. cbn [fst snd] in *.
  pose proof HA as (A & B & S). cbn [fst snd] in A, B, S.
  assert (RL : forall m, model_rule ct0 pt m = class_rule (vis_nth (visible H) j) m)
    by (intro m; apply (agree_rule (ct0, pt) _ m A B S)).
  destruct x as [o|n p].
  - simpl in Hc. destruct (step_ok ct0 pt s ls o HI Hc) as [Hl Hn].
    cbn [sstep fst snd]. destruct (step pt s o) as [s' ob] eqn:E. cbn [fst snd law_hist_s next_H] in *.
    rewrite <- (law_step_ext _ _ RL), <- (law_next_ext _ _ RL), Hl. split; [reflexivity|].
    split; [exact Hkj|]. split; [exact Hj|]. split; [exact Ak|]. exists ct0. split; assumption.
  - cbn [law_hist_s]. split; [reflexivity|].
    unfold sclean in Hc. cbn [fst snd] in Hc. apply andb_true_iff in Hc. destruct Hc as [Hp Hc].
    cbn [sstep fst snd] in *.
    destruct (add_class1 false tk n p) as [tk'|] eqn:E1; cbn [fst snd o_out next_H] in *.
    + assert (Hk : (k < length H)%nat) by lia.
      assert (Habs : (if ends_us n then amem (removelast n) (snd (vis_nth (visible H) k))
                      else amem n (fst (vis_nth (visible H) k))) = false).
      { destruct Ak as (A' & B' & _). destruct tk as [ct ptk]. cbn [fst snd] in *.
        unfold add_class1 in E1. unfold amem in *. destruct (ends_us n).
        - rewrite <- (B' (removelast n)). destruct (assoc (removelast n) ptk); [discriminate|reflexivity].
        - rewrite <- (A' n). destruct (assoc n ct); [discriminate|reflexivity]. }
      destruct (vis_app_decl_k H k (n, p) Hk) as [V1 V2].
      pose proof (Ext_reach H k n p Hk Hp Habs j HR) as HE.
      destruct (sub_step_ok ct0 pt s ls _ _ n p HI HA HE Hp Hc) as [ct0' [A2 I2]].
      split; [exact Hkj|]. split; [rewrite app_decl_length; exact Hj|]. split.
      * rewrite V2. rewrite V1 in Ak. apply (Agr_add _ _ _ n p tk' Hp Ak E1).
      * exists ct0'. split; assumption.
    + split; [exact Hkj|]. split; [exact Hj|]. split; [exact Ak|]. exists ct0. split; assumption.
Qed.

Lemma srun_law : forall k j xs sp tk ls H i, J2 k j sp tk ls H -> sok k j sp tk H xs ->
  law_hist_s k j H i ls (srun sp tk xs) = [].
Proof.
  intros k j. induction xs as [|x r IH]; intros sp tk ls H i HJ Hok; [reflexivity|].
  cbn [sok] in Hok. destruct Hok as (H1 & H2 & H3).
  destruct (sstep_ok k j sp tk ls H x i HJ H1 H2) as [A B].
  cbn [srun]. remember (sstep sp tk x) as res eqn:E in *. destruct res as [[sp' tk'] ob]. cbn [fst snd] in *.
  destruct x as [o|n p]; cbn [law_hist_s next_H] in *.
  - rewrite app_nil_r in A. rewrite A. cbn [app]. apply IH; [exact B|exact H3].
  - apply IH; [exact B|exact H3].
Qed.

(* add_class_trait calls on a base class k interleaved in any order and number with the operations
   of a fresh instance of a subclass j (any hierarchy) *)
Lemma interleaved_base_class_ops : forall hh k j xs i,
  (k < j)%nat -> (j < length hh)%nat ->
  let tk := tabs_nth (tables hh) k in
  let tj := tabs_nth (tables hh) j in
  plain_t tj = true ->
  sok k j (init_state (fst tj), snd tj) tk hh xs ->
  law_hist_s k j hh i l_init (srun (init_state (fst tj), snd tj) tk xs) = [].
Proof.
  intros hh k j xs i Hkj Hj tk tj HP Hok. subst tk tj.
  apply (srun_law k j xs _ _ _ _ i); auto.
  destruct (agree_all hh) as [_ HA].
  unfold plain_t in HP. apply andb_true_iff in HP. destruct HP as [P1 P2].
  split; [exact Hkj|]. split; [exact Hj|]. split; [apply (HA k)|].
  exists (fst (tabs_nth (tables hh) j)). split.
  - cbn [snd]. rewrite <- surjective_pairing. apply (HA j).
  - cbn [fst snd]. apply Inv_init; auto.
Qed.

(* ---- for the runs the checker evaluates: CorrT.step_t on the tables of all classes ---- *)
Lemma set_ctab_other : forall T j k c, j <> k -> tabs_nth (set_ctab T j c) k = tabs_nth T k.
Proof.
  unfold set_ctab, tabs_nth. induction T as [|[c0 p0] r IH]; intros j k c H.
  - destruct j; destruct k; reflexivity.
  - destruct j; destruct k; simpl; auto; try congruence; try (apply IH; congruence).
Qed.

Lemma run_t_srun : forall hh0 k j, j <> k -> is_desc hh0 (length hh0) j k = true ->
  forall xs T itd od H i ls, (k < length T)%nat -> (j < length T)%nat ->
  law_hist_ta [j] H i [ls] (run_t hh0 [j] (T, [(itd, od)]) (map (top_of k) xs)) =
  law_hist_s k j H i ls (srun (mkState (fst (tabs_nth T j)) itd od, snd (tabs_nth T j)) (tabs_nth T k) xs).
Proof.
  intros hh0 k j Hne HD. induction xs as [|x r IH]; intros T itd od H i ls Hk Hj; [reflexivity|].
  destruct x as [o|n p]; cbn [map top_of run_t srun sstep fst snd].
  - unfold C13.CorrT.step_t. cbn [nth fst snd].
    destruct (step (snd (tabs_nth T j)) (mkState (fst (tabs_nth T j)) itd od) o) as [s' ob] eqn:E.
    cbn [law_hist_ta law_hist_s nth C13.CorrT.upd fst snd].
    rewrite (IH (set_ctab T j (s_ctd s')) (s_itd s') (s_od s')) by (rewrite set_ctab_length; auto).
    rewrite (set_ctab_nth T j (s_ctd s') Hj), (set_ctab_other T j k (s_ctd s') Hne). cbn [fst snd].
    destruct s'; reflexivity.
  - unfold C13.CorrT.step_t. destruct (add_class hh0 T k n p) as [T' out] eqn:E.
    destruct (add_class_at hh0 T k n p T' out Hk E) as [HL Hc].
    destruct (add_class1 false (tabs_nth T k) n p) as [tk|] eqn:E1.
    + destruct Hc as [-> Htk]. cbn [law_hist_ta law_hist_s o_out fst snd].
      pose proof (add_class_desc_at hh0 T k n p T' j HD Hne Hj E) as Es.
      rewrite (IH T' itd od) by lia. rewrite Htk.
      unfold sub_add. cbn [s_ctd s_itd s_od].
      replace (fst (tabs_nth T j), snd (tabs_nth T j)) with (tabs_nth T j) by (destruct (tabs_nth T j); reflexivity).
      rewrite Es. reflexivity.
    + destruct Hc as [-> ->]. cbn [law_hist_ta law_hist_s o_out]. rewrite (IH T itd od) by lia. reflexivity.
Qed.

Lemma interleaved_base_class_ops_run : forall hh k j xs i,
  (k < j)%nat -> (j < length hh)%nat -> is_desc hh (length hh) j k = true ->
  let tk := tabs_nth (tables hh) k in
  let tj := tabs_nth (tables hh) j in
  plain_t tj = true ->
  sok k j (init_state (fst tj), snd tj) tk hh xs ->
  law_hist_ta [j] hh i [l_init] (run_t hh [j] (tables hh, [([], [])]) (map (top_of k) xs)) = [].
Proof.
  intros hh k j xs i Hkj Hj HD tk tj HP Hok.
  rewrite (run_t_srun hh k j ltac:(lia) HD) by (rewrite tables_length; lia).
  apply (interleaved_base_class_ops hh k j xs i Hkj Hj HP Hok).
Qed.
