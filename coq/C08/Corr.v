(* C08 — correspondence: one case = pool size and the history of
   (operation, observation recorded from the implementation, summary of all notifier lists).
   The model runs on its own state through the whole history (hooks are not re-synchronised);
   compared per step: outcome, the set of handler calls with their events, the changed heap
   slots, and for every observable the number of maintainer notifiers and the reference count
   of every user notifier (CTrait._notifiers / TraitList.notifiers as recorded by the driver). *)
From Coq Require Import ZArith List Arith Bool PeanoNat.
From TV Require Import Common.Harness Common.ObsCore C08.Model C08.Law.
Import ListNotations.
Open Scope nat_scope.

(* per observable: (object, field, number of ObserverChangeNotifier (on trait_added: including the
   TraitAddedObserver maintainers), [(handler, target, ref_count)]) *)
Definition hooksum := list (oid * fname * nat * list (nat * oid * nat)).
(* None = identical to the summary after the previous step *)
Definition case := (nat * list (op * obs * option hooksum))%type.

Definition exn_eqb (a b : exn) : bool :=
  match a, b with
  | NotifierNotFound, NotifierNotFound | ValueError, ValueError | OtherError, OtherError => true
  | _, _ => false
  end.
Definition outcome_eqb (a b : outcome) : bool :=
  match a, b with Ok, Ok => true | Raise x, Raise y => exn_eqb x y | _, _ => false end.

Definition call_eqb (a b : call) : bool :=
  let '(k, o, f, r, d) := a in let '(k', o', f', r', d') := b in
  hkey_eqb k k' && Nat.eqb o o' && Nat.eqb f f' && perm_eqb r r' && perm_eqb d d'.
Definition calls_sub (a b : list call) : bool := forallb (fun c => existsb (call_eqb c) b) a.

Definition user_count (H : list hook) (x : oid) (f : fname) (k : hkey) : nat :=
  length (filter (hkey_eqb k) (users_on H x f)).

Definition sum_entry_ok (H : list hook) (e : oid * fname * nat * list (nat * oid * nat)) : bool :=
  let '(x, f, nm, us) := e in
  Nat.eqb (length (maint_on H x f) + (if Nat.eqb f TA then length (added_on H x) else 0)) nm
  && forallb (fun u => let '(k, r, n) := u in Nat.eqb (user_count H x f (k, r)) n) us
  && Nat.eqb (length (users_on H x f)) (fold_left (fun a u => a + snd u) us 0).
Definition sum_total (s : hooksum) : nat :=
  fold_left (fun a e => let '(_, _, nm, us) := e in a + nm + fold_left (fun b u => b + snd u) us 0) s 0.
Definition hooks_agree (H : list hook) (s : hooksum) : bool :=
  forallb (sum_entry_ok H) s && Nat.eqb (length H) (sum_total s).

(* codes: 100*step + 1 outcome, 2 calls, 3 heap slots, 4 notifier lists *)
Fixpoint corr_hist (i : Z) (st : state) (ih : heap) (prev : hooksum)
         (hist : list (op * obs * option hooksum)) : list Z :=
  match hist with
  | [] => []
  | (o, ob, hs) :: r =>
      let '(st', m) := step st o in
      let ih' := apply_delta ih (ob_delta ob) in
      let s := match hs with Some s => s | None => prev end in
      map (fun c => (100 * i + c)%Z)
        (chk 1 (outcome_eqb (ob_out m) (ob_out ob))
         ++ chk 2 (calls_sub (ob_calls m) (ob_calls ob) && calls_sub (ob_calls ob) (ob_calls m)
                   && Nat.eqb (length (ob_calls m)) (length (ob_calls ob)))
         ++ chk 3 (forallb (fun e => let '(x, f, v) := e in perm_eqb (st_heap st' x f) v) (ob_delta ob)
                   && forallb (fun e => let '(x, f, v) := e in perm_eqb (ih' x f) v) (ob_delta m))
         ++ chk 4 (hooks_agree (st_hooks st') s))
      ++ corr_hist (i + 1)%Z st' ih' s r
  end.

Definition strip (c : case) : list (op * obs) := map fst (snd c).

Definition corr_codes (c : case) : list Z := corr_hist 0%Z (init (fst c)) (fun _ _ => []) [] (snd c).
Definition law_codes (c : case) : list Z := law_hist 0%Z init_traits (fun _ _ => []) [] (strip c).

(* Is every operation of the history edge-acyclic for the live registrations (the hypothesis
   of the theorems)?  Evaluated on the model run; code 100*step + 1 where it is not. *)
Fixpoint hyp_hist (i : Z) (st : state) (ops : list op) : list Z :=
  match ops with
  | [] => []
  | o :: r => chk (100 * i + 1)%Z (op_hyp st o) ++ hyp_hist (i + 1)%Z (fst (step st o)) r
  end.
Definition hyp_codes (c : nat * list op) : list Z := hyp_hist 0%Z (init (fst c)) (snd c).
