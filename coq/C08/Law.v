(* C08 — the property as a boolean checker on ONE observed history.
   It never mentions Model.step / the hook list: it threads the heap (rebuilt from the
   observed slot deltas) and the list of live registrations, and RECOMPUTES from scratch,
   with [ObsCore.matched], which (handler, target) keys reach the changed slot through a
   notifying node of their expression.

   Clause codes (100*step + code):
     1 a key whose expression matches the changed (object, trait) was not called
     2 a call for a key whose expression does not reach the changed object at all
       (detached / never attached object)
     3 a key was called more than once for one change
     4 the event does not identify what changed (object, name, old/new or a faithful
       removed/added delta of the container)
     5 a call through a quiet link: the slot is visited by the key's expression only
       through ':' (notify=False) nodes
     6 a mutation raised (other than ValueError for a new value on which a live non-optional expression
       cannot be hooked)
     7 a call although nothing changed (same object re-assigned, equal container
       re-assigned, default materialised, registration itself)

   Readings (DESIGN 6a): the key set is set-valued (reachable twice = one call); re-assigning
   an equal container is not a change; a default that materialises is not a change; an
   in-place container operation that leaves the contents identical (l[0] = l[0]) MAY deliver
   its identity event (at most one call). *)
From Coq Require Import ZArith List Arith Bool PeanoNat.
From TV Require Import Common.Harness Common.ObsCore C08.Model.
Import ListNotations.
Open Scope nat_scope.

Definition count_nat (x : nat) (l : list nat) : nat := length (filter (Nat.eqb x) l).
Definition perm_eqb (a b : list nat) : bool :=
  forallb (fun x => Nat.eqb (count_nat x a) (count_nat x b)) (a ++ b).

Definition apply_delta (h : heap) (d : list (oid * fname * list oid)) : heap :=
  fold_left (fun h e => let '(x, f, v) := e in upd h x f v) d h.

Definition call_key (c : call) : hkey := let '(k, _, _, _, _) := c in k.

Fixpoint nodup_keys (l : list hkey) : list hkey :=
  match l with
  | [] => []
  | k :: l' => if mem_key k l' then nodup_keys l' else k :: nodup_keys l'
  end.
Fixpoint nodup_b (l : list hkey) : bool :=
  match l with [] => true | k :: l' => negb (mem_key k l') && nodup_b l' end.

(* keys whose expression matches slot (o, fo) with a notifying node, in heap h *)
Definition expect_keys (rs : list reg) (t : traits) (h : heap) (o : oid) (fo : fname) : list hkey :=
  nodup_keys (map fst (filter (fun r : reg => matched t h (snd r) (snd (fst r)) o fo) rs)).
(* keys whose expression walks through the slot at all *)
Definition visiting_keys (rs : list reg) (t : traits) (h : heap) (o : oid) (fo : fname) : list hkey :=
  map fst (filter (fun r : reg => visits t h (snd r) (snd (fst r)) o fo) rs).

Inductive chg := NoChange | Exact | AtMost.

Definition op_slot (o : op) : option (oid * fname) :=
  match o with
  | Observe _ _ _ | Unobserve _ _ _ | ObserveAll _ _ _ | UnobserveAll _ _ _ => None
  | SetRef x f _ | SetCont x f _ _ | Touch x f | Splice x f _ _ _ => Some (x, f)
  | Probe x => Some (x, 0)
  | AddTrait x _ => Some (x, TA)
  | DelCont x f => Some (x, f)
  | SpliceCont c f _ _ _ _ => Some (c, f)
  | TouchItems x f _ => Some (x, f)
  end.

Definition classify (t : traits) (hb ha : heap) (o : op) : chg :=
  match o with
  | AddTrait x f => if t x f then NoChange else Exact
  | DelCont x f =>            (* the new value is an empty container: a change iff the old one was not empty *)
      match hb x f with
      | [] => NoChange
      | y :: _ => match hb y (items_field f) with [] => NoChange | _ => Exact end
      end
  | Observe _ _ _ | Unobserve _ _ _ | ObserveAll _ _ _ | UnobserveAll _ _ _ | Touch _ _
  | TouchItems _ _ _ => NoChange
  | SetRef x f _ => if list_eqb (hb x f) (ha x f) then NoChange else Exact
  | SetCont x f _ de =>
      let new_items := match ha x f with c :: _ => ha c (items_field f) | [] => [] end in
      let same := match hb x f with
                  | [] => match new_items with [] => true | _ => false end
                  | y :: _ => cont_equal f (hb y (items_field f)) new_items de
                  end in
      if identity_field f then Exact else if same then NoChange else Exact
  | Splice c f _ _ _ => if list_eqb (hb c f) (ha c f) then AtMost else Exact
  | SpliceCont _ _ _ _ _ _ => Exact              (* a new list object is stored: always a change *)
  | Probe _ => Exact
  end.

Definition is_splice (o : op) : bool := match o with Splice _ _ _ _ _ => true | _ => false end.
Definition is_mutation (o : op) : bool := match op_slot o with Some _ => true | None => false end.
Definition is_ok (o : outcome) : bool := match o with Ok => true | Raise _ => false end.

(* A mutation may raise ValueError when a live expression cannot be hooked on an object it newly reaches
   (a non-optional observer of a trait the object does not have): recomputed from the heaps with
   [ObsCore.occ_all] (the residual graphs at the changed slot) and [Model.walkable]. *)
Definition fresh_in (old new : list oid) : list oid := filter (fun y => negb (existsb (Nat.eqb y) old)) new.
Definition unhookable (t : traits) (hb ha : heap) (rs : list reg) (x : oid) (f : fname) : bool :=
  existsb (fun kc : hkey * graph =>
             existsb (fun y => negb (walkable t ha (snd kc) y)) (fresh_in (hb x f) (ha x f)))
          (occ_all t hb rs x f).
Definition out_ok (t : traits) (hb ha : heap) (rs : list reg) (x : oid) (f : fname) (o : outcome) : bool :=
  match o with
  | Ok => true
  | Raise ValueError => unhookable t hb ha rs x f
  | Raise _ => false
  end.

Definition call_ok (hb ha : heap) (o : op) (x : oid) (f : fname) (c : call) : bool :=
  let '(_, obj, name, removed, added) := c in
  Nat.eqb obj x && Nat.eqb name f &&
  match o with
  | Splice _ _ _ _ _ | SpliceCont _ _ _ _ _ _ =>
      perm_eqb (ha x f ++ removed) (hb x f ++ added)                       (* a faithful delta: the payload objects
                                                                              are the objects removed / now stored *)
  | Probe _ | AddTrait _ _ => true                                       (* integer / name values are not links *)
  | _ => perm_eqb removed (hb x f) && perm_eqb added (ha x f)            (* old and new value *)
  end.

Definition law_step (t : traits) (hb : heap) (rs : list reg) (o : op) (ob : obs) : list Z :=
  let ha := apply_delta hb (ob_delta ob) in
  let keys := map call_key (ob_calls ob) in
  match op_slot o with
  | None => chk 7 (is_nil keys)
  | Some (x, f) =>
      let exp := expect_keys rs t hb x f in
      let vis := visiting_keys rs t hb x f in
      let bad := filter (fun k => negb (mem_key k exp)) keys in
      let c := classify t hb ha o in
      chk 1 (match c with Exact => forallb (fun k => mem_key k keys) exp | _ => true end)
      ++ chk 2 (forallb (fun k => mem_key k vis) bad)
      ++ chk 3 (nodup_b keys)
      ++ chk 4 (forallb (call_ok hb ha o x f) (ob_calls ob))
      ++ chk 5 (forallb (fun k => negb (mem_key k vis)) bad)
      ++ chk 6 (out_ok t hb ha rs x f (ob_out ob))
      ++ chk 7 (match c with NoChange => forallb (fun k => negb (mem_key k exp)) keys | _ => true end)
  end.

Definition law_regs (rs : list reg) (o : op) (ob : obs) : list reg :=
  match o, ob_out ob with
  | Observe k r g, Ok => rs ++ [((k, r), g)]
  | Unobserve k r g, Ok => remove_reg ((k, r), g) rs
  | ObserveAll k r gs, Ok => rs ++ map (pair (k, r)) gs
  | UnobserveAll k r gs, Ok => fold_left (fun rs g => remove_reg ((k, r), g) rs) gs rs
  | _, _ => rs
  end.

Definition law_traits (t : traits) (o : op) (ob : obs) : traits :=
  match o, ob_out ob with
  | AddTrait x f, Ok => if t x f then t else add_trait t x f
  | _, _ => t
  end.

Fixpoint law_hist (i : Z) (t : traits) (h : heap) (rs : list reg) (hist : list (op * obs)) : list Z :=
  match hist with
  | [] => []
  | (o, ob) :: r =>
      map (fun c => (100 * i + c)%Z) (law_step t h rs o ob)
      ++ law_hist (i + 1)%Z (law_traits t o ob) (apply_delta h (ob_delta ob)) (law_regs rs o ob) r
  end.
