(* C08 — lemmas.  The executable walk / notifier loop of Model.v against the
   specification [expected] of Common/ObsCore.v; the invariant over histories. *)
From Coq Require Import ZArith List Arith Bool PeanoNat Permutation Lia.
From TV Require Import Common.Harness Common.ObsCore C08.Model C08.Law.
Import ListNotations.
Open Scope nat_scope.

(* ---------- the two walk orders list exactly the expected hooks ---------- *)
Lemma flat_map_filter {A B} (F : A -> list B) (p : A -> bool) l :
  flat_map F (filter p l) = flat_map (fun a => if p a then F a else []) l.
Proof. induction l as [|a l IH]; cbn; [reflexivity|]. destruct (p a); cbn; rewrite IH; reflexivity. Qed.

Lemma node_perm (t : traits) (h : heap) (k : hkey) (fs : list fname) (n : bool) (cs : list graph) (x : oid)
      (W : graph -> oid -> list (oid * fname * kind)) :
  (forall c, In c cs -> forall y, Permutation (W c y) (expected t h k c y)) ->
  Permutation
    (flat_map (fun f : fname => if n then [(x, f, KUser k)] else []) (obs_fields t x fs)
     ++ flat_map (fun f : fname => map (fun c => (x, f, KMaint k c)) cs) (obs_fields t x fs)
     ++ flat_map (fun c => flat_map (fun y => W c y) (next_objs t h x fs)) cs)
    (flat_map (fun f => if t x f then
                 own k n cs x f ++ flat_map (fun y => flat_map (fun c => expected t h k c y) cs) (h x f)
               else []) fs).
Proof.
  intros HW. unfold obs_fields, next_objs.
  rewrite (flat_map_swap (fun c y => W c y) cs (flat_map (h x) (filter (t x) fs))).
  rewrite (ffm (fun y => flat_map (fun c => W c y) cs) (h x) (filter (t x) fs)).
  rewrite !flat_map_filter. rewrite !flat_map_plus.
  apply Permutation_flat_map_In. intros f Hf. destruct (t x f); [|reflexivity].
  unfold own. rewrite <- app_assoc. do 2 apply Permutation_app_head.
  apply Permutation_flat_map_In. intros y _. apply Permutation_flat_map_In. intros c Hc. apply HW. exact Hc.
Qed.

Lemma add_order_expected t h k g : forall x, Permutation (add_order t h k g x) (expected t h k g x).
Proof.
  induction g as [fs n e p cs IH] using graph_ind'. intros x. rewrite Forall_forall in IH.
  cbn [add_order expected]. rewrite !app_assoc. rewrite Permutation_app_comm. apply Permutation_app_head.
  rewrite <- !app_assoc. apply node_perm. exact IH.
Qed.

Lemma rem_order_expected t h k g : forall x, Permutation (rem_order t h k g x) (expected t h k g x).
Proof.
  induction g as [fs n e p cs IH] using graph_ind'. intros x. rewrite Forall_forall in IH.
  cbn [rem_order expected]. apply Permutation_app_head.
  rewrite <- (node_perm t h k fs n cs x (fun c y => rem_order t h k c y) IH).
  set (U := flat_map (fun f => if n then [(x, f, KUser k)] else []) (obs_fields t x fs)).
  set (M := flat_map (fun f => map (fun c => (x, f, KMaint k c)) cs) (obs_fields t x fs)).
  set (C := flat_map (fun c => flat_map (fun y => rem_order t h k c y) (next_objs t h x fs)) cs).
  rewrite (Permutation_app_comm C). rewrite <- app_assoc. rewrite (Permutation_app_comm M).
  rewrite <- app_assoc. apply Permutation_app_head. apply Permutation_app_comm.
Qed.

Lemma upd_other_slot h o f v x g : slot_eqb x g o f = false -> upd h o f v x g = h x g.
Proof. intros E. unfold upd. rewrite E. reflexivity. Qed.

Lemma sumexp_cons t h k c y ys : sumexp t h k [c] (y :: ys) = expected t h k c y ++ sumexp t h k [c] ys.
Proof. unfold sumexp. cbn [flat_map]. rewrite app_nil_r. reflexivity. Qed.
Lemma sumexp_nil t h k cs : sumexp t h k cs [] = [].
Proof. reflexivity. Qed.

Lemma add_objs_perm t h k c ys : forall H, Permutation (add_objs t h k c ys H) (H ++ sumexp t h k [c] ys).
Proof.
  unfold add_objs. induction ys as [|y ys IH]; intros H; cbn [fold_left].
  - rewrite app_nil_r. reflexivity.
  - rewrite IH. rewrite sumexp_cons.
    rewrite <- !app_assoc. apply Permutation_app_head. apply Permutation_app_tail.
    apply add_order_expected.
Qed.

Lemma add_objs_w_ok t h k c ys : (forall y, In y ys -> walkable t h c y = true) ->
  forall H, add_objs_w t h k c ys H = (add_objs t h k c ys H, true).
Proof.
  unfold add_objs. induction ys as [|y ys IH]; intros W H; cbn [add_objs_w fold_left]; [reflexivity|].
  rewrite (W y (or_introl eq_refl)). apply IH. intros y' I. apply W. right. exact I.
Qed.

Lemma rem_objs_complete t h k c ys : forall H K,
  Permutation H (K ++ sumexp t h k [c] ys) ->
  exists H1, rem_objs t h k c ys H = (H1, true) /\ Permutation H1 K.
Proof.
  induction ys as [|y ys IH]; intros H K P; cbn [rem_objs].
  - exists H. split; [reflexivity|]. rewrite sumexp_nil, app_nil_r in P. exact P.
  - rewrite sumexp_cons in P.
    destruct (remove_all_complete (rem_order t h k c y) H (K ++ sumexp t h k [c] ys)) as [H1 [E1 P1]].
    { rewrite P. rewrite <- app_assoc. apply Permutation_app_head.
      rewrite Permutation_app_comm. apply Permutation_app_head. symmetry. apply rem_order_expected. }
    rewrite E1. apply IH. exact P1.
Qed.

Lemma maintain_complete t h strict k c rem add H K :
  (forall y, In y add -> walkable t h c y = true) ->
  Permutation H (K ++ sumexp t h k [c] rem) ->
  exists H', maintain t h strict k c rem add H = (H', true) /\ Permutation H' (K ++ sumexp t h k [c] add).
Proof.
  intros W P. unfold maintain. destruct (rem_objs_complete t h k c rem H K P) as [H1 [E1 P1]].
  rewrite E1. cbn [orb]. rewrite (add_objs_w_ok t h k c add W).
  eexists. split; [reflexivity|]. rewrite add_objs_perm. apply Permutation_app_tail. exact P1.
Qed.

(* ---------- the notifier loop ---------- *)
Definition maints_of (ns : list kind) : list (hkey * graph) :=
  flat_map (fun kd => match kd with KMaint k c => [(k, c)] | _ => [] end) ns.
Definition users_of (ns : list kind) : list hkey :=
  flat_map (fun kd => match kd with KUser k => [k] | _ => [] end) ns.
Definition addeds_of (ns : list kind) : list (hkey * graph) :=
  flat_map (fun kd => match kd with KAdded k g => [(k, g)] | _ => [] end) ns.

Lemma maints_of_on_slot H o fo : maints_of (on_slot H o fo) = maint_on H o fo.
Proof.
  unfold maints_of, on_slot, maint_on. rewrite ffm. apply flat_map_ext_In. intros [[x f] kd] _.
  cbn. destruct (slot_eqb x f o fo); cbn; [|reflexivity]. destruct kd; cbn; reflexivity.
Qed.
Lemma users_of_on_slot H o fo : users_of (on_slot H o fo) = users_on H o fo.
Proof.
  unfold users_of, on_slot, users_on. rewrite ffm. apply flat_map_ext_In. intros [[x f] kd] _.
  cbn. destruct (slot_eqb x f o fo); cbn; [|reflexivity]. destruct kd; cbn; reflexivity.
Qed.
Lemma addeds_of_on_slot H x0 : addeds_of (on_slot H x0 TA) = added_on H x0.
Proof.
  unfold addeds_of, on_slot, added_on. rewrite ffm. apply flat_map_ext_In. intros [[x f] kd] _.
  cbn. destruct (slot_eqb x f x0 TA); cbn; [|reflexivity]. destruct kd; cbn; reflexivity.
Qed.

Lemma mem_key_In k l : mem_key k l = true <-> In k l.
Proof.
  induction l as [|a l IH]; cbn; [split; [discriminate|tauto]|].
  rewrite orb_true_iff, hkey_eqb_spec, IH. split; intros [A|A]; auto.
Qed.

Lemma notify_loop_spec t h strict rem add : forall ns seen H K,
  (forall kc y, In kc (maints_of ns) -> In y add -> walkable t h (snd kc) y = true) ->
  Permutation H (K ++ S_of t h (maints_of ns) rem) ->
  exists H' ks, notify_loop t h strict ns seen rem add H = (H', ks, true)
    /\ Permutation H' (K ++ S_of t h (maints_of ns) add)
    /\ NoDup ks
    /\ (forall k, In k ks <-> In k (users_of ns) /\ ~ In k seen).
Proof.
  induction ns as [|[k|k c|k c] ns IH]; intros seen H K W P.
  - exists H, []. cbn in *. split; [reflexivity|]. split; [exact P|]. split; [constructor|].
    intros k. tauto.
  - cbn [notify_loop]. cbn [maints_of users_of flat_map app] in *.
    fold (maints_of ns) in *. fold (users_of ns) in *.
    destruct (mem_key k seen) eqn:Ms.
    + destruct (IH seen H K W P) as [H' [ks [E [PH [ND Sp]]]]]. exists H', ks.
      split; [exact E|]. split; [exact PH|]. split; [exact ND|].
      intros k0. rewrite Sp. split.
      * intros [I NS]. split; [right; exact I|exact NS].
      * intros [[<-|I] NS]; [apply mem_key_In in Ms; contradiction|split; assumption].
    + destruct (IH (k :: seen) H K W P) as [H' [ks [E [PH [ND Sp]]]]]. rewrite E.
      exists H', (k :: ks).
      split; [reflexivity|]. split; [exact PH|]. split.
      * constructor; [|exact ND]. intros I. apply Sp in I. destruct I as [_ I]. apply I. left. reflexivity.
      * intros k0. split.
        -- intros [<-|I].
           { split; [left; reflexivity|]. intros I. apply mem_key_In in I. congruence. }
           apply Sp in I. destruct I as [I NS]. split; [right; exact I|]. intros I2. apply NS. right. exact I2.
        -- intros [[<-|I] NS]; [left; reflexivity|].
           destruct (hkey_eqb k k0) eqn:Q; [apply hkey_eqb_spec in Q; left; exact Q|].
           right. apply Sp. split; [exact I|]. intros [->|I2]; [|contradiction].
           assert (hkey_eqb k0 k0 = true) by (apply hkey_eqb_spec; reflexivity). congruence.
  - cbn [notify_loop]. cbn [maints_of users_of flat_map app] in *.
    fold (maints_of ns) in *. fold (users_of ns) in *.
    change (S_of t h ((k, c) :: maints_of ns) rem) with (sumexp t h k [c] rem ++ S_of t h (maints_of ns) rem) in P.
    destruct (maintain_complete t h strict k c rem add H (K ++ S_of t h (maints_of ns) rem)) as [H1 [E1 P1]].
    { intros y Iy. apply (W (k, c) y (or_introl eq_refl) Iy). }
    { rewrite P. rewrite <- app_assoc. apply Permutation_app_head. apply Permutation_app_comm. }
    rewrite E1.
    destruct (IH seen H1 (K ++ sumexp t h k [c] add)) as [H' [ks [E [PH [ND Sp]]]]].
    { intros kc y I Iy. apply (W kc y (or_intror I) Iy). }
    { rewrite P1. rewrite <- !app_assoc. apply Permutation_app_head. apply Permutation_app_comm. }
    exists H', ks. split; [exact E|]. split; [|split; [exact ND|exact Sp]].
    rewrite PH. change (S_of t h ((k, c) :: maints_of ns) add) with (sumexp t h k [c] add ++ S_of t h (maints_of ns) add).
    rewrite <- !app_assoc. reflexivity.
  - cbn [notify_loop]. cbn [maints_of users_of flat_map app] in *.
    fold (maints_of ns) in *. fold (users_of ns) in *. apply IH; assumption.
Qed.

(* ---------- what stays when the content of a slot is taken away ---------- *)
Fixpoint skeleton (t : traits) (h : heap) (k : hkey) (g : graph) (x o : oid) (fo : fname) {struct g}
  : list (oid * fname * kind) :=
  match g with
  | G fs n e p cs =>
      (if e then [(x, TA, KAdded k g)] else []) ++
      flat_map (fun f =>
        if t x f then
          own k n cs x f ++
          (if slot_eqb x f o fo then []
           else flat_map (fun y => flat_map (fun c => skeleton t h k c y o fo) cs) (h x f))
        else []) fs
  end.

Lemma expected_split t h k o fo g : forall x,
  (forall c, In c (occ t h g x o fo) -> forall y, In y (h o fo) -> visits t h c y o fo = false) ->
  Permutation (expected t h k g x)
              (skeleton t h k g x o fo ++ flat_map (fun c => sumexp t h k [c] (h o fo)) (occ t h g x o fo)).
Proof.
  induction g as [fs n e p cs IH] using graph_ind'. intros x acyc. rewrite Forall_forall in IH.
  cbn [expected skeleton occ] in *. rewrite <- app_assoc. apply Permutation_app_head.
  rewrite interleave. apply Permutation_flat_map_In. intros f Hf.
  assert (forall c, In c (if t x f then (if slot_eqb x f o fo then cs else []) ++
                            flat_map (fun y => flat_map (fun c => occ t h c y o fo) cs) (h x f) else []) ->
          forall y, In y (h o fo) -> visits t h c y o fo = false) as acycf.
  { intros c Hc. apply acyc. apply in_flat_map. exists f. split; assumption. }
  clear acyc. destruct (t x f); [|reflexivity].
  destruct (slot_eqb x f o fo) eqn:Hs.
  - apply slot_eqb_true in Hs. destruct Hs as [-> ->].
    assert (flat_map (fun y => flat_map (fun c => occ t h c y o fo) cs) (h o fo) = []) as Hb.
    { apply flat_map_nil_In. intros y Hy. apply flat_map_nil_In. intros c Hc.
      apply occ_nil_of_not_visits. apply acycf; [apply in_or_app; left; exact Hc|exact Hy]. }
    rewrite Hb, !app_nil_r. rewrite <- ?app_assoc. apply Permutation_app_head.
    symmetry. apply sumexp_singletons.
  - cbn [app]. rewrite <- !app_assoc. apply Permutation_app_head.
    rewrite interleave. apply Permutation_flat_map_In. intros y Hy.
    rewrite interleave. apply Permutation_flat_map_In. intros c Hc.
    apply IH; [exact Hc|]. intros c0 Hc0. apply acycf.
    apply in_flat_map. exists y. split; [exact Hy|]. apply in_flat_map. exists c. split; assumption.
Qed.

Definition skeleton_all (t : traits) (h : heap) (rs : list reg) (o : oid) (fo : fname) : list (oid * fname * kind) :=
  flat_map (fun r : reg => skeleton t h (fst r) (snd r) (snd (fst r)) o fo) rs.

Lemma expected_split_all t h rs o fo :
  (forall kc, In kc (occ_all t h rs o fo) -> forall y, In y (h o fo) -> visits t h (snd kc) y o fo = false) ->
  Permutation (expected_all t h rs) (skeleton_all t h rs o fo ++ S_of t h (occ_all t h rs o fo) (h o fo)).
Proof.
  intros acyc. unfold expected_all, skeleton_all, occ_all, S_of. rewrite interleave.
  apply Permutation_flat_map_In. intros [k g] Hr. unfold expected_reg, occ_reg. cbn [fst snd].
  rewrite flat_map_map. cbn [fst snd]. apply expected_split.
  intros c Hc y Hy. apply (acyc (k, c)); [|exact Hy].
  apply in_flat_map. exists (k, g). split; [exact Hr|]. unfold occ_reg. cbn [fst snd]. apply in_map. exact Hc.
Qed.

(* ---------- the invariant and one notified change ---------- *)
Definition inv (st : state) : Prop :=
  Permutation (st_hooks st) (expected_all (st_traits st) (st_heap st) (st_regs st)).

(* the changed slot is not the trait_added event trait, and it is edge-acyclic for the registrations *)
Definition edge_acyclic (t : traits) (h : heap) (rs : list reg) (o : oid) (fo : fname) (news : list oid) : Prop :=
  fo <> TA /\
  (forall kc, In kc (occ_all t h rs o fo) -> forall y, In y (h o fo) \/ In y news -> visits t h (snd kc) y o fo = false) /\
  (* the residual graphs can be hooked on the new content (no missing non-optional trait) *)
  (forall kc, In kc (occ_all t h rs o fo) -> forall y, In y news -> walkable t (upd h o fo news) (snd kc) y = true).

Lemma edge_acyclic_b_spec t h rs o fo news :
  edge_acyclic_b t h rs o fo news = true -> edge_acyclic t h rs o fo news.
Proof.
  unfold edge_acyclic_b, edge_acyclic. rewrite andb_true_iff, forallb_forall. intros [N A].
  split; [apply negb_true_iff in N; apply Nat.eqb_neq in N; exact N|]. split.
  - intros kc Hkc y Hy.
    specialize (A kc Hkc). apply andb_true_iff in A. destruct A as [A _]. rewrite forallb_forall in A. specialize (A y).
    rewrite in_app_iff in A. apply negb_true_iff. apply A. exact Hy.
  - intros kc Hkc y Hy. specialize (A kc Hkc). apply andb_true_iff in A. destruct A as [_ A].
    rewrite forallb_forall in A. apply A. exact Hy.
Qed.

(* on a ranked heap (a DAG, in particular a tree) whose rank also dominates the new content of
   the slot, the change is edge-acyclic for every set of registrations *)
Lemma ranked_edge_acyclic_lemma t rank h rs o fo news :
  fo <> TA -> ranked rank h -> (forall y, In y news -> rank o < rank y) ->
  (forall kc, In kc (occ_all t h rs o fo) -> forall y, In y news -> walkable t (upd h o fo news) (snd kc) y = true) ->
  edge_acyclic t h rs o fo news.
Proof.
  intros NT R N W. split; [exact NT|]. split; [|exact W]. intros kc _ y Hy.
  destruct (visits t h (snd kc) y o fo) eqn:V; [exfalso|reflexivity].
  apply (visits_rank t rank h o fo (snd kc) R) in V.
  destruct Hy as [Hy|Hy]; [pose proof (R o fo y Hy)|pose proof (N y Hy)]; lia.
Qed.

Lemma matched_keys t h rs o fo k :
  In k (users_on (expected_all t h rs) o fo) <->
  exists g, In (k, g) rs /\ matched t h g (snd k) o fo = true.
Proof.
  unfold users_on, expected_all. rewrite ffm. rewrite in_flat_map. split.
  - intros [[k' g] [Hr Hu]]. unfold expected_reg in Hu. cbn [fst snd] in Hu.
    pose proof (users_on_expected_key t h k' o fo g (snd k') k Hu) as ->.
    exists g. split; [exact Hr|]. apply (users_on_expected t h k' o fo g (snd k')). exists k'. exact Hu.
  - intros [g [Hr Hm]]. exists (k, g). split; [exact Hr|]. unfold expected_reg. cbn [fst snd].
    apply (users_on_expected t h k o fo g (snd k)) in Hm. destruct Hm as [u Hu].
    pose proof (users_on_expected_key t h k o fo g (snd k) u Hu) as ->. exact Hu.
Qed.

(* ---------- maintainers that cannot come back to the slot leave its notifier list alone ---------- *)
Lemma hooks_on_visited t h k g : forall x z fz kd,
  In (z, fz, kd) (expected t h k g x) -> visits t h g x z fz = true \/ fz = TA.
Proof.
  induction g as [fs n e p cs IH] using graph_ind'. intros x z fz kd I. rewrite Forall_forall in IH.
  cbn [expected] in I. apply in_app_or in I. destruct I as [I|I].
  - right. destruct e; [|destruct I]. destruct I as [E|[]]. inversion E. reflexivity.
  - apply in_flat_map in I. destruct I as [f [Hf I]]. destruct (t x f) eqn:Tf; [|destruct I].
    apply in_app_or in I. destruct I as [I|I].
    + left. cbn [visits]. apply existsb_exists. exists f. split; [exact Hf|]. rewrite Tf. cbn [andb].
      apply orb_true_iff. left. unfold own in I. apply in_app_or in I. destruct I as [I|I].
      * destruct n; [|destruct I]. destruct I as [E|[]]. inversion E. apply slot_eqb_refl.
      * apply in_map_iff in I. destruct I as [c [E _]]. inversion E. apply slot_eqb_refl.
    + apply in_flat_map in I. destruct I as [y [Hy I]]. apply in_flat_map in I. destruct I as [c [Hc I]].
      destruct (IH c Hc y z fz kd I) as [V|V]; [left|right; exact V].
      cbn [visits]. apply existsb_exists. exists f. split; [exact Hf|]. rewrite Tf. cbn [andb].
      apply orb_true_iff. right. apply existsb_exists. exists y. split; [exact Hy|].
      apply existsb_exists. exists c. split; [exact Hc|exact V].
Qed.

Definition off_slot (o : oid) (fo : fname) (A : list (oid * fname * kind)) : Prop :=
  forall z fz kd, In (z, fz, kd) A -> slot_eqb z fz o fo = false.

Lemma on_slot_app H A o fo : on_slot (H ++ A) o fo = on_slot H o fo ++ on_slot A o fo.
Proof. unfold on_slot. apply flat_map_app. Qed.
Lemma on_slot_off A o fo : off_slot o fo A -> on_slot A o fo = [].
Proof.
  intros O. unfold on_slot. apply flat_map_nil_In. intros [[z fz] kd] I. rewrite (O z fz kd I). reflexivity.
Qed.
Lemma on_slot_remove1 x H H' o fo :
  (let '(z, fz, _) := x in slot_eqb z fz o fo = false) -> remove1 x H = Some H' -> on_slot H' o fo = on_slot H o fo.
Proof.
  destruct x as [[z fz] kd]. intros O. revert H'. induction H as [|y H IH]; intros H' E; [discriminate|].
  cbn [remove1] in E. destruct (hook_eqb (z, fz, kd) y) eqn:Q.
  - apply hook_eqb_spec in Q. subst y. inversion E; subst. unfold on_slot. cbn [flat_map]. rewrite O. reflexivity.
  - destruct (remove1 (z, fz, kd) H) as [H0|]; [|discriminate]. inversion E; subst.
    unfold on_slot in *. cbn [flat_map]. rewrite (IH H0 eq_refl). reflexivity.
Qed.
Lemma on_slot_remove_all R o fo : off_slot o fo R -> forall H H',
  remove_all R H = Some H' -> on_slot H' o fo = on_slot H o fo.
Proof.
  induction R as [|x R IH]; intros O H H' E; cbn [remove_all] in E; [inversion E; reflexivity|].
  destruct (remove1 x H) as [H1|] eqn:E1; [|discriminate].
  rewrite (IH (fun z fz kd I => O z fz kd (or_intror I)) H1 H' E).
  apply (on_slot_remove1 x H H1 o fo); [|exact E1]. destruct x as [[z fz] kd]. apply (O z fz kd). left. reflexivity.
Qed.

Lemma expected_off_slot t h k c y o fo :
  fo <> TA -> visits t h c y o fo = false -> off_slot o fo (expected t h k c y).
Proof.
  intros NT V z fz kd I. destruct (slot_eqb z fz o fo) eqn:Q; [exfalso|reflexivity].
  apply slot_eqb_true in Q. destruct Q as [-> ->]. apply hooks_on_visited in I. destruct I; congruence.
Qed.
Lemma off_slot_perm o fo A B : Permutation A B -> off_slot o fo B -> off_slot o fo A.
Proof. intros P O z fz kd I. apply (O z fz kd). apply (Permutation_in _ P). exact I. Qed.

Lemma add_objs_on_slot t h k c ys o fo : fo <> TA -> (forall y, In y ys -> visits t h c y o fo = false) ->
  forall H, on_slot (add_objs t h k c ys H) o fo = on_slot H o fo.
Proof.
  intros NT. unfold add_objs. induction ys as [|y ys IH]; intros V H; cbn [fold_left]; [reflexivity|].
  rewrite IH by (intros y' I; apply V; right; exact I). rewrite on_slot_app.
  rewrite (on_slot_off (add_order t h k c y)); [apply app_nil_r|].
  apply (off_slot_perm _ _ _ _ (add_order_expected t h k c y)). apply expected_off_slot; [exact NT|].
  apply V. left. reflexivity.
Qed.
Lemma rem_objs_on_slot t h k c ys o fo : fo <> TA -> (forall y, In y ys -> visits t h c y o fo = false) ->
  forall H, on_slot (fst (rem_objs t h k c ys H)) o fo = on_slot H o fo.
Proof.
  intros NT. induction ys as [|y ys IH]; intros V H; cbn [rem_objs]; [reflexivity|].
  destruct (remove_all (rem_order t h k c y) H) as [H1|] eqn:E; [|reflexivity].
  rewrite IH by (intros y' I; apply V; right; exact I).
  apply (on_slot_remove_all (rem_order t h k c y) o fo); [|exact E].
  apply (off_slot_perm _ _ _ _ (rem_order_expected t h k c y)). apply expected_off_slot; [exact NT|].
  apply V. left. reflexivity.
Qed.
Lemma add_objs_w_on_slot t h k c ys o fo : fo <> TA -> (forall y, In y ys -> visits t h c y o fo = false) ->
  forall H, on_slot (fst (add_objs_w t h k c ys H)) o fo = on_slot H o fo.
Proof.
  intros NT. induction ys as [|y ys IH]; intros V H; cbn [add_objs_w]; [reflexivity|].
  destruct (walkable t h c y); [|reflexivity].
  rewrite IH by (intros y' I; apply V; right; exact I). rewrite on_slot_app.
  rewrite (on_slot_off (add_order t h k c y)); [apply app_nil_r|].
  apply (off_slot_perm _ _ _ _ (add_order_expected t h k c y)). apply expected_off_slot; [exact NT|].
  apply V. left. reflexivity.
Qed.
Lemma maintain_on_slot t h strict k c rem add o fo : fo <> TA ->
  (forall y, In y rem \/ In y add -> visits t h c y o fo = false) ->
  forall H, on_slot (fst (maintain t h strict k c rem add H)) o fo = on_slot H o fo.
Proof.
  intros NT V H. unfold maintain.
  pose proof (rem_objs_on_slot t h k c rem o fo NT (fun y I => V y (or_introl I)) H) as R.
  destruct (rem_objs t h k c rem H) as [H1 ok]. cbn [fst] in R.
  destruct (ok || negb strict); cbn [fst]; [|exact R].
  rewrite add_objs_w_on_slot; [exact R|exact NT|intros y I; apply V; right; exact I].
Qed.
Lemma notify_loop_on_slot t h strict rem add o fo : fo <> TA -> forall ns seen H,
  (forall kc y, In kc (maints_of ns) -> In y rem \/ In y add -> visits t h (snd kc) y o fo = false) ->
  on_slot (fst (fst (notify_loop t h strict ns seen rem add H))) o fo = on_slot H o fo.
Proof.
  intros NT. induction ns as [|[k|k c|k c] ns IH]; intros seen H V; cbn [notify_loop]; [reflexivity| | |].
  - destruct (mem_key k seen).
    + apply IH. exact V.
    + specialize (IH (k :: seen) H V). destruct (notify_loop t h strict ns (k :: seen) rem add H) as [[H' ks] ok].
      exact IH.
  - pose proof (maintain_on_slot t h strict k c rem add o fo NT
                  (fun y I => V (k, c) y (or_introl eq_refl) I) H) as M.
    destruct (maintain t h strict k c rem add H) as [H1 ok]. cbn [fst] in M. destruct ok; [|exact M].
    rewrite IH; [exact M|]. intros kc y I. apply V. right. exact I.
  - apply IH. exact V.
Qed.

Section Change.
  Variables (st : state) (o : oid) (fo : fname) (news removed added keep : list oid) (prevented strict : bool).
  Let h := st_heap st.
  Let t := st_traits st.
  Let rs := st_regs st.
  Hypothesis Hinv : inv st.
  Hypothesis Hold : Permutation (h o fo) (keep ++ removed).
  Hypothesis Hnew : Permutation news (keep ++ added).
  Hypothesis Hacyc : edge_acyclic t h rs o fo news.

  Lemma change_spec :
    exists H' ks,
      change st o fo news removed added prevented strict =
        (mkState t (upd h o fo news) H' rs (st_next st),
         mkObs Ok (if prevented then [] else map (fun k => (k, o, fo, removed, added)) ks) [(o, fo, news)])
      /\ Permutation H' (expected_all t (upd h o fo news) rs)
      /\ NoDup ks
      /\ (forall k, In k ks <-> exists g, In (k, g) rs /\ matched t h g (snd k) o fo = true).
  Proof.
    destruct Hacyc as [NT [Hac Hw]].
    set (H := st_hooks st). set (h' := upd h o fo news).
    assert (Permutation H (expected_all t h rs)) as HI by exact Hinv.
    set (M := maint_on H o fo). set (O := occ_all t h rs o fo).
    assert (Permutation M O) as MO.
    { subst M O. rewrite <- maint_on_expected_all. unfold maint_on. apply flat_map_perm. exact HI. }
    assert (forall kc, In kc M -> In kc O) as MinO by (intros kc; apply Permutation_in; exact MO).
    assert (forall ys, (forall y, In y ys -> In y (h o fo) \/ In y news) -> S_of t h' M ys = S_of t h M ys) as FR.
    { intros ys Hy. unfold S_of. apply flat_map_ext_In. intros kc Hkc. unfold sumexp.
      apply flat_map_ext_In. intros y Iy. cbn [flat_map]. f_equal.
      apply expected_frame. apply Hac; [apply MinO; exact Hkc|apply Hy; exact Iy]. }
    assert (forall y, In y removed -> In y (h o fo)) as RinO.
    { intros y Iy. apply (Permutation_in y (Permutation_sym Hold)). apply in_or_app. right. exact Iy. }
    assert (forall y, In y added -> In y news) as AinN.
    { intros y Iy. apply (Permutation_in y (Permutation_sym Hnew)). apply in_or_app. right. exact Iy. }
    (* the hooks split into what stays and what hangs below the removed objects *)
    set (K := skeleton_all t h rs o fo ++ S_of t h O keep).
    assert (Permutation H (K ++ S_of t h' M removed)) as SPLIT.
    { rewrite (FR removed) by (intros y Iy; left; apply RinO; exact Iy).
      rewrite (S_of_perm_M t h M O removed MO). subst K. rewrite HI.
      rewrite (expected_split_all t h rs o fo).
      - fold O. rewrite (S_of_perm_ys t h O _ _ Hold). rewrite S_of_app. rewrite app_assoc. reflexivity.
      - intros kc Hkc y Hy. apply Hac; [exact Hkc|left; exact Hy]. }
    assert (Permutation H (K ++ S_of t h' (maints_of (on_slot H o fo)) removed)) as SPLIT'
      by (rewrite maints_of_on_slot; exact SPLIT).
    unfold change. fold h. fold t. fold h'. fold H.
    assert (forall kc y, In kc (maints_of (on_slot H o fo)) -> In y added -> walkable t h' (snd kc) y = true) as WK.
    { intros kc y Ikc Iy. apply Hw; [apply MinO; unfold M; rewrite <- maints_of_on_slot; exact Ikc|].
      apply (Permutation_in y (Permutation_sym Hnew)). apply in_or_app. right. exact Iy. }
    destruct (notify_loop_spec t h' strict removed added (on_slot H o fo) [] H K WK SPLIT')
      as [H' [ks [E [PH [ND Sp]]]]].
    rewrite E.
    (* the live-iteration round is empty: the maintainers did not touch this slot's list *)
    assert (on_slot H' o fo = on_slot H o fo) as SAME.
    { pose proof (notify_loop_on_slot t h' strict removed added o fo NT (on_slot H o fo) [] H) as L.
      rewrite E in L. cbn [fst] in L. apply L. intros kc y Ikc Iy. apply visits_frame.
      apply Hac; [apply MinO; unfold M; rewrite <- maints_of_on_slot; exact Ikc|].
      destruct Iy as [Iy|Iy]; [left; apply RinO; exact Iy|right; apply AinN; exact Iy]. }
    rewrite SAME, skipn_all.
    replace (if strict && true then @nil kind else []) with (@nil kind) by (destruct strict; reflexivity).
    cbn [notify_loop andb]. rewrite app_nil_r.
    exists H', ks. split; [reflexivity|]. rewrite (maints_of_on_slot H o fo) in PH. fold M in PH.
    split; [|split; [exact ND|]].
    - apply (inv_preserved_all t h rs o fo news removed added) with (H := H).
      + rewrite Hnew, Hold. rewrite <- !app_assoc. apply Permutation_app_head. apply Permutation_app_comm.
      + intros y Iy. apply RinO. exact Iy.
      + intros y Iy. apply AinN. exact Iy.
      + exact Hac.
      + exact HI.
      + fold h' M. rewrite PH. rewrite SPLIT. rewrite <- !app_assoc. apply Permutation_app_head. apply Permutation_app_comm.
    - intros k. rewrite Sp. rewrite users_of_on_slot. rewrite <- (matched_keys t h rs o fo k).
      split.
      + intros [I _]. unfold users_on in *. apply in_flat_map in I. destruct I as [hk [Ihk Iu]].
        apply in_flat_map. exists hk. split; [|exact Iu]. apply (Permutation_in hk HI). exact Ihk.
      + intros I. split; [|intros []]. unfold users_on in *. apply in_flat_map in I. destruct I as [hk [Ihk Iu]].
        apply in_flat_map. exists hk. split; [|exact Iu]. apply (Permutation_in hk (Permutation_sym HI)). exact Ihk.
  Qed.
End Change.
(* ---------- one operation ---------- *)
Lemma reg_eqb_spec a b : reg_eqb a b = true <-> a = b.
Proof.
  destruct a as [k g], b as [k' g']. unfold reg_eqb. cbn [fst snd].
  rewrite andb_true_iff, hkey_eqb_spec, graph_eqb_spec.
  split; [intros [-> ->]; reflexivity|intros [= -> ->]; split; reflexivity].
Qed.

Definition call_slot (c : call) : oid * fname := let '(_, x, f, _, _) := c in (x, f).

(* what one step guarantees *)
Definition step_ok (st : state) (o : op) : Prop :=
  let '(st', ob) := step st o in
  inv st' /\
  (* nothing raises, except a registration that cannot be hooked: ValueError, and nothing changes *)
  (ob_out ob = Ok \/ (op_slot o = None /\ ob_out ob = Raise ValueError /\ st' = st)) /\
  match notified st o with
  | None => ob_calls ob = []
  | Some (x, f) =>
      NoDup (map call_key (ob_calls ob))
      /\ (forall k, In k (map call_key (ob_calls ob)) <->
                    exists g, In (k, g) (st_regs st) /\ matched (st_traits st) (st_heap st) g (snd k) x f = true)
      /\ (forall c, In c (ob_calls ob) -> call_slot c = (x, f))
  end.

Lemma list_eqb_eq a : forall b, list_eqb a b = true <-> a = b.
Proof.
  induction a as [|x a IH]; intros [|y b]; cbn; try (split; [discriminate|discriminate]).
  - tauto.
  - rewrite andb_true_iff, Nat.eqb_eq, IH. split; [intros [-> ->]; reflexivity|intros [= -> ->]; tauto].
Qed.

Lemma remove_reg_perm r rs : existsb (reg_eqb r) rs = true -> Permutation rs (r :: remove_reg r rs).
Proof.
  induction rs as [|a rs IH]; cbn; [discriminate|].
  fold (reg_eqb r a). destruct (reg_eqb r a) eqn:Q.
  - apply reg_eqb_spec in Q. subst. reflexivity.
  - cbn. intros E. rewrite perm_swap. apply perm_skip. apply IH. exact E.
Qed.

Lemma expected_all_perm t h rs rs' : Permutation rs rs' -> Permutation (expected_all t h rs) (expected_all t h rs').
Proof. apply flat_map_perm. Qed.

Lemma expected_all_fresh t h rs c fc items :
  fresh_b t h rs c fc = true -> expected_all t (upd h c fc items) rs = expected_all t h rs.
Proof.
  unfold fresh_b. rewrite forallb_forall. intros F. unfold expected_all. apply flat_map_ext_In.
  intros r Hr. unfold expected_reg. apply expected_frame. apply negb_true_iff. apply F. exact Hr.
Qed.

Lemma map_call_key ks x f (r a : list oid) : map call_key (map (fun k : hkey => (k, x, f, r, a)) ks) = ks.
Proof. induction ks; cbn; [reflexivity|]. rewrite IHks. reflexivity. Qed.

(* a change through [change_spec] gives [step_ok]'s three facts *)
Lemma change_ok st o fo news removed added keep prevented strict :
  inv st ->
  Permutation (st_heap st o fo) (keep ++ removed) ->
  Permutation news (keep ++ added) ->
  edge_acyclic (st_traits st) (st_heap st) (st_regs st) o fo news ->
  let '(st', ob) := change st o fo news removed added prevented strict in
  inv st' /\ ob_out ob = Ok /\ st_regs st' = st_regs st /\ st_heap st' = upd (st_heap st) o fo news /\
  (if prevented then ob_calls ob = []
   else NoDup (map call_key (ob_calls ob))
        /\ (forall k, In k (map call_key (ob_calls ob)) <->
                      exists g, In (k, g) (st_regs st) /\ matched (st_traits st) (st_heap st) g (snd k) o fo = true)
        /\ (forall c, In c (ob_calls ob) -> call_slot c = (o, fo))).
Proof.
  intros Hinv Hold Hnew Hacyc.
  destruct (change_spec st o fo news removed added keep prevented strict Hinv Hold Hnew Hacyc)
    as [H' [ks [E [PH [ND Sp]]]]].
  rewrite E. split; [exact PH|]. split; [reflexivity|]. split; [reflexivity|]. split; [reflexivity|].
  cbn [ob_calls]. destruct prevented; [reflexivity|].
  rewrite map_call_key. split; [exact ND|]. split; [exact Sp|].
  intros c Hc. apply in_map_iff in Hc. destruct Hc as [k [<- _]]. reflexivity.
Qed.

Lemma splice_old l i n : Permutation l ((firstn i l ++ skipn n (skipn i l)) ++ spliced_out l i n).
Proof.
  unfold spliced_out. rewrite <- (firstn_skipn i l) at 1.
  rewrite <- (firstn_skipn n (skipn i l)) at 1.
  rewrite <- app_assoc. apply Permutation_app_head. apply Permutation_app_comm.
Qed.
Lemma splice_new l i n vs : Permutation (splice l i n vs) ((firstn i l ++ skipn n (skipn i l)) ++ vs).
Proof.
  unfold splice. rewrite <- app_assoc. apply Permutation_app_head. apply Permutation_app_comm.
Qed.

Lemma observe1_inv st k r g : inv st -> inv (observe1 st k r g).
Proof.
  intros Hinv. unfold inv, observe1 in *. cbn [st_hooks st_heap st_regs].
  unfold expected_all in *. rewrite flat_map_app. cbn [flat_map]. rewrite app_nil_r.
  apply Permutation_app; [exact Hinv|]. apply add_order_expected.
Qed.

Lemma observe_all_spec k r : forall gs st, inv st ->
  inv (fold_left (fun s g => observe1 s k r g) gs st)
  /\ st_heap (fold_left (fun s g => observe1 s k r g) gs st) = st_heap st
  /\ st_regs (fold_left (fun s g => observe1 s k r g) gs st) = st_regs st ++ map (pair (k, r)) gs
  /\ st_traits (fold_left (fun s g => observe1 s k r g) gs st) = st_traits st.
Proof.
  induction gs as [|g gs IH]; intros st I; cbn [fold_left map].
  - rewrite app_nil_r. tauto.
  - destruct (IH (observe1 st k r g) (observe1_inv st k r g I)) as [A [B [C D]]].
    split; [exact A|]. split; [rewrite B; reflexivity|]. split; [|rewrite D; reflexivity]. rewrite C. cbn [observe1 st_regs].
    rewrite <- app_assoc. reflexivity.
Qed.

Lemma unobserve1_spec st k r g : inv st -> existsb (reg_eqb ((k, r), g)) (st_regs st) = true ->
  exists st', unobserve1 st k r g = Some st' /\ inv st' /\ st_heap st' = st_heap st
              /\ st_regs st' = remove_reg ((k, r), g) (st_regs st) /\ st_traits st' = st_traits st.
Proof.
  intros Hinv Hyp. pose proof (remove_reg_perm _ _ Hyp) as PR.
  destruct (remove_all_complete (rem_order (st_traits st) (st_heap st) (k, r) g r) (st_hooks st)
              (expected_all (st_traits st) (st_heap st) (remove_reg (k, r, g) (st_regs st)))) as [H' [E PH]].
  { unfold inv in Hinv. rewrite Hinv. rewrite (expected_all_perm _ _ _ _ PR).
    unfold expected_all at 1. cbn [flat_map]. fold (expected_all (st_traits st) (st_heap st) (remove_reg (k, r, g) (st_regs st))).
    rewrite Permutation_app_comm. apply Permutation_app_head.
    unfold expected_reg. cbn [fst snd]. symmetry. apply rem_order_expected. }
  unfold unobserve1. rewrite E. eexists. split; [reflexivity|]. split; [exact PH|]. split; [reflexivity|split; reflexivity].
Qed.

Lemma unobserve_all_spec k r : forall gs st, inv st -> regs_present k r gs (st_regs st) = true ->
  exists st', unobserve_all st k r gs = Some st' /\ inv st' /\ st_heap st' = st_heap st
              /\ st_regs st' = fold_left (fun rs g => remove_reg ((k, r), g) rs) gs (st_regs st)
              /\ st_traits st' = st_traits st.
Proof.
  induction gs as [|g gs IH]; intros st I P; cbn [unobserve_all regs_present fold_left] in *.
  - exists st. tauto.
  - apply andb_true_iff in P. destruct P as [P1 P2].
    destruct (unobserve1_spec st k r g I P1) as [st1 [E [I1 [H1 [R1 T1]]]]]. rewrite E.
    rewrite <- R1 in P2. destruct (IH st1 I1 P2) as [st' [E' [I' [H' [R' T']]]]].
    exists st'. split; [exact E'|]. split; [exact I'|]. split; [congruence|]. split; [|congruence]. rewrite R', R1. reflexivity.
Qed.

Lemma restricted_add_own t h k g x f : h x f = [] -> restricted_add t h k g x f = own_for k x f g.
Proof.
  intros E. destruct g as [fs n e p cs]. cbn [restricted_add own_for]. apply flat_map_ext_In. intros f' _.
  destruct (Nat.eqb f' f); [|reflexivity]. rewrite E. unfold own. rewrite app_assoc.
  rewrite (flat_map_nil_In (fun c : graph => flat_map (fun y => add_order t h k c y) []) cs) by reflexivity.
  apply app_nil_r.
Qed.

Lemma added_loop_spec t h x f : h x f = [] -> forall ns seen H,
  exists ks, added_loop t h x f ns seen H
             = (H ++ flat_map (fun kg => own_for (fst kg) x f (snd kg)) (addeds_of ns), ks)
    /\ NoDup ks /\ (forall k, In k ks <-> In k (users_of ns) /\ ~ In k seen).
Proof.
  intros Nv. induction ns as [|[k|k c|k g] ns IH]; intros seen H.
  - exists []. cbn. rewrite app_nil_r. split; [reflexivity|]. split; [constructor|]. intros k. tauto.
  - cbn [added_loop]. cbn [addeds_of users_of flat_map app]. fold (addeds_of ns). fold (users_of ns).
    destruct (mem_key k seen) eqn:Ms.
    + destruct (IH seen H) as [ks [E [ND Sp]]]. exists ks. split; [exact E|]. split; [exact ND|].
      intros k0. rewrite Sp. split.
      * intros [I NS]. split; [right; exact I|exact NS].
      * intros [[<-|I] NS]; [apply mem_key_In in Ms; contradiction|split; assumption].
    + destruct (IH (k :: seen) H) as [ks [E [ND Sp]]]. rewrite E. exists (k :: ks).
      split; [reflexivity|]. split.
      * constructor; [|exact ND]. intros I. apply Sp in I. destruct I as [_ I]. apply I. left. reflexivity.
      * intros k0. split.
        -- intros [<-|I].
           { split; [left; reflexivity|]. intros I. apply mem_key_In in I. congruence. }
           apply Sp in I. destruct I as [I NS]. split; [right; exact I|]. intros I2. apply NS. right. exact I2.
        -- intros [[<-|I] NS]; [left; reflexivity|].
           destruct (hkey_eqb k k0) eqn:Q; [apply hkey_eqb_spec in Q; left; exact Q|].
           right. apply Sp. split; [exact I|]. intros [->|I2]; [|contradiction].
           assert (hkey_eqb k0 k0 = true) by (apply hkey_eqb_spec; reflexivity). congruence.
  - cbn [added_loop]. cbn [addeds_of users_of flat_map app]. fold (addeds_of ns). fold (users_of ns). apply IH.
  - cbn [added_loop]. cbn [addeds_of users_of flat_map app]. fold (addeds_of ns). fold (users_of ns).
    rewrite (restricted_add_own t h k g x f Nv).
    destruct (IH seen (H ++ own_for k x f g)) as [ks [E [ND Sp]]]. exists ks. split; [|split; assumption].
    rewrite E. cbn [fst snd]. rewrite <- app_assoc. reflexivity.
Qed.

Lemma splice_delta l i n vs : Permutation (splice l i n vs ++ spliced_out l i n) (l ++ vs).
Proof.
  etransitivity; [apply Permutation_app_tail; apply splice_new|].
  etransitivity; [|apply Permutation_app_tail; symmetry; apply (splice_old l i n)].
  rewrite <- !app_assoc. do 2 apply Permutation_app_head. apply Permutation_app_comm.
Qed.

Lemma step_spec st o : inv st -> op_hyp st o = true -> step_ok st o.
Proof.
  intros Hinv Hyp. unfold step_ok. destruct o as [k r g|k r g|k r gs|k r gs|x f v|x f items de|x f|c f i n vs|x|x f|x f|x f items|c f fi i n items];
    cbn [step notified op_hyp] in *.
  13: { (* SpliceCont *)
    apply andb_true_iff in Hyp. destruct Hyp as [Hyp Ac]. apply andb_true_iff in Hyp. destruct Hyp as [Nf Fr].
    apply negb_true_iff in Nf.
    set (c' := st_next st) in *. set (h := st_heap st) in *.
    set (st1 := mkState (st_traits st) (upd h c' fi items) (st_hooks st) (st_regs st) (S c')).
    assert (inv st1) as I1.
    { unfold inv, st1. cbn [st_hooks st_heap st_regs st_traits]. rewrite (expected_all_fresh _ _ _ _ _ _ Fr). exact Hinv. }
    assert (st_heap st1 c f = h c f) as SL.
    { unfold st1. cbn [st_heap]. apply upd_other_slot. unfold slot_eqb. rewrite Nf. apply andb_false_r. }
    pose proof (change_ok st1 c f (splice (h c f) i n [c']) (spliced_out (h c f) i n) [c']
                  (firstn i (h c f) ++ skipn n (skipn i (h c f))) false true I1) as C.
    rewrite SL in C.
    specialize (C (splice_old _ _ _) (splice_new _ _ _ _) (edge_acyclic_b_spec _ _ _ _ _ _ Ac)).
    destruct (change st1 c f (splice (h c f) i n [c']) (spliced_out (h c f) i n) [c'] false true) as [st' ob].
    destruct C as [I [O [_ [_ Cs]]]]. cbn [ob_out ob_calls]. split; [exact I|]. split; [left; exact O|].
    destruct Cs as [ND [Sp Sl]]. split; [exact ND|]. split; [|exact Sl].
    intros k0. rewrite Sp. cbn [st_regs st_heap st_traits st1].
    split; intros [g0 [Hr Hm]]; exists g0; (split; [exact Hr|]).
    + rewrite matched_frame in Hm; [exact Hm|]. unfold fresh_b in Fr. rewrite forallb_forall in Fr.
      apply negb_true_iff. apply (Fr (k0, g0) Hr).
    + rewrite matched_frame; [exact Hm|]. unfold fresh_b in Fr. rewrite forallb_forall in Fr.
      apply negb_true_iff. apply (Fr (k0, g0) Hr). }
  12: { (* TouchItems *)
    destruct (st_heap st x f) eqn:Q.
    2: { cbn. split; [exact Hinv|]. split; [left; reflexivity|reflexivity]. }
    apply andb_true_iff in Hyp. destruct Hyp as [Fr Ac].
    set (c := st_next st) in *. set (fc := items_field f) in *.
    set (st1 := mkState (st_traits st) (upd (st_heap st) c fc items) (st_hooks st) (st_regs st) (S c)).
    assert (inv st1) as I1.
    { unfold inv, st1. cbn [st_hooks st_heap st_regs st_traits]. rewrite (expected_all_fresh _ _ _ _ _ _ Fr). exact Hinv. }
    assert (st_heap st1 x f = []) as SL.
    { unfold st1. cbn [st_heap]. rewrite upd_other_slot; [exact Q|]. unfold slot_eqb.
      replace (Nat.eqb f fc) with false; [apply andb_false_r|].
      symmetry. apply Nat.eqb_neq. unfold fc, items_field. lia. }
    pose proof (change_ok st1 x f [c] [] [c] [] true false I1) as C. cbn [app] in C. rewrite SL in C.
    specialize (C (Permutation_refl _) (Permutation_refl _) (edge_acyclic_b_spec _ _ _ _ _ _ Ac)).
    destruct (change st1 x f [c] [] [c] true false) as [st' ob]. destruct C as [I [O [_ [_ Cs]]]].
    cbn [ob_out ob_calls]. split; [exact I|]. split; [left; exact O|]. exact Cs. }
  11: discriminate.
  10: { (* AddTrait *)
    destruct (st_traits st x f) eqn:Nt.
    { cbn. split; [exact Hinv|]. split; [left; reflexivity|reflexivity]. }
    cbn [orb] in Hyp. apply andb_true_iff in Hyp. destruct Hyp as [Nv W].
    assert (st_heap st x f = []) as Nv' by (destruct (st_heap st x f); [reflexivity|discriminate]).
    destruct (added_loop_spec (add_trait (st_traits st) x f) (st_heap st) x f Nv'
                (on_slot (st_hooks st) x TA) [] (st_hooks st)) as [ks [E [ND Sp]]].
    rewrite E. cbn [ob_out ob_calls]. split; [|split; [left; reflexivity|]].
    - unfold inv. cbn [st_hooks st_traits st_heap st_regs]. rewrite addeds_of_on_slot.
      apply inv_add_trait_all; assumption.
    - rewrite map_call_key. split; [exact ND|]. split.
      + intros k. rewrite Sp. rewrite users_of_on_slot.
        rewrite <- (matched_keys (st_traits st) (st_heap st) (st_regs st) x TA k). split.
        * intros [I _]. unfold users_on in *. apply in_flat_map in I. destruct I as [hk [Ihk Iu]].
          apply in_flat_map. exists hk. split; [|exact Iu]. apply (Permutation_in hk Hinv). exact Ihk.
        * intros I. split; [|intros []]. unfold users_on in *. apply in_flat_map in I. destruct I as [hk [Ihk Iu]].
          apply in_flat_map. exists hk. split; [|exact Iu]. apply (Permutation_in hk (Permutation_sym Hinv)). exact Ihk.
      + intros c Hc. apply in_map_iff in Hc. destruct Hc as [k [<- _]]. reflexivity. }
  3: { destruct (forallb (fun g => walkable (st_traits st) (st_heap st) g r) gs).
       - destruct (observe_all_spec k r gs st Hinv) as [A _]. split; [exact A|]. split; [left; reflexivity|reflexivity].
       - split; [exact Hinv|]. split; [right; repeat split; reflexivity|reflexivity]. }
  3: { destruct (unobserve_all_spec k r gs st Hinv Hyp) as [st' [E [I' _]]]. rewrite E.
       split; [exact I'|]. split; [left; reflexivity|reflexivity]. }
  - (* Observe *)
    destruct (walkable (st_traits st) (st_heap st) g r);
      [|split; [exact Hinv|]; split; [right; repeat split; reflexivity|reflexivity]].
    split; [|split; [left; reflexivity|reflexivity]]. unfold inv in *. cbn [st_hooks st_heap st_regs].
    unfold expected_all in *. rewrite flat_map_app. cbn [flat_map]. rewrite app_nil_r.
    apply Permutation_app; [exact Hinv|]. apply add_order_expected.
  - (* Unobserve *)
    pose proof (remove_reg_perm _ _ Hyp) as PR.
    destruct (remove_all_complete (rem_order (st_traits st) (st_heap st) (k, r) g r) (st_hooks st)
                (expected_all (st_traits st) (st_heap st) (remove_reg (k, r, g) (st_regs st)))) as [H' [E PH]].
    { unfold inv in Hinv. rewrite Hinv. rewrite (expected_all_perm _ _ _ _ PR).
      unfold expected_all at 1. cbn [flat_map]. fold (expected_all (st_traits st) (st_heap st) (remove_reg (k, r, g) (st_regs st))).
      rewrite Permutation_app_comm. apply Permutation_app_head.
      unfold expected_reg. cbn [fst snd]. symmetry. apply rem_order_expected. }
    rewrite E. split; [exact PH|]. split; [left; reflexivity|reflexivity].
  - (* SetRef *)
    destruct (list_eqb (st_heap st x f) v) eqn:Q.
    + cbn. split; [exact Hinv|]. split; [left; reflexivity|reflexivity].
    + pose proof (change_ok st x f v (st_heap st x f) v [] false false Hinv) as C.
      cbn [app] in C. specialize (C (Permutation_refl _) (Permutation_refl _) (edge_acyclic_b_spec _ _ _ _ _ _ Hyp)).
      destruct (change st x f v (st_heap st x f) v false false) as [st' ob].
      destruct C as [I [O [_ [_ Cs]]]]. split; [exact I|]. split; [left; exact O|]. exact Cs.
  - (* SetCont *)
    apply andb_true_iff in Hyp. destruct Hyp as [Fr Ac].
    set (c := st_next st) in *. set (fc := items_field f) in *.
    set (st1 := mkState (st_traits st) (upd (st_heap st) c fc items) (st_hooks st) (st_regs st) (S c)).
    assert (inv st1) as I1.
    { unfold inv, st1. cbn [st_hooks st_heap st_regs]. rewrite (expected_all_fresh _ _ _ _ _ _ Fr). exact Hinv. }
    assert (st_heap st1 x f = st_heap st x f) as SL.
    { unfold st1. cbn [st_heap]. unfold upd. unfold slot_eqb.
      replace (Nat.eqb f fc) with false; [rewrite andb_false_r; reflexivity|].
      symmetry. apply Nat.eqb_neq. unfold fc, items_field. lia. }
    match goal with |- context [change st1 x f [c] ?olds [c] ?p false] =>
      pose proof (change_ok st1 x f [c] olds [c] [] p false I1) as C; set (prevented := p) in * end.
    cbn [app] in C. rewrite SL in C.
    specialize (C (Permutation_refl _) (Permutation_refl _) (edge_acyclic_b_spec _ _ _ _ _ _ Ac)).
    destruct (change st1 x f [c] (st_heap st x f) [c] prevented false) as [st' ob].
    destruct C as [I [O [_ [_ Cs]]]]. cbn [ob_out ob_calls]. split; [exact I|]. split; [left; exact O|].
    destruct prevented; [exact Cs|].
    destruct Cs as [ND [Sp Sl]]. split; [exact ND|]. split; [|exact Sl].
    intros k0. rewrite Sp. cbn [st_regs st_heap st1].
    split; intros [g0 [Hr Hm]]; exists g0; (split; [exact Hr|]).
    + rewrite matched_frame in Hm; [exact Hm|]. unfold fresh_b in Fr. rewrite forallb_forall in Fr.
      apply negb_true_iff. apply (Fr (k0, g0) Hr).
    + rewrite matched_frame; [exact Hm|]. unfold fresh_b in Fr. rewrite forallb_forall in Fr.
      apply negb_true_iff. apply (Fr (k0, g0) Hr).
  - (* Touch *)
    destruct (st_heap st x f) eqn:Q.
    + set (st1 := mkState (st_traits st) (st_heap st) (st_hooks st) (st_regs st) (S (st_next st))).
      pose proof (change_ok st1 x f [st_next st] [] [st_next st] [] true false Hinv) as C.
      cbn [app st_heap st1] in C. rewrite Q in C.
      assert (edge_acyclic (st_traits st) (st_heap st) (st_regs st) x f [st_next st]) as A by (apply edge_acyclic_b_spec; exact Hyp).
      specialize (C (Permutation_refl _) (Permutation_refl _) A).
      destruct (change st1 x f [st_next st] [] [st_next st] true false) as [st' ob].
      destruct C as [I [O [_ [_ Cs]]]]. split; [exact I|]. split; [left; exact O|]. exact Cs.
    + cbn. split; [exact Hinv|]. split; [left; reflexivity|reflexivity].
  - (* Splice *)
    destruct (spliced_out (st_heap st c f) i n ++ vs) eqn:Q.
    + cbn. split; [exact Hinv|]. split; [left; reflexivity|reflexivity].
    + pose proof (change_ok st c f (splice (st_heap st c f) i n vs) (spliced_out (st_heap st c f) i n) vs
                   (firstn i (st_heap st c f) ++ skipn n (skipn i (st_heap st c f))) false true Hinv
                   (splice_old _ _ _) (splice_new _ _ _ _) (edge_acyclic_b_spec _ _ _ _ _ _ Hyp)) as C.
      destruct (change st c f (splice (st_heap st c f) i n vs) (spliced_out (st_heap st c f) i n) vs false true)
        as [st' ob].
      destruct C as [I [O [_ [_ Cs]]]]. split; [exact I|]. split; [left; exact O|]. exact Cs.
  - (* Probe *)
    pose proof (change_ok st x 0 (st_heap st x 0) [] [] (st_heap st x 0) false false Hinv) as C.
    rewrite app_nil_r in C.
    specialize (C (Permutation_refl _) (Permutation_refl _) (edge_acyclic_b_spec _ _ _ _ _ _ Hyp)).
    destruct (change st x 0 (st_heap st x 0) [] [] false false) as [st' ob].
    destruct C as [I [O [_ [_ Cs]]]]. split; [exact I|]. split; [left; exact O|]. exact Cs.
Qed.

(* ---------- histories ---------- *)
Lemma inv_init n : inv (init n).
Proof. unfold inv, init. cbn. constructor. Qed.

Lemma hooks_are_expected_lemma : forall ops st, inv st -> hyps st ops = true -> inv (final st ops).
Proof.
  induction ops as [|o ops IH]; intros st I Hy; cbn [final]; [exact I|].
  cbn [hyps] in Hy. apply andb_true_iff in Hy. destruct Hy as [H1 H2].
  apply IH; [|exact H2]. pose proof (step_spec st o I H1) as S. unfold step_ok in S.
  destruct (step st o) as [st' ob]. cbn [fst]. tauto.
Qed.

Lemma hyps_app : forall pre st post, hyps st (pre ++ post) = true ->
  hyps st pre = true /\ hyps (final st pre) post = true.
Proof.
  induction pre as [|o pre IH]; intros st post Hy; cbn [app hyps final] in *; [tauto|].
  apply andb_true_iff in Hy. destruct Hy as [H1 H2]. destruct (IH _ _ H2) as [A B].
  rewrite H1, A. split; [reflexivity|exact B].
Qed.

Lemma every_step_ok ops st pre o post :
  inv st -> hyps st ops = true -> ops = pre ++ o :: post -> step_ok (final st pre) o.
Proof.
  intros I Hy ->. apply hyps_app in Hy. destruct Hy as [Hp Ho]. cbn [hyps] in Ho.
  apply andb_true_iff in Ho. destruct Ho as [Ho _].
  apply step_spec; [|exact Ho]. apply hooks_are_expected_lemma; assumption.
Qed.

(* no MUTATION raises (a registration that cannot be hooked raises ValueError and changes nothing) *)
Lemma run_all_ok : forall ops st, inv st -> hyps st ops = true ->
  Forall (fun p : op * obs => ob_out (snd p) = Ok \/ (op_slot (fst p) = None /\ ob_out (snd p) = Raise ValueError))
         (run st ops).
Proof.
  induction ops as [|o ops IH]; intros st I Hy; cbn [run]; [constructor|].
  cbn [hyps] in Hy. apply andb_true_iff in Hy. destruct Hy as [H1 H2].
  pose proof (step_spec st o I H1) as S. unfold step_ok in S.
  destruct (step st o) as [st' ob]. cbn [fst] in H2. constructor; [cbn [fst snd]; tauto|]. apply IH; tauto.
Qed.

(* reference counts are path multiplicities *)
Lemma refcount_is_multiplicity st (eq_dec : forall a b : oid * fname * kind, {a = b} + {a <> b}) hk :
  inv st -> count_occ eq_dec (st_hooks st) hk = count_occ eq_dec (expected_all (st_traits st) (st_heap st) (st_regs st)) hk.
Proof. intros I. apply Permutation_count_occ. exact I. Qed.

(* ---------- the boolean law holds on every history of the model ---------- *)
Lemma count_nat_perm x a b : Permutation a b -> count_nat x a = count_nat x b.
Proof.
  unfold count_nat. induction 1; cbn; try congruence.
  - destruct (Nat.eqb x x0); cbn; congruence.
  - destruct (Nat.eqb x y), (Nat.eqb x x0); reflexivity.
Qed.
Lemma perm_eqb_of_perm a b : Permutation a b -> perm_eqb a b = true.
Proof.
  intros P. unfold perm_eqb. apply forallb_forall. intros x _. apply Nat.eqb_eq. apply count_nat_perm. exact P.
Qed.

Lemma nodup_keys_In k l : In k (nodup_keys l) <-> In k l.
Proof.
  induction l as [|a l IH]; cbn; [tauto|]. destruct (mem_key a l) eqn:M.
  - rewrite IH. split; [tauto|]. intros [<-|I]; [apply mem_key_In; exact M|exact I].
  - cbn. rewrite IH. tauto.
Qed.
Lemma nodup_b_of_NoDup l : NoDup l -> nodup_b l = true.
Proof.
  induction 1 as [|a l Na ND IH]; [reflexivity|]. cbn. rewrite IH, andb_true_r.
  apply negb_true_iff. destruct (mem_key a l) eqn:M; [apply mem_key_In in M; contradiction|reflexivity].
Qed.

Lemma expect_keys_In rs t h x f k :
  In k (expect_keys rs t h x f) <-> exists g, In (k, g) rs /\ matched t h g (snd k) x f = true.
Proof.
  unfold expect_keys. rewrite nodup_keys_In, in_map_iff. split.
  - intros [[k' g] [E I]]. cbn in E. subst k'. apply filter_In in I. exists g. exact I.
  - intros [g I]. exists (k, g). split; [reflexivity|]. apply filter_In. exact I.
Qed.

Lemma filter_nil {A} (p : A -> bool) l : (forall a, In a l -> p a = false) -> filter p l = [].
Proof.
  induction l as [|a l IH]; intros H; [reflexivity|]. cbn. rewrite (H a (or_introl eq_refl)).
  apply IH. intros b I. apply H. right. exact I.
Qed.

Lemma law_step_from_facts t hb rs o ob x f :
  op_slot o = Some (x, f) ->
  ob_out ob = Ok ->
  NoDup (map call_key (ob_calls ob)) ->
  (forall k, In k (map call_key (ob_calls ob)) -> exists g, In (k, g) rs /\ matched t hb g (snd k) x f = true) ->
  (classify t hb (apply_delta hb (ob_delta ob)) o = Exact ->
   forall k g, In (k, g) rs -> matched t hb g (snd k) x f = true -> In k (map call_key (ob_calls ob))) ->
  (classify t hb (apply_delta hb (ob_delta ob)) o = NoChange -> ob_calls ob = []) ->
  forallb (call_ok hb (apply_delta hb (ob_delta ob)) o x f) (ob_calls ob) = true ->
  law_step t hb rs o ob = [].
Proof.
  intros SL OK ND SUB EX NC CO. unfold law_step. rewrite SL.
  set (keys := map call_key (ob_calls ob)) in *.
  assert (filter (fun k => negb (mem_key k (expect_keys rs t hb x f))) keys = []) as BAD.
  { apply filter_nil. intros k I. apply negb_false_iff. apply mem_key_In. apply expect_keys_In. apply SUB. exact I. }
  rewrite BAD. cbn [forallb]. rewrite OK. cbn [out_ok]. rewrite (nodup_b_of_NoDup _ ND). rewrite CO.
  cbn [chk app].
  assert (match classify t hb (apply_delta hb (ob_delta ob)) o with
          | Exact => forallb (fun k => mem_key k keys) (expect_keys rs t hb x f) | _ => true end = true) as C1.
  { destruct (classify t hb (apply_delta hb (ob_delta ob)) o) eqn:E; try reflexivity.
    apply forallb_forall. intros k I. apply mem_key_In. apply expect_keys_In in I. destruct I as [g [Hr Hm]].
    apply (EX eq_refl k g Hr Hm). }
  rewrite C1.
  assert (match classify t hb (apply_delta hb (ob_delta ob)) o with
          | NoChange => forallb (fun k => negb (mem_key k (expect_keys rs t hb x f))) keys | _ => true end = true) as C7.
  { destruct (classify t hb (apply_delta hb (ob_delta ob)) o) eqn:E; try reflexivity.
    unfold keys. rewrite (NC eq_refl). reflexivity. }
  rewrite C7. reflexivity.
Qed.

Lemma list_eqb_refl a : list_eqb a a = true.
Proof. apply list_eqb_eq. reflexivity. Qed.

Lemma forallb_map_calls (p : call -> bool) ks x f (r a : list oid) :
  (forall k, p (k, x, f, r, a) = true) -> forallb p (map (fun k : hkey => (k, x, f, r, a)) ks) = true.
Proof. intros P. apply forallb_forall. intros c I. apply in_map_iff in I. destruct I as [k [<- _]]. apply P. Qed.

(* a change of the current heap, judged by the law *)
Lemma change_law st o0 o fo news removed added keep prevented strict :
  inv st ->
  Permutation (st_heap st o fo) (keep ++ removed) -> Permutation news (keep ++ added) ->
  edge_acyclic (st_traits st) (st_heap st) (st_regs st) o fo news ->
  op_slot o0 = Some (o, fo) ->
  (prevented = true -> classify (st_traits st) (st_heap st) (upd (st_heap st) o fo news) o0 = NoChange) ->
  (prevented = false -> classify (st_traits st) (st_heap st) (upd (st_heap st) o fo news) o0 <> NoChange) ->
  (forall k, call_ok (st_heap st) (upd (st_heap st) o fo news) o0 o fo (k, o, fo, removed, added) = true) ->
  law_step (st_traits st) (st_heap st) (st_regs st) o0 (snd (change st o fo news removed added prevented strict)) = []
  /\ apply_delta (st_heap st) (ob_delta (snd (change st o fo news removed added prevented strict)))
     = st_heap (fst (change st o fo news removed added prevented strict))
  /\ st_regs (fst (change st o fo news removed added prevented strict)) = st_regs st
  /\ st_traits (fst (change st o fo news removed added prevented strict)) = st_traits st.
Proof.
  intros Hinv Hold Hnew Hacyc SL P1 P2 CO.
  destruct (change_spec st o fo news removed added keep prevented strict Hinv Hold Hnew Hacyc)
    as [H' [ks [E [PH [ND Sp]]]]].
  rewrite E. cbn [fst snd st_heap st_regs st_traits ob_delta]. split; [|split; [reflexivity|split; reflexivity]].
  apply (law_step_from_facts _ _ _ _ _ o fo SL); cbn [ob_out ob_calls ob_delta apply_delta fold_left].
  - reflexivity.
  - destruct prevented; [constructor|]. rewrite map_call_key. exact ND.
  - destruct prevented; [intros k []|]. rewrite map_call_key. intros k I. apply Sp. exact I.
  - intros EX k g Hr Hm. destruct prevented.
    + rewrite (P1 eq_refl) in EX. discriminate.
    + rewrite map_call_key. apply Sp. exists g. tauto.
  - intros NC. destruct prevented; [reflexivity|]. exfalso. apply (P2 eq_refl). exact NC.
  - destruct prevented; [reflexivity|]. apply forallb_map_calls. exact CO.
Qed.

Lemma quiet_law st o0 x f :
  op_slot o0 = Some (x, f) ->
  classify (st_traits st) (st_heap st) (st_heap st) o0 <> Exact ->
  law_step (st_traits st) (st_heap st) (st_regs st) o0 (mkObs Ok [] []) = [].
Proof.
  intros SL NE. apply (law_step_from_facts _ _ _ _ _ x f SL); cbn; try reflexivity; try constructor.
  - intros k [].
  - intros E. contradiction.
Qed.

Lemma upd_other h o f v x g : slot_eqb x g o f = false -> upd h o f v x g = h x g.
Proof. intros E. unfold upd. rewrite E. reflexivity. Qed.

Lemma step_law st o : inv st -> op_hyp st o = true ->
  law_step (st_traits st) (st_heap st) (st_regs st) o (snd (step st o)) = []
  /\ apply_delta (st_heap st) (ob_delta (snd (step st o))) = st_heap (fst (step st o))
  /\ law_regs (st_regs st) o (snd (step st o)) = st_regs (fst (step st o))
  /\ law_traits (st_traits st) o (snd (step st o)) = st_traits (fst (step st o)).
Proof.
  intros Hinv Hyp. destruct o as [k r g|k r g|k r gs|k r gs|x f v|x f items de|x f|c f i n vs|x|x f|x f|x f items|c f fi i n items];
    cbn [step op_hyp] in *.
  13: { (* SpliceCont *)
    apply andb_true_iff in Hyp. destruct Hyp as [Hyp Ac]. apply andb_true_iff in Hyp. destruct Hyp as [Nf Fr].
    apply negb_true_iff in Nf.
    set (c' := st_next st) in *. set (h := st_heap st) in *.
    set (st1 := mkState (st_traits st) (upd h c' fi items) (st_hooks st) (st_regs st) (S c')).
    assert (inv st1) as I1.
    { unfold inv, st1. cbn [st_hooks st_heap st_regs st_traits]. rewrite (expected_all_fresh _ _ _ _ _ _ Fr). exact Hinv. }
    assert (st_heap st1 c f = h c f) as SL.
    { unfold st1. cbn [st_heap]. apply upd_other_slot. unfold slot_eqb. rewrite Nf. apply andb_false_r. }
    assert (edge_acyclic (st_traits st1) (st_heap st1) (st_regs st1) c f (splice (h c f) i n [c'])) as Ac'
      by (apply edge_acyclic_b_spec; exact Ac).
    assert (Permutation (st_heap st1 c f) ((firstn i (h c f) ++ skipn n (skipn i (h c f))) ++ spliced_out (h c f) i n)) as Ho
      by (rewrite SL; apply splice_old).
    destruct (change_spec st1 c f (splice (h c f) i n [c']) (spliced_out (h c f) i n) [c']
                (firstn i (h c f) ++ skipn n (skipn i (h c f))) false true I1 Ho (splice_new _ _ _ _) Ac')
      as [H' [ks [E [PH [ND Sp]]]]].
    rewrite E. cbn [fst snd st_heap st_regs st_traits ob_delta ob_out ob_calls st1 law_regs law_traits].
    set (ha := upd (upd h c' fi items) c f (splice (h c f) i n [c'])).
    assert (apply_delta h [(c', fi, items); (c, f, splice (h c f) i n [c'])] = ha) as AD by reflexivity.
    split; [|split; [exact AD|split; reflexivity]].
    apply (law_step_from_facts (st_traits st) h (st_regs st) (SpliceCont c f fi i n items) _ c f eq_refl);
      cbn [ob_out ob_calls ob_delta]; rewrite ?AD; rewrite ?map_call_key.
    + reflexivity.
    + exact ND.
    + intros k0 I. apply Sp in I. destruct I as [g0 [Hr Hm]]. exists g0. split; [exact Hr|].
      cbn [st_heap st_regs st_traits st1] in *.
      rewrite matched_frame in Hm; [exact Hm|]. unfold fresh_b in Fr. rewrite forallb_forall in Fr.
      apply negb_true_iff. apply (Fr (k0, g0) Hr).
    + intros _ k0 g0 Hr Hm. apply Sp. exists g0. split; [exact Hr|]. cbn [st_heap st_traits st1].
      rewrite matched_frame; [exact Hm|]. unfold fresh_b in Fr. rewrite forallb_forall in Fr.
      apply negb_true_iff. apply (Fr (k0, g0) Hr).
    + cbn [classify]. discriminate.
    + apply forallb_map_calls. intros k0. cbn [call_ok]. rewrite !Nat.eqb_refl. cbn [andb].
      unfold ha. rewrite upd_same. apply perm_eqb_of_perm. apply splice_delta. }
  12: { (* TouchItems *)
    destruct (st_heap st x f) eqn:Q.
    2: { cbn [quiet fst snd ob_delta apply_delta fold_left law_regs law_traits ob_out].
         split; [|split; [reflexivity|split; reflexivity]].
         apply (quiet_law st _ x f); [reflexivity|]. cbn [classify]. discriminate. }
    apply andb_true_iff in Hyp. destruct Hyp as [Fr Ac].
    set (c := st_next st) in *. set (fc := items_field f) in *. set (h := st_heap st) in *.
    set (st1 := mkState (st_traits st) (upd h c fc items) (st_hooks st) (st_regs st) (S c)).
    assert (inv st1) as I1.
    { unfold inv, st1. cbn [st_hooks st_heap st_regs st_traits]. rewrite (expected_all_fresh _ _ _ _ _ _ Fr). exact Hinv. }
    assert (st_heap st1 x f = []) as SL.
    { unfold st1. cbn [st_heap]. rewrite upd_other_slot; [exact Q|]. unfold slot_eqb.
      replace (Nat.eqb f fc) with false; [apply andb_false_r|].
      symmetry. apply Nat.eqb_neq. unfold fc, items_field. lia. }
    assert (edge_acyclic (st_traits st1) (st_heap st1) (st_regs st1) x f [c]) as Ac' by (apply edge_acyclic_b_spec; exact Ac).
    assert (Permutation (st_heap st1 x f) ([] ++ [])) as Ho by (rewrite SL; reflexivity).
    destruct (change_spec st1 x f [c] [] [c] [] true false I1 Ho (Permutation_refl _) Ac')
      as [H' [ks [E [PH [ND Sp]]]]].
    rewrite E. cbn [fst snd st_heap st_regs st_traits ob_delta ob_out ob_calls st1 law_regs law_traits].
    split; [|split; [reflexivity|split; reflexivity]].
    apply (law_step_from_facts (st_traits st) h (st_regs st) (TouchItems x f items) _ x f eq_refl);
      cbn [ob_out ob_calls ob_delta map].
    + reflexivity.
    + constructor.
    + intros k0 [].
    + cbn [classify]. discriminate.
    + reflexivity.
    + reflexivity. }
  11: discriminate.
  10: { (* AddTrait *)
    destruct (st_traits st x f) eqn:Nt.
    { cbn [quiet fst snd ob_delta apply_delta fold_left law_regs law_traits ob_out]. rewrite Nt.
      split; [|split; [reflexivity|split; reflexivity]].
      apply (quiet_law st _ x TA); [reflexivity|]. cbn [classify]. rewrite Nt. discriminate. }
    cbn [orb] in Hyp. apply andb_true_iff in Hyp. destruct Hyp as [Nv W].
    assert (st_heap st x f = []) as Nv' by (destruct (st_heap st x f); [reflexivity|discriminate]).
    destruct (added_loop_spec (add_trait (st_traits st) x f) (st_heap st) x f Nv'
                (on_slot (st_hooks st) x TA) [] (st_hooks st)) as [ks [E [ND Sp]]].
    rewrite E. cbn [fst snd ob_delta ob_out st_heap st_regs st_traits apply_delta fold_left law_regs law_traits].
    rewrite Nt. split; [|split; [reflexivity|split; reflexivity]].
    assert (forall k, In k ks <-> exists g, In (k, g) (st_regs st)
                                  /\ matched (st_traits st) (st_heap st) g (snd k) x TA = true) as Sp'.
    { intros k. rewrite Sp. rewrite users_of_on_slot.
      rewrite <- (matched_keys (st_traits st) (st_heap st) (st_regs st) x TA k). split.
      - intros [I _]. unfold users_on in *. apply in_flat_map in I. destruct I as [hk [Ihk Iu]].
        apply in_flat_map. exists hk. split; [|exact Iu]. apply (Permutation_in hk Hinv). exact Ihk.
      - intros I. split; [|intros []]. unfold users_on in *. apply in_flat_map in I. destruct I as [hk [Ihk Iu]].
        apply in_flat_map. exists hk. split; [|exact Iu]. apply (Permutation_in hk (Permutation_sym Hinv)). exact Ihk. }
    apply (law_step_from_facts (st_traits st) (st_heap st) (st_regs st) (AddTrait x f) _ x TA eq_refl);
      cbn [ob_out ob_calls ob_delta apply_delta fold_left]; rewrite ?map_call_key.
    - reflexivity.
    - exact ND.
    - intros k I. apply Sp'. exact I.
    - intros _ k g Hr Hm. apply Sp'. exists g. tauto.
    - cbn [classify]. rewrite Nt. discriminate.
    - apply forallb_map_calls. intros k. cbn [call_ok]. rewrite !Nat.eqb_refl. reflexivity. }
  3: { destruct (forallb (fun g => walkable (st_traits st) (st_heap st) g r) gs);
         [|cbn; repeat split; reflexivity].
       destruct (observe_all_spec k r gs st Hinv) as [_ [B [C D]]]. cbn [fst snd ob_delta ob_out law_regs law_traits].
       split; [reflexivity|]. split; [cbn; symmetry; exact B|]. split; symmetry; assumption. }
  3: { destruct (unobserve_all_spec k r gs st Hinv Hyp) as [st' [E [_ [B [C D]]]]]. rewrite E.
       cbn [fst snd ob_delta ob_out law_regs law_traits]. split; [reflexivity|]. split; [cbn; symmetry; exact B|].
       split; symmetry; assumption. }
  - (* Observe *) destruct (walkable (st_traits st) (st_heap st) g r); cbn; repeat split; reflexivity.
  - (* Unobserve *)
    pose proof (remove_reg_perm _ _ Hyp) as PR.
    destruct (remove_all_complete (rem_order (st_traits st) (st_heap st) (k, r) g r) (st_hooks st)
                (expected_all (st_traits st) (st_heap st) (remove_reg (k, r, g) (st_regs st)))) as [H' [E PH]].
    { unfold inv in Hinv. rewrite Hinv. rewrite (expected_all_perm _ _ _ _ PR).
      unfold expected_all at 1. cbn [flat_map]. fold (expected_all (st_traits st) (st_heap st) (remove_reg (k, r, g) (st_regs st))).
      rewrite Permutation_app_comm. apply Permutation_app_head.
      unfold expected_reg. cbn [fst snd]. symmetry. apply rem_order_expected. }
    rewrite E. cbn. repeat split; reflexivity.
  - (* SetRef *)
    destruct (list_eqb (st_heap st x f) v) eqn:Q.
    + cbn [quiet fst snd ob_delta apply_delta fold_left law_regs law_traits ob_out]. split; [|split; [reflexivity|split; reflexivity]].
      apply (quiet_law st _ x f); [reflexivity|]. cbn [classify]. rewrite list_eqb_refl. discriminate.
    + pose proof (change_law st (SetRef x f v) x f v (st_heap st x f) v [] false false Hinv
                    (Permutation_refl _) (Permutation_refl _) (edge_acyclic_b_spec _ _ _ _ _ _ Hyp) eq_refl) as C.
      destruct C as [L [D [RG TR]]].
      * discriminate.
      * intros _. cbn [classify]. rewrite upd_same, Q. discriminate.
      * intros k0. cbn [call_ok]. rewrite !Nat.eqb_refl. cbn [andb]. rewrite upd_same.
        rewrite !perm_eqb_of_perm; reflexivity.
      * split; [exact L|]. split; [exact D|]. split; [cbn [law_regs]; rewrite RG; reflexivity|cbn [law_traits]; rewrite TR; reflexivity].
  - (* SetCont *)
    apply andb_true_iff in Hyp. destruct Hyp as [Fr Ac].
    set (c := st_next st) in *. set (fc := items_field f) in *. set (h := st_heap st) in *.
    set (st1 := mkState (st_traits st) (upd h c fc items) (st_hooks st) (st_regs st) (S c)).
    assert (inv st1) as I1.
    { unfold inv, st1. cbn [st_hooks st_heap st_regs]. rewrite (expected_all_fresh _ _ _ _ _ _ Fr). exact Hinv. }
    assert (slot_eqb x f c fc = false) as NE1.
    { unfold slot_eqb. replace (Nat.eqb f fc) with false; [apply andb_false_r|].
      symmetry. apply Nat.eqb_neq. unfold fc, items_field. lia. }
    assert (slot_eqb c fc x f = false) as NE2.
    { unfold slot_eqb. replace (Nat.eqb fc f) with false; [apply andb_false_r|].
      symmetry. apply Nat.eqb_neq. unfold fc, items_field. lia. }
    assert (st_heap st1 x f = h x f) as SL by (unfold st1; cbn [st_heap]; apply upd_other; exact NE1).
    match goal with |- context [change st1 x f [c] ?olds [c] ?p false] => set (prevented := p) in * end.
    assert (edge_acyclic (st_traits st1) (st_heap st1) (st_regs st1) x f [c]) as Ac' by (apply edge_acyclic_b_spec; exact Ac).
    assert (Permutation (st_heap st1 x f) ([] ++ h x f)) as Ho by (rewrite SL; reflexivity).
    destruct (change_spec st1 x f [c] (h x f) [c] [] prevented false I1 Ho (Permutation_refl _) Ac')
      as [H' [ks [E [PH [ND Sp]]]]].
    rewrite E. cbn [fst snd st_heap st_regs ob_delta ob_out ob_calls st1].
    set (ha := upd (upd h c fc items) x f [c]).
    assert (apply_delta h [(c, fc, items); (x, f, [c])] = ha) as AD by reflexivity.
    split; [|split; [exact AD|split; reflexivity]].
    assert (ha x f = [c]) as HA1 by (unfold ha; apply upd_same).
    assert (ha c fc = items) as HA2 by (unfold ha; rewrite (upd_other _ _ _ _ _ _ NE2); apply upd_same).
    assert (classify (st_traits st) h ha (SetCont x f items de) = if prevented then NoChange else Exact) as CL.
    { cbn [classify]. rewrite HA1. change (items_field f) with fc. rewrite HA2.
      unfold prevented. destruct (identity_field f); [reflexivity|].
      destruct (h x f) as [|y ys]; [|reflexivity].
      destruct items; reflexivity. }
    apply (law_step_from_facts (st_traits st) h (st_regs st) (SetCont x f items de) _ x f eq_refl);
      cbn [ob_out ob_calls ob_delta]; rewrite ?AD.
    + reflexivity.
    + destruct prevented; [constructor|]. rewrite map_call_key. exact ND.
    + destruct prevented; [intros k0 []|]. rewrite map_call_key. intros k0 I. apply Sp in I.
      destruct I as [g0 [Hr Hm]]. exists g0. split; [exact Hr|]. cbn [st_heap st_regs st1] in *.
      rewrite matched_frame in Hm; [exact Hm|]. unfold fresh_b in Fr. rewrite forallb_forall in Fr.
      apply negb_true_iff. apply (Fr (k0, g0) Hr).
    + rewrite CL. intros EX k0 g0 Hr Hm. destruct prevented; [discriminate|]. rewrite map_call_key. apply Sp.
      exists g0. split; [exact Hr|]. cbn [st_heap st1]. rewrite matched_frame; [exact Hm|].
      unfold fresh_b in Fr. rewrite forallb_forall in Fr. apply negb_true_iff. apply (Fr (k0, g0) Hr).
    + rewrite CL. intros NC. destruct prevented; [reflexivity|discriminate].
    + destruct prevented; [reflexivity|]. apply forallb_map_calls. intros k0. cbn [call_ok].
      rewrite !Nat.eqb_refl. cbn [andb]. rewrite HA1. rewrite !perm_eqb_of_perm; reflexivity.
  - (* Touch *)
    destruct (st_heap st x f) eqn:Q.
    + set (st1 := mkState (st_traits st) (st_heap st) (st_hooks st) (st_regs st) (S (st_next st))).
      assert (Permutation (st_heap st1 x f) ([] ++ [])) as Ho by (cbn; rewrite Q; reflexivity).
      pose proof (change_law st1 (Touch x f) x f [st_next st] [] [st_next st] [] true false Hinv Ho
                    (Permutation_refl _) (edge_acyclic_b_spec _ _ _ _ _ _ Hyp) eq_refl) as C.
      destruct C as [L [D [RG TR]]]; [reflexivity|discriminate| |].
      { intros k0. cbn [call_ok]. rewrite !Nat.eqb_refl. cbn [andb st_heap st1]. rewrite Q, upd_same.
        rewrite !perm_eqb_of_perm; reflexivity. }
      split; [exact L|]. split; [exact D|]. split; [cbn [law_regs]; rewrite RG; reflexivity|cbn [law_traits]; rewrite TR; reflexivity].
    + cbn [quiet fst snd ob_delta apply_delta fold_left law_regs law_traits ob_out]. split; [|split; [reflexivity|split; reflexivity]].
      apply (quiet_law st _ x f); [reflexivity|]. cbn [classify]. discriminate.
  - (* Splice *)
    destruct (spliced_out (st_heap st c f) i n ++ vs) eqn:Q.
    + cbn [quiet fst snd ob_delta apply_delta fold_left law_regs law_traits ob_out]. split; [|split; [reflexivity|split; reflexivity]].
      apply (quiet_law st _ c f); [reflexivity|]. cbn [classify]. rewrite list_eqb_refl. discriminate.
    + pose proof (change_law st (Splice c f i n vs) c f (splice (st_heap st c f) i n vs)
                   (spliced_out (st_heap st c f) i n) vs
                   (firstn i (st_heap st c f) ++ skipn n (skipn i (st_heap st c f))) false true Hinv
                   (splice_old _ _ _) (splice_new _ _ _ _) (edge_acyclic_b_spec _ _ _ _ _ _ Hyp) eq_refl) as C.
      destruct C as [L [D [RG TR]]].
      * discriminate.
      * intros _. cbn [classify]. destruct (list_eqb _ _); discriminate.
      * intros k0. cbn [call_ok]. rewrite !Nat.eqb_refl. cbn [andb]. rewrite upd_same.
        apply perm_eqb_of_perm. apply splice_delta.
      * split; [exact L|]. split; [exact D|]. split; [cbn [law_regs]; rewrite RG; reflexivity|cbn [law_traits]; rewrite TR; reflexivity].
  - (* Probe *)
    assert (Permutation (st_heap st x 0) (st_heap st x 0 ++ [])) as Ho by (rewrite app_nil_r; reflexivity).
    pose proof (change_law st (Probe x) x 0 (st_heap st x 0) [] [] (st_heap st x 0) false false Hinv Ho Ho
                  (edge_acyclic_b_spec _ _ _ _ _ _ Hyp) eq_refl) as C.
    destruct C as [L [D [RG TR]]].
    + discriminate.
    + intros _. cbn [classify]. discriminate.
    + intros k0. cbn [call_ok]. rewrite !Nat.eqb_refl. reflexivity.
    + split; [exact L|]. split; [exact D|]. split; [cbn [law_regs]; rewrite RG; reflexivity|cbn [law_traits]; rewrite TR; reflexivity].
Qed.

Lemma law_hist_model : forall ops st i, inv st -> hyps st ops = true ->
  law_hist i (st_traits st) (st_heap st) (st_regs st) (run st ops) = [].
Proof.
  induction ops as [|o ops IH]; intros st i I Hy; cbn [run]; [reflexivity|].
  cbn [hyps] in Hy. apply andb_true_iff in Hy. destruct Hy as [H1 H2].
  pose proof (step_law st o I H1) as [L [D [RG TR]]].
  pose proof (step_spec st o I H1) as S. unfold step_ok in S.
  destruct (step st o) as [st' ob]. cbn [fst snd] in *. cbn [law_hist].
  rewrite L. cbn [map app]. rewrite D, RG, TR. apply IH; tauto.
Qed.

(* ---------- a maintainer that cannot hook the new value: the old value is unhooked all the same ---------- *)
Lemma failed_registration_lemma st k r g :
  walkable (st_traits st) (st_heap st) g r = false ->
  step st (Observe k r g) = (st, mkObs (Raise ValueError) [] []).
Proof. intros W. cbn [step]. rewrite W. reflexivity. Qed.

Lemma S_of_nil t h M : S_of t h M [] = [].
Proof. unfold S_of. apply flat_map_nil_In. reflexivity. Qed.

Lemma notify_loop_fail_single t h strict rem add k c H1 : forall ns seen H,
  maints_of ns = [(k, c)] -> maintain t h strict k c rem add H = (H1, false) ->
  exists ks, notify_loop t h strict ns seen rem add H = (H1, ks, false).
Proof.
  induction ns as [|[k0|k0 c0|k0 c0] ns IH]; intros seen H M E; cbn [maints_of flat_map app] in M.
  - discriminate.
  - fold (maints_of ns) in M. cbn [notify_loop]. destruct (mem_key k0 seen).
    + apply IH; assumption.
    + destruct (IH (k0 :: seen) H M E) as [ks Eq]. rewrite Eq. eexists. reflexivity.
  - fold (maints_of ns) in M. inversion M; subst. cbn [notify_loop]. rewrite E. eexists. reflexivity.
  - fold (maints_of ns) in M. cbn [notify_loop]. apply IH; assumption.
Qed.

Lemma change_fails_single st o fo news removed added keep prevented strict k c y ys :
  inv st ->
  Permutation (st_heap st o fo) (keep ++ removed) -> Permutation news (keep ++ added) ->
  fo <> TA ->
  (forall kc, In kc (occ_all (st_traits st) (st_heap st) (st_regs st) o fo) ->
     forall z, In z (st_heap st o fo) \/ In z news -> visits (st_traits st) (st_heap st) (snd kc) z o fo = false) ->
  maint_on (st_hooks st) o fo = [(k, c)] ->
  added = y :: ys -> walkable (st_traits st) (upd (st_heap st) o fo news) c y = false ->
  ob_out (snd (change st o fo news removed added prevented strict)) = Raise ValueError
  /\ st_heap (fst (change st o fo news removed added prevented strict)) = upd (st_heap st) o fo news
  /\ Permutation (st_hooks (fst (change st o fo news removed added prevented strict)))
                 (expected_all (st_traits st) (upd (st_heap st) o fo keep) (st_regs st)).
Proof.
  intros Hinv Hold Hnew NT Hac HM EA NW.
  set (h := st_heap st) in *. set (t := st_traits st) in *. set (rs := st_regs st) in *.
  set (H := st_hooks st) in *. set (h' := upd h o fo news).
  assert (Permutation H (expected_all t h rs)) as HI by exact Hinv.
  set (M := maint_on H o fo) in *. set (O := occ_all t h rs o fo) in *.
  assert (Permutation M O) as MO.
  { subst M O. rewrite <- maint_on_expected_all. unfold maint_on. apply flat_map_perm. exact HI. }
  assert (forall kc, In kc M -> In kc O) as MinO by (intros kc; apply Permutation_in; exact MO).
  assert (forall z, In z removed -> In z (h o fo)) as RinO.
  { intros z Iz. apply (Permutation_in z (Permutation_sym Hold)). apply in_or_app. right. exact Iz. }
  assert (forall v ys', (forall z, In z ys' -> In z (h o fo)) -> S_of t (upd h o fo v) M ys' = S_of t h M ys') as FR.
  { intros v ys' Hy. unfold S_of. apply flat_map_ext_In. intros kc Hkc. unfold sumexp.
    apply flat_map_ext_In. intros z Iz. cbn [flat_map]. f_equal.
    apply expected_frame. apply Hac; [apply MinO; exact Hkc|left; apply Hy; exact Iz]. }
  set (K := skeleton_all t h rs o fo ++ S_of t h O keep).
  assert (Permutation H (K ++ S_of t h M removed)) as SPLIT.
  { rewrite (S_of_perm_M t h M O removed MO). subst K. rewrite HI.
    rewrite (expected_split_all t h rs o fo).
    - fold O. rewrite (S_of_perm_ys t h O _ _ Hold). rewrite S_of_app. rewrite app_assoc. reflexivity.
    - intros kc Hkc z Hz. apply Hac; [exact Hkc|left; exact Hz]. }
  (* the only maintainer removes the hooks below the removed objects, then fails to hook y *)
  assert (exists H1, maintain t h' strict k c removed added H = (H1, false) /\ Permutation H1 K) as [H1 [EM P1]].
  { unfold maintain.
    destruct (rem_objs_complete t h' k c removed H K) as [H1 [E1 P1]].
    { rewrite SPLIT. apply Permutation_app_head. rewrite <- (FR news removed RinO). fold h'.
      fold M. rewrite HM. unfold S_of. cbn [flat_map fst snd]. rewrite app_nil_r. reflexivity. }
    rewrite E1. cbn [orb]. rewrite EA. cbn [add_objs_w]. fold h' in NW. rewrite NW.
    exists H1. split; [reflexivity|exact P1]. }
  assert (maints_of (on_slot H o fo) = [(k, c)]) as MS by (rewrite maints_of_on_slot; exact HM).
  destruct (notify_loop_fail_single t h' strict removed added k c H1 (on_slot H o fo) [] H MS EM) as [ks EL].
  unfold change. fold h t H h'. rewrite EL. rewrite andb_false_r. cbn [notify_loop fst snd ob_out st_heap st_hooks andb].
  fold M. rewrite HM. rewrite EA. cbn [existsb snd]. fold h' in NW. rewrite NW. cbn [negb orb].
  split; [reflexivity|]. split; [reflexivity|].
  (* what is left is what the expressions demand when the slot holds only the kept objects *)
  apply (inv_preserved_all t h rs o fo keep removed []) with (H := H).
  - rewrite app_nil_r. symmetry. exact Hold.
  - intros z Iz. apply RinO. exact Iz.
  - intros z [].
  - intros kc Hkc z Hz. apply Hac; [exact Hkc|]. left. destruct Hz as [Hz|Hz]; [exact Hz|].
    apply (Permutation_in z (Permutation_sym Hold)). apply in_or_app. left. exact Hz.
  - exact HI.
  - fold M. rewrite S_of_nil, app_nil_r. rewrite (FR keep removed RinO). rewrite P1. symmetry. exact SPLIT.
Qed.

(* ---------- the optional flag only matters for failure ---------- *)
Fixpoint all_optional (g : graph) {struct g} : bool :=
  match g with G _ _ _ p cs => p && forallb all_optional cs end.
Fixpoint set_optional (b : bool) (g : graph) {struct g} : graph :=
  match g with G fs n e _ cs => G fs n e b (map (set_optional b) cs) end.

Lemma all_optional_walkable t h g : all_optional g = true -> forall x, walkable t h g x = true.
Proof.
  induction g as [fs n e p cs IH] using graph_ind'. intros A x. rewrite Forall_forall in IH.
  cbn [all_optional] in A. apply andb_true_iff in A. destruct A as [-> A]. rewrite forallb_forall in A.
  cbn [walkable]. apply forallb_forall. intros f _. destruct (t x f); [|reflexivity].
  apply forallb_forall. intros y _. apply forallb_forall. intros c Hc. apply IH; [exact Hc|]. apply A. exact Hc.
Qed.

Lemma existsb_map' {A B} (q : B -> bool) (g : A -> B) l : existsb q (map g l) = existsb (fun a => q (g a)) l.
Proof. induction l; cbn; [reflexivity|]. rewrite IHl. reflexivity. Qed.

Lemma matched_set_optional t h b g : forall x o fo,
  matched t h (set_optional b g) x o fo = matched t h g x o fo.
Proof.
  induction g as [fs n e p cs IH] using graph_ind'. intros x o fo. rewrite Forall_forall in IH.
  cbn [set_optional matched]. apply existsb_ext_In. intros f _. f_equal. f_equal.
  apply existsb_ext_In. intros y _. rewrite existsb_map'. apply existsb_ext_In. intros c Hc. apply IH. exact Hc.
Qed.

Lemma failed_registration_all_lemma st k r gs :
  forallb (fun g => walkable (st_traits st) (st_heap st) g r) gs = false ->
  step st (ObserveAll k r gs) = (st, mkObs (Raise ValueError) [] []).
Proof. intros W. cbn [step]. rewrite W. reflexivity. Qed.

(* ---------- several maintainers on the slot, one of which cannot hook the new value ---------- *)
Lemma maintain_fails t h strict k c rem add H K y ys :
  Permutation H (K ++ sumexp t h k [c] rem) -> add = y :: ys -> walkable t h c y = false ->
  exists H1, maintain t h strict k c rem add H = (H1, false) /\ Permutation H1 K.
Proof.
  intros P -> W. unfold maintain. destruct (rem_objs_complete t h k c rem H K P) as [H1 [E1 P1]].
  rewrite E1. cbn [orb add_objs_w]. rewrite W. exists H1. split; [reflexivity|exact P1].
Qed.

Lemma S_of_app_M t h M1 M2 ys : S_of t h (M1 ++ M2) ys = S_of t h M1 ys ++ S_of t h M2 ys.
Proof. unfold S_of. apply flat_map_app. Qed.

Lemma notify_loop_fail_at t h strict rem add k c y ys :
  add = y :: ys -> walkable t h c y = false ->
  forall ns seen H K M1 M2,
    maints_of ns = M1 ++ (k, c) :: M2 ->
    (forall kc z, In kc M1 -> In z add -> walkable t h (snd kc) z = true) ->
    Permutation H (K ++ S_of t h (maints_of ns) rem) ->
    exists H' ks, notify_loop t h strict ns seen rem add H = (H', ks, false)
      /\ Permutation H' (K ++ S_of t h M1 add ++ S_of t h M2 rem).
Proof.
  intros EA NW. induction ns as [|[k0|k0 c0|k0 c0] ns IH]; intros seen H K M1 M2 EM W P;
    cbn [maints_of flat_map app] in EM, P; try fold (maints_of ns) in EM, P.
  - destruct M1; discriminate.
  - cbn [notify_loop]. destruct (mem_key k0 seen).
    + apply (IH seen H K M1 M2 EM W P).
    + destruct (IH (k0 :: seen) H K M1 M2 EM W P) as [H' [ks [E PH]]]. rewrite E. eexists. eexists.
      split; [reflexivity|exact PH].
  - cbn [notify_loop].
    change (S_of t h ((k0, c0) :: maints_of ns) rem) with (sumexp t h k0 [c0] rem ++ S_of t h (maints_of ns) rem) in P.
    destruct M1 as [|kc1 M1'].
    + cbn [app] in EM. injection EM as Ek Ec EM2. subst k0 c0.
      destruct (maintain_fails t h strict k c rem add H (K ++ S_of t h (maints_of ns) rem) y ys) as [H1 [E1 P1]];
        [|exact EA|exact NW|].
      { rewrite P. rewrite <- app_assoc. apply Permutation_app_head. apply Permutation_app_comm. }
      rewrite E1. exists H1, []. split; [reflexivity|]. rewrite P1. rewrite EM2. reflexivity.
    + cbn [app] in EM. injection EM as Ekc EM2. subst kc1.
      destruct (maintain_complete t h strict k0 c0 rem add H (K ++ S_of t h (maints_of ns) rem)) as [H1 [E1 P1]].
      { intros z Iz. apply (W (k0, c0) z (or_introl eq_refl) Iz). }
      { rewrite P. rewrite <- app_assoc. apply Permutation_app_head. apply Permutation_app_comm. }
      rewrite E1.
      destruct (IH seen H1 (K ++ sumexp t h k0 [c0] add) M1' M2 EM2) as [H' [ks [E PH]]].
      { intros kc z I Iz. apply (W kc z (or_intror I) Iz). }
      { rewrite P1. rewrite <- !app_assoc. apply Permutation_app_head. apply Permutation_app_comm. }
      exists H', ks. split; [exact E|]. rewrite PH.
      change (S_of t h ((k0, c0) :: M1') add) with (sumexp t h k0 [c0] add ++ S_of t h M1' add).
      rewrite <- !app_assoc. reflexivity.
  - cbn [notify_loop]. apply (IH seen H K M1 M2 EM W P).
Qed.

Lemma change_fails_at st o fo news removed added keep prevented strict M1 k c M2 y ys :
  inv st ->
  Permutation (st_heap st o fo) (keep ++ removed) -> Permutation news (keep ++ added) ->
  fo <> TA ->
  (forall kc, In kc (occ_all (st_traits st) (st_heap st) (st_regs st) o fo) ->
     forall z, In z (st_heap st o fo) \/ In z news -> visits (st_traits st) (st_heap st) (snd kc) z o fo = false) ->
  maint_on (st_hooks st) o fo = M1 ++ (k, c) :: M2 ->
  (forall kc z, In kc M1 -> In z added -> walkable (st_traits st) (upd (st_heap st) o fo news) (snd kc) z = true) ->
  added = y :: ys -> walkable (st_traits st) (upd (st_heap st) o fo news) c y = false ->
  let h' := upd (st_heap st) o fo news in
  let t := st_traits st in
  ob_out (snd (change st o fo news removed added prevented strict)) = Raise ValueError
  /\ st_heap (fst (change st o fo news removed added prevented strict)) = h'
  /\ Permutation (st_hooks (fst (change st o fo news removed added prevented strict))
                  ++ S_of t h' M1 removed ++ S_of t h' [(k, c)] removed)
                 (st_hooks st ++ S_of t h' M1 added).
Proof.
  intros Hinv Hold Hnew NT Hac HM W1 EA NW. cbv zeta.
  set (h := st_heap st) in *. set (t := st_traits st) in *. set (rs := st_regs st) in *.
  set (H := st_hooks st) in *. set (h' := upd h o fo news) in *.
  assert (Permutation H (expected_all t h rs)) as HI by exact Hinv.
  set (M := maint_on H o fo) in *. set (O := occ_all t h rs o fo) in *.
  assert (Permutation M O) as MO.
  { subst M O. rewrite <- maint_on_expected_all. unfold maint_on. apply flat_map_perm. exact HI. }
  assert (forall kc, In kc M -> In kc O) as MinO by (intros kc; apply Permutation_in; exact MO).
  assert (forall z, In z removed -> In z (h o fo)) as RinO.
  { intros z Iz. apply (Permutation_in z (Permutation_sym Hold)). apply in_or_app. right. exact Iz. }
  assert (S_of t h' M removed = S_of t h M removed) as FR.
  { unfold S_of. apply flat_map_ext_In. intros kc Hkc. unfold sumexp.
    apply flat_map_ext_In. intros z Iz. cbn [flat_map]. f_equal.
    apply expected_frame. apply Hac; [apply MinO; exact Hkc|left; apply RinO; exact Iz]. }
  set (K := skeleton_all t h rs o fo ++ S_of t h O keep).
  assert (Permutation H (K ++ S_of t h' M removed)) as SPLIT.
  { rewrite FR. rewrite (S_of_perm_M t h M O removed MO). subst K. rewrite HI.
    rewrite (expected_split_all t h rs o fo).
    - fold O. rewrite (S_of_perm_ys t h O _ _ Hold). rewrite S_of_app. rewrite app_assoc. reflexivity.
    - intros kc Hkc z Hz. apply Hac; [exact Hkc|left; exact Hz]. }
  assert (maints_of (on_slot H o fo) = M1 ++ (k, c) :: M2) as MS by (rewrite maints_of_on_slot; exact HM).
  assert (Permutation H (K ++ S_of t h' (maints_of (on_slot H o fo)) removed)) as SPLIT'
    by (rewrite maints_of_on_slot; exact SPLIT).
  destruct (notify_loop_fail_at t h' strict removed added k c y ys EA NW (on_slot H o fo) [] H K M1 M2 MS W1 SPLIT')
    as [H' [ks [EL PH]]].
  unfold change. fold h t H h'. rewrite EL. rewrite andb_false_r.
  cbn [notify_loop fst snd ob_out st_heap st_hooks andb].
  assert (existsb (fun kc : hkey * graph => existsb (fun z => negb (walkable t h' (snd kc) z)) added) (maint_on H o fo)
          = true) as EX.
  { apply existsb_exists. exists (k, c). split; [fold M; rewrite HM; apply in_or_app; right; left; reflexivity|].
    rewrite EA. cbn [existsb snd]. rewrite NW. reflexivity. }
  rewrite EX. split; [reflexivity|]. split; [reflexivity|].
  rewrite PH. rewrite SPLIT. fold M. rewrite HM. rewrite !S_of_app_M.
  change ((k, c) :: M2) with ([(k, c)] ++ M2). rewrite (S_of_app_M t h' [(k, c)] M2 removed).
  rewrite <- !app_assoc. apply Permutation_app_head.
  (* S(M1,add) ++ S(M2,rem) ++ S(M1,rem) ++ S(kc,rem)  ==  S(M1,rem) ++ S(kc,rem) ++ S(M2,rem) ++ S(M1,add) *)
  rewrite (Permutation_app_comm (S_of t h' M1 added)). rewrite <- !app_assoc.
  rewrite (Permutation_app_comm (S_of t h' M2 removed)). rewrite <- !app_assoc.
  do 2 apply Permutation_app_head. apply Permutation_app_comm.
Qed.
