(* C08 — executable model of traits/observation: observe() on an object graph.

   Heap, graphs, notifier keys and the flat hook list are those of Common/ObsCore.v.
   Fields (the harness uses the same numbers): 0 value (Int), 1 f, 2 g (Instance),
   3 kids (List), 4 m (Dict), 5 s (Set); pseudo-fields holding the items of a container
   object: 6 (TraitList), 7 (TraitDict: the values), 8 (TraitSet); 10 trait_added, 11 trait_modified
   (event traits every HasTraits object has); 12.. Instance traits added with add_trait.  Container objects are
   allocated with fresh oids ([st_next]) when a container is assigned or a default
   materialises, so "the same list mutated" and "a new list assigned" differ.

   Code modelled (traits/observation):
     _observe.py            add_or_remove_notifiers: [add_order] / [rem_order] list the
                            notifier additions / removals in the order of the four steps
                            (l.96-107: notifiers, maintainers, children, extra graphs; reversed on
                            removal); removal = [remove_all] (first equal notifier, NotifierNotFound
                            = None); on failure the outermost call undoes what it did (l.109-118),
                            i.e. the hook multiset is what it was before the call.
     _trait_event_notifier.py add_to/remove_from: reference count = number of KUser entries.
     _observer_change_notifier.py add_to (append) / remove_from (first equal).
     _has_traits_helpers.py observer_change_handler l.91-118 ([maintain] with strict=false:
                            NotifierNotFound of the removal is swallowed), ctrait_prevent_event
                            l.121-142 ([prevented]).
     _list/_dict/_set_item_observer.py _observer_change_handler ([maintain] with strict=true).
     ctraits.c call_notifiers l.2259-2330: the notifier list is copied, then called in order
                            ([notify_loop] over the entries found on the slot BEFORE the change),
                            the heap read by the maintainers is the heap AFTER the change;
                            setattr_trait l.2516-2547: notifiers are called iff old is not new;
                            getattr_trait l.1980-2005: a default materialises with old = Uninitialized.
     _trait_added_observer.py: every named / filtered observer contributes a TraitAddedObserver
                            maintainer on (x, trait_added) ([KAdded], fourth step of the walk); add_trait
                            fires trait_added and the matching maintainers hook the new trait
                            (observer_change_handler l.151-172, [AddTrait]).
   A node is G fs notify extra optional children (Common/ObsCore.v): named trait fs = [f], item observer
   fs = [6|7|8] (extra = false), FilteredTraitObserver fs = matching names.  The `optional` flag: on an
   object without the trait an optional named observer is skipped, a non-optional one makes the walk fail
   with ValueError ([walkable]); a failed registration changes nothing, a maintainer that cannot hook the
   new value has already unhooked the old one (ill-typed links - a named observer on a container object -
   are not generated).
   Not modelled: dispatch="ui", weak references. *)
From Coq Require Import List Arith Bool PeanoNat.
From TV Require Import Common.ObsCore.
Import ListNotations.

Inductive exn := NotifierNotFound | ValueError | OtherError.
Inductive outcome := Ok | Raise (e : exn).

(* one call of a user handler: notifier key, event.object, event.name (or the items
   pseudo-field for a container event), removed (old), added (new) *)
Definition call := (hkey * oid * fname * list oid * list oid)%type.

Record state := mkState {
  st_traits : traits;
  st_heap : heap;
  st_hooks : list hook;
  st_regs : list reg;
  st_next : oid
}.
(* fields below 12 are class traits / container pseudo-fields (always there); 12.. are added by add_trait *)
Definition init_traits : traits := fun _ f => negb (Nat.eqb f 12 || Nat.eqb f 13).
(* 14 = groups, a Dict(Str, List(Instance)) trait: its dict object has pseudo-field 17, the lists stored in it
   are container objects with pseudo-field 6 (nested containers) *)
Definition init (npool : nat) : state := mkState init_traits (fun _ _ => []) [] [] npool.

Definition items_field (f : fname) : fname := f + 3.     (* kids -> 6, m -> 7, s -> 8 *)
(* 15 = kidsI, a List trait declared with comparison_mode=identity (list object: pseudo-field 18): ctrait_prevent_event
   applies the old == new filter only to traits in equality mode, so re-assigning an equal list IS reported *)
Definition identity_field (f : fname) : bool := Nat.eqb f 15.

Inductive op :=
| Observe (k : nat) (r : oid) (g : graph)            (* r.observe(handler k, g) *)
| Unobserve (k : nat) (r : oid) (g : graph)          (* r.observe(handler k, g, remove=True) *)
| ObserveAll (k : nat) (r : oid) (gs : list graph)   (* an expression with several graphs ("a | b"; also how the
                                                        harness presents a FilteredTraitObserver: one named-trait
                                                        graph per matching trait name) *)
| UnobserveAll (k : nat) (r : oid) (gs : list graph)
| SetRef (o : oid) (f : fname) (v : list oid)        (* o.f = None ([]) / an object ([y]) *)
| SetCont (o : oid) (f : fname) (items : list oid) (dict_equal : bool)
                                                     (* o.f = a new list/dict/set with these items;
                                                        dict_equal: for f = 4, old dict == new dict (keys are not modelled) *)
| Touch (o : oid) (f : fname)                        (* first read of an unset container trait *)
| Splice (c : oid) (f : fname) (i n : nat) (vs : list oid)
                                                     (* in-place mutation of container c: n items from
                                                        position i are replaced by vs (append, insert, pop,
                                                        setitem, del, remove, clear, extend, dict setitem /
                                                        del, set add / remove, all are instances) *)
| Probe (o : oid)                                    (* o.value = a fresh integer *)
| AddTrait (o : oid) (f : fname)                     (* o.add_trait(name_f, Instance(HasTraits)) *)
| DelCont (o : oid) (f : fname)                      (* del o.f for a List/Dict/Set trait that has a value *)
| TouchItems (o : oid) (f : fname) (items : list oid) (* first read of an unset container trait whose default
                                                        (a _name_default method) has content *)
| SpliceCont (c : oid) (f fi : fname) (i n : nat) (items : list oid).
                                                     (* nested containers: d[key] = [items] on the dict object c of a
                                                        Dict(Str, List(...)) trait: the validated value is a NEW list
                                                        object (pseudo-field fi) that replaces n (0 or 1) values at i *)

(* what one operation shows *)
Record obs := mkObs {
  ob_out : outcome;
  ob_calls : list call;
  ob_delta : list (oid * fname * list oid)           (* heap slots whose content differs from before *)
}.

(* ---- the walk of _observe.py as the ordered list of notifier additions / removals ---- *)
(* iter_observables: the fields of the node the object has; iter_objects: their content *)
Definition obs_fields (t : traits) (x : oid) (fs : list fname) : list fname := filter (t x) fs.
Definition next_objs (t : traits) (h : heap) (x : oid) (fs : list fname) : list oid :=
  flat_map (h x) (obs_fields t x fs).

Fixpoint add_order (t : traits) (h : heap) (k : hkey) (g : graph) (x : oid) {struct g} : list hook :=
  match g with
  | G fs n e p cs =>
      flat_map (fun f => if n then [(x, f, KUser k)] else []) (obs_fields t x fs)   (* _add_or_remove_notifiers *)
      ++ flat_map (fun f => map (fun c => (x, f, KMaint k c)) cs) (obs_fields t x fs) (* _add_or_remove_maintainers *)
      ++ flat_map (fun c => flat_map (fun y => add_order t h k c y) (next_objs t h x fs)) cs
                                                                  (* children: for child: for next_object *)
      ++ (if e then [(x, TA, KAdded k g)] else [])                (* _add_or_remove_extra_graphs *)
  end.
Fixpoint rem_order (t : traits) (h : heap) (k : hkey) (g : graph) (x : oid) {struct g} : list hook :=
  match g with
  | G fs n e p cs =>
      (if e then [(x, TA, KAdded k g)] else [])
      ++ flat_map (fun c => flat_map (fun y => rem_order t h k c y) (next_objs t h x fs)) cs
      ++ flat_map (fun f => map (fun c => (x, f, KMaint k c)) cs) (obs_fields t x fs)
      ++ flat_map (fun f => if n then [(x, f, KUser k)] else []) (obs_fields t x fs)
  end.

(* Can the graph be hooked on x?  iter_observables / iter_objects of NamedTraitObserver raise ValueError when the
   trait is missing and the observer is not optional (_named_trait_observer.py l.93-99, l.131-137); a node that
   neither notifies nor has children never asks.  (Filter nodes are handed over with optional = true: a filter
   simply does not match.) *)
Fixpoint walkable (t : traits) (h : heap) (g : graph) (x : oid) {struct g} : bool :=
  match g with
  | G fs n _ p cs =>
      forallb (fun f =>
        if t x f then forallb (fun y => forallb (fun c => walkable t h c y) cs) (h x f)
        else p || negb (n || match cs with [] => false | _ => true end)) fs
  end.

(* add_or_remove_notifiers(object=y, graph=c, remove=False) for every y, in order *)
Definition add_objs (t : traits) (h : heap) (k : hkey) (c : graph) (ys : list oid) (H : list hook) : list hook :=
  fold_left (fun H y => H ++ add_order t h k c y) ys H.
(* ... a walk that meets a missing non-optional trait raises ValueError; the outermost call undoes what it had
   added (_observe.py l.109-118, shared log since the F8 repair): the objects before it stay hooked *)
Fixpoint add_objs_w (t : traits) (h : heap) (k : hkey) (c : graph) (ys : list oid) (H : list hook) : list hook * bool :=
  match ys with
  | [] => (H, true)
  | y :: ys' => if walkable t h c y then add_objs_w t h k c ys' (H ++ add_order t h k c y) else (H, false)
  end.
(* ... remove=True: every object is its own outermost call; a failing call restores the
   hooks it had removed and raises *)
Fixpoint rem_objs (t : traits) (h : heap) (k : hkey) (c : graph) (ys : list oid) (H : list hook) : list hook * bool :=
  match ys with
  | [] => (H, true)
  | y :: ys' => match remove_all (rem_order t h k c y) H with
                | Some H1 => rem_objs t h k c ys' H1
                | None => (H, false)
                end
  end.

(* one maintainer (ObserverChangeNotifier with graph c) reacting to an event with
   removed / added objects, reading heap h (the heap after the change) *)
Definition maintain (t : traits) (h : heap) (strict : bool) (k : hkey) (c : graph) (rem add : list oid)
           (H : list hook) : list hook * bool :=
  let '(H1, ok) := rem_objs t h k c rem H in
  if ok || negb strict                       (* named traits: NotifierNotFound of the removal is swallowed *)
  then add_objs_w t h k c add H1             (* the old value is unhooked BEFORE the new one is hooked: when
                                                hooking raises ValueError the old value stays unhooked *)
  else (H1, false).                          (* item observers: NotifierNotFound propagates *)

Fixpoint mem_key (k : hkey) (l : list hkey) : bool :=
  match l with [] => false | a :: l' => hkey_eqb k a || mem_key k l' end.

(* the notifiers of the slot, in list order (a copy taken before the calls) *)
Definition on_slot (H : list hook) (o : oid) (fo : fname) : list kind :=
  flat_map (fun hk => let '(x, f, kd) := hk in if slot_eqb x f o fo then [kd] else []) H.

(* call_notifiers: user notifiers log a call (one notifier per key whatever its reference
   count), maintainers update the hooks; an exception stops the loop *)
Fixpoint notify_loop (t : traits) (h : heap) (strict : bool) (ns : list kind) (seen : list hkey)
         (rem add : list oid) (H : list hook) : list hook * list hkey * bool :=
  match ns with
  | [] => (H, [], true)
  | KUser k :: ns' =>
      if mem_key k seen then notify_loop t h strict ns' seen rem add H
      else let '(H', ks, ok) := notify_loop t h strict ns' (k :: seen) rem add H in (H', k :: ks, ok)
  | KMaint k c :: ns' =>
      let '(H1, ok) := maintain t h strict k c rem add H in
      if ok then notify_loop t h strict ns' seen rem add H1 else (H1, [], false)
  | KAdded _ _ :: ns' =>                     (* only reacts to trait_added events (prevent_event) *)
      notify_loop t h strict ns' seen rem add H
  end.

(* a change of slot (o, fo) to [news] that is notified with the delta (removed, added) *)
Definition change (st : state) (o : oid) (fo : fname) (news removed added : list oid)
           (prevented strict : bool) : state * obs :=
  let h' := upd (st_heap st) o fo news in
  let ns := on_slot (st_hooks st) o fo in
  let t := st_traits st in
  let '(H1, ks1, ok1) := notify_loop t h' strict ns [] removed added (st_hooks st) in
  (* TraitList / TraitDict / TraitSet.notify iterate the LIVE notifier list (trait_list_object.py l.236,
     trait_dict_object.py l.154, trait_set_object.py l.128; ctraits.c copies it): notifiers appended to
     the list of the very container being notified are called with the same event (one more round) *)
  let extra := if strict && ok1 then skipn (length ns) (on_slot H1 o fo) else [] in
  let '(H', ks2, ok2) := notify_loop t h' strict extra ks1 removed added H1 in
  (mkState t h' H' (st_regs st) (st_next st),
   mkObs (if ok1 && ok2 then Ok
          else if existsb (fun kc => existsb (fun y => negb (walkable t h' (snd kc) y)) added)
                          (maint_on (st_hooks st) o fo)
               then Raise ValueError          (* a maintainer could not hook a new object (on cyclic heaps with
                                                 unhookable objects the class of the exception is approximated) *)
               else Raise NotifierNotFound)
         (if prevented then [] else map (fun k => (k, o, fo, removed, added)) (ks1 ++ ks2))
         [(o, fo, news)]).

Fixpoint list_eqb (a b : list nat) : bool :=
  match a, b with
  | [], [] => true
  | x :: a', y :: b' => Nat.eqb x y && list_eqb a' b'
  | _, _ => false
  end.
Definition subset (a b : list nat) : bool := forallb (fun x => existsb (Nat.eqb x) b) a.

(* old container == new container (Python equality of list / dict / set of identity-compared objects) *)
Definition cont_equal (f : fname) (old_items items : list oid) (dict_equal : bool) : bool :=
  if Nat.eqb f 3 then list_eqb old_items items
  else if Nat.eqb f 4 then dict_equal
  else subset old_items items && subset items old_items.

Definition splice (l : list oid) (i n : nat) (vs : list oid) : list oid :=
  firstn i l ++ vs ++ skipn n (skipn i l).
Definition spliced_out (l : list oid) (i n : nat) : list oid := firstn n (skipn i l).

Definition remove_reg (r : reg) (rs : list reg) : list reg :=
  (fix go (rs : list reg) : list reg :=
     match rs with
     | [] => []
     | a :: rs' => if hkey_eqb (fst r) (fst a) && graph_eqb (snd r) (snd a) then rs' else a :: go rs'
     end) rs.

Definition quiet (st : state) : state * obs := (st, mkObs Ok [] []).

(* observe.py apply_observers: one add_or_remove_notifiers per graph of the expression; a failing
   removal undoes the graphs already removed *)
Definition observe1 (st : state) (k : nat) (r : oid) (g : graph) : state :=
  mkState (st_traits st) (st_heap st) (st_hooks st ++ add_order (st_traits st) (st_heap st) (k, r) g r)
          (st_regs st ++ [((k, r), g)]) (st_next st).
Definition unobserve1 (st : state) (k : nat) (r : oid) (g : graph) : option state :=
  match remove_all (rem_order (st_traits st) (st_heap st) (k, r) g r) (st_hooks st) with
  | Some H' => Some (mkState (st_traits st) (st_heap st) H' (remove_reg ((k, r), g) (st_regs st)) (st_next st))
  | None => None
  end.
Fixpoint unobserve_all (st : state) (k : nat) (r : oid) (gs : list graph) : option state :=
  match gs with
  | [] => Some st
  | g :: gs' => match unobserve1 st k r g with Some st' => unobserve_all st' k r gs' | None => None end
  end.

(* add_trait: trait_added fires on (x, trait_added); user notifiers there are called, every
   TraitAddedObserver maintainer whose observer matches the new name hooks the new trait *)
Definition restricted_add (t : traits) (h : heap) (k : hkey) (g : graph) (x : oid) (f : fname) : list hook :=
  match g with
  | G fs n _ _ cs =>
      flat_map (fun f' => if Nat.eqb f' f then
                            (if n then [(x, f, KUser k)] else []) ++ map (fun c => (x, f, KMaint k c)) cs
                            ++ flat_map (fun c => flat_map (fun y => add_order t h k c y) (h x f)) cs
                          else []) fs
  end.
Fixpoint added_loop (t : traits) (h : heap) (x : oid) (f : fname) (ns : list kind) (seen : list hkey)
         (H : list hook) : list hook * list hkey :=
  match ns with
  | [] => (H, [])
  | KUser k :: ns' =>
      if mem_key k seen then added_loop t h x f ns' seen H
      else let '(H', ks) := added_loop t h x f ns' (k :: seen) H in (H', k :: ks)
  | KMaint _ _ :: ns' => added_loop t h x f ns' seen H      (* the event carries no objects *)
  | KAdded k g :: ns' => added_loop t h x f ns' seen (H ++ restricted_add t h k g x f)
  end.

Definition step (st : state) (o : op) : state * obs :=
  let h := st_heap st in
  let t := st_traits st in
  match o with
  | Observe k r g =>                                  (* observe.py l.50-58 -> add_or_remove_notifiers *)
      if walkable t h g r then
        (mkState t h (st_hooks st ++ add_order t h (k, r) g r) (st_regs st ++ [((k, r), g)]) (st_next st),
         mkObs Ok [] [])
      else (st, mkObs (Raise ValueError) [] [])       (* the failed walk is undone completely: nothing changes *)
  | Unobserve k r g =>
      match remove_all (rem_order t h (k, r) g r) (st_hooks st) with
      | Some H' => (mkState t h H' (remove_reg ((k, r), g) (st_regs st)) (st_next st), mkObs Ok [] [])
      | None => (st, mkObs (Raise NotifierNotFound) [] [])
      end
  | AddTrait x f =>
      if t x f then quiet st                          (* an existing trait is replaced by a clone that takes
                                                         over the old trait's notifiers; no trait_added event *)
      else
        let t' := add_trait t x f in
        let '(H', ks) := added_loop t' h x f (on_slot (st_hooks st) x TA) [] (st_hooks st) in
        (mkState t' h H' (st_regs st) (st_next st),
         mkObs Ok (map (fun k => (k, x, TA, [], [])) ks) [])
  | ObserveAll k r gs =>
      if forallb (fun g => walkable t h g r) gs then (fold_left (fun s g => observe1 s k r g) gs st, mkObs Ok [] [])
      else (st, mkObs (Raise ValueError) [] [])       (* apply_observers undoes the graphs already applied *)
  | UnobserveAll k r gs =>
      match unobserve_all st k r gs with
      | Some st' => (st', mkObs Ok [] [])
      | None => (st, mkObs (Raise NotifierNotFound) [] [])
      end
  | SetRef x f v =>
      let olds := h x f in
      if list_eqb olds v then quiet st                (* setattr_trait: old is new -> no notification *)
      else change st x f v olds v false false
  | SetCont x f items dict_equal =>
      let c := st_next st in
      let olds := h x f in
      let old_items := match olds with y :: _ => h y (items_field f) | [] => [] end in
      (* the old value of an unset trait is the (unhooked) default, an empty container *)
      let prevented := if identity_field f then false else
                       match olds with
                       | [] => match items with [] => true | _ => false end
                       | _ => cont_equal f old_items items dict_equal
                       end in
      let st1 := mkState t (upd h c (items_field f) items) (st_hooks st) (st_regs st) (S c) in
      let '(st2, ob) := change st1 x f [c] olds [c] prevented false in
      (st2, mkObs (ob_out ob) (ob_calls ob) ((c, items_field f, items) :: ob_delta ob))
  | Touch x f =>
      match h x f with
      | [] => let c := st_next st in                  (* getattr_trait: old = Uninitialized *)
              change (mkState t h (st_hooks st) (st_regs st) (S c)) x f [c] [] [c] true false
      | _ => quiet st
      end
  | Splice c f i n vs =>
      let olds := h c f in
      let removed := spliced_out olds i n in
      match removed ++ vs with
      | [] => quiet st                                (* TraitList/Dict/Set notify only a non-empty delta *)
      | _ => change st c f (splice olds i n vs) removed vs false true
      end
  | Probe x => change st x 0 (h x 0) [] [] false false
  | TouchItems x f items =>
      match h x f with
      | [] => let c := st_next st in                  (* getattr_trait: the default is stored, old = Uninitialized:
                                                         maintainers hook the new container and its items, user
                                                         notifiers are prevented *)
              let st1 := mkState t (upd h c (items_field f) items) (st_hooks st) (st_regs st) (S c) in
              let '(st2, ob) := change st1 x f [c] [] [c] true false in
              (st2, mkObs (ob_out ob) (ob_calls ob) ((c, items_field f, items) :: ob_delta ob))
      | _ => quiet st
      end
  | SpliceCont c f fi i n items =>
      let c' := st_next st in
      let olds := h c f in
      let st1 := mkState t (upd h c' fi items) (st_hooks st) (st_regs st) (S c') in
      let '(st2, ob) := change st1 c f (splice olds i n [c']) (spliced_out olds i n) [c'] false true in
      (st2, mkObs (ob_out ob) (ob_calls ob) ((c', fi, items) :: ob_delta ob))
  | DelCont x f =>
      (* ctraits.c setattr_trait l.2392-2437 (value == NULL): the dict entry is deleted and, when the trait
         has notifiers, the default is obtained with traito->getattr, i.e. getattr_trait, which stores it AND
         notifies (Uninitialized -> new); then call_notifiers(old -> new) once more.  Two notifications
         for one deletion: every maintainer hooks the new container twice (finding: the reference count
         of the new container is 2, so a later replacement leaves it hooked). *)
      match h x f with
      | [] => quiet st
      | y :: _ =>
          let olds := h x f in
          let c := st_next st in
          let prevented := match h y (items_field f) with [] => true | _ => false end in
          let st0 := mkState t h (st_hooks st) (st_regs st) (S c) in
          let '(st1, ob1) := change st0 x f [c] [] [c] true false in
          let '(st2, ob2) := change st1 x f [c] olds [c] prevented false in
          (st2, mkObs (match ob_out ob1 with Ok => ob_out ob2 | e => e end) (ob_calls ob2) [(x, f, [c])])
      end
  end.

Fixpoint run (st : state) (ops : list op) : list (op * obs) :=
  match ops with
  | [] => []
  | o :: r => let '(st', ob) := step st o in (o, ob) :: run st' r
  end.
Fixpoint final (st : state) (ops : list op) : state :=
  match ops with [] => st | o :: r => final (fst (step st o)) r end.

(* ---- the hypotheses of the theorems (Props.v), as executable checks on a state ---- *)
Definition edge_acyclic_b (t : traits) (h : heap) (rs : list reg) (o : oid) (fo : fname) (news : list oid) : bool :=
  negb (Nat.eqb fo TA) &&           (* the changed trait is not the trait_added event trait *)
  forallb (fun kc : hkey * graph =>
             forallb (fun y => negb (visits t h (snd kc) y o fo)) (h o fo ++ news)
             && forallb (walkable t (upd h o fo news) (snd kc)) news)   (* ... and the new content can be hooked *)
          (occ_all t h rs o fo).

Definition is_nil_b (l : list oid) : bool := match l with [] => true | _ => false end.
Definition reg_eqb (a b : reg) : bool := hkey_eqb (fst a) (fst b) && graph_eqb (snd a) (snd b).
(* the fresh container object is not yet walked through by any registration *)
Definition fresh_b (t : traits) (h : heap) (rs : list reg) (c : oid) (fc : fname) : bool :=
  forallb (fun r : reg => negb (visits t h (snd r) (snd (fst r)) c fc)) rs.

Fixpoint regs_present (k : nat) (r : oid) (gs : list graph) (rs : list reg) : bool :=
  match gs with
  | [] => true
  | g :: gs' => existsb (reg_eqb ((k, r), g)) rs && regs_present k r gs' (remove_reg ((k, r), g) rs)
  end.

(* hypotheses under which the theorems speak about one operation: the changed slot is
   edge-acyclic for the live registrations; a removed registration is a live one *)
Definition op_hyp (st : state) (o : op) : bool :=
  let h := st_heap st in
  let t := st_traits st in
  let rs := st_regs st in
  match o with
  | DelCont _ _ => false      (* outside the theorems: the double notification breaks the invariant *)
  | TouchItems x f items =>
      let c := st_next st in
      fresh_b t h rs c (items_field f) && edge_acyclic_b t (upd h c (items_field f) items) rs x f [c]
  | SpliceCont c f fi i n items =>
      let c' := st_next st in
      negb (Nat.eqb f fi) && fresh_b t h rs c' fi
      && edge_acyclic_b t (upd h c' fi items) rs c f (splice (h c f) i n [c'])
  | AddTrait x f =>          (* a new trait has no value yet; nodes naming it carry the trait_added graph *)
      (* re-adding an existing trait keeps its notifiers (has_traits.py add_trait l.2843-2848): nothing changes *)
      t x f || (is_nil_b (h x f) && forallb (fun r : reg => wf_dyn f (snd r)) rs)
  | Observe _ _ _ => true           (* a registration that cannot be hooked fails atomically: inside the theorems *)
  | Unobserve k r g => existsb (reg_eqb ((k, r), g)) rs
  | ObserveAll _ _ _ => true
  | UnobserveAll k r gs => regs_present k r gs rs
  | SetRef x f v => edge_acyclic_b t h rs x f v
  | SetCont x f items _ =>
      let c := st_next st in
      fresh_b t h rs c (items_field f) && edge_acyclic_b t (upd h c (items_field f) items) rs x f [c]
  | Touch x f => edge_acyclic_b t h rs x f [st_next st]
  | Splice c f i n vs => edge_acyclic_b t h rs c f (splice (h c f) i n vs)
  | Probe x => edge_acyclic_b t h rs x 0 (h x 0)
  end.

Fixpoint hyps (st : state) (ops : list op) : bool :=
  match ops with
  | [] => true
  | o :: r => op_hyp st o && hyps (fst (step st o)) r
  end.

(* the slot an operation changes with a notification that reaches user handlers *)
Definition notified (st : state) (o : op) : option (oid * fname) :=
  let h := st_heap st in
  match o with
  | Observe _ _ _ | Unobserve _ _ _ | ObserveAll _ _ _ | UnobserveAll _ _ _ | Touch _ _ => None
  | SetRef x f v => if list_eqb (h x f) v then None else Some (x, f)
  | SetCont x f items de =>
      let olds := h x f in
      let old_items := match olds with y :: _ => h y (items_field f) | [] => [] end in
      let prevented := if identity_field f then false else
                       match olds with
                       | [] => match items with [] => true | _ => false end
                       | _ => cont_equal f old_items items de
                       end in
      if prevented then None else Some (x, f)
  | Splice c f i n vs => match spliced_out (h c f) i n ++ vs with [] => None | _ => Some (c, f) end
  | Probe x => Some (x, 0)
  | AddTrait x f => if st_traits st x f then None else Some (x, TA)
  | DelCont x f => None
  | SpliceCont c f _ _ _ _ => Some (c, f)
  | TouchItems _ _ _ => None
  end.

