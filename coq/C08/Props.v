(* C08 — property theorems only.  Each is closed by [exact] of a lemma of Proofs.v
   (or by evaluation for the concrete witnesses) and followed by Print Assumptions.

   Vocabulary: [inv st] = the hook multiset of the state equals [expected_all] of the current
   heap and live registrations; [hyps st ops] = every operation of the history is edge-acyclic
   for the live registrations in the state in which it runs (and only live registrations are
   removed); [notified st o] = the slot the operation changes with a notification that is not
   filtered before the user handler (re-assigning the same object / an equal container and a
   default that materialises are not changes). *)
From Coq Require Import ZArith List Arith Bool PeanoNat Permutation.
From TV Require Import Common.Harness Common.ObsCore C08.Model C08.Law C08.Proofs.
Import ListNotations.
Open Scope nat_scope.

(* Registration installs exactly the expected hooks (walk of _observe.py = specification). *)
Theorem registration_hooks_expected :
  forall t h k g x, Permutation (add_order t h k g x) (expected t h k g x).
Proof. exact add_order_expected. Qed.
Print Assumptions registration_hooks_expected.

(* Main invariant, by induction over histories of any length: after every edge-acyclic history
   of registrations, removals, trait assignments, container assignments, default materialisation,
   in-place list/dict/set mutations and probes, the notifier lists hold exactly the hooks the
   expressions demand in the CURRENT heap. *)
Theorem hooks_are_expected :
  forall ops st, inv st -> hyps st ops = true -> inv (final st ops).
Proof. exact hooks_are_expected_lemma. Qed.
Print Assumptions hooks_are_expected.

Theorem hooks_are_expected_from_scratch :
  forall npool ops, hyps (init npool) ops = true -> inv (final (init npool) ops).
Proof. intros npool ops. apply hooks_are_expected_lemma. apply inv_init. Qed.
Print Assumptions hooks_are_expected_from_scratch.

(* The whole property law (all 7 clauses of Law.v: no missing call, no call for an unreachable
   object, no double call, events identify the change, quiet links silent, no mutation raises, no
   call without change), recomputed from scratch from the heap, holds at every step of every
   edge-acyclic history of the model, of any length, from the empty pool state. *)
Theorem law_holds_on_every_acyclic_history :
  forall npool ops, hyps (init npool) ops = true ->
    law_hist 0%Z init_traits (fun _ _ => []) [] (run (init npool) ops) = [].
Proof. intros npool ops H. apply (law_hist_model ops (init npool) 0%Z (inv_init npool) H). Qed.
Print Assumptions law_holds_on_every_acyclic_history.

Theorem law_holds_from_any_consistent_state :
  forall ops st i, inv st -> hyps st ops = true ->
    law_hist i (st_traits st) (st_heap st) (st_regs st) (run st ops) = [].
Proof. exact law_hist_model. Qed.
Print Assumptions law_holds_from_any_consistent_state.

(* At every step of such a history: the operation does not raise; if it is a notified change of
   slot (x, f) every key (handler, target) is called at most once, it is called iff one of its live
   expressions matches (x, f) through a notifying node in the current heap, and every event names
   (x, f); if it is not a notified change nobody is called. *)
Theorem called_once_iff_reachable :
  forall ops st pre o post, inv st -> hyps st ops = true -> ops = pre ++ o :: post ->
    step_ok (final st pre) o.
Proof. exact every_step_ok. Qed.
Print Assumptions called_once_iff_reachable.

(* An object no live expression reaches (detached, or reached only through ':' links) is never called. *)
Theorem detached_never_called :
  forall st o x f, inv st -> op_hyp st o = true -> notified st o = Some (x, f) ->
    (forall k g, In (k, g) (st_regs st) -> matched (st_traits st) (st_heap st) g (snd k) x f = false) ->
    ob_calls (snd (step st o)) = [].
Proof.
  intros st o x f I Hy N Hno. pose proof (step_spec st o I Hy) as S. unfold step_ok in S.
  destruct (step st o) as [st' ob]. rewrite N in S. destruct S as [_ [_ [_ [Sp _]]]]. cbn [snd].
  destruct (ob_calls ob) as [|c cs] eqn:E; [reflexivity|exfalso].
  destruct (proj1 (Sp (call_key c)) (or_introl eq_refl)) as [g [Hr Hm]].
  rewrite (Hno _ _ Hr) in Hm. discriminate.
Qed.
Print Assumptions detached_never_called.

(* The event identifies what changed: every call made for a notified change of (x, f) carries (x, f). *)
Theorem event_identifies_change :
  forall st o x f, inv st -> op_hyp st o = true -> notified st o = Some (x, f) ->
    forall c, In c (ob_calls (snd (step st o))) -> call_slot c = (x, f).
Proof.
  intros st o x f I Hy N c Hc. pose proof (step_spec st o I Hy) as S. unfold step_ok in S.
  destruct (step st o) as [st' ob]. rewrite N in S. destruct S as [_ [_ [_ [_ Sl]]]]. apply Sl. exact Hc.
Qed.
Print Assumptions event_identifies_change.

(* A mutation of a container reached through a notifying items link delivers its event to the key. *)
Theorem container_event_delivered :
  forall st c f i n vs k g, inv st -> op_hyp st (Splice c f i n vs) = true ->
    spliced_out (st_heap st c f) i n ++ vs <> [] ->
    In (k, g) (st_regs st) -> matched (st_traits st) (st_heap st) g (snd k) c f = true ->
    In (k, c, f, spliced_out (st_heap st c f) i n, vs) (ob_calls (snd (step st (Splice c f i n vs)))).
Proof.
  intros st c f i n vs k g I Hy NE Hr Hm.
  pose proof (step_spec st (Splice c f i n vs) I Hy) as S. unfold step_ok in S. cbn [notified] in S.
  cbn [step] in *. destruct (spliced_out (st_heap st c f) i n ++ vs) eqn:Q; [congruence|].
  destruct (change st c f (splice (st_heap st c f) i n vs) (spliced_out (st_heap st c f) i n) vs false true)
    as [st' ob] eqn:E.
  destruct S as [_ [_ [_ [Sp _]]]]. cbn [snd].
  assert (In k (map call_key (ob_calls ob))) as IK by (apply Sp; exists g; tauto).
  apply in_map_iff in IK. destruct IK as [cl [Ek Icl]].
  unfold change in E.
  destruct (notify_loop _ _ _ _ _ _ _ _) as [[H1 ks1] ok1] in E.
  destruct (notify_loop _ _ _ _ _ _ _ _) as [[H2 ks2] ok2] in E.
  inversion E; subst ob. cbn [ob_calls] in *.
  apply in_map_iff in Icl. destruct Icl as [k' [<- Ik']]. cbn [call_key] in Ek. subst k'.
  apply in_map_iff. exists k. split; [reflexivity|exact Ik'].
Qed.
Print Assumptions container_event_delivered.

Theorem no_mutation_raises :
  forall ops st, inv st -> hyps st ops = true ->
    Forall (fun p : op * obs => ob_out (snd p) = Ok \/ (op_slot (fst p) = None /\ ob_out (snd p) = Raise ValueError))
           (run st ops).
Proof. exact run_all_ok. Qed.
Print Assumptions no_mutation_raises.

(* Duplicates are counted: the number of equal notifier entries on an observable (the reference
   count of a user notifier, the number of equal maintainers) is the number of paths that reach it. *)
Theorem duplicates_counted :
  forall st (eq_dec : forall a b : oid * fname * kind, {a = b} + {a <> b}) hk,
    inv st -> count_occ eq_dec (st_hooks st) hk
              = count_occ eq_dec (expected_all (st_traits st) (st_heap st) (st_regs st)) hk.
Proof. exact refcount_is_multiplicity. Qed.
Print Assumptions duplicates_counted.

(* The hypothesis is met by every DAG: if the heap has a rank function (links go strictly up) that also
   puts the objects written into the slot above its owner - i.e. the heap is a DAG before and after the
   change -, the change is edge-acyclic for every set of registrations and expressions. *)
Theorem dag_heaps_are_edge_acyclic :
  forall t rank h rs o fo news,
    fo <> TA -> ranked rank h -> (forall y, In y news -> rank o < rank y) ->
    (forall kc, In kc (occ_all t h rs o fo) -> forall y, In y news -> walkable t (upd h o fo news) (snd kc) y = true) ->
    edge_acyclic t h rs o fo news.
Proof. exact ranked_edge_acyclic_lemma. Qed.
Print Assumptions dag_heaps_are_edge_acyclic.

(* The substitution theorem behind the step case (kept visible). *)
Theorem expected_substitution :
  forall t h k o fo news g x, acyc_on t h o fo news g x ->
    Permutation
      (expected t (upd h o fo news) k g x ++ flat_map (fun c => sumexp t h k [c] (h o fo)) (occ t h g x o fo))
      (expected t h k g x ++ flat_map (fun c => sumexp t h k [c] news) (occ t h g x o fo)).
Proof. exact expected_subst. Qed.
Print Assumptions expected_substitution.

(* The trait-addition theorem behind add_trait: what the matching trait_added maintainers add is
   exactly what [expected] gains when object x0 acquires trait f0. *)
Theorem expected_trait_addition :
  forall t h rs x0 f0 H,
    t x0 f0 = false -> h x0 f0 = [] -> forallb (fun r : reg => wf_dyn f0 (snd r)) rs = true ->
    Permutation H (expected_all t h rs) ->
    Permutation (H ++ flat_map (fun kg => own_for (fst kg) x0 f0 (snd kg)) (added_on H x0))
                (expected_all (add_trait t x0 f0) h rs).
Proof. exact inv_add_trait_all. Qed.
Print Assumptions expected_trait_addition.

(* F14: without edge-acyclicity the property is false of the faithful model.  o.f = o;
   o.observe(h, "f.f.value"); o.f = p; p.f = o; p.value = 9: nothing raises, the hypothesis fails at
   the third operation, and the last probe calls the handler for (p, value), which is not matched. *)
Definition f14_history : list op :=
  [SetRef 0 1 [0]; Observe 0 0 (G [1] true true false [G [1] true true false [G [0] true true false []]]);
   SetRef 0 1 [1]; SetRef 1 1 [0]; Probe 1].
Theorem cyclic_refuted :
  exists ops, Forall (fun p : op * obs => ob_out (snd p) = Ok) (run (init 2) ops)
              /\ hyps (init 2) ops = false
              /\ law_hist 0%Z init_traits (fun _ _ => []) [] (run (init 2) ops) = [402%Z]
              /\ ~ inv (final (init 2) ops).
Proof.
  exists f14_history. split; [repeat constructor|]. split; [vm_compute; reflexivity|].
  split; [vm_compute; reflexivity|].
  intros I. unfold inv in I. apply Permutation_length in I. vm_compute in I. discriminate.
Qed.
Print Assumptions cyclic_refuted.

(* F14, second form: a list that comes to contain its own owner.  o.observe(h, kids.items.kids.items.value);
   o.kids.append(p); o.kids[0] = o: the mutation raises NotifierNotFound in the model as in the code. *)
Definition f14_list_history : list op :=
  [SetCont 0 3 [] true; SetCont 1 3 [] true;
   Observe 0 0 (G [3] true true false [G [6] true false false [G [3] true true false [G [6] true false false [G [0] true true false []]]]]);
   Splice 2 6 0 0 [1]; Splice 2 6 0 1 [0]].
Theorem cyclic_list_refuted :
  exists ops, hyps (init 2) ops = false
              /\ map (fun p : op * obs => ob_out (snd p)) (run (init 2) ops) = [Ok; Ok; Ok; Ok; Raise NotifierNotFound]
              /\ law_hist 0%Z init_traits (fun _ _ => []) [] (run (init 2) ops) = [406%Z].
Proof. exists f14_list_history. vm_compute. repeat split; reflexivity. Qed.
Print Assumptions cyclic_list_refuted.

(* New finding: del o.kids on an observed container trait notifies twice (ctraits.c setattr_trait, value ==
   NULL: getattr_trait materialises the default with old = Uninitialized, then call_notifiers(old, new)),
   so every maintainer hooks the new container twice.  After the container is replaced, the detached one
   still calls the handler: the law fails at the last step, nothing raises, the invariant is broken. *)
Definition del_container_history : list op :=
  [SetCont 0 3 [1] false; Observe 0 0 (G [3] true true false [G [6] true false false []]); DelCont 0 3;
   SetCont 0 3 [2] false; Splice 4 6 0 0 [1]].
Theorem del_container_refuted :
  exists ops, Forall (fun p : op * obs => ob_out (snd p) = Ok) (run (init 3) ops)
              /\ hyps (init 3) ops = false
              /\ law_hist 0%Z init_traits (fun _ _ => []) [] (run (init 3) ops) = [402%Z]
              /\ ~ inv (final (init 3) (firstn 3 ops)).
Proof.
  exists del_container_history. split; [vm_compute; repeat constructor|]. split; [vm_compute; reflexivity|].
  split; [vm_compute; reflexivity|].
  intros I. unfold inv in I. apply Permutation_length in I. vm_compute in I. discriminate.
Qed.
Print Assumptions del_container_refuted.

(* The `optional` flag and the failing walk.  A registration whose walk meets a missing non-optional trait raises
   ValueError and changes NOTHING (the shared undo log of _observe.py). *)
Theorem failed_registration_is_atomic :
  forall st k r g, walkable (st_traits st) (st_heap st) g r = false ->
    step st (Observe k r g) = (st, mkObs (Raise ValueError) [] []).
Proof. exact failed_registration_lemma. Qed.
Print Assumptions failed_registration_is_atomic.

Theorem failed_registration_of_several_graphs_is_atomic :
  forall st k r gs, forallb (fun g => walkable (st_traits st) (st_heap st) g r) gs = false ->
    step st (ObserveAll k r gs) = (st, mkObs (Raise ValueError) [] []).
Proof. exact failed_registration_all_lemma. Qed.
Print Assumptions failed_registration_of_several_graphs_is_atomic.

(* A maintainer that cannot hook the new value: the change is stored, ValueError reaches the caller, and the hooks
   are exactly those the expressions demand when the slot holds only the objects that stayed - nothing remains
   below the detached old value (observer_change_handler unhooks the old value BEFORE hooking the new one).
   Stated for the slot's single maintainer failing on the first added object. *)
Theorem old_value_unhooked_when_new_value_cannot_be_hooked :
  forall st o fo news removed added keep prevented strict k c y ys,
    inv st ->
    Permutation (st_heap st o fo) (keep ++ removed) -> Permutation news (keep ++ added) ->
    fo <> TA ->
    (forall kc, In kc (occ_all (st_traits st) (st_heap st) (st_regs st) o fo) ->
       forall z, In z (st_heap st o fo) \/ In z news -> visits (st_traits st) (st_heap st) (snd kc) z o fo = false) ->
    maint_on (st_hooks st) o fo = [(k, c)] ->
    added = y :: ys -> walkable (st_traits st) (upd (st_heap st) o fo news) c y = false ->
    ob_out (snd (change st o fo news removed added prevented strict)) = Raise ValueError
    /\ st_heap (fst (change st o fo news removed added prevented strict)) = upd (st_heap st) o fo news
    /\ Permutation (st_hooks (fst (change st o fo news removed added prevented strict)))
                   (expected_all (st_traits st) (upd (st_heap st) o fo keep) (st_regs st)).
Proof. exact change_fails_single. Qed.
Print Assumptions old_value_unhooked_when_new_value_cannot_be_hooked.

(* The general case, several maintainers on the slot: those before the failing one have swapped the hooks below
   the removed objects for those below the added ones, the failing one has only unhooked, those after it have not
   run (the exception stops the notifier loop - the code's behaviour, stated exactly). *)
Theorem failing_maintainer_exact_effect :
  forall st o fo news removed added keep prevented strict M1 k c M2 y ys,
    inv st ->
    Permutation (st_heap st o fo) (keep ++ removed) -> Permutation news (keep ++ added) ->
    fo <> TA ->
    (forall kc, In kc (occ_all (st_traits st) (st_heap st) (st_regs st) o fo) ->
       forall z, In z (st_heap st o fo) \/ In z news -> visits (st_traits st) (st_heap st) (snd kc) z o fo = false) ->
    maint_on (st_hooks st) o fo = M1 ++ (k, c) :: M2 ->
    (forall kc z, In kc M1 -> In z added -> walkable (st_traits st) (upd (st_heap st) o fo news) (snd kc) z = true) ->
    added = y :: ys -> walkable (st_traits st) (upd (st_heap st) o fo news) c y = false ->
    let h' := upd (st_heap st) o fo news in
    let t := st_traits st in
    ob_out (snd (change st o fo news removed added prevented strict)) = Raise ValueError
    /\ st_heap (fst (change st o fo news removed added prevented strict)) = h'
    /\ Permutation (st_hooks (fst (change st o fo news removed added prevented strict))
                    ++ S_of t h' M1 removed ++ S_of t h' [(k, c)] removed)
                   (st_hooks st ++ S_of t h' M1 added).
Proof. exact change_fails_at. Qed.
Print Assumptions failing_maintainer_exact_effect.

(* ... and what it means for the property: with two handlers observing through the same trait, the first one's
   failing maintainer starves the second (error path; known finding `failing-maintainer/...`): the second handler
   misses the change (401), the detached old value still calls it (502), the new value does not (601). *)
Definition starved_maintainer_history : list op :=
  [AddTrait 1 12; SetRef 0 1 [1]; Observe 0 0 (G [1] true true false [G [12] true true false []]);
   Observe 1 0 (G [1] true true false [G [0] true true false []]); SetRef 0 1 [2]; Probe 1; Probe 2].
Theorem failing_maintainer_refuted :
  exists ops, hyps (init 3) ops = false
              /\ map (fun p : op * obs => ob_out (snd p)) (run (init 3) ops)
                 = [Ok; Ok; Ok; Ok; Raise ValueError; Ok; Ok]
              /\ law_hist 0%Z init_traits (fun _ _ => []) [] (run (init 3) ops) = [401%Z; 502%Z; 601%Z].
Proof. exists starved_maintainer_history. vm_compute. repeat split; reflexivity. Qed.
Print Assumptions failing_maintainer_refuted.

(* The optional flag only matters for failure: it never changes which (object, trait) pairs an expression
   reaches, and an expression all of whose observers are optional can always be hooked. *)
Theorem optional_flag_does_not_change_reachability :
  forall t h b g x o fo, matched t h (set_optional b g) x o fo = matched t h g x o fo.
Proof. exact matched_set_optional. Qed.
Print Assumptions optional_flag_does_not_change_reachability.

Theorem optional_expressions_never_fail :
  forall t h g, all_optional g = true -> forall x, walkable t h g x = true.
Proof. exact all_optional_walkable. Qed.
Print Assumptions optional_expressions_never_fail.

(* A registration that cannot be hooked is INSIDE the hypotheses of the history theorems: it raises ValueError,
   nothing changes, the invariant and the law go on holding. *)
Example failing_registration_inside_hyps :
  let ops := [SetRef 0 1 [1]; Observe 0 0 (G [1] true true false [G [12] true true false []]); Probe 1;
              AddTrait 1 12; Observe 0 0 (G [1] true true false [G [12] true true false []]); SetRef 1 12 [2]] in
  hyps (init 3) ops = true
  /\ map (fun p => (ob_out (snd p), length (ob_calls (snd p)))) (run (init 3) ops)
     = [(Ok, 0); (Raise ValueError, 0); (Ok, 0); (Ok, 0); (Ok, 0); (Ok, 1)]
  /\ law_hist 0%Z init_traits (fun _ _ => []) [] (run (init 3) ops) = [].
Proof. vm_compute. repeat split; reflexivity. Qed.

(* Non-vacuity of the two: object 1 has the non-optional trait 12, object 2 does not.  Registering on 2 fails
   atomically; re-assigning 0.f from 1 to 2 raises ValueError, is stored, and the detached object 1 is silent:
   the only complaint of the law is nothing at all (the raise is the allowed one). *)
Example unhookable_nontrivial :
  let g := G [1] true true false [G [12] true true false [G [0] true true false []]] in
  let ops := [AddTrait 1 12; SetRef 0 1 [1]; SetRef 1 12 [3]; Observe 0 0 g; Probe 3;
              SetRef 0 1 [2]; Probe 3; SetRef 1 12 []; Observe 1 2 (G [12] true true false []); SetRef 0 1 [1]; Probe 3] in
  map (fun p => (ob_out (snd p), length (ob_calls (snd p)))) (run (init 4) ops)
  = [(Ok, 0); (Ok, 0); (Ok, 0); (Ok, 0); (Ok, 1); (Raise ValueError, 1); (Ok, 0); (Ok, 0);
     (Raise ValueError, 0); (Ok, 1); (Ok, 0)]
  /\ law_hist 0%Z init_traits (fun _ _ => []) [] (run (init 4) ops) = []
  /\ hyps (init 4) ops = false.
Proof. vm_compute. repeat split; reflexivity. Qed.

(* Non-vacuity: a history over a DAG with a list holding the same object twice, an equal list
   re-assigned, a default materialised late, a quiet link, a filter node (f and g), an optional observer
   of a trait added later with add_trait, and an anytrait leaf meets the hypotheses, and calls happen. *)
Example history_nontrivial :
  let g := G [3] true true false [G [6] true false false [G [1] false true false [G [0] true true false []]; G [0] true true false []]] in
  let d := G [1; 2] true true false [G [13] true true true [G [0] true true false []]] in
  let ops := [SetRef 1 1 [2]; SetCont 0 3 [1; 2; 1] false; Observe 0 0 g; Probe 1; Probe 2;
              Splice 3 6 0 1 []; Probe 1; SetCont 0 3 [1] false; SetCont 0 3 [1] false; Probe 0;
              Observe 1 1 (G [5] true true false [G [8] true false false []]); Touch 1 5; Splice 6 8 0 0 [2]; Unobserve 0 0 g; Probe 2;
              Observe 0 1 d; Observe 1 2 (G [0; 1; 2; 10; 13] true true true []); AddTrait 2 13; SetRef 2 13 [0]; Probe 0] in
  hyps (init 3) ops = true
  /\ map (fun p => length (ob_calls (snd p))) (run (init 3) ops)
     = [0; 0; 0; 1; 1; 1; 1; 1; 0; 0; 0; 0; 1; 0; 0; 0; 0; 1; 2; 1]
  /\ law_hist 0%Z init_traits (fun _ _ => []) [] (run (init 3) ops) = [].
Proof. vm_compute. repeat split; reflexivity. Qed.
