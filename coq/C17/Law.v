(* C17 — the property as a boolean checker on ONE observed outcome of one entry
   point (adapt / adapt with default / supports_protocol / assignment to an
   Instance(adapt=...), Supports or AdaptsTo trait).  It never mentions the search
   ([Model.search], [Model.adapt], the edge order): existence and minimal length of a
   chain are decided by brute-force enumeration of all offer sequences.  The same
   term is evaluated on the implementation's observations (Corr.v) and proved of the
   model (Proofs.v: model_satisfies_law).
   Clause codes:
     1 the object's type provides the protocol but the object itself was not returned
     2 the object itself was returned although its type does not provide the protocol
     3 result present iff a valid all-succeeding chain exists — fails
       (error / default / None although a chain exists, or an adapter although none exists)
     4 the returned chain is not valid (unregistered offer, offer used twice, offer not
       applicable to the protocol reached), a factory in it fails, or it does not reach the target
     5 the returned chain is longer than the shortest possible one
     6 single-step choice: another succeeding single offer has a smaller MRO distance, or the
       same distance and a strictly more specific from-protocol
     7 Supports / AdaptsTo / Instance: what is stored is not {the original, the result of adapt()} (trait value and shadow `name_`)
     8 outcome of the wrong shape for the entry point (e.g. default returned by adapt(obj, P)) *)
From Coq Require Import List Arith Bool PeanoNat ZArith.
From TV Require Import Common.Harness C17.Model.
Import ListNotations.
Local Open Scope nat_scope.

Section Law.
  Variable E : env.
  Notation sub := (e_sub E).
  Notation dist := (e_dist E).
  Notation offers := (e_offers E).
  Notation target := (e_target E).
  Notation src := (e_src E).
  Notation step_ok := (e_step_ok E).

  (* all valid, all-succeeding chains of exactly n offers *)
  Fixpoint chains (n : nat) : list (list offer) :=
    match n with
    | O => [[]]
    | S m => flat_map (fun p => map (fun o => p ++ [o])
                                    (filter (fun o => usable E p o && step_ok p o) offers))
                      (chains m)
    end.

  Fixpoint find_len (P : nat -> bool) (k n : nat) : option nat :=
    match n with O => None | S n' => if P k then Some k else find_len P (S k) n' end.

  (* length of the shortest valid, succeeding, complete chain; None if there is none
     (a valid chain uses every registered offer at most once: length <= |offers|) *)
  Definition has_complete (n : nat) : bool := existsb (complete E) (chains n).
  Definition min_len : option nat := find_len has_complete 1 (length offers).

  Definition strict_sub (a b : ty) : bool := sub a b && negb (sub b a).
  (* o' would have been the better single-step choice than o *)
  Definition better (o' o : offer) : bool :=
    (dist src (ofrom o') <? dist src (ofrom o))
    || ((dist src (ofrom o') =? dist src (ofrom o)) && strict_sub (ofrom o') (ofrom o)).
  Definition single_candidate (o : offer) : bool :=
    usable E [] o && sub (oto o) target && step_ok [] o.
  Definition single_step_ok (o : offer) : bool :=
    forallb (fun o' => negb (single_candidate o' && better o' o)) offers.

  (* what the outcome says about the adaptation itself *)
  Inductive verdict := DSelf | DChain (p : list offer) | DYes | DNo | DBad (code : Z).

  Definition of_value (v : value) : verdict :=
    match v with VSelf => DSelf | VAdapter p => DChain p | VDefault => DBad 8%Z end.

  Definition decode (a : api) (o : outcome) : verdict :=
    match a, o with
    | (ApiAdapt | ApiAdaptModule), OValue v => of_value v
    | (ApiAdapt | ApiAdaptModule), OAdaptationError => DNo
    | ApiAdaptDefault, OValue VDefault => DNo
    | ApiAdaptDefault, OValue v => of_value v
    | ApiSupports, OBool true => DYes
    | ApiSupports, OBool false => DNo
    | TraitInstance 1, OStored v None => of_value v
    | TraitInstance 1, OTraitError => DNo
    | TraitInstance (S (S _)), OStored VDefault None => DNo     (* mode 2 ("otherwise" in the C code) *)
    | TraitInstance (S (S _)), OStored v None => of_value v
    | TraitInstance _, OStored _ (Some _) => DBad 7%Z
    (* Supports keeps the adapted value and shadows the original, AdaptsTo the other way round; the statement
       only says that both apply adapt() to the assigned value, so the law accepts either arrangement of
       {original, adapt() result} (the exact arrangement is compared model-vs-implementation in Corr.v) *)
    | (TraitSupports | TraitAdaptsTo), OStored v (Some VSelf) => of_value v
    | (TraitSupports | TraitAdaptsTo), OStored VSelf (Some v) => of_value v
    | (TraitSupports | TraitAdaptsTo), OStored _ _ => DBad 7%Z
    | (TraitSupports | TraitAdaptsTo), OTraitError => DNo
    | _, _ => DBad 8%Z
    end.

  Definition value_eqb (a b : value) : bool :=
    match a, b with
    | VSelf, VSelf | VDefault, VDefault => true
    | VAdapter p, VAdapter q => list_eqb offer_eqb p q
    | _, _ => false
    end.

  Definition decode_either (variant : nat) (o : outcome) : verdict :=
    match variant, o with
    | S (S _), OStored VDefault None => DNo
    | S (S _), OStored v None => of_value v
    | S (S _), OStored _ (Some _) => DBad 7%Z
    | (0 | 1), OStored v (Some v') => if value_eqb v v' then of_value v else DBad 7%Z
    | (0 | 1), OTraitError => DNo
    | _, _ => DBad 8%Z
    end.

  Definition is_some {A} (o : option A) : bool := match o with Some _ => true | None => false end.
  Definition opt_nat_eqb (a b : option nat) : bool :=
    match a, b with Some x, Some y => x =? y | None, None => true | _, _ => false end.

  Definition law_verdict (d : verdict) : list Z :=
    let provides := sub src target in
    match d with
    | DBad c => [c]
    | DSelf => chk 2%Z provides
    | DYes => chk 3%Z (provides || is_some min_len)
    | DNo => chk 1%Z (negb provides) ++ chk 3%Z (provides || negb (is_some min_len))
    | DChain p =>
        chk 1%Z (negb provides)
        ++ chk 3%Z (provides || is_some min_len)
        ++ chk 4%Z (valid E p && succ E p && complete E p)
        ++ chk 5%Z (provides || opt_nat_eqb (Some (length p)) min_len)
        ++ chk 6%Z (match p with [o] => single_step_ok o | _ => true end)
    end.

  (* Instance(adapt="no"): plain isinstance check, no adaptation *)
  Definition law_mode0 (o : outcome) : list Z :=
    let provides := sub src target in
    match o with
    | OStored VSelf None => chk 2%Z provides
    | OTraitError => chk 1%Z (negb provides)
    | OStored _ (Some _) => [7%Z]
    | _ => [8%Z]
    end.

  Definition law (a : api) (o : outcome) : list Z :=
    match a with
    | TraitInstance 0 => law_mode0 o
    | TraitEither variant => law_verdict (decode_either variant o)
    | _ => law_verdict (decode a o)
    end.
End Law.

(* the law over a history: every query is judged against the state current when it was asked (the state is threaded
   from the operations themselves, never from the model) *)
Definition hnext (st : hstate) (o : hop) : hstate :=
  match o with
  | HQuery _ => st
  | HTables s m => mkH s m (h_offers st) (h_global st)
  | HOffer x => mkH (h_sub st) (h_mro st) (h_offers st ++ [x]) (h_global st)
  | HResetGlobal => mkH (h_sub st) (h_mro st) (h_offers st) false
  | HSetGlobal => mkH (h_sub st) (h_mro st) (h_offers st) true
  end.
Fixpoint hlaw (i : Z) (st : hstate) (h : list (hop * option outcome)) : list Z :=
  match h with
  | [] => []
  | (o, ob) :: r =>
      match o, ob with
      | HQuery q, Some out => map (fun c => (100 * i + c)%Z) (law (env_of (config_of st q)) (snd q) out)
      | _, _ => []
      end ++ hlaw (i + 1)%Z (hnext st o) r
  end.
