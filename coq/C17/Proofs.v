(* C17 — lemmas.  The soundness / completeness / minimality part is the feasibility
   spike notes/feasibility/Adapt.v moved onto C17/Model.v (edge sort = any permutation,
   factories = prefix-dependent step_ok, sub = arbitrary relation). *)
From Coq Require Import List Arith Lia Bool PeanoNat Permutation ZifyBool ZArith.
From TV Require Import Common.Harness C17.Model C17.Law.
Import ListNotations.
Local Open Scope nat_scope.

Lemma offer_eqb_spec a b : offer_eqb a b = true <-> a = b.
Proof.
  destruct a, b; unfold offer_eqb; cbn. rewrite !andb_true_iff, !Nat.eqb_eq.
  split; [intros [[-> ->] ->]; reflexivity|intros [= -> -> ->]; auto].
Qed.
Lemma offer_eqb_refl a : offer_eqb a a = true.
Proof. apply offer_eqb_spec. reflexivity. Qed.
Lemma offers_eqb_refl p : list_eqb offer_eqb p p = true.
Proof. induction p as [|o p IH]; cbn; [reflexivity|]. rewrite offer_eqb_refl, IH. reflexivity. Qed.

(* ---------- the priority queue ---------- *)
Lemma pop_min_in q e rest : pop_min q = Some (e, rest) -> Permutation (e :: rest) q.
Proof.
  revert e rest. induction q as [|x q IH]; intros e rest H; [discriminate|]. cbn in H.
  destruct (pop_min q) as [[m r]|] eqn:Eq.
  - destruct (key_ltb (fst x) (fst m)); inversion H; subst; [reflexivity|].
    rewrite perm_swap. apply perm_skip. apply IH. reflexivity.
  - destruct q; [|cbn in Eq; destruct (pop_min q) as [[? ?]|]; [destruct (key_ltb _ _)|]; discriminate].
    inversion H; subst. reflexivity.
Qed.

Lemma key_ltb_fst a b : key_ltb b a = false -> fst (fst a) <= fst (fst b).
Proof.
  destruct a as [[a1 a2] a3], b as [[b1 b2] b3]. unfold key_ltb. cbn [fst snd].
  destruct (Nat.ltb_spec b1 a1); cbn [orb]; [intros Hd; discriminate Hd|intros; lia].
Qed.
Lemma key_ltb_trans_neg x m r : key_ltb x m = true -> key_ltb r m = false -> key_ltb r x = false.
Proof. destruct x as [[x1 x2] x3], m as [[m1 m2] m3], r as [[r1 r2] r3]. unfold key_ltb. lia. Qed.
Lemma key_ltb_asym x m : key_ltb x m = true -> key_ltb m x = false.
Proof. destruct x as [[x1 x2] x3], m as [[m1 m2] m3]. unfold key_ltb. lia. Qed.

Lemma pop_min_least q e rest : pop_min q = Some (e, rest) ->
  forall e', In e' rest -> key_ltb (fst e') (fst e) = false.
Proof.
  revert e rest. induction q as [|x q IH]; intros e rest H e' Hin; [discriminate|]. cbn in H.
  destruct (pop_min q) as [[m r]|] eqn:Eq.
  - destruct (key_ltb (fst x) (fst m)) eqn:L; inversion H; subst.
    + pose proof (pop_min_in _ _ _ Eq) as P. apply (Permutation_in _ (Permutation_sym P)) in Hin.
      destruct Hin as [<-|Hin].
      * apply key_ltb_asym. exact L.
      * eapply key_ltb_trans_neg; [exact L|]. eapply IH; [reflexivity|exact Hin].
    + destruct Hin as [<-|Hin]; [exact L|]. eapply IH; [reflexivity|exact Hin].
  - inversion H; subst. destruct Hin.
Qed.

Lemma pop_min_none q : pop_min q = None -> q = [].
Proof.
  destruct q; [reflexivity|]. cbn. destruct (pop_min q) as [[? ?]|]; [destruct (key_ltb _ _)|]; discriminate.
Qed.

Section Adapt.
  Variable E : env.
  Notation sub := (e_sub E).
  Notation dist := (e_dist E).
  Notation offers := (e_offers E).
  Notation target := (e_target E).
  Notation src := (e_src E).
  Notation step_ok := (e_step_ok E).
  Notation succ_from := (succ_from E).
  Notation succ := (succ E).
  Notation cur_of := (cur_of E).
  Notation usable := (usable E).
  Notation valid_from := (valid_from E).
  Notation valid := (valid E).
  Notation complete := (complete E).
  Notation expand := (expand E).
  Notation search := (search E).
  Notation adapt_search := (adapt_search E).
  Notation order := (e_order E).

  Hypothesis order_perm : forall p l, Permutation (order p l) l.

  (* ================= basic facts on chains ================= *)
  Lemma cur_of_snoc p o : cur_of (p ++ [o]) = oto o.
  Proof. unfold Model.cur_of. rewrite rev_app_distr. reflexivity. Qed.

  Lemma valid_from_snoc pre p o :
    valid_from pre (p ++ [o]) = valid_from pre p && (usable (pre ++ p) o && existsb (offer_eqb o) offers).
  Proof.
    revert pre. induction p as [|x p IH]; intros pre; cbn.
    - rewrite app_nil_r, andb_true_r. reflexivity.
    - rewrite IH, <- app_assoc. cbn. rewrite <- !andb_assoc. reflexivity.
  Qed.
  Lemma succ_from_snoc pre p o : succ_from pre (p ++ [o]) = succ_from pre p && step_ok (pre ++ p) o.
  Proof.
    revert pre. induction p as [|x p IH]; intros pre; cbn.
    - rewrite app_nil_r, andb_true_r. reflexivity.
    - rewrite IH, <- app_assoc. cbn. rewrite <- !andb_assoc. reflexivity.
  Qed.
  Lemma valid_snoc p o : valid (p ++ [o]) = valid p && (usable p o && existsb (offer_eqb o) offers).
  Proof. apply (valid_from_snoc [] p o). Qed.
  Lemma succ_snoc p o : succ (p ++ [o]) = succ p && step_ok p o.
  Proof. apply (succ_from_snoc [] p o). Qed.

  Lemma in_offers_existsb o : In o offers <-> existsb (offer_eqb o) offers = true.
  Proof.
    rewrite existsb_exists. split.
    - intros H. exists o. split; [exact H|apply offer_eqb_refl].
    - intros (y & Hy & Ey). apply offer_eqb_spec in Ey. subst. exact Hy.
  Qed.

  Lemma valid_from_app pre p o : valid_from pre p = true -> usable (pre ++ p) o = true -> In o offers ->
    valid_from pre (p ++ [o]) = true.
  Proof.
    intros Hv Hu Hin. rewrite valid_from_snoc, Hv, Hu. cbn. apply in_offers_existsb. exact Hin.
  Qed.

  (* valid and succ are prefix-closed *)
  Lemma valid_from_prefix pre p1 p2 : valid_from pre (p1 ++ p2) = true -> valid_from pre p1 = true.
  Proof.
    revert pre. induction p1 as [|x p1 IH]; intros pre H; cbn in *; [reflexivity|].
    apply andb_true_iff in H. destruct H as [H1 H2]. rewrite H1. cbn. eapply IH. exact H2.
  Qed.
  Lemma succ_from_prefix pre p1 p2 : succ_from pre (p1 ++ p2) = true -> succ_from pre p1 = true.
  Proof.
    revert pre. induction p1 as [|x p1 IH]; intros pre H; cbn in *; [reflexivity|].
    apply andb_true_iff in H. destruct H as [H1 H2]. rewrite H1. cbn. eapply IH. exact H2.
  Qed.
  Lemma valid_firstn i Q : valid Q = true -> valid (firstn i Q) = true.
  Proof. intros H. rewrite <- (firstn_skipn i Q) in H. eapply valid_from_prefix. exact H. Qed.
  Lemma succ_firstn i Q : succ Q = true -> succ (firstn i Q) = true.
  Proof. intros H. rewrite <- (firstn_skipn i Q) in H. eapply succ_from_prefix. exact H. Qed.

  (* a valid chain uses every offer at most once and only registered offers *)
  Lemma mem_false_not_in o p : Model.mem o p = false -> ~ In o p.
  Proof.
    intros H Hin. unfold Model.mem in H.
    assert (existsb (offer_eqb o) p = true) as T by (apply existsb_exists; exists o; split; [exact Hin|apply offer_eqb_refl]).
    congruence.
  Qed.
  Lemma valid_from_nodup pre p : valid_from pre p = true ->
    NoDup p /\ (forall x, In x p -> ~ In x pre) /\ (forall x, In x p -> In x offers).
  Proof.
    revert pre. induction p as [|o p IH]; intros pre H; cbn in H.
    - split; [constructor|split; intros x []].
    - apply andb_true_iff in H. destruct H as [H1 H2]. apply andb_true_iff in H1. destruct H1 as [Hu Ho].
      destruct (IH _ H2) as (Hnd & Hpre & Hoff).
      unfold Model.usable in Hu. apply andb_true_iff in Hu. destruct Hu as [_ Hm].
      apply negb_true_iff in Hm. apply mem_false_not_in in Hm.
      split; [|split].
      + constructor; [|exact Hnd]. intros Hin. apply (Hpre _ Hin). apply in_or_app. right. left. reflexivity.
      + intros x [<-|Hx]; [exact Hm|]. intros Hin. apply (Hpre _ Hx). apply in_or_app. left. exact Hin.
      + intros x [<-|Hx]; [apply in_offers_existsb; exact Ho|apply Hoff; exact Hx].
  Qed.
  Lemma valid_length p : valid p = true -> length p <= length offers.
  Proof.
    intros H. destruct (valid_from_nodup [] p H) as (Hnd & _ & Hoff).
    apply NoDup_incl_length; [exact Hnd|exact Hoff].
  Qed.

  (* ================= soundness ================= *)
  Definition good_path (p : list offer) := valid p = true.
  Definition good_queue (q : list entry) :=
    Forall (fun e => good_path (snd e) /\ fst (fst (fst e)) = length (snd e)) q.

  Lemma complete_snoc p o : complete (p ++ [o]) = sub (oto o) target.
  Proof.
    unfold Model.complete. destruct (p ++ [o]) eqn:Eq; [destruct p; discriminate|].
    rewrite <- Eq, cur_of_snoc. reflexivity.
  Qed.

  Lemma expand_sound k p : good_path p -> fst (fst k) = length p ->
    forall es q cnt, (forall o, In o es -> usable p o = true /\ In o offers) -> good_queue q ->
    match expand k p es q cnt with
    | (Some np, _, _) => valid np = true /\ succ np = true /\ complete np = true
    | (None, q', _) => good_queue q'
    end.
  Proof.
    intros Hp Hk. induction es as [|o es IH]; intros q cnt Hes Hq; cbn [Model.expand]; [exact Hq|].
    destruct (Hes o (or_introl eq_refl)) as [Hu Hin].
    assert (valid (p ++ [o]) = true) as Hv by (apply valid_from_app; auto).
    destruct (sub (oto o) target) eqn:Hc.
    - destruct (succ (p ++ [o])) eqn:Hs.
      + repeat split; auto. rewrite complete_snoc. exact Hc.
      + apply IH; [intros; apply Hes; right; assumption|exact Hq].
    - destruct k as [[a m] c0]. apply IH; [intros; apply Hes; right; assumption|].
      constructor; [|exact Hq]. cbn. split; [exact Hv|]. cbn in Hk. rewrite app_length. cbn. lia.
  Qed.

  Lemma edges_ok p : forall o, In o (order p (filter (usable p) offers)) -> usable p o = true /\ In o offers.
  Proof.
    intros o Ho. apply (Permutation_in _ (order_perm _ _)) in Ho. apply filter_In in Ho. tauto.
  Qed.

  Theorem search_sound fuel : forall q cnt np, good_queue q -> search fuel q cnt = Found np ->
    valid np = true /\ succ np = true /\ complete np = true.
  Proof.
    induction fuel as [|f IH]; intros q cnt np Hq H; [discriminate|]. cbn [Model.search] in H.
    destruct (pop_min q) as [[[k p] rest]|] eqn:Eq; [|discriminate].
    pose proof (pop_min_in _ _ _ Eq) as P.
    assert (good_queue ((k, p) :: rest)) as Hq' by (unfold good_queue; rewrite P; exact Hq).
    inversion Hq' as [|? ? [Hp Hk] Hrest]; subst. cbn in Hp, Hk.
    pose proof (expand_sound k p Hp Hk (order p (filter (usable p) offers)) rest cnt (edges_ok p) Hrest) as S.
    destruct (expand k p _ rest cnt) as [[[np'|] q'] cnt'].
    - inversion H; subst. exact S.
    - eapply IH; [exact S|exact H].
  Qed.

  Lemma good_init : good_queue [((0, 0, 0), [])].
  Proof. constructor; [|constructor]. cbn. split; reflexivity. Qed.

  Corollary adapt_sound fuel np : adapt_search fuel = Found np ->
    valid np = true /\ succ np = true /\ complete np = true.
  Proof. apply search_sound. exact good_init. Qed.

  (* ================= completeness (never NotFound) and minimality ================= *)
  Lemma expand_len k p es : forall q cnt np q' cnt',
    expand k p es q cnt = (Some np, q', cnt') -> length np = S (length p).
  Proof.
    induction es as [|o es IH]; intros q cnt np q' cnt' H; cbn [Model.expand] in H; [discriminate|].
    destruct (sub (oto o) target).
    - destruct (succ (p ++ [o])); [inversion H; subst; rewrite app_length; cbn; lia|eapply IH; exact H].
    - destruct k as [[a m] c0]. eapply IH; exact H.
  Qed.

  Section Witness.
  Variable Q : list offer.
  Variable d0 : offer.
  Hypothesis Qvalid : valid Q = true.
  Hypothesis Qsucc : succ Q = true.
  Hypothesis Qcomplete : complete Q = true.
  (* Q is cut at its first complete prefix: no proper non-empty prefix is complete *)
  Hypothesis Qreduced : forall i, i < length Q -> i <> 0 -> complete (firstn i Q) = false.

  Definition Inv (q : list entry) : Prop := exists i k, i < length Q /\ In (k, firstn i Q) q.

  Lemma valid_from_nth pre p i : valid_from pre p = true -> i < length p ->
    usable (pre ++ firstn i p) (nth i p d0) = true /\ In (nth i p d0) offers.
  Proof.
    revert pre i. induction p as [|x p IH]; intros pre i Hv Hi; cbn in Hi; [lia|].
    cbn in Hv. apply andb_true_iff in Hv. destruct Hv as [Hv1 Hv2]. apply andb_true_iff in Hv1. destruct Hv1 as [Hu Hin].
    destruct i as [|i]; cbn.
    - rewrite app_nil_r. split; [exact Hu|]. apply in_offers_existsb. exact Hin.
    - replace (pre ++ x :: firstn i p) with ((pre ++ [x]) ++ firstn i p) by (rewrite <- app_assoc; reflexivity).
      apply IH; [exact Hv2|lia].
  Qed.

  Lemma firstn_S_snoc (p : list offer) i : i < length p -> firstn (S i) p = firstn i p ++ [nth i p d0].
  Proof.
    revert i. induction p as [|x p IH]; intros i Hi; cbn in Hi; [lia|].
    destruct i as [|i]; cbn; [reflexivity|]. f_equal. apply IH. lia.
  Qed.

  Lemma expand_keeps k p es : forall q cnt e,
    In e q -> match expand k p es q cnt with (Some _, _, _) => True | (None, q', _) => In e q' end.
  Proof.
    induction es as [|o es IH]; intros q cnt e Hin; cbn [Model.expand]; [exact Hin|].
    destruct (sub (oto o) target); [destruct (succ (p ++ [o])); [exact I|apply IH; exact Hin]|].
    destruct k as [[a m] c0]. apply IH. right. exact Hin.
  Qed.

  Lemma expand_witness k i : i < length Q -> forall es q cnt,
    In (nth i Q d0) es ->
    match expand k (firstn i Q) es q cnt with
    | (Some _, _, _) => True
    | (None, q', _) => S i < length Q /\ exists k', In (k', firstn (S i) Q) q'
    end.
  Proof.
    intros Hi. induction es as [|o es IH]; intros q cnt Hin; [destruct Hin|]. cbn [Model.expand].
    destruct Hin as [->|Hin].
    - rewrite <- (firstn_S_snoc Q i Hi).
      assert (sub (oto (nth i Q d0)) target = complete (firstn (S i) Q)) as Ec.
      { rewrite (firstn_S_snoc Q i Hi), complete_snoc. reflexivity. }
      rewrite Ec.
      destruct (Nat.eq_dec (S i) (length Q)) as [El|Nl].
      + rewrite El, firstn_all, Qcomplete, Qsucc. exact I.
      + rewrite Qreduced by lia. destruct k as [[a m] c0].
        pose proof (expand_keeps (a, m, c0) (firstn i Q) es
                      (((S a, m + dist (cur_of (firstn i Q)) (ofrom (nth i Q d0)), cnt), firstn (S i) Q) :: q) (S cnt)
                      _ (or_introl eq_refl)) as K.
        destruct (Model.expand _ _ _ es _ _) as [[[np|] q'] cnt']; [exact I|]. split; [lia|]. eexists. exact K.
    - destruct (sub (oto o) target); [destruct (succ (firstn i Q ++ [o])); [exact I|apply IH; exact Hin]|].
      destruct k as [[a m] c0]. apply IH. exact Hin.
  Qed.

  Theorem search_complete_minimal fuel : forall q cnt, good_queue q -> Inv q ->
    match search fuel q cnt with
    | Found np => length np <= length Q
    | NotFound => False
    | OutOfFuel => True
    end.
  Proof.
    induction fuel as [|f IH]; intros q cnt Hq (i & kw & Hi & Hw); [exact I|]. cbn [Model.search].
    destruct (pop_min q) as [[[k p] rest]|] eqn:Eq.
    2:{ apply pop_min_none in Eq. subst. destruct Hw. }
    pose proof (pop_min_in _ _ _ Eq) as P.
    assert (good_queue ((k, p) :: rest)) as Hq' by (unfold good_queue; rewrite P; exact Hq).
    inversion Hq' as [|? ? [Hp Hk] Hrest]; subst. cbn in Hp, Hk.
    apply (Permutation_in _ (Permutation_sym P)) in Hw.
    set (es := order p (filter (usable p) offers)).
    pose proof (expand_sound k p Hp Hk es rest cnt (edges_ok p) Hrest) as Snd.
    assert (length p <= i) as Hmin.
    { destruct Hw as [Ew|Hw].
      - inversion Ew; subst. rewrite firstn_length. lia.
      - pose proof (pop_min_least _ _ _ Eq _ Hw) as L. apply key_ltb_fst in L. cbn in L.
        rewrite Forall_forall in Hrest. destruct (Hrest _ Hw) as [_ Hkw]. cbn in Hkw.
        rewrite firstn_length in Hkw. lia. }
    destruct (expand k p es rest cnt) as [[[np|] q'] cnt'] eqn:Ex.
    - apply expand_len in Ex. lia.
    - apply IH; [exact Snd|].
      destruct Hw as [Ew|Hw].
      + inversion Ew; subst.
        pose proof (expand_witness kw i Hi es rest cnt) as Wn.
        assert (In (nth i Q d0) es) as Hin.
        { apply (Permutation_in _ (Permutation_sym (order_perm _ _))). apply filter_In.
          destruct (valid_from_nth [] Q i Qvalid Hi) as [Hu Ho]. cbn in Hu. tauto. }
        specialize (Wn Hin). rewrite Ex in Wn. destruct Wn as (Hlt & k' & Hk').
        exists (S i), k'. split; [exact Hlt|exact Hk'].
      + pose proof (expand_keeps k p es rest cnt _ Hw) as K. rewrite Ex in K.
        exists i, kw. split; [exact Hi|exact K].
  Qed.

  Corollary adapt_complete_minimal_reduced fuel : 0 < length Q ->
    match adapt_search fuel with Found np => length np <= length Q | NotFound => False | OutOfFuel => True end.
  Proof.
    intros HQ. apply search_complete_minimal.
    - exact good_init.
    - exists 0, (0, 0, 0). split; [exact HQ|]. left. reflexivity.
  Qed.
  End Witness.
End Adapt.

(* ================= the cut lemma: arbitrary chains ================= *)
Lemma least_true (P : nat -> bool) n : P n = true -> 1 <= n ->
  exists m, 1 <= m <= n /\ P m = true /\ forall j, 1 <= j < m -> P j = false.
Proof.
  induction n as [n IH] using lt_wf_ind. intros Hn H1.
  destruct (existsb P (seq 1 (n - 1))) eqn:Ex.
  - apply existsb_exists in Ex. destruct Ex as (j & Hj & Pj). apply in_seq in Hj.
    destruct (IH j ltac:(lia) Pj ltac:(lia)) as (m & Hm & Pm & Hl). exists m. split; [lia|split; assumption].
  - exists n. split; [lia|split; [exact Hn|]]. intros j Hj.
    destruct (P j) eqn:Pj; [|reflexivity].
    assert (existsb P (seq 1 (n - 1)) = true) as T.
    { apply existsb_exists. exists j. split; [apply in_seq; lia|exact Pj]. }
    congruence.
Qed.

Section Lift.
  Variable E : env.
  Hypothesis order_perm : forall p l, Permutation (e_order E p l) l.

  Lemma complete_nonempty Q : complete E Q = true -> 0 < length Q.
  Proof. destruct Q; [discriminate|cbn; lia]. Qed.

  (* every valid, all-succeeding, complete chain has a prefix with the same three properties
     none of whose proper non-empty prefixes is complete *)
  Lemma cut_lemma Q : valid E Q = true -> succ E Q = true -> complete E Q = true ->
    exists m, 1 <= m <= length Q /\
      valid E (firstn m Q) = true /\ succ E (firstn m Q) = true /\ complete E (firstn m Q) = true /\
      (forall i, i < length (firstn m Q) -> i <> 0 -> complete E (firstn i (firstn m Q)) = false).
  Proof.
    intros Hv Hs Hc. pose proof (complete_nonempty Q Hc) as Hl.
    destruct (least_true (fun i => complete E (firstn i Q)) (length Q)) as (m & Hm & Pm & Hleast).
    { rewrite firstn_all. exact Hc. }
    { lia. }
    exists m. split; [exact Hm|]. split; [apply valid_firstn; exact Hv|]. split; [apply succ_firstn; exact Hs|].
    split; [exact Pm|]. intros i Hi Hi0. rewrite firstn_length in Hi.
    rewrite firstn_firstn. replace (Nat.min i m) with i by lia. apply Hleast. lia.
  Qed.

  Theorem adapt_complete_minimal_any fuel Q :
    valid E Q = true -> succ E Q = true -> complete E Q = true ->
    match adapt_search E fuel with Found np => length np <= length Q | NotFound => False | OutOfFuel => True end.
  Proof.
    intros Hv Hs Hc. destruct (cut_lemma Q Hv Hs Hc) as (m & Hm & Hv' & Hs' & Hc' & Hred).
    pose proof (adapt_complete_minimal_reduced E order_perm (firstn m Q) {| oid_ := 0; ofrom := 0; oto := 0 |}
                  Hv' Hs' Hc' Hred fuel) as H.
    rewrite firstn_length in H. specialize (H ltac:(lia)).
    destruct (adapt_search E fuel); [lia|exact H|exact I].
  Qed.
End Lift.

(* ================= the brute-force enumeration of Law.v ================= *)
Section Enum.
  Variable E : env.

  Lemma chains_spec n p : In p (chains E n) <-> length p = n /\ valid E p = true /\ succ E p = true.
  Proof.
    revert p. induction n as [|n IH]; intros p; cbn [chains].
    - split.
      + intros [<-|[]]. repeat split.
      + intros (Hl & _ & _). destruct p; [left; reflexivity|discriminate].
    - rewrite in_flat_map. split.
      + intros (q & Hq & Hp). apply IH in Hq. destruct Hq as (Hl & Hv & Hs).
        apply in_map_iff in Hp. destruct Hp as (o & <- & Ho). apply filter_In in Ho. destruct Ho as [Hin Hb].
        apply andb_true_iff in Hb. destruct Hb as [Hu Hk].
        rewrite app_length, valid_snoc, succ_snoc, Hv, Hs, Hu, Hk. cbn.
        split; [lia|]. split; [|reflexivity]. apply in_offers_existsb. exact Hin.
      + intros (Hl & Hv & Hs).
        destruct (exists_last (l := p)) as (q & o & ->); [intros ->; discriminate|].
        rewrite app_length in Hl. cbn in Hl.
        rewrite valid_snoc in Hv. rewrite succ_snoc in Hs.
        apply andb_true_iff in Hv. destruct Hv as [Hv Hu]. apply andb_true_iff in Hu. destruct Hu as [Hu Ho].
        apply andb_true_iff in Hs. destruct Hs as [Hs Hk].
        exists q. split; [apply IH; repeat split; [lia|exact Hv|exact Hs]|].
        apply in_map_iff. exists o. split; [reflexivity|]. apply filter_In. split.
        * apply in_offers_existsb. exact Ho.
        * rewrite Hu, Hk. reflexivity.
  Qed.

  Lemma has_complete_spec n : has_complete E n = true <->
    exists p, length p = n /\ valid E p = true /\ succ E p = true /\ complete E p = true.
  Proof.
    unfold has_complete. rewrite existsb_exists. split.
    - intros (p & Hp & Hc). apply chains_spec in Hp. exists p. tauto.
    - intros (p & Hl & Hv & Hs & Hc). exists p. split; [apply chains_spec; tauto|exact Hc].
  Qed.

  Lemma find_len_some P k n m : k <= m < k + n -> P m = true -> (forall j, k <= j < m -> P j = false) ->
    find_len P k n = Some m.
  Proof.
    revert k. induction n as [|n IH]; intros k Hm Pm Hl; [lia|]. cbn.
    destruct (Nat.eq_dec k m) as [->|Hne]; [rewrite Pm; reflexivity|].
    rewrite (Hl k) by lia. apply IH; [lia|exact Pm|]. intros j Hj. apply Hl. lia.
  Qed.
  Lemma find_len_none P k n : (forall j, k <= j < k + n -> P j = false) -> find_len P k n = None.
  Proof.
    revert k. induction n as [|n IH]; intros k Hl; [reflexivity|]. cbn.
    rewrite (Hl k) by lia. apply IH. intros j Hj. apply Hl. lia.
  Qed.

  (* min_len when a chain of length m exists and no shorter one *)
  Lemma min_len_some m : has_complete E m = true -> 1 <= m ->
    (forall j, 1 <= j < m -> has_complete E j = false) -> min_len E = Some m.
  Proof.
    intros Hm H1 Hl. unfold min_len. apply find_len_some; [|exact Hm|exact Hl].
    apply has_complete_spec in Hm. destruct Hm as (p & Hp & Hv & _). apply valid_length in Hv. lia.
  Qed.
  Lemma min_len_none : (forall p, valid E p = true -> succ E p = true -> complete E p = true -> False) ->
    min_len E = None.
  Proof.
    intros H. unfold min_len. apply find_len_none. intros j _.
    destruct (has_complete E j) eqn:Hc; [|reflexivity]. apply has_complete_spec in Hc.
    destruct Hc as (p & _ & Hv & Hs & Hc). destruct (H p Hv Hs Hc).
  Qed.
End Enum.

(* ================= single-step specificity ================= *)
Section Specific.
  Variable E : env.
  Hypothesis order_perm : forall p l, Permutation (e_order E p l) l.
  (* the edge sort of the FIRST expansion never puts a better edge behind a worse one *)
  Definition no_inversion : Prop :=
    forall l1 o1 l2 o2 l3, e_order E [] (filter (usable E []) (e_offers E)) = l1 ++ o1 :: l2 ++ o2 :: l3 ->
                           better E o2 o1 = false.
  Hypothesis order_sorted : no_inversion.

  Lemma expand_first k p es : forall q cnt np q' cnt',
    expand E k p es q cnt = (Some np, q', cnt') ->
    exists l1 o l2, es = l1 ++ o :: l2 /\ np = p ++ [o] /\
      forall x, In x l1 -> e_sub E (oto x) (e_target E) && succ E (p ++ [x]) = false.
  Proof.
    induction es as [|o es IH]; intros q cnt np q' cnt' H; cbn [expand] in H; [discriminate|].
    destruct (e_sub E (oto o) (e_target E)) eqn:Hc.
    - destruct (succ E (p ++ [o])) eqn:Hs.
      + inversion H; subst. exists [], o, es. split; [reflexivity|split; [reflexivity|intros x []]].
      + destruct (IH _ _ _ _ _ H) as (l1 & o' & l2 & -> & -> & Hl).
        exists (o :: l1), o', l2. split; [reflexivity|split; [reflexivity|]].
        intros x [<-|Hx]; [rewrite Hc, Hs; reflexivity|apply Hl; exact Hx].
    - destruct k as [[a m] c0].
      destruct (IH _ _ _ _ _ H) as (l1 & o' & l2 & -> & -> & Hl).
      exists (o :: l1), o', l2. split; [reflexivity|split; [reflexivity|]].
      intros x [<-|Hx]; [rewrite Hc; reflexivity|apply Hl; exact Hx].
  Qed.

  Definition long_queue (q : list entry) := Forall (fun e : entry => 1 <= length (snd e)) q.

  Lemma expand_long k p es : forall q cnt, long_queue q ->
    match expand E k p es q cnt with (Some _, _, _) => True | (None, q', _) => long_queue q' end.
  Proof.
    induction es as [|o es IH]; intros q cnt Hq; cbn [expand]; [exact Hq|].
    destruct (e_sub E (oto o) (e_target E)); [destruct (succ E (p ++ [o])); [exact I|apply IH; exact Hq]|].
    destruct k as [[a m] c0]. apply IH. constructor; [|exact Hq]. cbn. rewrite app_length. cbn. lia.
  Qed.

  Lemma search_long fuel : forall q cnt np, long_queue q -> search E fuel q cnt = Found np -> 2 <= length np.
  Proof.
    induction fuel as [|f IH]; intros q cnt np Hq H; [discriminate|]. cbn [search] in H.
    destruct (pop_min q) as [[[k p] rest]|] eqn:Eq; [|discriminate].
    pose proof (pop_min_in _ _ _ Eq) as P.
    assert (long_queue ((k, p) :: rest)) as Hq' by (unfold long_queue; rewrite P; exact Hq).
    inversion Hq' as [|? ? Hp Hrest]; subst. cbn in Hp.
    pose proof (expand_long k p (e_order E p (filter (usable E p) (e_offers E))) rest cnt Hrest) as L.
    destruct (expand E k p _ rest cnt) as [[[np'|] q'] cnt'] eqn:Ex.
    - inversion H; subst. apply expand_len in Ex. lia.
    - eapply IH; [exact L|exact H].
  Qed.

  Lemma better_irrefl o : better E o o = false.
  Proof.
    unfold better, strict_sub. rewrite Nat.ltb_irrefl. cbn.
    destruct (e_sub E (ofrom o) (ofrom o)); cbn; rewrite ?andb_false_r; reflexivity.
  Qed.

  Theorem single_step_specific fuel o : adapt_search E fuel = Found [o] -> single_step_ok E o = true.
  Proof.
    intros H. destruct fuel as [|f]; [discriminate|].
    unfold adapt_search in H. cbn [search pop_min] in H.
    set (es := e_order E [] (filter (usable E []) (e_offers E))) in *.
    destruct (expand E (0, 0, 0) [] es [] 1) as [[[np|] q'] cnt'] eqn:Ex.
    2:{ pose proof (expand_long (0, 0, 0) [] es [] 1 (Forall_nil _)) as L. rewrite Ex in L.
        apply (search_long f q' cnt' [o] L) in H. cbn in H. lia. }
    inversion H; subst np. clear H.
    destruct (expand_first _ _ _ _ _ _ _ _ Ex) as (l1 & o0 & l2 & Hes & Hnp & Hl1).
    cbn in Hnp. inversion Hnp; subst o0. clear Hnp.
    unfold single_step_ok. apply forallb_forall. intros o' Hin'. apply negb_true_iff.
    destruct (single_candidate E o') eqn:Hc; [cbn|reflexivity].
    unfold single_candidate in Hc. apply andb_true_iff in Hc. destruct Hc as [Hc Hk].
    apply andb_true_iff in Hc. destruct Hc as [Hu Ht].
    assert (In o' es) as Hes'.
    { apply (Permutation_in _ (Permutation_sym (order_perm _ _))). apply filter_In. split; assumption. }
    rewrite Hes in Hes'. apply in_app_or in Hes'. destruct Hes' as [H1|[<-|H2]].
    - specialize (Hl1 _ H1). cbn in Hl1. unfold succ in Hl1. cbn in Hl1. rewrite Ht, Hk in Hl1. discriminate.
    - apply better_irrefl.
    - apply in_split in H2. destruct H2 as (l2a & l2b & ->).
      eapply (order_sorted l1 o l2a o' l2b). exact Hes.
  Qed.
End Specific.

(* ================= the whole law, of the model ================= *)
Section ModelLaw.
  Variable E : env.
  Hypothesis order_perm : forall p l, Permutation (e_order E p l) l.

  Definition verdict_of (r : aresult) : verdict :=
    match r with RSelf => DSelf | RAdapter p => DChain p | RNone => DNo | RFuel => DBad 8%Z end.

  Lemma min_len_found fuel p : adapt_search E fuel = Found p -> min_len E = Some (length p).
  Proof.
    intros H. destruct (adapt_sound E order_perm fuel p H) as (Hv & Hs & Hc).
    apply min_len_some.
    - apply has_complete_spec. exists p. tauto.
    - apply (complete_nonempty E p Hc).
    - intros j Hj. destruct (has_complete E j) eqn:Hj'; [|reflexivity].
      apply has_complete_spec in Hj'. destruct Hj' as (Q & Hl & Hv' & Hs' & Hc').
      pose proof (adapt_complete_minimal_any E order_perm fuel Q Hv' Hs' Hc') as M. rewrite H in M. lia.
  Qed.
  Lemma min_len_notfound fuel : adapt_search E fuel = NotFound -> min_len E = None.
  Proof.
    intros H. apply min_len_none. intros Q Hv Hs Hc.
    pose proof (adapt_complete_minimal_any E order_perm fuel Q Hv Hs Hc) as M. rewrite H in M. exact M.
  Qed.

  (* every clause except the single-step specificity one holds for any permutation as edge order *)
  Definition residue (r : aresult) : list Z :=
    match r with RAdapter [o] => chk 6%Z (single_step_ok E o) | _ => [] end.

  Lemma law_verdict_adapt fuel : adapt E fuel <> RFuel ->
    law_verdict E (verdict_of (adapt E fuel)) = residue (adapt E fuel).
  Proof.
    unfold adapt. destruct (e_sub E (e_src E) (e_target E)) eqn:Hp.
    - intros _. cbn. rewrite Hp. reflexivity.
    - destruct (adapt_search E fuel) as [p| |] eqn:Hs; intros Hne.
      + cbn [verdict_of law_verdict residue]. rewrite Hp. cbn [negb orb chk app].
        rewrite (min_len_found fuel p Hs). cbn [is_some chk app].
        destruct (adapt_sound E order_perm fuel p Hs) as (Hv & Hsu & Hc). rewrite Hv, Hsu, Hc. cbn [andb chk app].
        unfold opt_nat_eqb. rewrite Nat.eqb_refl. cbn [chk app].
        destruct p as [|o [|o2 p]]; reflexivity.
      + cbn. rewrite Hp. cbn. rewrite (min_len_notfound fuel Hs). reflexivity.
      + congruence.
  Qed.

  Lemma law_yes fuel : match adapt E fuel with RSelf | RAdapter _ => law_verdict E DYes = [] | _ => True end.
  Proof.
    unfold adapt. destruct (e_sub E (e_src E) (e_target E)) eqn:Hp.
    - cbn. rewrite Hp. reflexivity.
    - destruct (adapt_search E fuel) as [p| |] eqn:Hs; try exact I.
      cbn. rewrite Hp, (min_len_found fuel p Hs). reflexivity.
  Qed.

  Lemma adapt_self_iff fuel : adapt E fuel = RSelf <-> e_sub E (e_src E) (e_target E) = true.
  Proof.
    unfold adapt. destruct (e_sub E (e_src E) (e_target E)); [tauto|].
    destruct (adapt_search E fuel); split; discriminate.
  Qed.

  Section Generic.
    Variable R : list Z -> Prop.
    Hypothesis R_nil : R [].
    Hypothesis R_adapt : forall fuel, adapt E fuel <> RFuel -> R (law_verdict E (verdict_of (adapt E fuel))).

    Lemma model_law_gen fuel a : run_api E fuel a <> OOutOfFuel -> R (law E a (run_api E fuel a)).
    Proof.
      intros Hne.
      pose proof (R_adapt fuel) as L. pose proof (law_yes fuel) as Y.
      unfold run_api in *.
      destruct a as [| | | |mode| | |variant]; cbn [law].
      - destruct (adapt E fuel); try (apply L; discriminate); congruence.
      - destruct (adapt E fuel); try (apply L; discriminate); congruence.
      - destruct (adapt E fuel); try (apply L; discriminate); congruence.
      - destruct (adapt E fuel); cbn in *; try (rewrite Y; exact R_nil); try (apply L; discriminate); congruence.
      - destruct mode as [|[|mode]].
        + cbn. unfold law_mode0. destruct (e_sub E (e_src E) (e_target E)) eqn:Hp; cbn; rewrite ?Hp; exact R_nil.
        + cbn [validate_adapt] in *. destruct (adapt E fuel) eqn:Ha; cbn in *; try (apply L; discriminate); try congruence.
          destruct (e_sub E (e_src E) (e_target E)) eqn:Hp; cbn.
          * unfold adapt in Ha. rewrite Hp in Ha. discriminate.
          * cbn; rewrite ?Hp; apply L; discriminate.
        + cbn [validate_adapt] in *. destruct (adapt E fuel) eqn:Ha; cbn in *; try (apply L; discriminate); try congruence.
          destruct (e_sub E (e_src E) (e_target E)) eqn:Hp; cbn.
          * unfold adapt in Ha. rewrite Hp in Ha. discriminate.
          * cbn; rewrite ?Hp; apply L; discriminate.
      - cbn [validate_adapt] in *. destruct (adapt E fuel) eqn:Ha; cbn in *; try (apply L; discriminate); try congruence.
        destruct (e_sub E (e_src E) (e_target E)) eqn:Hp; cbn.
        + unfold adapt in Ha. rewrite Hp in Ha. discriminate.
        + cbn; rewrite ?Hp; apply L; discriminate.
      - cbn [validate_adapt] in *. destruct (adapt E fuel) eqn:Ha; cbn in *; try (apply L; discriminate); try congruence.
        destruct (e_sub E (e_src E) (e_target E)) eqn:Hp; cbn.
        + unfold adapt in Ha. rewrite Hp in Ha. discriminate.
        + cbn; rewrite ?Hp; apply L; discriminate.
      - (* compound trait *)
        assert (adapt E fuel = RNone -> e_sub E (e_src E) (e_target E) = false) as Hn.
        { intros Ha. destruct (e_sub E (e_src E) (e_target E)) eqn:Hp; [|reflexivity].
          unfold adapt in Ha. rewrite Hp in Ha. discriminate. }
        destruct variant as [|[|variant]]; cbn [validate_adapt] in *;
          (destruct (adapt E fuel) as [|p| |] eqn:Ha;
           [cbn in *; apply L; discriminate
           |cbn [decode_either value_eqb of_value]; rewrite ?offers_eqb_refl; cbn [of_value]; apply L; discriminate
           |pose proof (Hn eq_refl) as Hp; rewrite Hp in *; cbn in *; rewrite ?Hp in *; apply L; discriminate
           |congruence]).
    Qed.
  End Generic.

  (* with a sorted first expansion: the whole law *)
  Theorem model_law : no_inversion E ->
    forall fuel a, run_api E fuel a <> OOutOfFuel -> law E a (run_api E fuel a) = [].
  Proof.
    intros Hs fuel a. apply (model_law_gen (fun l => l = [])); [reflexivity|].
    intros f Hf. rewrite (law_verdict_adapt f Hf). unfold adapt in *.
    destruct (e_sub E (e_src E) (e_target E)); [reflexivity|].
    destruct (adapt_search E f) as [[|o [|o2 p]]| |] eqn:Ha; try reflexivity.
    cbn. rewrite (single_step_specific E order_perm Hs f o Ha). reflexivity.
  Qed.

  (* for ANY permutation as edge order (in particular CPython's sort with the partial comparator):
     every clause but the specificity one *)
  Theorem model_law_except_specificity :
    forall fuel a, run_api E fuel a <> OOutOfFuel -> forall c, In c (law E a (run_api E fuel a)) -> c = 6%Z.
  Proof.
    intros fuel a. apply (model_law_gen (fun l => forall c, In c l -> c = 6%Z)); [intros c []|].
    intros f Hf. rewrite (law_verdict_adapt f Hf). unfold residue.
    destruct (adapt E f) as [|[|o [|o2 p]]| |]; try (intros c []).
    destruct (single_step_ok E o); cbn; [intros c []|intros c [<-|[]]; reflexivity].
  Qed.
End ModelLaw.

(* ================= the executable instance: CPython's sort is a permutation ================= *)
Section PySortPerm.
  Context {A : Type}.
  Variable lt : A -> A -> bool.

  Lemma insert_at_perm pre i (x : A) : Permutation (insert_at pre i x) (x :: pre).
  Proof.
    unfold insert_at. rewrite <- (firstn_skipn i pre) at 3. symmetry. apply Permutation_middle.
  Qed.
  Lemma binarysort_perm rest : forall pre, Permutation (binarysort lt pre rest) (pre ++ rest).
  Proof.
    induction rest as [|x rest IH]; intros pre; cbn [binarysort]; [rewrite app_nil_r; reflexivity|].
    rewrite IH. rewrite insert_at_perm. cbn. apply Permutation_middle.
  Qed.
  Lemma run_asc_app l : forall last, fst (run_asc lt last l) ++ snd (run_asc lt last l) = l.
  Proof.
    induction l as [|x l IH]; intros last; cbn; [reflexivity|].
    destruct (lt x last); [reflexivity|]. specialize (IH x). destruct (run_asc lt x l). cbn in *. f_equal. exact IH.
  Qed.
  Lemma run_desc_app l : forall last, fst (run_desc lt last l) ++ snd (run_desc lt last l) = l.
  Proof.
    induction l as [|x l IH]; intros last; cbn; [reflexivity|].
    destruct (lt x last); [|reflexivity]. specialize (IH x). destruct (run_desc lt x l). cbn in *. f_equal. exact IH.
  Qed.
  Lemma py_sort_perm l : Permutation (py_sort lt l) l.
  Proof.
    destruct l as [|a [|b l]]; cbn [py_sort]; try reflexivity.
    destruct (lt b a).
    - pose proof (run_desc_app l b) as H. destruct (run_desc lt b l) as [r t]. cbn in H.
      rewrite binarysort_perm. rewrite <- Permutation_rev. rewrite <- H. reflexivity.
    - pose proof (run_asc_app l b) as H. destruct (run_asc lt b l) as [r t]. cbn in H.
      rewrite binarysort_perm. rewrite <- H. reflexivity.
  Qed.
End PySortPerm.

Lemma filter_partition_perm {A} (f : A -> bool) l :
  Permutation (filter f l ++ filter (fun x => negb (f x)) l) l.
Proof.
  induction l as [|x l IH]; cbn; [reflexivity|].
  destruct (f x); cbn; [apply perm_skip; exact IH|].
  rewrite <- Permutation_middle. apply perm_skip. exact IH.
Qed.
Lemma group_by_perm fs : forall l, Permutation (group_by fs l) l.
Proof.
  induction fs as [|f fs IH]; intros l; cbn; [reflexivity|].
  rewrite IH. apply (filter_partition_perm (fun o => ofrom o =? f)).
Qed.
Lemma order_py_perm sub dist all cur l : Permutation (order_py sub dist all cur l) l.
Proof.
  unfold order_py. rewrite py_sort_perm. rewrite map_map. cbn. rewrite map_id. apply group_by_perm.
Qed.
Lemma env_of_order_perm c : forall p l, Permutation (e_order (env_of c) p l) l.
Proof. intros p l. cbn. apply order_py_perm. Qed.

(* ================= a total sort satisfies [no_inversion] (non-vacuity of its hypothesis) ================= *)
Section TotalSort.
  Context {A : Type}.
  Variable le : A -> A -> bool.
  Hypothesis le_total : forall x y, le x y = true \/ le y x = true.
  Hypothesis le_trans : forall x y z, le x y = true -> le y z = true -> le x z = true.

  Lemma insert_by_perm x l : Permutation (insert_by le x l) (x :: l).
  Proof.
    induction l as [|y l IH]; cbn; [reflexivity|]. destruct (le x y); [reflexivity|].
    rewrite IH. apply perm_swap.
  Qed.
  Lemma isort_perm l : Permutation (isort le l) l.
  Proof. induction l as [|x l IH]; cbn; [reflexivity|]. rewrite insert_by_perm. apply perm_skip. exact IH. Qed.

  Fixpoint sorted_by (l : list A) : Prop :=
    match l with [] => True | x :: l' => (forall y, In y l' -> le x y = true) /\ sorted_by l' end.
  Lemma insert_by_sorted x l : sorted_by l -> sorted_by (insert_by le x l).
  Proof.
    induction l as [|y l IH]; intros Hs; cbn; [split; [intros ? []|exact I]|].
    destruct Hs as [Hy Hs]. destruct (le x y) eqn:Hxy.
    - split; [|split; assumption]. intros z [<-|Hz]; [exact Hxy|]. eapply le_trans; [exact Hxy|apply Hy; exact Hz].
    - split; [|apply IH; exact Hs]. intros z Hz. apply (Permutation_in _ (insert_by_perm x l)) in Hz.
      destruct Hz as [<-|Hz]; [|apply Hy; exact Hz]. destruct (le_total x y) as [H|H]; [congruence|exact H].
  Qed.
  Lemma isort_sorted l : sorted_by (isort le l).
  Proof. induction l as [|x l IH]; cbn; [exact I|apply insert_by_sorted; exact IH]. Qed.
  Lemma sorted_by_split l1 o1 l2 o2 l3 : sorted_by (l1 ++ o1 :: l2 ++ o2 :: l3) -> le o1 o2 = true.
  Proof.
    induction l1 as [|x l1 IH]; cbn.
    - intros [H _]. apply H. apply in_or_app. right. left. reflexivity.
    - intros [_ H]. apply IH. exact H.
  Qed.
End TotalSort.

(* edges ordered by (MRO distance, number of registered from-protocols the from-protocol is a subclass
   of — more is more specific): a total preorder that respects [better] when issubclass is reflexive
   and transitive.  This instance shows that the hypothesis of single_step_specific is satisfiable. *)
Section RankOrder.
  Variable E : env.
  Hypothesis sub_refl : forall a, e_sub E a a = true.
  Hypothesis sub_trans : forall a b c, e_sub E a b = true -> e_sub E b c = true -> e_sub E a c = true.

  Definition rank (t : ty) : nat := length (filter (fun u => e_sub E t u) (map ofrom (e_offers E))).
  Definition edge_key (o : offer) : nat * nat := (e_dist E (e_src E) (ofrom o), rank (ofrom o)).
  Definition edge_le (a b : offer) : bool :=
    (fst (edge_key a) <? fst (edge_key b))
    || ((fst (edge_key a) =? fst (edge_key b)) && (snd (edge_key b) <=? snd (edge_key a))).
  Definition order_rank (p l : list offer) : list offer := isort edge_le l.
  Definition with_order_rank : env :=
    {| e_sub := e_sub E; e_dist := e_dist E; e_offers := e_offers E; e_target := e_target E; e_src := e_src E;
       e_step_ok := e_step_ok E; e_order := order_rank |}.

  Lemma edge_le_total x y : edge_le x y = true \/ edge_le y x = true.
  Proof. unfold edge_le. lia. Qed.
  Lemma edge_le_trans x y z : edge_le x y = true -> edge_le y z = true -> edge_le x z = true.
  Proof. unfold edge_le. lia. Qed.

  Lemma filter_length_le {A} (f g : A -> bool) l : (forall x, f x = true -> g x = true) ->
    length (filter f l) <= length (filter g l).
  Proof.
    intros H. induction l as [|x l IH]; cbn; [lia|].
    destruct (f x) eqn:Hf; [rewrite (H _ Hf); cbn; lia|destruct (g x); cbn; lia].
  Qed.
  Lemma filter_length_lt {A} (f g : A -> bool) l w : (forall x, f x = true -> g x = true) ->
    In w l -> f w = false -> g w = true -> length (filter f l) < length (filter g l).
  Proof.
    intros H. induction l as [|x l IH]; intros Hin Hf Hg; [destruct Hin|]. cbn.
    destruct Hin as [->|Hin].
    - rewrite Hf, Hg. cbn. pose proof (filter_length_le f g l H). lia.
    - specialize (IH Hin Hf Hg). destruct (f x) eqn:Hfx; [rewrite (H _ Hfx); cbn; lia|destruct (g x); cbn; lia].
  Qed.

  (* a strictly more specific registered from-protocol has a strictly larger rank *)
  Lemma strict_sub_rank a b : In a (map ofrom (e_offers E)) -> strict_sub E a b = true -> rank b < rank a.
  Proof.
    intros Ha Hs. unfold strict_sub in Hs. apply andb_true_iff in Hs. destruct Hs as [Hab Hba].
    apply negb_true_iff in Hba. unfold rank.
    apply (filter_length_lt _ _ _ a).
    - intros u Hu. eapply sub_trans; [exact Hab|exact Hu].
    - exact Ha.
    - exact Hba.
    - apply sub_refl.
  Qed.

  Lemma order_rank_perm : forall p l, Permutation (e_order with_order_rank p l) l.
  Proof. intros p l. cbn. apply isort_perm. Qed.

  Lemma order_rank_no_inversion : no_inversion with_order_rank.
  Proof.
    unfold no_inversion. cbn [e_order with_order_rank]. unfold order_rank. intros l1 o1 l2 o2 l3 H.
    pose proof (isort_sorted edge_le edge_le_total edge_le_trans
                  (filter (usable with_order_rank []) (e_offers with_order_rank))) as S.
    rewrite H in S. apply sorted_by_split in S.
    assert (In o2 (e_offers E)) as Hin.
    { assert (In o2 (isort edge_le (filter (usable with_order_rank []) (e_offers with_order_rank)))) as Hi
        by (rewrite H; apply in_or_app; right; right; apply in_or_app; right; left; reflexivity).
      apply (Permutation_in _ (isort_perm edge_le _)) in Hi. apply filter_In in Hi. apply Hi. }
    unfold better. cbn [e_dist e_src with_order_rank].
    destruct (strict_sub with_order_rank (ofrom o2) (ofrom o1)) eqn:Hs.
    - pose proof (strict_sub_rank (ofrom o2) (ofrom o1) (in_map ofrom _ _ Hin) Hs) as R.
      unfold edge_le, edge_key in S. cbn [fst snd] in S. lia.
    - unfold edge_le, edge_key in S. cbn [fst snd] in S. lia.
  Qed.
End RankOrder.

(* ================= entry points ================= *)
Section Api.
  Variable E : env.
  Hypothesis order_perm : forall p l, Permutation (e_order E p l) l.
  Notation provides := (e_sub E (e_src E) (e_target E)).
  Definition chain_exists : Prop := exists Q, valid E Q = true /\ succ E Q = true /\ complete E Q = true.

  Lemma adapt_adapter_sound fuel p : adapt E fuel = RAdapter p ->
    provides = false /\ valid E p = true /\ succ E p = true /\ complete E p = true.
  Proof.
    unfold adapt. destruct provides; [discriminate|]. destruct (adapt_search E fuel) eqn:H; try discriminate.
    intros [= <-]. split; [reflexivity|]. apply (adapt_sound E order_perm fuel _ H).
  Qed.

  Lemma adapt_complete_minimal fuel Q : provides = false ->
    valid E Q = true -> succ E Q = true -> complete E Q = true ->
    adapt E fuel <> RNone /\ adapt E fuel <> RSelf /\ forall p, adapt E fuel = RAdapter p -> length p <= length Q.
  Proof.
    intros Hp Hv Hs Hc. pose proof (adapt_complete_minimal_any E order_perm fuel Q Hv Hs Hc) as M.
    unfold adapt. rewrite Hp. destruct (adapt_search E fuel) as [p| |].
    - split; [discriminate|split; [discriminate|]]. intros p0 [= <-]. exact M.
    - destruct M.
    - split; [discriminate|split; [discriminate|]]. intros p0 [=].
  Qed.

  Lemma adapt_none_iff fuel : adapt E fuel <> RFuel ->
    (adapt E fuel = RNone <-> provides = false /\ ~ chain_exists).
  Proof.
    intros Hf. split.
    - intros Hn. assert (provides = false) as Hp.
      { destruct provides eqn:Hp; [|reflexivity]. apply (proj2 (adapt_self_iff E fuel)) in Hp. rewrite Hp in Hn. discriminate. }
      split; [exact Hp|]. intros (Q & Hv & Hs & Hc).
      destruct (adapt_complete_minimal fuel Q Hp Hv Hs Hc) as [H _]. contradiction.
    - intros [Hp Hno]. destruct (adapt E fuel) as [|p| |] eqn:Ha; [| |reflexivity|congruence].
      + apply (proj1 (adapt_self_iff E fuel)) in Ha. congruence.
      + destruct (adapt_adapter_sound fuel p Ha) as (_ & Hv & Hs & Hc). exfalso. apply Hno. exists p. tauto.
  Qed.

  (* failure is reported as AdaptationError / the supplied default / False / TraitError / the trait's default,
     and in no other case *)
  Lemma none_iff_default_or_error fuel : adapt E fuel <> RFuel ->
    let none := provides = false /\ ~ chain_exists in
    (none <-> run_api E fuel ApiAdapt = OAdaptationError) /\
    (none <-> run_api E fuel ApiAdaptDefault = OValue VDefault) /\
    (none <-> run_api E fuel ApiSupports = OBool false) /\
    (none <-> run_api E fuel (TraitInstance 1) = OTraitError) /\
    (none <-> run_api E fuel (TraitInstance 2) = OStored VDefault None) /\
    (none <-> run_api E fuel TraitSupports = OTraitError) /\
    (none <-> run_api E fuel TraitAdaptsTo = OTraitError).
  Proof.
    intros Hf none. pose proof (adapt_none_iff fuel Hf) as N. fold none in N.
    assert (adapt E fuel = RNone -> provides = false) as Hp by (intros H; apply N in H; apply H).
    unfold run_api. cbn [validate_adapt].
    destruct (adapt E fuel) eqn:Ha; try congruence.
    - assert (~ none) as Nn by (intros H; apply N in H; discriminate H).
      split; [|split; [|split; [|split; [|split; [|split]]]]]; (split; [intros H0; contradiction|discriminate]).
    - assert (~ none) as Nn by (intros H; apply N in H; discriminate H).
      split; [|split; [|split; [|split; [|split; [|split]]]]]; (split; [intros H0; contradiction|discriminate]).
    - assert none as Nn by (apply N; reflexivity). rewrite (Hp eq_refl).
      split; [|split; [|split; [|split; [|split; [|split]]]]]; (split; [intros _; reflexivity|intros _; exact Nn]).
  Qed.

  (* Supports and AdaptsTo accept exactly the values adapt() adapts, and hold exactly adapt()'s result:
     Supports as the trait value (shadow = the original), AdaptsTo as the shadow (value = the original) *)
  Lemma supports_adaptsto_same fuel :
    (forall v, run_api E fuel ApiAdapt = OValue v <-> run_api E fuel TraitSupports = OStored v (Some VSelf)) /\
    (forall v, run_api E fuel ApiAdapt = OValue v <-> run_api E fuel TraitAdaptsTo = OStored VSelf (Some v)) /\
    (run_api E fuel ApiAdapt = OAdaptationError <-> run_api E fuel TraitSupports = OTraitError) /\
    (run_api E fuel ApiAdapt = OAdaptationError <-> run_api E fuel TraitAdaptsTo = OTraitError) /\
    (forall v, run_api E fuel ApiAdapt = OValue v <-> run_api E fuel (TraitInstance 1) = OStored v None).
  Proof.
    assert (adapt E fuel = RNone -> provides = false) as Hp.
    { intros H. destruct provides eqn:Hq; [|reflexivity]. apply (proj2 (adapt_self_iff E fuel)) in Hq. congruence. }
    unfold run_api. cbn [validate_adapt].
    destruct (adapt E fuel) eqn:Ha; try (rewrite (Hp eq_refl));
      repeat split; try (intros [= <-]; reflexivity); try discriminate; try reflexivity.
  Qed.

  Lemma self_when_provides fuel : provides = true ->
    adapt E fuel = RSelf /\ run_api E fuel ApiAdapt = OValue VSelf /\ run_api E fuel ApiAdaptDefault = OValue VSelf
    /\ run_api E fuel ApiSupports = OBool true
    /\ run_api E fuel TraitSupports = OStored VSelf (Some VSelf)
    /\ run_api E fuel TraitAdaptsTo = OStored VSelf (Some VSelf)
    /\ forall m, run_api E fuel (TraitInstance m) = OStored VSelf None.
  Proof.
    intros Hp. pose proof (proj2 (adapt_self_iff E fuel) Hp) as Ha. unfold run_api. rewrite Ha, Hp.
    repeat split. intros [|[|m]]; reflexivity.
  Qed.

  Lemma single_step_reading fuel o : no_inversion E -> adapt E fuel = RAdapter [o] ->
    forall o', In o' (e_offers E) -> usable E [] o' = true -> e_sub E (oto o') (e_target E) = true ->
      e_step_ok E [] o' = true ->
      e_dist E (e_src E) (ofrom o) <= e_dist E (e_src E) (ofrom o') /\
      (e_dist E (e_src E) (ofrom o) = e_dist E (e_src E) (ofrom o') -> strict_sub E (ofrom o') (ofrom o) = false).
  Proof.
    intros Hs Ha o' Hin Hu Ht Hk.
    assert (adapt_search E fuel = Found [o]) as Hf.
    { unfold adapt in Ha. destruct provides; [discriminate|]. destruct (adapt_search E fuel); congruence. }
    pose proof (single_step_specific E order_perm Hs fuel o Hf) as S.
    unfold single_step_ok in S. rewrite forallb_forall in S. specialize (S o' Hin).
    unfold single_candidate in S. rewrite Hu, Ht, Hk in S. cbn in S. apply negb_true_iff in S.
    unfold better in S. apply orb_false_iff in S. destruct S as [S1 S2].
    apply Nat.ltb_ge in S1. split; [exact S1|]. intros Heq. rewrite Heq, Nat.eqb_refl in S2. exact S2.
  Qed.
End Api.

(* ================= the recorded defect of the single-step clause (F21) ================= *)
(* T0=X, T1=A, T2=C(A), T3=B, T4=S(X, C, B), T5=target; offers A->T5, B->T5, C->T5 registered in this order.
   All three MRO distances from S are 0 (X, first in the MRO, provides none of them); B is incomparable to A and C,
   so CPython's insertion leaves the order A, B, C and the offer for the base type A is chosen. *)
Definition f17_config : config :=
  let t := true in let f := false in
  {| c_sub := [[t;f;f;f;f;f]; [f;t;f;f;f;f]; [f;t;t;f;f;f]; [f;f;f;t;f;f]; [t;t;t;t;t;f]; [f;f;f;f;f;t]];
     c_mro := [[0]; [1]; [2;1]; [3]; [4;0;2;1;3]; [5]];
     c_offers := [(1, 5, FAlways); (3, 5, FAlways); (2, 5, FAlways)];
     c_src := 4; c_target := 5; c_flag := false |}.

Lemma specific_first_refuted_exec :
  exists c o o', adapt (env_of c) default_fuel = RAdapter [o] /\ In o' (e_offers (env_of c)) /\
                 single_candidate (env_of c) o' = true /\ better (env_of c) o' o = true /\
                 law (env_of c) ApiAdapt (run_api (env_of c) default_fuel ApiAdapt) = [6%Z].
Proof.
  exists f17_config, (mk_offer_ 0 1 5), (mk_offer_ 2 2 5).
  vm_compute. repeat split; try reflexivity. right. right. left. reflexivity.
Qed.

Lemma no_inversion_satisfiable_l E : (forall a, e_sub E a a = true) ->
  (forall a b c, e_sub E a b = true -> e_sub E b c = true -> e_sub E a c = true) ->
  (forall p l, Permutation (e_order (with_order_rank E) p l) l) /\ no_inversion (with_order_rank E).
Proof. intros R T. split; [exact (order_rank_perm E)|exact (order_rank_no_inversion E R T)]. Qed.

Lemma exec_law_except_specificity c fuel a : run_api (env_of c) fuel a <> OOutOfFuel ->
  forall code, In code (law (env_of c) a (run_api (env_of c) fuel a)) -> code = 6%Z.
Proof. exact (model_law_except_specificity (env_of c) (env_of_order_perm c) fuel a). Qed.

(* ================= CPython's insertion sort keeps the major key sorted even with a partial comparator ================= *)
Section PySortMajor.
  Context {A : Type}.
  Variable lt : A -> A -> bool.
  Variable d : A -> nat.
  (* the comparator is lexicographic with major key d: smaller d => less, less => not larger d *)
  Hypothesis lt_major : forall x y, d x < d y -> lt x y = true.
  Hypothesis lt_minor : forall x y, lt x y = true -> d x <= d y.

  Fixpoint dsorted (l : list A) : Prop :=
    match l with [] => True | x :: r => (forall y, In y r -> d x <= d y) /\ dsorted r end.

  Lemma dsorted_app l1 l2 : dsorted (l1 ++ l2) <->
    dsorted l1 /\ dsorted l2 /\ (forall x y, In x l1 -> In y l2 -> d x <= d y).
  Proof.
    induction l1 as [|a l1 IH]; cbn.
    - split; [intros H; repeat split; [exact H|intros x y []]|intros (_ & H & _); exact H].
    - rewrite IH. split.
      + intros (Ha & H1 & H2 & H12). repeat split; try assumption.
        * intros y Hy. apply Ha. apply in_or_app. left. exact Hy.
        * intros x y [<-|Hx] Hy; [apply Ha; apply in_or_app; right; exact Hy|apply H12; assumption].
      + intros ((Ha & H1) & H2 & H12). repeat split; try assumption.
        * intros y Hy. apply in_app_or in Hy. destruct Hy as [Hy|Hy]; [apply Ha; exact Hy|apply H12; [left; reflexivity|exact Hy]].
        * intros x y Hx Hy. apply H12; [right; exact Hx|exact Hy].
  Qed.

  Lemma nth_error_split (l : list A) p x : nth_error l p = Some x ->
    skipn p l = x :: skipn (S p) l /\ firstn (S p) l = firstn p l ++ [x].
  Proof.
    revert p. induction l as [|a l IH]; intros p H; [destruct p; discriminate|].
    destruct p as [|p]; cbn in H.
    - inversion H; subst. split; reflexivity.
    - destruct (IH p H) as [H1 H2]. split; [exact H1|]. change (a :: firstn (S p) l = a :: (firstn p l ++ [x])). rewrite H2. reflexivity.
  Qed.

  Definition below (pivot : A) (l : list A) : Prop := forall x, In x l -> d x <= d pivot.
  Definition above (pivot : A) (l : list A) : Prop := forall y, In y l -> d pivot <= d y.

  Lemma bisect_spec fuel : forall pre pivot l r, dsorted pre -> l <= r <= length pre -> r - l < fuel ->
    below pivot (firstn l pre) -> above pivot (skipn r pre) ->
    let k := bisect lt fuel pre pivot l r in
    k <= length pre /\ below pivot (firstn k pre) /\ above pivot (skipn k pre).
  Proof.
    induction fuel as [|f IH]; intros pre pivot l r Hs Hlr Hf Hb Ha; [lia|]. cbn [bisect].
    destruct (Nat.ltb_spec l r) as [Hlt|Hge].
    2:{ assert (l = r) by lia. subst. cbn. repeat split; [lia|exact Hb|exact Ha]. }
    set (p := l + Nat.div2 (r - l)).
    assert (l <= p < r) as Hp.
    { unfold p. pose proof (Nat.div2_decr (r - l) (r - l - 1)). destruct (r - l) eqn:Erl; [lia|].
      assert (Nat.div2 (S n) <= n) by (apply Nat.div2_decr; lia). lia. }
    destruct (nth_error pre p) as [x|] eqn:Hx.
    2:{ apply nth_error_None in Hx. lia. }
    destruct (nth_error_split pre p x Hx) as [Hsk Hfi].
    pose proof Hs as Hs'. rewrite <- (firstn_skipn p pre) in Hs'. apply dsorted_app in Hs'. destruct Hs' as (S1 & S2 & S12).
    destruct (lt pivot x) eqn:L.
    - (* pivot < pre[p]: r := p *)
      apply IH; try assumption; [lia|lia|].
      intros y Hy. rewrite Hsk in Hy, S2. apply lt_minor in L. destruct Hy as [<-|Hy]; [exact L|].
      destruct S2 as [Sx _]. specialize (Sx y Hy). lia.
    - (* l := p + 1 *)
      apply IH; try assumption; [lia|lia|].
      intros y Hy. rewrite Hfi in Hy. apply in_app_or in Hy.
      assert (d x <= d pivot) as Hxp'.
      { destruct (Nat.le_gt_cases (d x) (d pivot)) as [H|H]; [exact H|]. rewrite (lt_major _ _ H) in L. discriminate. }
      destruct Hy as [Hy|[<-|[]]]; [|exact Hxp'].
      assert (d y <= d x) by (apply S12; [exact Hy|rewrite Hsk; left; reflexivity]). lia.
  Qed.

  Lemma insert_at_dsorted pre k pivot : dsorted pre ->
    below pivot (firstn k pre) -> above pivot (skipn k pre) -> dsorted (insert_at pre k pivot).
  Proof.
    intros Hs Hb Ha. unfold insert_at. rewrite <- (firstn_skipn k pre) in Hs. apply dsorted_app in Hs.
    destruct Hs as (S1 & S2 & S12). apply dsorted_app. split; [exact S1|]. split.
    - cbn. split; [exact Ha|exact S2].
    - intros x y Hx [<-|Hy]; [apply Hb; exact Hx|apply S12; assumption].
  Qed.

  Lemma binarysort_dsorted rest : forall pre, dsorted pre -> dsorted (binarysort lt pre rest).
  Proof.
    induction rest as [|x rest IH]; intros pre Hs; cbn [binarysort]; [exact Hs|].
    apply IH. destruct (bisect_spec (S (length pre)) pre x 0 (length pre) Hs) as (_ & Hb & Ha); try lia.
    - intros y [].
    - rewrite skipn_all. intros y [].
    - apply insert_at_dsorted; assumption.
  Qed.

  (* the initial run *)
  Fixpoint asc_from (last : A) (l : list A) : Prop :=
    match l with [] => True | x :: r => d last <= d x /\ asc_from x r end.
  Fixpoint desc_from (last : A) (l : list A) : Prop :=
    match l with [] => True | x :: r => d x <= d last /\ desc_from x r end.

  Lemma asc_from_dsorted l : forall a, asc_from a l -> dsorted (a :: l).
  Proof.
    induction l as [|x l IH]; intros a H; cbn; [split; [intros y []|exact I]|].
    destruct H as [Hax Hx]. specialize (IH x Hx). cbn in IH. destruct IH as [Hxl Hl].
    split; [|split; assumption]. intros y [<-|Hy]; [exact Hax|]. specialize (Hxl y Hy). lia.
  Qed.
  Lemma desc_from_rev l : forall a, desc_from a l -> dsorted (rev (a :: l)) /\ (forall y, In y (a :: l) -> d y <= d a).
  Proof.
    induction l as [|x l IH]; intros a H.
    - cbn. split; [split; [intros y []|exact I]|intros y [<-|[]]; lia].
    - destruct H as [Hxa Hx]. destruct (IH x Hx) as [Hs Hle]. split.
      + change (rev (a :: x :: l)) with (rev (x :: l) ++ [a]). apply dsorted_app. split; [exact Hs|]. split.
        * cbn. split; [intros y []|exact I].
        * intros y z Hy [<-|[]]. apply in_rev in Hy. specialize (Hle y Hy). lia.
      + intros y [<-|Hy]; [lia|]. specialize (Hle y Hy). lia.
  Qed.

  Lemma run_asc_asc l : forall last, asc_from last (fst (run_asc lt last l)).
  Proof.
    induction l as [|x l IH]; intros last; cbn; [exact I|].
    destruct (lt x last) eqn:L; [exact I|]. specialize (IH x). destruct (run_asc lt x l). cbn in *. split; [|exact IH].
    destruct (Nat.le_gt_cases (d last) (d x)) as [H|H]; [exact H|]. rewrite (lt_major _ _ H) in L. discriminate.
  Qed.
  Lemma run_desc_desc l : forall last, desc_from last (fst (run_desc lt last l)).
  Proof.
    induction l as [|x l IH]; intros last; cbn; [exact I|].
    destruct (lt x last) eqn:L; [|exact I]. specialize (IH x). destruct (run_desc lt x l). cbn in *. split; [|exact IH].
    apply lt_minor. exact L.
  Qed.

  Theorem py_sort_dsorted l : dsorted (py_sort lt l).
  Proof.
    destruct l as [|a [|b l]]; cbn [py_sort]; [exact I|split; [intros y []|exact I]|].
    destruct (lt b a) eqn:L.
    - pose proof (run_desc_desc l b) as R. destruct (run_desc lt b l) as [r t]. cbn in R.
      apply binarysort_dsorted.
      assert (desc_from a (b :: r)) as D by (split; [apply lt_minor; exact L|exact R]).
      apply (desc_from_rev (b :: r) a D).
    - pose proof (run_asc_asc l b) as R. destruct (run_asc lt b l) as [r t]. cbn in R.
      apply binarysort_dsorted. apply (asc_from_dsorted (b :: r) a). split; [|exact R].
      destruct (Nat.le_gt_cases (d a) (d b)) as [H|H]; [exact H|]. rewrite (lt_major _ _ H) in L. discriminate.
  Qed.
End PySortMajor.

(* ================= the code's own sort: the smallest MRO distance always wins ================= *)
Section FirstExpansion.
  Variable E : env.
  Hypothesis order_perm : forall p l, Permutation (e_order E p l) l.

  (* a single-offer answer is the first succeeding complete edge of the first expansion;
     every other succeeding single candidate comes after it in the sorted edge list *)
  Lemma first_expansion fuel o : adapt_search E fuel = Found [o] ->
    exists l1 l2, e_order E [] (filter (usable E []) (e_offers E)) = l1 ++ o :: l2 /\
      forall o', In o' (e_offers E) -> single_candidate E o' = true -> o' = o \/ In o' l2.
  Proof.
    intros H. destruct fuel as [|f]; [discriminate|].
    unfold adapt_search in H. cbn [search pop_min] in H.
    set (es := e_order E [] (filter (usable E []) (e_offers E))) in *.
    destruct (expand E (0, 0, 0) [] es [] 1) as [[[np|] q'] cnt'] eqn:Ex.
    2:{ pose proof (expand_long E (0, 0, 0) [] es [] 1 (Forall_nil _)) as L. rewrite Ex in L.
        apply (search_long E f q' cnt' [o] L) in H. cbn in H. lia. }
    inversion H; subst np. clear H.
    destruct (expand_first E _ _ _ _ _ _ _ _ Ex) as (l1 & o0 & l2 & Hes & Hnp & Hl1).
    cbn in Hnp. inversion Hnp; subst o0. clear Hnp.
    exists l1, l2. split; [exact Hes|]. intros o' Hin' Hc.
    unfold single_candidate in Hc. apply andb_true_iff in Hc. destruct Hc as [Hc Hk].
    apply andb_true_iff in Hc. destruct Hc as [Hu Ht].
    assert (In o' es) as Hes'.
    { apply (Permutation_in _ (Permutation_sym (order_perm _ _))). apply filter_In. split; assumption. }
    rewrite Hes in Hes'. apply in_app_or in Hes'. destruct Hes' as [H1|[<-|H2]].
    - specialize (Hl1 _ H1). cbn in Hl1. unfold succ in Hl1. cbn in Hl1. rewrite Ht, Hk in Hl1. discriminate.
    - left. reflexivity.
    - right. exact H2.
  Qed.
End FirstExpansion.

Lemma edge_lt_major sub (x y : nat * offer) : fst x < fst y -> edge_lt sub x y = true.
Proof. destruct x as [d1 o1], y as [d2 o2]. cbn [fst]. intros H. unfold edge_lt. apply Nat.ltb_lt in H. rewrite H. reflexivity. Qed.
Lemma edge_lt_minor sub (x y : nat * offer) : edge_lt sub x y = true -> fst x <= fst y.
Proof.
  destruct x as [d1 o1], y as [d2 o2]. cbn [fst]. unfold edge_lt. intros H. apply orb_true_iff in H. destruct H as [H|H].
  - apply Nat.ltb_lt in H. lia.
  - apply andb_true_iff in H. destruct H as [H _]. apply andb_true_iff in H. destruct H as [H _]. apply Nat.eqb_eq in H. lia.
Qed.

Lemma order_py_distance sub dist all cur l l1 o l2 o' :
  order_py sub dist all cur l = l1 ++ o :: l2 -> In o' l2 -> dist cur (ofrom o) <= dist cur (ofrom o').
Proof.
  unfold order_py. set (G := group_by (map ofrom all) l).
  set (P := py_sort (edge_lt sub) (map (fun o0 => (dist cur (ofrom o0), o0)) G)). intros Hm Hin.
  assert (forall e, In e P -> fst e = dist cur (ofrom (snd e))) as Hkey.
  { intros e He. apply (Permutation_in _ (py_sort_perm (edge_lt sub) _)) in He. apply in_map_iff in He.
    destruct He as (x & <- & _). reflexivity. }
  pose proof (py_sort_dsorted (edge_lt sub) fst (edge_lt_major sub) (edge_lt_minor sub)
                (map (fun o0 => (dist cur (ofrom o0), o0)) G)) as Hs. fold P in Hs.
  apply map_eq_app in Hm. destruct Hm as (P1 & P2' & HP & _ & Hm2).
  apply map_eq_cons in Hm2. destruct Hm2 as (e & P2 & -> & He & Hm3).
  rewrite HP in Hs. apply dsorted_app in Hs. destruct Hs as (_ & Hs & _). cbn in Hs. destruct Hs as [Hs _].
  rewrite <- Hm3 in Hin. apply in_map_iff in Hin. destruct Hin as (e' & He' & Hin').
  specialize (Hs e' Hin').
  rewrite (Hkey e), (Hkey e') in Hs.
  - rewrite He, He' in Hs. exact Hs.
  - rewrite HP. apply in_or_app. right. right. exact Hin'.
  - rewrite HP. apply in_or_app. right. left. reflexivity.
Qed.

(* for the executable model (edge order = CPython's sort on the code's comparator): a single-step answer has the
   smallest MRO distance among all succeeding single-offer chains — no hypothesis; only the specificity tie-break
   is affected by F21 *)
Lemma min_distance_first_exec c fuel o : adapt (env_of c) fuel = RAdapter [o] ->
  forall o', In o' (e_offers (env_of c)) -> single_candidate (env_of c) o' = true ->
    e_dist (env_of c) (e_src (env_of c)) (ofrom o) <= e_dist (env_of c) (e_src (env_of c)) (ofrom o').
Proof.
  intros Ha o' Hin Hc.
  assert (adapt_search (env_of c) fuel = Found [o]) as Hf.
  { unfold adapt in Ha. destruct (e_sub (env_of c) (e_src (env_of c)) (e_target (env_of c))); [discriminate|].
    destruct (adapt_search (env_of c) fuel); congruence. }
  destruct (first_expansion (env_of c) (env_of_order_perm c) fuel o Hf) as (l1 & l2 & Hes & Hall).
  destruct (Hall o' Hin Hc) as [->|H2]; [lia|].
  cbn [e_order env_of] in Hes. cbn [rev] in Hes.
  exact (order_py_distance _ _ _ _ _ _ _ _ _ Hes H2).
Qed.

(* the adaptable-object check inside a compound trait applies adapt() the same way *)
Lemma compound_same E fuel :
  (forall v, run_api E fuel ApiAdapt = OValue v <-> run_api E fuel (TraitEither 0) = OStored v (Some v)) /\
  (forall v, run_api E fuel ApiAdapt = OValue v <-> run_api E fuel (TraitEither 1) = OStored v (Some v)) /\
  (forall v, v <> VDefault -> (run_api E fuel ApiAdapt = OValue v <-> run_api E fuel (TraitEither 2) = OStored v None)) /\
  (run_api E fuel ApiAdapt = OAdaptationError <-> run_api E fuel (TraitEither 0) = OTraitError) /\
  (run_api E fuel ApiAdapt = OAdaptationError <-> run_api E fuel (TraitEither 1) = OTraitError) /\
  (run_api E fuel ApiAdapt = OAdaptationError <-> run_api E fuel (TraitEither 2) = OStored VDefault None).
Proof.
  assert (adapt E fuel = RNone -> e_sub E (e_src E) (e_target E) = false) as Hp.
  { intros H. destruct (e_sub E (e_src E) (e_target E)) eqn:Hq; [|reflexivity].
    apply (proj2 (adapt_self_iff E fuel)) in Hq. congruence. }
  unfold run_api. cbn [validate_adapt].
  destruct (adapt E fuel) eqn:Ha; try (rewrite (Hp eq_refl));
    repeat split; try (intros [= <-]; reflexivity); try discriminate; try reflexivity; try (intros [= <-]; congruence).
Qed.

(* ================= enough fuel: the search terminates ================= *)
(* T k bounds the number of queue entries ever produced below a path that can still use k offers *)
Fixpoint T (k : nat) : nat := match k with O => 1 | S k' => 1 + S k' * T k' end.

Section Fuel.
  Variable E : env.
  Hypothesis order_perm : forall p l, Permutation (e_order E p l) l.
  Notation n := (length (e_offers E)).

  Definition weight (e : entry) : nat := T (n - length (snd e)).
  Definition measure (q : list entry) : nat := fold_right (fun e a => weight e + a) 0 q.

  Lemma measure_perm q q' : Permutation q q' -> measure q = measure q'.
  Proof. unfold measure. induction 1; cbn [fold_right]; lia. Qed.

  Lemma filter_and_length {A} (f g : A -> bool) l : length (filter (fun x => f x && g x) l) <= length (filter g l).
  Proof. induction l as [|x l IH]; cbn; [lia|]. destruct (f x), (g x); cbn; lia. Qed.
  Lemma filter_split_length {A} (f : A -> bool) l : length (filter f l) + length (filter (fun x => negb (f x)) l) = length l.
  Proof. induction l as [|x l IH]; cbn; [lia|]. destruct (f x); cbn; lia. Qed.

  (* a valid path leaves at most n - |p| applicable edges *)
  Lemma edges_bound p : valid E p = true -> length (filter (usable E p) (e_offers E)) + length p <= n.
  Proof.
    intros Hv. destruct (valid_from_nodup E [] p Hv) as (Hnd & _ & Hin).
    assert (length p <= length (filter (fun o => Model.mem o p) (e_offers E))) as H1.
    { apply NoDup_incl_length; [exact Hnd|]. intros x Hx. apply filter_In. split; [apply Hin; exact Hx|].
      unfold Model.mem. apply existsb_exists. exists x. split; [exact Hx|apply offer_eqb_refl]. }
    pose proof (filter_split_length (fun o => Model.mem o p) (e_offers E)) as H2.
    pose proof (filter_and_length (fun o => e_sub E (cur_of E p) (ofrom o)) (fun o => negb (Model.mem o p)) (e_offers E)) as H3.
    unfold usable. lia.
  Qed.

  Lemma expand_measure k p es : forall q cnt,
    match expand E k p es q cnt with
    | (Some _, _, _) => True
    | (None, q', _) => measure q' <= measure q + length es * T (n - S (length p))
    end.
  Proof.
    induction es as [|o es IH]; intros q cnt; cbn [expand]; [cbn; lia|].
    destruct (e_sub E (oto o) (e_target E)).
    - destruct (succ E (p ++ [o])); [exact I|]. specialize (IH q cnt).
      destruct (expand E k p es q cnt) as [[[np|] q'] c']; [exact I|]. cbn [length]. rewrite Nat.mul_succ_l. lia.
    - destruct k as [[a m] c0].
      specialize (IH (((S a, m + e_dist E (cur_of E p) (ofrom o), cnt), p ++ [o]) :: q) (S cnt)).
      destruct (expand E (a, m, c0) p es _ (S cnt)) as [[[np|] q'] c']; [exact I|].
      cbn [measure fold_right] in IH. unfold weight at 1 in IH. cbn [snd] in IH. rewrite app_length in IH. cbn [length] in *.
      replace (n - (length p + 1)) with (n - S (length p)) in IH by lia. rewrite Nat.mul_succ_l. unfold measure in *. lia.
  Qed.

  Lemma T_unfold k : 0 < k -> T k = 1 + k * T (k - 1).
  Proof. destruct k; [lia|]. intros _. cbn [T]. replace (S k - 1) with k by lia. reflexivity. Qed.

  Theorem search_terminates fuel : forall q cnt, good_queue E q -> measure q < fuel -> search E fuel q cnt <> OutOfFuel.
  Proof.
    induction fuel as [|f IH]; intros q cnt Hq Hm; [lia|]. cbn [search].
    destruct (pop_min q) as [[[k p] rest]|] eqn:Eq; [|discriminate].
    pose proof (pop_min_in _ _ _ Eq) as P.
    assert (good_queue E ((k, p) :: rest)) as Hq' by (unfold good_queue; rewrite P; exact Hq).
    inversion Hq' as [|? ? [Hp Hk] Hrest]; subst. cbn in Hp, Hk.
    set (es := e_order E p (filter (usable E p) (e_offers E))).
    pose proof (expand_sound E k p Hp Hk es rest cnt (edges_ok E order_perm p) Hrest) as Snd.
    pose proof (expand_measure k p es rest cnt) as M.
    assert (length es + length p <= n) as Hes.
    { unfold es. rewrite (Permutation_length (order_perm _ _)). apply edges_bound. exact Hp. }
    rewrite <- (measure_perm _ _ P) in Hm. cbn [measure fold_right] in Hm. unfold weight at 1 in Hm. cbn [snd] in Hm.
    destruct (expand E k p es rest cnt) as [[[np|] q'] cnt']; [discriminate|].
    apply IH; [exact Snd|].
    destruct (Nat.eq_dec (n - length p) 0) as [Hz|Hz].
    - assert (length es = 0) by lia. rewrite H in M. cbn in M. rewrite Hz in Hm. cbn in Hm.
      fold (measure rest) in Hm. lia.
    - rewrite (T_unfold (n - length p)) in Hm by lia. fold (measure rest) in Hm.
      replace (n - length p - 1) with (n - S (length p)) in Hm by lia.
      assert (length es * T (n - S (length p)) <= (n - length p) * T (n - S (length p))) by (apply Nat.mul_le_mono_r; lia).
      lia.
  Qed.

  (* fuel larger than T |offers| always suffices *)
  Corollary adapt_search_terminates fuel : T n < fuel -> adapt_search E fuel <> OutOfFuel.
  Proof.
    intros H. apply search_terminates; [apply good_init|]. cbn. unfold weight. cbn. rewrite Nat.sub_0_r. lia.
  Qed.
  Corollary adapt_terminates fuel : T n < fuel -> adapt E fuel <> RFuel.
  Proof.
    intros H. unfold adapt. destruct (e_sub E (e_src E) (e_target E)); [discriminate|].
    pose proof (adapt_search_terminates fuel H). destruct (adapt_search E fuel); congruence.
  Qed.
  Corollary run_api_terminates fuel a : T n < fuel -> run_api E fuel a <> OOutOfFuel.
  Proof.
    intros H. pose proof (adapt_terminates fuel H) as Ha. unfold run_api.
    destruct a as [| | | |[|[|m]]| | |[|[|v]]]; cbn [validate_adapt];
      destruct (adapt E fuel); try congruence; try discriminate;
      destruct (e_sub E (e_src E) (e_target E)); discriminate.
  Qed.
End Fuel.

(* the fuel of the correspondence runs suffices for every problem with at most 7 offers *)
Lemma default_fuel_enough : T 7 < default_fuel.
Proof. apply Nat.ltb_lt. vm_compute. reflexivity. Qed.

Lemma terminates_l E : (forall p l, Permutation (e_order E p l) l) -> forall fuel a, T (length (e_offers E)) < fuel ->
  adapt E fuel <> RFuel /\ run_api E fuel a <> OOutOfFuel.
Proof. intros Hp fuel a H. split; [apply adapt_terminates; assumption|apply run_api_terminates; assumption]. Qed.

(* ================= CPython's insertion sort is correct for strict weak orders ================= *)
(* ... on the elements of the list: this pins down the extent of F21 — the specificity clause can only fail when two
   applicable from-protocols at the same MRO distance are incomparable. *)
Section PySortSWO.
  Context {A : Type}.
  Variable lt : A -> A -> bool.
  Variable P : A -> Prop.
  Hypothesis lt_trans : forall x y z, P x -> P y -> P z -> lt x y = true -> lt y z = true -> lt x z = true.
  Hypothesis lt_ntrans : forall x y z, P x -> P y -> P z -> lt x y = false -> lt y z = false -> lt x z = false.
  Hypothesis lt_asym : forall x y, P x -> P y -> lt x y = true -> lt y x = false.

  (* no later element is smaller than an earlier one *)
  Fixpoint nsorted (l : list A) : Prop :=
    match l with [] => True | x :: r => (forall y, In y r -> lt y x = false) /\ nsorted r end.

  Lemma nsorted_app l1 l2 : nsorted (l1 ++ l2) <->
    nsorted l1 /\ nsorted l2 /\ (forall x y, In x l1 -> In y l2 -> lt y x = false).
  Proof.
    induction l1 as [|a l1 IH]; cbn.
    - split; [intros H; repeat split; [exact H|intros x y []]|intros (_ & H & _); exact H].
    - rewrite IH. split.
      + intros (Ha & H1 & H2 & H12). repeat split; try assumption.
        * intros y Hy. apply Ha. apply in_or_app. left. exact Hy.
        * intros x y [<-|Hx] Hy; [apply Ha; apply in_or_app; right; exact Hy|apply H12; assumption].
      + intros ((Ha & H1) & H2 & H12). repeat split; try assumption.
        * intros y Hy. apply in_app_or in Hy. destruct Hy as [Hy|Hy]; [apply Ha; exact Hy|apply H12; [left; reflexivity|exact Hy]].
        * intros x y Hx Hy. apply H12; [right; exact Hx|exact Hy].
  Qed.

  Definition nbelow (pivot : A) (l : list A) : Prop := forall x, In x l -> lt pivot x = false.
  Definition nabove (pivot : A) (l : list A) : Prop := forall y, In y l -> lt y pivot = false.

  Lemma Forall_firstn (Q : A -> Prop) k l : Forall Q l -> Forall Q (firstn k l).
  Proof. intros H. rewrite Forall_forall in *. intros x Hx. apply H. rewrite <- (firstn_skipn k l). apply in_or_app. left. exact Hx. Qed.
  Lemma Forall_skipn (Q : A -> Prop) k l : Forall Q l -> Forall Q (skipn k l).
  Proof. intros H. rewrite Forall_forall in *. intros x Hx. apply H. rewrite <- (firstn_skipn k l). apply in_or_app. right. exact Hx. Qed.

  Lemma bisect_swo fuel : forall pre pivot l r, nsorted pre -> Forall P pre -> P pivot ->
    l <= r <= length pre -> r - l < fuel ->
    nbelow pivot (firstn l pre) -> nabove pivot (skipn r pre) ->
    let k := bisect lt fuel pre pivot l r in
    k <= length pre /\ nbelow pivot (firstn k pre) /\ nabove pivot (skipn k pre).
  Proof.
    induction fuel as [|f IH]; intros pre pivot l r Hs HP Hpv Hlr Hf Hb Ha; [lia|]. cbn [bisect].
    destruct (Nat.ltb_spec l r) as [Hlt|Hge].
    2:{ assert (l = r) by lia. subst. cbn. repeat split; [lia|exact Hb|exact Ha]. }
    set (p := l + Nat.div2 (r - l)).
    assert (l <= p < r) as Hp.
    { unfold p. destruct (r - l) eqn:Erl; [lia|].
      assert (Nat.div2 (S n) <= n) by (apply Nat.div2_decr; lia). lia. }
    destruct (nth_error pre p) as [x|] eqn:Hx.
    2:{ apply nth_error_None in Hx. lia. }
    destruct (nth_error_split pre p x Hx) as [Hsk Hfi].
    assert (P x) as HPx by (rewrite Forall_forall in HP; apply HP; eapply nth_error_In; exact Hx).
    pose proof Hs as Hs'. rewrite <- (firstn_skipn p pre) in Hs'. apply nsorted_app in Hs'. destruct Hs' as (S1 & S2 & S12).
    pose proof (Forall_skipn P p pre HP) as HPs. pose proof (Forall_firstn P p pre HP) as HPf.
    rewrite Forall_forall in HPs, HPf.
    destruct (lt pivot x) eqn:L.
    - apply IH; try assumption; [lia|lia|].
      intros y Hy. rewrite Hsk in Hy, S2. destruct Hy as [<-|Hy]; [apply lt_asym; assumption|].
      destruct S2 as [Sx _]. specialize (Sx y Hy).
      assert (P y) as HPy by (apply HPs; rewrite Hsk; right; exact Hy).
      destruct (lt y pivot) eqn:Lyp; [|reflexivity].
      rewrite (lt_trans y pivot x HPy Hpv HPx Lyp L) in Sx. discriminate.
    - apply IH; try assumption; [lia|lia|].
      intros y Hy. rewrite Hfi in Hy. apply in_app_or in Hy. destruct Hy as [Hy|[<-|[]]]; [|exact L].
      assert (lt x y = false) as Hxy by (apply S12; [exact Hy|rewrite Hsk; left; reflexivity]).
      apply (lt_ntrans pivot x y Hpv HPx (HPf y Hy) L Hxy).
  Qed.

  Lemma insert_at_nsorted pre k pivot : nsorted pre ->
    nbelow pivot (firstn k pre) -> nabove pivot (skipn k pre) -> nsorted (insert_at pre k pivot).
  Proof.
    intros Hs Hb Ha. unfold insert_at. rewrite <- (firstn_skipn k pre) in Hs. apply nsorted_app in Hs.
    destruct Hs as (S1 & S2 & S12). apply nsorted_app. split; [exact S1|]. split.
    - cbn. split; [exact Ha|exact S2].
    - intros x y Hx [<-|Hy]; [apply Hb; exact Hx|apply S12; assumption].
  Qed.

  Lemma insert_at_Forall (Q : A -> Prop) pre k x : Forall Q pre -> Q x -> Forall Q (insert_at pre k x).
  Proof.
    intros H Hx. unfold insert_at. apply Forall_app. split; [apply Forall_firstn; exact H|].
    constructor; [exact Hx|apply Forall_skipn; exact H].
  Qed.

  Lemma binarysort_nsorted rest : forall pre, nsorted pre -> Forall P pre -> Forall P rest -> nsorted (binarysort lt pre rest).
  Proof.
    induction rest as [|x rest IH]; intros pre Hs HP HR; cbn [binarysort]; [exact Hs|].
    inversion HR as [|? ? Hx HR']; subst.
    destruct (bisect_swo (S (length pre)) pre x 0 (length pre) Hs HP Hx) as (_ & Hb & Ha); try lia.
    - intros y [].
    - rewrite skipn_all. intros y [].
    - apply IH; [apply insert_at_nsorted; assumption|apply insert_at_Forall; assumption|exact HR'].
  Qed.

  Fixpoint nasc_from (last : A) (l : list A) : Prop :=
    match l with [] => True | x :: r => lt x last = false /\ nasc_from x r end.
  Fixpoint ndesc_from (last : A) (l : list A) : Prop :=
    match l with [] => True | x :: r => lt x last = true /\ ndesc_from x r end.

  Lemma nasc_nsorted l : forall a, nasc_from a l -> Forall P (a :: l) -> nsorted (a :: l).
  Proof.
    induction l as [|x l IH]; intros a H HP; cbn; [split; [intros y []|exact I]|].
    destruct H as [Hxa Hx]. inversion HP as [|? ? Pa HP']; subst. specialize (IH x Hx HP').
    cbn in IH. destruct IH as [Hxl Hl]. split; [|split; assumption].
    inversion HP' as [|? ? Px HPl]; subst. rewrite Forall_forall in HPl.
    intros y [<-|Hy]; [exact Hxa|]. apply (lt_ntrans y x a (HPl y Hy) Px Pa (Hxl y Hy) Hxa).
  Qed.
  Lemma ndesc_rev l : forall a, ndesc_from a l -> Forall P (a :: l) ->
    nsorted (rev (a :: l)) /\ (forall y, In y l -> lt y a = true).
  Proof.
    induction l as [|x l IH]; intros a H HP.
    - cbn. split; [split; [intros y []|exact I]|intros y []].
    - destruct H as [Hxa Hx]. inversion HP as [|? ? Pa HP']; subst. destruct (IH x Hx HP') as [Hs Hlt].
      inversion HP' as [|? ? Px HPl]; subst. rewrite Forall_forall in HPl.
      assert (forall y, In y (x :: l) -> lt y a = true) as Hall.
      { intros y [<-|Hy]; [exact Hxa|]. apply (lt_trans y x a (HPl y Hy) Px Pa (Hlt y Hy) Hxa). }
      split; [|exact Hall].
      change (rev (a :: x :: l)) with (rev (x :: l) ++ [a]). apply nsorted_app. split; [exact Hs|]. split.
      + cbn. split; [intros y []|exact I].
      + intros y z Hy [<-|[]]. apply in_rev in Hy.
        assert (P y) as Py by (destruct Hy as [<-|Hy]; [exact Px|apply HPl; exact Hy]).
        apply lt_asym; [exact Py|exact Pa|apply Hall; exact Hy].
  Qed.

  Lemma run_asc_nasc l : forall last, nasc_from last (fst (run_asc lt last l)).
  Proof.
    induction l as [|x l IH]; intros last; cbn; [exact I|].
    destruct (lt x last) eqn:L; [exact I|]. specialize (IH x). destruct (run_asc lt x l). cbn in *. split; [exact L|exact IH].
  Qed.
  Lemma run_desc_ndesc l : forall last, ndesc_from last (fst (run_desc lt last l)).
  Proof.
    induction l as [|x l IH]; intros last; cbn; [exact I|].
    destruct (lt x last) eqn:L; [|exact I]. specialize (IH x). destruct (run_desc lt x l). cbn in *. split; [exact L|exact IH].
  Qed.

  Theorem py_sort_nsorted l : Forall P l -> nsorted (py_sort lt l).
  Proof.
    intros HP. destruct l as [|a [|b l]]; cbn [py_sort]; [exact I|split; [intros y []|exact I]|].
    inversion HP as [|? ? Pa HP1]; subst. inversion HP1 as [|? ? Pb HP2]; subst.
    destruct (lt b a) eqn:L.
    - pose proof (run_desc_ndesc l b) as R. pose proof (run_desc_app lt l b) as App.
      destruct (run_desc lt b l) as [r t]. cbn in R, App.
      assert (Forall P r /\ Forall P t) as [Pr Pt] by (rewrite <- App in HP2; apply Forall_app in HP2; exact HP2).
      assert (ndesc_from a (b :: r)) as D by (split; [exact L|exact R]).
      assert (Forall P (a :: b :: r)) as PA by (constructor; [exact Pa|constructor; [exact Pb|exact Pr]]).
      apply binarysort_nsorted; [apply (ndesc_rev (b :: r) a D PA)| |exact Pt].
      apply Forall_rev. exact PA.
    - pose proof (run_asc_nasc l b) as R. pose proof (run_asc_app lt l b) as App.
      destruct (run_asc lt b l) as [r t]. cbn in R, App.
      assert (Forall P r /\ Forall P t) as [Pr Pt] by (rewrite <- App in HP2; apply Forall_app in HP2; exact HP2).
      assert (Forall P (a :: b :: r)) as PA by (constructor; [exact Pa|constructor; [exact Pb|exact Pr]]).
      apply binarysort_nsorted; [|exact PA|exact Pt].
      apply (nasc_nsorted (b :: r) a); [split; [exact L|exact R]|exact PA].
  Qed.
End PySortSWO.

(* ---------- the code's comparator is a strict weak order when same-distance from-protocols are comparable ---------- *)
Section EdgeOrder.
  Variable sub : ty -> ty -> bool.
  Variable dist : ty -> ty -> nat.
  Variable cur : ty.
  Variable l : list offer.          (* the applicable offers *)

  (* on the from-protocols of the applicable offers: issubclass is antisymmetric and transitive, and two different
     from-protocols at the same MRO distance are always related one way or the other *)
  Definition froms_comparable : Prop :=
    (forall o1 o2, In o1 l -> In o2 l -> ofrom o1 <> ofrom o2 -> sub (ofrom o1) (ofrom o2) = true -> sub (ofrom o2) (ofrom o1) = false)
    /\ (forall o1 o2 o3, In o1 l -> In o2 l -> In o3 l ->
          sub (ofrom o1) (ofrom o2) = true -> sub (ofrom o2) (ofrom o3) = true -> sub (ofrom o1) (ofrom o3) = true)
    /\ (forall o1 o2, In o1 l -> In o2 l -> dist cur (ofrom o1) = dist cur (ofrom o2) -> ofrom o1 <> ofrom o2 ->
          sub (ofrom o1) (ofrom o2) = true \/ sub (ofrom o2) (ofrom o1) = true).
  Hypothesis Hc : froms_comparable.

  Definition is_edge (e : nat * offer) : Prop := In (snd e) l /\ fst e = dist cur (ofrom (snd e)).

  Ltac edges := unfold is_edge, edge_lt in *; cbn [fst snd] in *.

  Lemma edge_lt_true (x y : nat * offer) : edge_lt sub x y = true <->
    fst x < fst y \/ (fst x = fst y /\ ofrom (snd x) <> ofrom (snd y) /\ sub (ofrom (snd x)) (ofrom (snd y)) = true).
  Proof.
    destruct x as [d1 o1], y as [d2 o2]. edges. rewrite orb_true_iff, !andb_true_iff, Nat.ltb_lt, Nat.eqb_eq, negb_true_iff, Nat.eqb_neq.
    tauto.
  Qed.

  Lemma edge_lt_asym x y : is_edge x -> is_edge y -> edge_lt sub x y = true -> edge_lt sub y x = false.
  Proof.
    intros [Ix Dx] [Iy Dy] H. apply edge_lt_true in H. destruct (edge_lt sub y x) eqn:R; [|reflexivity].
    apply edge_lt_true in R. destruct Hc as (Ha & _ & _).
    destruct H as [H|(He & Hn & Hs)], R as [R|(Re & Rn & Rs)]; try lia.
    rewrite (Ha _ _ Ix Iy Hn Hs) in Rs. discriminate.
  Qed.

  Lemma edge_lt_trans x y z : is_edge x -> is_edge y -> is_edge z ->
    edge_lt sub x y = true -> edge_lt sub y z = true -> edge_lt sub x z = true.
  Proof.
    intros [Ix Dx] [Iy Dy] [Iz Dz] H1 H2. apply edge_lt_true in H1. apply edge_lt_true in H2. apply edge_lt_true.
    destruct Hc as (Ha & Ht & _).
    destruct H1 as [H1|(E1 & N1 & S1)], H2 as [H2|(E2 & N2 & S2)]; try (left; lia).
    right. split; [lia|]. split; [|apply (Ht _ _ _ Ix Iy Iz S1 S2)].
    intros Heq. rewrite <- Heq in S2. rewrite (Ha _ _ Ix Iy N1 S1) in S2. discriminate.
  Qed.

  Lemma edge_lt_ntrans x y z : is_edge x -> is_edge y -> is_edge z ->
    edge_lt sub x y = false -> edge_lt sub y z = false -> edge_lt sub x z = false.
  Proof.
    intros [Ix Dx] [Iy Dy] [Iz Dz] H1 H2. destruct (edge_lt sub x z) eqn:R; [|reflexivity]. exfalso.
    apply edge_lt_true in R. destruct Hc as (Ha & Ht & Hcmp).
    assert (forall a b, edge_lt sub a b = false -> ~ (fst a < fst b) /\
              ~ (fst a = fst b /\ ofrom (snd a) <> ofrom (snd b) /\ sub (ofrom (snd a)) (ofrom (snd b)) = true)) as Hf.
    { intros a b Hab. split; intros Hx; assert (edge_lt sub a b = true) by (apply edge_lt_true; tauto); congruence. }
    destruct (Hf _ _ H1) as [A1 B1]. destruct (Hf _ _ H2) as [A2 B2].
    destruct R as [R|(Re & Rn & Rs)]; [lia|].
    assert (fst x = fst y) as Exy by lia. assert (fst y = fst z) as Eyz by lia.
    destruct (Nat.eq_dec (ofrom (snd x)) (ofrom (snd y))) as [Fxy|Fxy].
    - apply B2. split; [exact Eyz|]. rewrite <- Fxy. split; assumption.
    - destruct (Nat.eq_dec (ofrom (snd y)) (ofrom (snd z))) as [Fyz|Fyz].
      + apply B1. split; [exact Exy|]. rewrite Fyz. split; [rewrite <- Fyz; exact Fxy|exact Rs].
      + (* all three different: y below x and z below y, hence z below x, against x below z *)
        assert (sub (ofrom (snd y)) (ofrom (snd x)) = true) as Syx.
        { destruct (Hcmp _ _ Ix Iy ltac:(congruence) Fxy) as [S|S]; [|exact S]. exfalso. apply B1. tauto. }
        assert (sub (ofrom (snd z)) (ofrom (snd y)) = true) as Szy.
        { destruct (Hcmp _ _ Iy Iz ltac:(congruence) Fyz) as [S|S]; [|exact S]. exfalso. apply B2. tauto. }
        pose proof (Ht _ _ _ Iz Iy Ix Szy Syx) as Szx.
        rewrite (Ha _ _ Ix Iz Rn Rs) in Szx. discriminate.
  Qed.
End EdgeOrder.

Lemma order_py_no_inversion sub dist all cur l l1 o1 l2 o2 l3 :
  froms_comparable sub dist cur l ->
  order_py sub dist all cur l = l1 ++ o1 :: l2 ++ o2 :: l3 ->
  edge_lt sub (dist cur (ofrom o2), o2) (dist cur (ofrom o1), o1) = false.
Proof.
  intros Hc. unfold order_py. set (G := group_by (map ofrom all) l).
  set (L := map (fun o0 => (dist cur (ofrom o0), o0)) G). intros Hm.
  assert (Forall (is_edge dist cur l) L) as HP.
  { apply Forall_forall. intros e He. apply in_map_iff in He. destruct He as (x & <- & Hx). split; [|reflexivity].
    cbn. apply (Permutation_in _ (group_by_perm (map ofrom all) l)). exact Hx. }
  pose proof (py_sort_nsorted (edge_lt sub) (is_edge dist cur l)
                (edge_lt_trans sub dist cur l Hc) (edge_lt_ntrans sub dist cur l Hc) (edge_lt_asym sub dist cur l Hc) L HP) as Hs.
  assert (forall e, In e (py_sort (edge_lt sub) L) -> fst e = dist cur (ofrom (snd e))) as Hkey.
  { intros e He. apply (Permutation_in _ (py_sort_perm (edge_lt sub) _)) in He. rewrite Forall_forall in HP. apply (HP e He). }
  apply map_eq_app in Hm. destruct Hm as (P1 & P2' & HPs & _ & Hm2).
  apply map_eq_cons in Hm2. destruct Hm2 as (e1 & P2 & -> & He1 & Hm3).
  apply map_eq_app in Hm3. destruct Hm3 as (P2a & P2b & -> & _ & Hm4).
  apply map_eq_cons in Hm4. destruct Hm4 as (e2 & P3 & -> & He2 & _).
  rewrite HPs in Hs, Hkey. apply nsorted_app in Hs. destruct Hs as (_ & Hs & _). cbn in Hs. destruct Hs as [Hs _].
  assert (In e2 (P2a ++ e2 :: P3)) as Hin by (apply in_or_app; right; left; reflexivity).
  specialize (Hs e2 Hin).
  assert (e1 = (dist cur (ofrom o1), o1)) as ->.
  { destruct e1 as [d o]. cbn in He1. subst o. f_equal. apply (Hkey (d, o1)). apply in_or_app. right. left. reflexivity. }
  assert (e2 = (dist cur (ofrom o2), o2)) as ->.
  { destruct e2 as [d o]. cbn in He2. subst o. f_equal. apply (Hkey (d, o2)). apply in_or_app. right. right. exact Hin. }
  exact Hs.
Qed.

(* for the executable model: no incomparable applicable from-protocols at one distance => the whole law holds *)
Definition exec_comparable (c : config) : Prop :=
  let E := env_of c in
  froms_comparable (e_sub E) (e_dist E) (e_src E) (filter (usable E []) (e_offers E)).

Lemma exec_no_inversion c : exec_comparable c -> no_inversion (env_of c).
Proof.
  intros Hc l1 o1 l2 o2 l3 Hes. cbn [e_order env_of rev] in Hes.
  pose proof (order_py_no_inversion _ _ _ _ _ _ _ _ _ _ Hc Hes) as H.
  unfold better, strict_sub. unfold edge_lt in H. cbn [e_dist e_sub e_src env_of] in *.
  apply orb_false_iff in H. destruct H as [H1 H2]. rewrite H1. cbn [orb].
  destruct (tbl_dist (c_sub c) (c_mro c) (c_src c) (ofrom o2) =? tbl_dist (c_sub c) (c_mro c) (c_src c) (ofrom o1)); [|reflexivity].
  cbn [andb] in *. destruct (ofrom o2 =? ofrom o1) eqn:Ef.
  - apply Nat.eqb_eq in Ef. rewrite Ef. destruct (tbl_sub (c_sub c) (ofrom o1) (ofrom o1)); reflexivity.
  - cbn [negb andb] in H2. rewrite H2. reflexivity.
Qed.

Lemma exec_law_when_comparable c : exec_comparable c ->
  forall fuel a, run_api (env_of c) fuel a <> OOutOfFuel -> law (env_of c) a (run_api (env_of c) fuel a) = [].
Proof. intros Hc. exact (model_law (env_of c) (env_of_order_perm c) (exec_no_inversion c Hc)). Qed.

(* the twin of the F21 witness without the incomparable offer: the hypotheses hold and the specific offer wins *)
Definition f21_twin_config : config :=
  let t := true in let f := false in
  {| c_sub := [[t;f;f;f;f;f]; [f;t;f;f;f;f]; [f;t;t;f;f;f]; [f;f;f;t;f;f]; [t;t;t;t;t;f]; [f;f;f;f;f;t]];
     c_mro := [[0]; [1]; [2;1]; [3]; [4;0;2;1;3]; [5]];
     c_offers := [(1, 5, FAlways); (2, 5, FAlways)];
     c_src := 4; c_target := 5; c_flag := false |}.
Lemma comparable_nontrivial :
  exec_comparable f21_twin_config /\ adapt (env_of f21_twin_config) default_fuel = RAdapter [mk_offer_ 1 2 5].
Proof.
  split; [|vm_compute; reflexivity].
  unfold exec_comparable, froms_comparable.
  set (l := filter _ _). vm_compute in l. subst l.
  repeat split.
  - intros o1 o2 [<-|[<-|[]]] [<-|[<-|[]]] Hn Hs; vm_compute in *; congruence.
  - intros o1 o2 o3 [<-|[<-|[]]] [<-|[<-|[]]] [<-|[<-|[]]] H1 H2; vm_compute in *; congruence.
  - intros o1 o2 [<-|[<-|[]]] [<-|[<-|[]]] Hd Hn; vm_compute in *; try congruence; tauto.
Qed.

(* used in the statements of Props.v: the edge sort is a permutation of the applicable offers *)
Definition order_perm (E : env) : Prop := forall p l, Permutation (e_order E p l) l.

(* ================= histories: the law at every query of every history ================= *)
Lemma hstep_next fuel st o : fst (hstep fuel st o) = hnext st o.
Proof. destruct o; reflexivity. Qed.

(* no query of the history ran out of fuel *)
Definition answered (h : list (hop * option outcome)) : Prop := forall o, In (o, Some OOutOfFuel) h -> False.

(* every query is asked in a state whose applicable from-protocols are comparable (see exec_comparable) *)
Fixpoint hcomparable (st : hstate) (ops : list hop) : Prop :=
  match ops with
  | [] => True
  | o :: r => match o with HQuery q => exec_comparable (config_of st q) | _ => True end /\ hcomparable (hnext st o) r
  end.

Lemma hrun_law_except_specificity fuel : forall ops st i, answered (hrun fuel st ops) ->
  forall c, In c (hlaw i st (hrun fuel st ops)) -> exists j, c = (100 * j + 6)%Z.
Proof.
  induction ops as [|o r IH]; intros st i Ha c Hc; [destruct Hc|]. cbn [hrun] in *.
  pose proof (hstep_next fuel st o) as Hn. destruct (hstep fuel st o) as [st' ob] eqn:St. cbn [fst] in Hn. subst st'.
  cbn [hlaw] in Hc. apply in_app_or in Hc. destruct Hc as [Hc|Hc].
  - destruct o as [q| | | |]; cbn in St; inversion St; subst ob; try destruct Hc.
    apply in_map_iff in Hc. destruct Hc as (c0 & <- & Hc0). exists i. f_equal.
    apply (exec_law_except_specificity (config_of st q) fuel (snd q)); [|exact Hc0].
    intros Ho. apply (Ha (HQuery q)). left. rewrite Ho. reflexivity.
  - apply (IH (hnext st o) (i + 1)%Z); [|exact Hc]. intros o' Ho'. apply (Ha o'). right. exact Ho'.
Qed.

Lemma hrun_law_when_comparable fuel : forall ops st i, answered (hrun fuel st ops) -> hcomparable st ops ->
  hlaw i st (hrun fuel st ops) = [].
Proof.
  induction ops as [|o r IH]; intros st i Ha Hc; [reflexivity|]. cbn [hrun] in *.
  pose proof (hstep_next fuel st o) as Hn. destruct (hstep fuel st o) as [st' ob] eqn:St. cbn [fst] in Hn. subst st'.
  cbn [hlaw]. destruct Hc as [Hq Hr].
  rewrite (IH (hnext st o) (i + 1)%Z); [|intros o' Ho'; apply (Ha o'); right; exact Ho'|exact Hr].
  rewrite app_nil_r. destruct o as [q| | | |]; cbn in St; inversion St; subst ob; try reflexivity.
  rewrite (exec_law_when_comparable (config_of st q) Hq fuel (snd q)); [reflexivity|].
  intros Ho. apply (Ha (HQuery q)). left. rewrite Ho. reflexivity.
Qed.

(* with the fuel bound: a history whose registry never holds more than k offers is always answered with fuel > T k *)
Lemma T_mono a b : a <= b -> T a <= T b.
Proof.
  induction 1 as [|b Hab IH]; [lia|]. cbn [T]. pose proof (Nat.le_0_l (b * T b)). lia.
Qed.
Lemma number_offers_length l : forall i, length (number_offers i l) = length l.
Proof. induction l as [|[[a b] c] l IH]; intros i; cbn; [reflexivity|]. rewrite IH. reflexivity. Qed.
Fixpoint offers_bounded (k : nat) (st : hstate) (ops : list hop) : Prop :=
  length (h_offers st) <= k /\ match ops with [] => True | o :: r => offers_bounded k (hnext st o) r end.
Lemma hrun_answered fuel k : T k < fuel -> forall ops st, offers_bounded k st ops -> answered (hrun fuel st ops).
Proof.
  intros Hf. induction ops as [|o r IH]; intros st Hb o' Hin; [destruct Hin|]. cbn [hrun] in Hin.
  pose proof (hstep_next fuel st o) as Hn. destruct (hstep fuel st o) as [st' ob] eqn:St. cbn [fst] in Hn. subst st'.
  destruct Hb as [Hk Hr]. destruct Hin as [Hin|Hin].
  - inversion Hin; subst. destruct o' as [q|s0 m0|x| |]; cbn in St; [|discriminate St..]. inversion St as [Hq].
    apply (run_api_terminates (env_of (config_of st q)) (env_of_order_perm _) fuel (snd q)); [|exact Hq].
    assert (length (e_offers (env_of (config_of st q))) <= length (h_offers st)) as Hle.
    { destruct q as [[[a b] f] ap]. cbn. rewrite number_offers_length.
      destruct (uses_global ap && negb (h_global st)); cbn; lia. }
    pose proof (T_mono _ _ Hle). pose proof (T_mono _ _ Hk). lia.
  - apply (IH (hnext st o) Hr o' Hin).
Qed.
