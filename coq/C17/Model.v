(* C17 — executable model of traits/adaptation/adaptation_manager.py
   (AdaptationManager.adapt / _adapt / _get_applicable_offers /
   mro_distance_to_protocol / _by_weight_then_from_protocol_specificity) and of
   ctraits.c:validate_trait_adapt (modes 0/1/2) with the Supports / AdaptsTo
   storage rules of trait_types.py.

   Types are naturals.  An environment [env] holds everything the search reads:
     e_sub     issubclass, ARBITRARY (covers ABC registration, need not be transitive)
     e_dist    mro_distance_to_protocol (only used to order edges and weigh paths)
     e_offers  the registered offers in registration order (a list, i.e. a multiset
               with identities: [oid_] distinguishes two offers with equal protocols)
     e_step_ok does the factory of offer o succeed on the adapter built by the
               offers before it (prefix-dependent: conditional factories)
     e_order   the edge sort of one expansion.  The theorems hold for ANY
               permutation; the executable instance [order_py] below follows
               CPython's list.sort on cmp_to_key(_by_weight_then_from_protocol_specificity).
   Definitions only; proofs are in Proofs.v. *)
From Coq Require Import List Arith Bool PeanoNat.
Import ListNotations.

Definition ty := nat.
Record offer := { oid_ : nat; ofrom : ty; oto : ty }.
Definition offer_eqb (a b : offer) : bool :=
  Nat.eqb (oid_ a) (oid_ b) && Nat.eqb (ofrom a) (ofrom b) && Nat.eqb (oto a) (oto b).

Record env := mkEnv {
  e_sub : ty -> ty -> bool;
  e_dist : ty -> ty -> nat;
  e_offers : list offer;
  e_target : ty;
  e_src : ty;
  e_step_ok : list offer -> offer -> bool;
  e_order : list offer -> list offer -> list offer   (* path -> applicable offers -> sorted edges *)
}.

(* ---- priority queue keyed (adapters, mro_sum, counter): heapq on tuples ---- *)
Definition key := (nat * nat * nat)%type.
Definition key_ltb (a b : key) : bool :=
  let '(a1, a2, a3) := a in let '(b1, b2, b3) := b in
  (a1 <? b1) || ((a1 =? b1) && ((a2 <? b2) || ((a2 =? b2) && (a3 <? b3)))).
Definition entry := (key * list offer)%type.

(* heappop: the entry with the smallest key (keys are distinct: the counter) *)
Fixpoint pop_min (q : list entry) : option (entry * list entry) :=
  match q with
  | [] => None
  | e :: q' => match pop_min q' with
               | None => Some (e, [])
               | Some (m, rest) => if key_ltb (fst e) (fst m) then Some (e, q') else Some (m, e :: rest)
               end
  end.

Inductive result := Found (p : list offer) | NotFound | OutOfFuel.

Section WithEnv.
  Variable E : env.
  Notation sub := (e_sub E).
  Notation dist := (e_dist E).
  Notation offers := (e_offers E).
  Notation target := (e_target E).
  Notation src := (e_src E).
  Notation step_ok := (e_step_ok E).

  (* `adapter = adaptee; for offer in new_path: adapter = offer.factory(adapter);
      if adapter is None: break` (adaptation_manager.py:236-240) *)
  Fixpoint succ_from (pre p : list offer) : bool :=
    match p with [] => true | o :: p' => step_ok pre o && succ_from (pre ++ [o]) p' end.
  Definition succ (p : list offer) := succ_from [] p.

  (* current_protocol of a path: type(adaptee) for [], else the last offer's to_protocol (l.212, l.254) *)
  Definition cur_of (p : list offer) : ty := match rev p with [] => src | o :: _ => oto o end.
  Definition mem (o : offer) (p : list offer) := existsb (offer_eqb o) p.

  (* _get_applicable_offers: mro_distance is not None (= provides_protocol) and `offer not in path` *)
  Definition usable (p : list offer) (o : offer) : bool := sub (cur_of p) (ofrom o) && negb (mem o p).

  (* a valid chain: registered offers, each applicable after the ones before it, none used twice *)
  Fixpoint valid_from (pre p : list offer) : bool :=
    match p with
    | [] => true
    | o :: p' => usable pre o && existsb (offer_eqb o) offers && valid_from (pre ++ [o]) p'
    end.
  Definition valid p := valid_from [] p.
  Definition complete (p : list offer) : bool := match p with [] => false | _ => sub (cur_of p) target end.

  (* the `for mro_distance, offer in edges` loop of one popped path (l.229-256) *)
  Fixpoint expand (k : key) (p : list offer) (es : list offer) (q : list entry) (cnt : nat)
    : (option (list offer)) * list entry * nat :=
    match es with
    | [] => (None, q, cnt)
    | o :: es' =>
        let np := p ++ [o] in
        if sub (oto o) target then
          if succ np then (Some np, q, cnt) else expand k p es' q cnt
        else
          let '(a, m, _) := k in
          expand k p es' (((S a, m + dist (cur_of p) (ofrom o), cnt), np) :: q) (S cnt)
    end.

  (* `while len(offer_queue) > 0` (l.211) with explicit fuel *)
  Fixpoint search (fuel : nat) (q : list entry) (cnt : nat) : result :=
    match fuel with
    | O => OutOfFuel
    | S f => match pop_min q with
             | None => NotFound
             | Some ((k, p), rest) =>
                 let es := e_order E p (filter (usable p) offers) in
                 match expand k p es rest cnt with
                 | (Some np, _, _) => Found np
                 | (None, q', cnt') => search f q' cnt'
                 end
             end
    end.
  (* _adapt: offer_queue = [((0, 0, next(counter)), [], type(adaptee))] *)
  Definition adapt_search (fuel : nat) : result := search fuel [((0, 0, 0), [])] 1.

  (* AdaptationManager.adapt (l.100-112): the object itself when its type provides the protocol *)
  Inductive aresult := RSelf | RAdapter (p : list offer) | RNone | RFuel.
  Definition adapt (fuel : nat) : aresult :=
    if sub src target then RSelf
    else match adapt_search fuel with
         | Found p => RAdapter p
         | NotFound => RNone
         | OutOfFuel => RFuel
         end.
End WithEnv.

(* ---- the public entry points built on [adapt] ---- *)
(* ApiAdapt = manager.adapt(obj, P) on the user's manager, ApiAdaptModule = the module-level traits.api.adapt(obj, P) (global
   manager): both raise AdaptationError; adapt(obj, P, default) returns the default,
   supports_protocol(obj, P) = adapt(obj, P, None) is not None *)
Inductive api := ApiAdapt | ApiAdaptModule | ApiAdaptDefault | ApiSupports
               | TraitInstance (mode : nat)      (* Instance(P, adapt="no"/"yes"/"default") = mode 0/1/2 *)
               | TraitSupports | TraitAdaptsTo    (* both mode 1 *)
               (* the adaptable-object check as ONE ALTERNATIVE of a compound trait (validate_trait_complex case 19,
                  ctraits.c:4150-4218): 0 = Either(Supports(P), Int), 1 = Either(Int, Supports(P)),
                  2.. = Either(Instance(P, adapt="default"), Int); the assigned value is never an int *)
               | TraitEither (variant : nat).

(* what a caller sees *)
Inductive value := VSelf | VAdapter (p : list offer) | VDefault.
Inductive outcome :=
| OValue (v : value)                 (* adapt / adapt with default *)
| OBool (b : bool)                   (* supports_protocol *)
| OStored (v : value) (shadow : option value)   (* trait assignment accepted: trait value, name_ shadow *)
| OAdaptationError | OTraitError | OOutOfFuel.

Definition value_of (r : aresult) : option value :=
  match r with RSelf => Some VSelf | RAdapter p => Some (VAdapter p) | _ => None end.

(* validate_trait_adapt (ctraits.c:3902-3981) for a non-None value, followed by the
   storage rule: Supports keeps the adapted value and shadows the original
   (post_setattr_original_value), AdaptsTo keeps the original and shadows the adapted value
   (setattr_original_value + Supports.post_setattr receiving the validated value). *)
Definition validate_adapt (mode : nat) (provides : bool) (r : aresult) : option (option value) :=
  (* None = out of fuel; Some None = TraitError; Some (Some v) = validated value *)
  match mode with
  | O => Some (if provides then Some VSelf else None)               (* mode 0: isinstance only *)
  | _ => match r with
         | RFuel => None
         | RSelf => Some (Some VSelf)
         | RAdapter p => Some (Some (VAdapter p))
         | RNone => if provides then Some (Some VSelf)                (* isinstance fallback *)
                    else match mode with
                         | 1 => Some None                             (* mode 1: TraitError *)
                         | _ => Some (Some VDefault)                  (* mode 2: default value *)
                         end
         end
  end.

Definition run_api (E : env) (fuel : nat) (a : api) : outcome :=
  let r := adapt E fuel in
  let provides := e_sub E (e_src E) (e_target E) in
  match a with
  | ApiAdapt | ApiAdaptModule =>
      match r with RFuel => OOutOfFuel | RNone => OAdaptationError
      | RSelf => OValue VSelf | RAdapter p => OValue (VAdapter p) end
  | ApiAdaptDefault => match r with RFuel => OOutOfFuel | RNone => OValue VDefault
                       | RSelf => OValue VSelf | RAdapter p => OValue (VAdapter p) end
  | ApiSupports => match r with RFuel => OOutOfFuel | RNone => OBool false | _ => OBool true end
  | TraitInstance mode =>
      match validate_adapt mode provides r with
      | None => OOutOfFuel | Some None => OTraitError | Some (Some v) => OStored v None
      end
  | TraitSupports =>
      match validate_adapt 1 provides r with
      | None => OOutOfFuel | Some None => OTraitError | Some (Some v) => OStored v (Some VSelf)
      end
  | TraitAdaptsTo =>
      match validate_adapt 1 provides r with
      | None => OOutOfFuel | Some None => OTraitError | Some (Some v) => OStored VSelf (Some v)
      end
  | TraitEither (S (S _)) =>            (* mode 2: `return default_value_for(trait, obj, name)` *)
      match validate_adapt 2 provides r with
      | None => OOutOfFuel | Some None => OTraitError | Some (Some v) => OStored v None
      end
  | TraitEither _ =>
      (* mode 1: `break` = next alternative (Int rejects the object) = TraitError; on success the validated value is
         stored and Supports.post_setattr receives the same validated value (no post_setattr_original_value on the
         compound trait), so value and shadow coincide *)
      match validate_adapt 1 provides r with
      | None => OOutOfFuel | Some None => OTraitError | Some (Some v) => OStored v (Some v)
      end
  end.

(* ======================================================================
   The executable instance used by the correspondence.
   ====================================================================== *)

(* ---- CPython's list.sort for fewer than 64 elements (Objects/listobject.c, 3.12):
   count_run finds the initial run (strictly descending runs are reversed), the
   remaining elements are inserted by binarysort.  [lt] is the only comparison used. *)
Section PySort.
  Context {A : Type}.
  Variable lt : A -> A -> bool.

  (* binarysort inner loop: l = lo, r = start; p = l + ((r - l) >> 1);
     IFLT(pivot, *p) r = p; else l = p + 1; while (l < r) *)
  Fixpoint bisect (fuel : nat) (pre : list A) (pivot : A) (l r : nat) : nat :=
    match fuel with
    | O => l
    | S f => if l <? r then
               let p := l + Nat.div2 (r - l) in
               match nth_error pre p with
               | Some x => if lt pivot x then bisect f pre pivot l p else bisect f pre pivot (S p) r
               | None => l
               end
             else l
    end.

  Definition insert_at (pre : list A) (i : nat) (x : A) : list A := firstn i pre ++ x :: skipn i pre.

  Fixpoint binarysort (pre rest : list A) : list A :=
    match rest with
    | [] => pre
    | x :: rest' => binarysort (insert_at pre (bisect (S (length pre)) pre x 0 (length pre)) x) rest'
    end.

  (* count_run, ascending branch: extend while not (next < last) *)
  Fixpoint run_asc (last : A) (l : list A) : list A * list A :=
    match l with
    | [] => ([], [])
    | x :: l' => if lt x last then ([], l) else let '(r, t) := run_asc x l' in (x :: r, t)
    end.
  (* descending branch: extend while next < last *)
  Fixpoint run_desc (last : A) (l : list A) : list A * list A :=
    match l with
    | [] => ([], [])
    | x :: l' => if lt x last then let '(r, t) := run_desc x l' in (x :: r, t) else ([], l)
    end.

  Definition py_sort (l : list A) : list A :=
    match l with
    | [] => []
    | [a] => [a]
    | a :: b :: l' =>
        if lt b a then let '(r, t) := run_desc b l' in binarysort (rev (a :: b :: r)) t
        else let '(r, t) := run_asc b l' in binarysort (a :: b :: r) t
    end.
End PySort.

(* _by_weight_then_from_protocol_specificity(e1, e2) < 0  (adaptation_manager.py:296-325) *)
Definition edge_lt (sub : ty -> ty -> bool) (e1 e2 : nat * offer) : bool :=
  let '(d1, o1) := e1 in let '(d2, o2) := e2 in
  (d1 <? d2) || ((d1 =? d2) && negb (ofrom o1 =? ofrom o2) && sub (ofrom o1) (ofrom o2)).

(* `for from_protocol_name, offers in self._adaptation_offers.items()`: the registry is a dict
   keyed by the from-protocol, so edges come grouped by from-protocol in order of first
   registration, registration order inside a group. *)
Fixpoint group_by (fs : list ty) (l : list offer) : list offer :=
  match fs with
  | [] => l
  | f :: fs' => filter (fun o => ofrom o =? f) l ++ group_by fs' (filter (fun o => negb (ofrom o =? f)) l)
  end.

Definition order_py (sub : ty -> ty -> bool) (dist : ty -> ty -> nat) (all : list offer) (cur : ty)
    (l : list offer) : list offer :=
  map snd (py_sort (edge_lt sub) (map (fun o => (dist cur (ofrom o), o)) (group_by (map ofrom all) l))).

(* a simple total sort (insertion by (distance, specificity rank, position)), used as the
   witness that the hypothesis of [specific_first_single_step] is satisfiable *)
Fixpoint insert_by {A} (le : A -> A -> bool) (x : A) (l : list A) : list A :=
  match l with
  | [] => [x]
  | y :: l' => if le x y then x :: l else y :: insert_by le x l'
  end.
Definition isort {A} (le : A -> A -> bool) (l : list A) : list A := fold_right (insert_by le) [] l.

(* ---- hierarchies given by tables observed from the interpreter ---- *)
Definition tbl_sub (m : list (list bool)) (a b : ty) : bool := nth b (nth a m []) false.
Fixpoint take_while {A} (f : A -> bool) (l : list A) : list A :=
  match l with [] => [] | x :: l' => if f x then x :: take_while f l' else [] end.
(* mro_distance_to_protocol (l.41-63): number of leading supertypes in mro[1:] that provide it *)
Definition tbl_dist (m : list (list bool)) (mro : list (list ty)) (a b : ty) : nat :=
  length (take_while (fun t => tbl_sub m t b) (tl (nth a mro []))).

(* conditional factories *)
Inductive fac :=
| FAlways                 (* returns an adapter *)
| FNever                  (* returns None *)
| FIfFlag                 (* adapter iff the ORIGINAL adaptee carries a flag (reads through the chain) *)
| FMaxDepth (n : nat)     (* adapter iff at most n adapters were applied before this one *)
| FNotAfter (id : nat)    (* None iff the adaptee is the adapter produced by offer id *)
| FNeeds (id : nat).      (* adapter iff offer id was applied somewhere before ("only when reviewed") *)

Definition fac_ok (flag : bool) (f : fac) (pre : list offer) : bool :=
  match f with
  | FAlways => true
  | FNever => false
  | FIfFlag => flag
  | FMaxDepth n => length pre <=? n
  | FNotAfter id => match rev pre with [] => true | o :: _ => negb (oid_ o =? id) end
  | FNeeds id => existsb (fun o => oid_ o =? id) pre
  end.

Record config := mkConfig {
  c_sub : list (list bool);      (* issubclass table observed from the interpreter *)
  c_mro : list (list ty);        (* inspect.getmro of each type, without `object` *)
  c_offers : list (ty * ty * fac);   (* (from, to, factory) in registration order; oid = position *)
  c_src : ty;
  c_target : ty;
  c_flag : bool
}.

Fixpoint number_offers (i : nat) (l : list (ty * ty * fac)) : list offer :=
  match l with
  | [] => []
  | (f, t, _) :: l' => {| oid_ := i; ofrom := f; oto := t |} :: number_offers (S i) l'
  end.

Definition env_of (c : config) : env :=
  let sub := tbl_sub (c_sub c) in
  let dist := tbl_dist (c_sub c) (c_mro c) in
  let offs := number_offers 0 (c_offers c) in
  let src := c_src c in
  {| e_sub := sub; e_dist := dist; e_offers := offs; e_target := c_target c; e_src := src;
     e_step_ok := fun pre o => fac_ok (c_flag c) (snd (nth (oid_ o) (c_offers c) (0, 0, FNever))) pre;
     e_order := fun p l => order_py sub dist offs (match rev p with [] => src | o :: _ => oto o end) l |}.

Definition mk_offer_ (i f t : nat) : offer := {| oid_ := i; ofrom := f; oto := t |}.
Definition default_fuel : nat := 200 * 100.

(* ======================================================================
   Histories: queries interleaved with changes of the hierarchy (ABCMeta.register: the new issubclass table and MROs
   are read from the interpreter) and of the registry (register_offer).  The model has no memory: every query is
   answered from the state current at that point.
   ====================================================================== *)
Definition query := (ty * ty * bool * api)%type.     (* source type, target protocol, adaptee flag, entry point *)
Record hstate := mkH { h_sub : list (list bool); h_mro : list (list ty);
                       h_offers : list (ty * ty * fac);     (* the registry of the USER'S manager *)
                       h_global : bool                      (* the user's manager is the global one *) }.
Inductive hop :=
| HQuery (q : query)
| HTables (s : list (list bool)) (m : list (list ty))      (* the hierarchy changed: tables as they are now *)
| HOffer (o : ty * ty * fac)                                (* register_offer on the user's manager: appended, id = position *)
| HResetGlobal       (* reset_global_adaptation_manager(): the global manager becomes a NEW, empty one; the user's keeps its offers *)
| HSetGlobal.        (* set_global_adaptation_manager(user's manager) *)

(* which entry points go through the GLOBAL manager: the module-level adapt / supports_protocol, and the traits (the C
   validator calls the module-level adapt); AdaptationManager.adapt called on the user's manager does not *)
Definition uses_global (a : api) : bool := match a with ApiAdapt => false | _ => true end.

Definition config_of (st : hstate) (q : query) : config :=
  let '(src, tgt, flag, a) := q in
  {| c_sub := h_sub st; c_mro := h_mro st;
     c_offers := if uses_global a && negb (h_global st) then [] else h_offers st;      (* a fresh global manager has no offers *)
     c_src := src; c_target := tgt; c_flag := flag |}.

Definition hstep (fuel : nat) (st : hstate) (o : hop) : hstate * option outcome :=
  match o with
  | HQuery q => (st, Some (run_api (env_of (config_of st q)) fuel (snd q)))
  | HTables s m => (mkH s m (h_offers st) (h_global st), None)
  | HOffer x => (mkH (h_sub st) (h_mro st) (h_offers st ++ [x]) (h_global st), None)
  | HResetGlobal => (mkH (h_sub st) (h_mro st) (h_offers st) false, None)
  | HSetGlobal => (mkH (h_sub st) (h_mro st) (h_offers st) true, None)
  end.

Fixpoint hrun (fuel : nat) (st : hstate) (ops : list hop) : list (hop * option outcome) :=
  match ops with
  | [] => []
  | o :: r => let '(st', ob) := hstep fuel st o in (o, ob) :: hrun fuel st' r
  end.
