(* C17 — property theorems only.  Each is closed by [exact] of a lemma of Proofs.v and
   followed by Print Assumptions.  [E : env] is an arbitrary adaptation problem: arbitrary
   issubclass relation (ABC registration, no transitivity assumed), arbitrary MRO distance,
   arbitrary list of offers (cycles, duplicates), factories that may fail depending on the
   adapters applied before them; the edge sort is ANY permutation ([order_perm]) unless stated.
   Out-of-fuel is a distinct result that the statements exclude; the correspondence run
   reports it if it ever occurs. *)
From Coq Require Import List Arith Bool PeanoNat Permutation ZArith.
From TV Require Import Common.Harness C17.Model C17.Law C17.Proofs.
Import ListNotations.
Local Open Scope nat_scope.

(* adapt returns the object itself when its type provides the protocol — through every entry point *)
Theorem self_when_provides :
  forall E fuel, e_sub E (e_src E) (e_target E) = true ->
    adapt E fuel = RSelf /\ run_api E fuel ApiAdapt = OValue VSelf /\ run_api E fuel ApiAdaptDefault = OValue VSelf
    /\ run_api E fuel ApiSupports = OBool true
    /\ run_api E fuel TraitSupports = OStored VSelf (Some VSelf)
    /\ run_api E fuel TraitAdaptsTo = OStored VSelf (Some VSelf)
    /\ forall m, run_api E fuel (TraitInstance m) = OStored VSelf None.
Proof. exact self_when_provides. Qed.
Print Assumptions self_when_provides.

(* a returned chain consists of registered offers, each applicable where it is used, none used twice,
   every factory succeeds, and it reaches the target *)
Theorem adapt_sound :
  forall E, order_perm E -> forall fuel p, adapt E fuel = RAdapter p ->
    e_sub E (e_src E) (e_target E) = false /\ valid E p = true /\ succ E p = true /\ complete E p = true.
Proof. exact adapt_adapter_sound. Qed.
Print Assumptions adapt_sound.

(* if ANY valid, all-succeeding chain to the target exists, the search does not answer "none",
   and a chain it returns is no longer than that one *)
Theorem adapt_complete_minimal :
  forall E, order_perm E -> forall fuel Q, e_sub E (e_src E) (e_target E) = false ->
    valid E Q = true -> succ E Q = true -> complete E Q = true ->
    adapt E fuel <> RNone /\ adapt E fuel <> RSelf /\ forall p, adapt E fuel = RAdapter p -> length p <= length Q.
Proof. exact adapt_complete_minimal. Qed.
Print Assumptions adapt_complete_minimal.

(* the lemma that lifts the spike's statement (chains cut at their first complete prefix) to all chains *)
Theorem cut_lemma :
  forall E Q, valid E Q = true -> succ E Q = true -> complete E Q = true ->
    exists m, 1 <= m <= length Q /\
      valid E (firstn m Q) = true /\ succ E (firstn m Q) = true /\ complete E (firstn m Q) = true /\
      (forall i, i < length (firstn m Q) -> i <> 0 -> complete E (firstn i (firstn m Q)) = false).
Proof. exact cut_lemma. Qed.
Print Assumptions cut_lemma.

(* "none" (AdaptationError / supplied default / False / TraitError / trait default) iff the type does not
   provide the protocol and no chain exists *)
Theorem none_iff_default_or_error :
  forall E, order_perm E -> forall fuel, adapt E fuel <> RFuel ->
    let none := e_sub E (e_src E) (e_target E) = false /\ ~ chain_exists E in
    (none <-> run_api E fuel ApiAdapt = OAdaptationError) /\
    (none <-> run_api E fuel ApiAdaptDefault = OValue VDefault) /\
    (none <-> run_api E fuel ApiSupports = OBool false) /\
    (none <-> run_api E fuel (TraitInstance 1) = OTraitError) /\
    (none <-> run_api E fuel (TraitInstance 2) = OStored VDefault None) /\
    (none <-> run_api E fuel TraitSupports = OTraitError) /\
    (none <-> run_api E fuel TraitAdaptsTo = OTraitError).
Proof. exact none_iff_default_or_error. Qed.
Print Assumptions none_iff_default_or_error.

(* Supports / AdaptsTo / Instance(adapt="yes") apply exactly adapt() to assigned values *)
Theorem supports_adaptsto_same :
  forall E fuel,
    (forall v, run_api E fuel ApiAdapt = OValue v <-> run_api E fuel TraitSupports = OStored v (Some VSelf)) /\
    (forall v, run_api E fuel ApiAdapt = OValue v <-> run_api E fuel TraitAdaptsTo = OStored VSelf (Some v)) /\
    (run_api E fuel ApiAdapt = OAdaptationError <-> run_api E fuel TraitSupports = OTraitError) /\
    (run_api E fuel ApiAdapt = OAdaptationError <-> run_api E fuel TraitAdaptsTo = OTraitError) /\
    (forall v, run_api E fuel ApiAdapt = OValue v <-> run_api E fuel (TraitInstance 1) = OStored v None).
Proof. exact supports_adaptsto_same. Qed.
Print Assumptions supports_adaptsto_same.

(* ... and so does the adaptable-object check when Supports / Instance(adapt=...) is one alternative of a compound
   trait (validate_trait_complex case 19): 0 = Either(Supports(P), Int), 1 = Either(Int, Supports(P)),
   2 = Either(Instance(P, adapt="default"), Int) *)
Theorem compound_supports_same :
  forall E fuel,
    (forall v, run_api E fuel ApiAdapt = OValue v <-> run_api E fuel (TraitEither 0) = OStored v (Some v)) /\
    (forall v, run_api E fuel ApiAdapt = OValue v <-> run_api E fuel (TraitEither 1) = OStored v (Some v)) /\
    (forall v, v <> VDefault -> (run_api E fuel ApiAdapt = OValue v <-> run_api E fuel (TraitEither 2) = OStored v None)) /\
    (run_api E fuel ApiAdapt = OAdaptationError <-> run_api E fuel (TraitEither 0) = OTraitError) /\
    (run_api E fuel ApiAdapt = OAdaptationError <-> run_api E fuel (TraitEither 1) = OTraitError) /\
    (run_api E fuel ApiAdapt = OAdaptationError <-> run_api E fuel (TraitEither 2) = OStored VDefault None).
Proof. exact compound_same. Qed.
Print Assumptions compound_supports_same.

(* single-step choice, for an edge sort that never leaves a better edge behind a worse one in the first
   expansion: smallest MRO distance, then no strictly more specific from-protocol at that distance *)
Theorem specific_first_single_step :
  forall E, order_perm E -> forall fuel o, no_inversion E -> adapt E fuel = RAdapter [o] ->
    forall o', In o' (e_offers E) -> usable E [] o' = true -> e_sub E (oto o') (e_target E) = true ->
      e_step_ok E [] o' = true ->
      e_dist E (e_src E) (ofrom o) <= e_dist E (e_src E) (ofrom o') /\
      (e_dist E (e_src E) (ofrom o) = e_dist E (e_src E) (ofrom o') -> strict_sub E (ofrom o') (ofrom o) = false).
Proof. exact single_step_reading. Qed.
Print Assumptions specific_first_single_step.

(* the hypothesis [no_inversion] is satisfiable: a total sort by (distance, specificity rank) has it
   whenever issubclass is reflexive and transitive *)
Theorem no_inversion_satisfiable :
  forall E, (forall a, e_sub E a a = true) ->
    (forall a b c, e_sub E a b = true -> e_sub E b c = true -> e_sub E a c = true) ->
    order_perm (with_order_rank E) /\ no_inversion (with_order_rank E).
Proof. exact no_inversion_satisfiable_l. Qed.
Print Assumptions no_inversion_satisfiable.

(* ... and it is NOT met by the code's sort (CPython's insertion with the partial comparator
   _by_weight_then_from_protocol_specificity): finding F21.  The executable model reproduces it. *)
Theorem specific_first_refuted :
  exists c o o', adapt (env_of c) default_fuel = RAdapter [o] /\ In o' (e_offers (env_of c)) /\
                 single_candidate (env_of c) o' = true /\ better (env_of c) o' o = true /\
                 law (env_of c) ApiAdapt (run_api (env_of c) default_fuel ApiAdapt) = [6%Z].
Proof. exact specific_first_refuted_exec. Qed.
Print Assumptions specific_first_refuted.

(* ... but the distance part of the single-step clause holds for the code's own sort without any hypothesis:
   CPython's insertion keeps the major key (MRO distance) sorted even though the comparator is partial *)
Theorem min_distance_first_executable :
  forall c fuel o, adapt (env_of c) fuel = RAdapter [o] ->
    forall o', In o' (e_offers (env_of c)) -> single_candidate (env_of c) o' = true ->
      e_dist (env_of c) (e_src (env_of c)) (ofrom o) <= e_dist (env_of c) (e_src (env_of c)) (ofrom o').
Proof. exact min_distance_first_exec. Qed.
Print Assumptions min_distance_first_executable.

(* the whole law (Law.v, all clauses, every entry point) holds of the model *)
Theorem model_satisfies_law :
  forall E, order_perm E -> no_inversion E ->
    forall fuel a, run_api E fuel a <> OOutOfFuel -> law E a (run_api E fuel a) = [].
Proof. exact model_law. Qed.
Print Assumptions model_satisfies_law.

(* the executable model used by the correspondence (edge order = CPython's sort on the code's comparator,
   hierarchy tables, conditional factories) satisfies every clause except the single-step one (clause 6) *)
Theorem executable_model_satisfies_law_except_specificity :
  forall c fuel a, run_api (env_of c) fuel a <> OOutOfFuel ->
    forall code, In code (law (env_of c) a (run_api (env_of c) fuel a)) -> code = 6%Z.
Proof. exact exec_law_except_specificity. Qed.
Print Assumptions executable_model_satisfies_law_except_specificity.

(* the exact extent of F21: for the executable model (the code's own sort) the WHOLE law holds whenever, among the
   from-protocols of the offers applicable to the source type, issubclass is antisymmetric and transitive and two
   different from-protocols at the same MRO distance are always related — CPython's binary insertion is a correct
   sort for a strict weak order (py_sort_nsorted), and the code's comparator is one under these hypotheses *)
Theorem executable_model_satisfies_law_when_comparable :
  forall c, exec_comparable c ->
    forall fuel a, run_api (env_of c) fuel a <> OOutOfFuel -> law (env_of c) a (run_api (env_of c) fuel a) = [].
Proof. exact exec_law_when_comparable. Qed.
Print Assumptions executable_model_satisfies_law_when_comparable.

(* the hypothesis is met by the F21 configuration without its incomparable offer, and there the specific offer wins *)
Example comparable_hypothesis_nontrivial :
  exec_comparable f21_twin_config /\ adapt (env_of f21_twin_config) default_fuel = RAdapter [mk_offer_ 1 2 5].
Proof. exact comparable_nontrivial. Qed.

(* enough fuel: with more fuel than T |offers| (T 0 = 1, T (k+1) = 1 + (k+1) * T k: the number of offer sequences
   without repetition) the search always answers, so "out of fuel" is not a way out of the theorems above;
   the fuel used by the correspondence runs (20000) suffices for every problem with at most 7 offers *)
Theorem search_terminates_with_enough_fuel :
  forall E, order_perm E -> forall fuel a, T (length (e_offers E)) < fuel ->
    adapt E fuel <> RFuel /\ run_api E fuel a <> OOutOfFuel.
Proof. exact terminates_l. Qed.
Print Assumptions search_terminates_with_enough_fuel.

Theorem default_fuel_suffices_up_to_7_offers : T 7 < default_fuel.
Proof. exact default_fuel_enough. Qed.
Print Assumptions default_fuel_suffices_up_to_7_offers.

(* HISTORIES (queries interleaved with ABCMeta.register — new tables — and register_offer): the function the
   correspondence evaluates, [hrun], satisfies the law at EVERY query of EVERY history, each query being judged
   against the state current when it is asked ([hlaw] threads the state from the operations alone) *)
Theorem history_satisfies_law_except_specificity :
  forall fuel ops st i, answered (hrun fuel st ops) ->
    forall c, In c (hlaw i st (hrun fuel st ops)) -> exists j, c = (100 * j + 6)%Z.
Proof. exact hrun_law_except_specificity. Qed.
Print Assumptions history_satisfies_law_except_specificity.

Theorem history_satisfies_law_when_comparable :
  forall fuel ops st i, answered (hrun fuel st ops) -> hcomparable st ops -> hlaw i st (hrun fuel st ops) = [].
Proof. exact hrun_law_when_comparable. Qed.
Print Assumptions history_satisfies_law_when_comparable.

(* and every query of a history whose registry never exceeds k offers is answered when fuel > T k *)
Theorem history_is_answered_with_enough_fuel :
  forall fuel k, T k < fuel -> forall ops st, offers_bounded k st ops -> answered (hrun fuel st ops).
Proof. exact hrun_answered. Qed.
Print Assumptions history_is_answered_with_enough_fuel.

(* Non-vacuity: the adaptation fails, ABCMeta.register makes the source provide the from-protocol, then it succeeds;
   an offer is registered and a shorter answer appears; reset_global_adaptation_manager() leaves the user's manager intact
   (its own adapt still answers) while the module-level route sees a new empty manager, until the user's is installed again *)
Example history_nontrivial :
  let t := true in let f := false in
  let st := mkH [[t;f;f]; [f;t;f]; [f;f;t]] [[0]; [1]; [2]] [(0, 2, FAlways)] true in
  let ops := [HQuery (1, 2, f, ApiAdaptDefault); HTables [[t;f;f]; [t;t;f]; [f;f;t]] [[0]; [1]; [2]];
              HQuery (1, 2, f, ApiAdaptDefault); HOffer (1, 2, FAlways); HQuery (1, 2, f, ApiAdapt);
              HResetGlobal; HQuery (1, 2, f, ApiAdapt); HQuery (1, 2, f, ApiAdaptDefault); HSetGlobal; HQuery (1, 2, f, TraitSupports)] in
  map snd (hrun default_fuel st ops)
  = [Some (OValue VDefault); None; Some (OValue (VAdapter [mk_offer_ 0 0 2])); None; Some (OValue (VAdapter [mk_offer_ 1 1 2]));
     None; Some (OValue (VAdapter [mk_offer_ 1 1 2])); Some (OValue VDefault); None;
     Some (OStored (VAdapter [mk_offer_ 1 1 2]) (Some VSelf))]
  /\ hlaw 0%Z st (hrun default_fuel st ops) = [].
Proof. vm_compute. split; reflexivity. Qed.

(* Non-vacuity: a cyclic offer graph with a failing conditional factory on the short route; the search
   returns the 3-step detour, which is valid, succeeds and is complete. *)
Example search_nontrivial :
  let c := {| c_sub := [[true;false;false;false]; [false;true;false;false]; [false;false;true;false]; [false;false;false;true]];
              c_mro := [[0]; [1]; [2]; [3]];
              c_offers := [(0, 1, FAlways); (1, 0, FAlways); (1, 3, FNever); (1, 2, FAlways); (2, 3, FMaxDepth 2)];
              c_src := 0; c_target := 3; c_flag := false |} in
  adapt (env_of c) default_fuel = RAdapter [mk_offer_ 0 0 1; mk_offer_ 3 1 2; mk_offer_ 4 2 3]
  /\ min_len (env_of c) = Some 3.
Proof. vm_compute. split; reflexivity. Qed.
