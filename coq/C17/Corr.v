(* C17 — correspondence.  One case = a type hierarchy (issubclass table and MROs as
   observed from the interpreter), the registered offers with their factory kinds, and a
   list of queries (source type, target protocol, adaptee flag, entry point) each with
   the outcome recorded from the implementation. *)
From Coq Require Import List Arith Bool PeanoNat ZArith.
From TV Require Import Common.Harness C17.Model C17.Law.
Import ListNotations.
Local Open Scope nat_scope.

(* class of a value / outcome, length of its chain, identity of its chain *)
Definition value_kind (v : value) : nat := match v with VSelf => 0 | VAdapter _ => 1 | VDefault => 2 end.
Definition value_len (v : value) : nat := match v with VAdapter p => length p | _ => 0 end.
Definition value_ids (v : value) : list nat := match v with VAdapter p => map oid_ p | _ => [] end.
Definition outcome_vals (o : outcome) : list value :=
  match o with
  | OValue v => [v]
  | OStored v None => [v]
  | OStored v (Some w) => [v; w]
  | _ => []
  end.
Definition outcome_kind (o : outcome) : nat :=
  match o with
  | OValue _ => 0 | OBool true => 1 | OBool false => 2 | OStored _ None => 3 | OStored _ (Some _) => 4
  | OAdaptationError => 5 | OTraitError => 6 | OOutOfFuel => 7
  end.
Definition nat_list_eqb := list_eqb Nat.eqb.

(* codes: 1 outcome class, 2 chain length, 3 identity of the chain (the executable model
   follows CPython's sort, so even ties are predicted; this is NOT part of the law),
   9 the model ran out of fuel (reported, never expected) *)
Definition obs_diff (m i : outcome) : list Z :=
  match m with
  | OOutOfFuel => [9%Z]
  | _ =>
    chk 1 (Nat.eqb (outcome_kind m) (outcome_kind i)
           && nat_list_eqb (map value_kind (outcome_vals m)) (map value_kind (outcome_vals i)))
    ++ chk 2 (nat_list_eqb (map value_len (outcome_vals m)) (map value_len (outcome_vals i)))
    ++ chk 3 (list_eqb nat_list_eqb (map value_ids (outcome_vals m)) (map value_ids (outcome_vals i)))
  end.

(* A case is a HISTORY: the initial state (tables read from the interpreter, offers) and the operations in order, each
   query with the outcome recorded from the implementation.  The state is threaded by [Model.hstep] / [Law.hnext];
   the model answers every query from the state current at that point only — it has no memory — so anything the
   implementation carries over from an earlier state shows. *)
Definition case := (hstate * list (hop * option outcome))%type.

Fixpoint corr_hist (i : Z) (st : hstate) (h : list (hop * option outcome)) : list Z :=
  match h with
  | [] => []
  | (o, ob) :: r =>
      match hstep default_fuel st o, ob with
      | (_, Some mo), Some io => map (fun c => (100 * i + c)%Z) (obs_diff mo io)
      | _, _ => []
      end ++ corr_hist (i + 1)%Z (hnext st o) r          (* = fst (hstep _ st o), Proofs.hstep_next: no second evaluation *)
  end.

Definition corr_codes (c : case) : list Z := corr_hist 0%Z (fst c) (snd c).
Definition law_codes (c : case) : list Z := hlaw 0%Z (fst c) (snd c).

(* for the evidence: how many queries of a case have a non-trivial answer in the model *)
Definition mk_offer (i f t : nat) : offer := {| oid_ := i; ofrom := f; oto := t |}.
