(* C14 — pickling, deep copying and cloning of HasTraits objects: executable model.

   Modelled code
     has_traits.py  __getstate__ 1281-1332 (non-transient traits), __setstate__ 1337-1360 (trait_set of
                    every state entry = re-assignment through the validators), __reduce_ex__ 1334,
                    copy_traits 1546-1634 (per-trait copy metadata, deep/shallow/reference),
                    clone_traits 1636-1684, __deepcopy__ 1686-1693 (clone_traits with the memo's modes:
                    at top level copy=None!), copyable_trait_names (transient is not True)
     trait_types.py List/Dict/Set.validate: an assigned container is ALWAYS re-wrapped into a new
                    Trait*Object bound to (trait, object, name), items re-validated (nested containers
                    re-wrapped recursively)
     trait_list_object.py 808-850, trait_dict_object.py 561-594, trait_set_object.py 557-602:
                    __getstate__ drops object/trait, __setstate__ restores an ownerless container,
                    __deepcopy__ builds an ownerless container with deep-copied items
     trait_types.py ReadOnly (write-once).
   Values: scalars and containers; a container has an identity, an owner (the object it validates and
   notifies against; None = ownerless: accepts anything, notifies nobody) and items.  Identities are
   allocated from a counter, so "fresh" = "not smaller than the counter before the copy".
   One container shape stands for List, Dict values and Set (the owner/rebinding logic is the same
   three times in the source; the driver exercises all three). *)
From Coq Require Import ZArith List Bool.
Import ListNotations.
Open Scope Z_scope.

Inductive value := Sc (z : Z) | Ct (id : Z) (owner : option Z) (items : list value).

(* trait types: Int (valid = non-negative scalars), container of ..., Any (stores the object as it is),
   ReadOnly (write-once Any) *)
Inductive ttype := TInt | TCont (inner : ttype) | TAny | TReadOnly.
Inductive cmode := CRef | CShallow | CDeep.

Record tdef := {
  td_type : ttype;
  td_transient : bool;
  td_copy : option cmode               (* explicit `copy` metadata; container traits default to deep *)
}.

Definition cls := list (Z * tdef).

(* ---------- validation = re-binding ---------- *)
Fixpoint validate (t : ttype) (o : Z) (v : value) (n : Z) {struct v} : option (value * Z) :=
  match t, v with
  | TInt, Sc z => if 0 <=? z then Some (Sc z, n) else None
  | TInt, Ct _ _ _ => None
  | TAny, _ => Some (v, n)
  | TReadOnly, _ => Some (v, n)
  | TCont _, Sc _ => None
  | TCont inner, Ct _ _ items =>
      match (fix go (l : list value) (m : Z) {struct l} : option (list value * Z) :=
               match l with
               | [] => Some ([], m)
               | x :: r => match validate inner o x m with
                           | None => None
                           | Some (x', m1) => match go r m1 with
                                              | None => None
                                              | Some (r', m2) => Some (x' :: r', m2)
                                              end
                           end
               end) items (n + 1) with
      | None => None
      | Some (items', n') => Some (Ct n (Some o) items', n')     (* new Trait*Object(trait, object, name, ...) *)
      end
  end.

(* pickling / copy.deepcopy of a value: new objects all the way down, ownerless *)
Fixpoint strip (v : value) (n : Z) {struct v} : value * Z :=
  match v with
  | Sc z => (Sc z, n)
  | Ct _ _ items =>
      let '(items', n') :=
        (fix go (l : list value) (m : Z) {struct l} : list value * Z :=
           match l with
           | [] => ([], m)
           | x :: r => let '(x', m1) := strip x m in let '(r', m2) := go r m1 in (x' :: r', m2)
           end) items (n + 1) in
      (Ct n None items', n')
  end.

(* copy.copy of a value: a new outer container, the same items *)
Definition shallow (v : value) (n : Z) : value * Z :=
  match v with Sc z => (Sc z, n) | Ct _ _ items => (Ct n None items, n + 1) end.

Definition copy_value (m : cmode) (v : value) (n : Z) : value * Z :=
  match m with CRef => (v, n) | CShallow => shallow v n | CDeep => strip v n end.

(* ---------- objects ---------- *)
Definition vals := list (Z * value).            (* trait name -> stored value; absent = never set *)

Fixpoint vget (s : vals) (k : Z) : option value :=
  match s with [] => None | (k', v) :: r => if k' =? k then Some v else vget r k end.
Fixpoint vdel (s : vals) (k : Z) : vals :=
  match s with [] => [] | (k', v) :: r => if k' =? k then r else (k', v) :: vdel r k end.
Definition vset (s : vals) (k : Z) (v : value) : vals := (k, v) :: vdel s k.

Fixpoint cget (c : cls) (k : Z) : option tdef :=
  match c with [] => None | (k', d) :: r => if k' =? k then Some d else cget r k end.

(* the default a read of a never-set trait yields (containers: a fresh empty one bound to the object;
   not stored here, the model only needs its erased form) *)
Definition default_of (t : ttype) : value :=
  match t with TCont _ => Ct (-1) None [] | _ => Sc 0 end.

Inductive outcome := Ok | TraitError | OtherError.

(* setattr(obj, name, raw) : validate, store.  ReadOnly: only while unset. *)
Definition assign (c : cls) (o : Z) (s : vals) (k : Z) (raw : value) (n : Z) : vals * Z * outcome :=
  match cget c k with
  | None => (s, n, OtherError)
  | Some d =>
      match td_type d, vget s k with
      | TReadOnly, Some _ => (s, n, TraitError)
      | _, _ =>
          match validate (td_type d) o raw n with
          | None => (s, n, TraitError)
          | Some (v, n') => (vset s k v, n', Ok)
          end
      end
  end.

(* ---------- copy operations ---------- *)
Inductive copyop := Pickle | Deepcopy | Clone (m : option cmode).

(* effective mode of copy_traits for one trait (1599-1611) *)
Definition effective (op : copyop) (d : tdef) : cmode :=
  let arg := match op with Pickle => Some CDeep | Deepcopy => None | Clone m => m end in
  match op with
  | Pickle => CDeep                       (* serialisation: the metadata is not consulted *)
  | _ =>
    match td_copy d with
    | Some CShallow => CShallow
    | Some CRef => CRef
    | Some CDeep => CDeep
    | None => match arg with Some CDeep => CDeep | Some CShallow => CShallow | _ => CRef end
    end
  end.

(* copies the traits of `c` in order into the new object `o` (trait_set / copy_traits loop) *)
(* clone_traits resolves traits=None to copyable_trait_names() (transient is not True) and, since repair
   28581b3, skips copy_traits altogether when that list is empty (an empty list given to copy_traits itself
   still means "all traits", but that is not a C14 operation): transient traits are never copied. *)
Fixpoint copy_into (op : copyop) (c0 c : cls) (src : vals) (o : Z) (dst : vals) (n : Z) : vals * Z :=
  match c with
  | [] => (dst, n)
  | (k, d) :: r =>
      if td_transient d
      then copy_into op c0 r src o dst n                             (* not in the state / not copyable *)
      else
        match vget src k with
        | None => copy_into op c0 r src o dst n                      (* default stays default *)
        | Some v =>
            let '(v1, n1) := copy_value (effective op d) v n in
            let '(dst', n2, _) := assign c0 o dst k v1 n1 in
            copy_into op c0 r src o dst' n2
        end
  end.

Definition do_copy (op : copyop) (c : cls) (src : vals) (o : Z) (n : Z) : vals * Z :=
  copy_into op c c src o [] n.

(* ---------- container mutation (liveness probes and histories) ---------- *)
Inductive mres := Appended (v : value) (n : Z) (notified : option Z) | Rejected | BadPath.

(* append raw item x to the container reached from v by path (indices into nested containers);
   t = the type of v *)
Fixpoint append_at (t : ttype) (v : value) (path : list nat) (x : value) (n : Z) {struct path} : mres :=
  match v with
  | Sc _ => BadPath
  | Ct id ow items =>
      let inner := match t with TCont i => i | _ => TAny end in
      match path with
      | [] =>
          match ow with
          | Some o =>                                    (* live: item validator of the owner's trait *)
              match validate inner o x n with
              | None => Rejected
              | Some (x', n') => Appended (Ct id ow (items ++ [x'])) n' (Some o)
              end
          | None => Appended (Ct id ow (items ++ [x])) n None   (* ownerless / plain: unchecked, silent *)
          end
      | i :: p =>
          match nth_error items i with
          | None => BadPath
          | Some y =>
              match append_at inner y p x n with
              | Appended y' n' who =>
                  Appended (Ct id ow (firstn i items ++ y' :: skipn (S i) items)) n' who
              | r => r
              end
          end
      end
  end.

(* ---------- observations ---------- *)
(* erased value: what == compares *)
Inductive shape := SSc (z : Z) | SCt (items : list shape).
Fixpoint erase (v : value) : shape :=
  match v with Sc z => SSc z | Ct _ _ items => SCt (map erase items) end.

Fixpoint ids (v : value) : list Z :=
  match v with Sc _ => [] | Ct id _ items => id :: flat_map ids items end.

Fixpoint owners (v : value) : list (option Z) :=
  match v with Sc _ => [] | Ct _ ow items => ow :: flat_map owners items end.

Definition all_ids (s : vals) : list Z := flat_map (fun p => ids (snd p)) s.

(* history on the original object *)
Inductive hop := HAssign (k : Z) (raw : value) | HAppend (k : Z) (path : list nat) (x : value).

Definition hstep (c : cls) (o : Z) (s : vals) (n : Z) (h : hop) : vals * Z * outcome :=
  match h with
  | HAssign k raw => let '(raw', n1) := strip raw n in assign c o s k raw' n1   (* a new Python object *)
  | HAppend k path x =>
      match cget c k, vget s k with
      | Some d, Some v =>
          let '(x', n1) := strip x n in
          match append_at (td_type d) v path x' n1 with
          | Appended v' n' _ => (vset s k v', n', Ok)
          | Rejected => (s, n1, TraitError)
          | BadPath => (s, n1, OtherError)
          end
      | _, _ => (s, n, OtherError)
      end
  end.

Fixpoint hrun (c : cls) (o : Z) (s : vals) (n : Z) (hs : list hop) : vals * Z :=
  match hs with
  | [] => (s, n)
  | h :: r => let '(s', n', _) := hstep c o s n h in hrun c o s' n' r
  end.
