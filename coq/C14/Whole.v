(* C14 — the whole law on the model's own observation, for every well-formed source state. *)
From Coq Require Import ZArith List Bool Lia.
From TV Require Import Common.Harness C14.Model C14.Law C14.Corr C14.Proofs.
Import ListNotations.
Open Scope Z_scope.

Section shape_ind'.
  Variable P : shape -> Prop.
  Hypothesis HS : forall z, P (SSc z).
  Hypothesis HC : forall items, Forall P items -> P (SCt items).
  Fixpoint shape_ind' (s : shape) : P s :=
    match s with
    | SSc z => HS z
    | SCt items => HC items ((fix go (l : list shape) : Forall P l :=
                                match l with [] => Forall_nil P | x :: r => Forall_cons x (shape_ind' x) (go r) end) items)
    end.
End shape_ind'.

Lemma shape_eqb_refl : forall s, shape_eqb s s = true.
Proof.
  induction s as [z | items IH] using shape_ind'; simpl; [apply Z.eqb_refl|].
  induction items as [|x r IHr]; [reflexivity|]. inversion IH; subst. rewrite H1. simpl. apply IHr. assumption.
Qed.

Definition obs_of (op : copyop) (c : cls) (s0 : vals) (n0 : Z) : cobs :=
  let '(cv, n1) := do_copy op c s0 copy_atom n0 in
  {| co_same_class := true;
     co_orig := read_all c orig_atom s0;
     co_copy := read_all c copy_atom cv;
     co_probes := probes_of c copy_atom cv n1 |}.

Lemma model_obs_is_obs_of : forall op c hs,
  model_obs op c hs = obs_of op c (fst (hrun c orig_atom [] first_id hs)) (snd (hrun c orig_atom [] first_id hs)).
Proof. intros. unfold model_obs, obs_of. destruct (hrun c orig_atom [] first_id hs). reflexivity. Qed.

(* ---------- reading ---------- *)
Lemma vget_read_all : forall c0 o s c k,
  vget (flat_map (fun p : Z * tdef => match read c0 o s (fst p) with Some v => [(fst p, v)] | None => [] end) c) k
  = if memz k (map fst c) then read c0 o s k else None.
Proof.
  intros c0 o s c k. induction c as [|[k1 d1] r IH]; [reflexivity|]. simpl.
  destruct (k =? k1) eqn:E.
  - apply Z.eqb_eq in E. subst k1. simpl. destruct (read c0 o s k) as [v|] eqn:R; simpl.
    + rewrite Z.eqb_refl. reflexivity.
    + rewrite IH. destruct (memz k (map fst r)); reflexivity.
  - simpl. destruct (read c0 o s k1) as [v|]; simpl.
    + rewrite Z.eqb_sym, E. exact IH.
    + exact IH.
Qed.

Lemma memz_in : forall k l, In k l -> memz k l = true.
Proof. intros k l H. unfold memz. apply existsb_exists. exists k. split; [exact H | apply Z.eqb_refl]. Qed.

Lemma vget_read_all_in : forall c o s k d, In (k, d) c -> vget (read_all c o s) k = read c o s k.
Proof.
  intros c o s k d Hin. unfold read_all. rewrite vget_read_all.
  rewrite memz_in; [reflexivity|]. apply in_map_iff. exists (k, d). split; [reflexivity | exact Hin].
Qed.

Lemma in_all_ids_read_all : forall c o s x, In x (all_ids (read_all c o s)) ->
  exists k v, read c o s k = Some v /\ In x (ids v).
Proof.
  intros c o s x H. unfold all_ids in H. apply in_flat_map in H. destruct H as [[k v] [Hin Hx]]. simpl in Hx.
  unfold read_all in Hin. apply in_flat_map in Hin. destruct Hin as [[k1 d1] [_ Hin]]. simpl in Hin.
  destruct (read c o s k1) as [v1|] eqn:R; [|destruct Hin]. destruct Hin as [E|[]]. inversion E; subst.
  exists k, v. split; assumption.
Qed.

(* ---------- well-formedness ---------- *)
Definition simple (t : ttype) : bool := match t with TCont _ => pure t | _ => true end.

Record wf (op : copyop) (c : cls) (s0 : vals) (n0 : Z) : Prop := {
  wf_nodup : NoDup (map fst c);
  wf_simple : forall k d, In (k, d) c -> simple (td_type d) = true;
  wf_vals : forall k v, vget s0 k = Some v ->
              exists d, In (k, d) c /\ conforms (td_type d) v = true /\ (forall x, In x (ids v) -> 0 <= x < n0);
  wf_n0 : 0 <= n0;
  (* the listed finding (copy.deepcopy copies Any/ReadOnly traits without copy metadata by reference) is excluded *)
  wf_deep_is_deep : forall k d, In (k, d) c -> td_type d = TAny \/ td_type d = TReadOnly ->
                      law_mode op d = CDeep -> effective op d = CDeep
}.

Section Whole.
Variables (op : copyop) (c : cls) (s0 : vals) (n0 : Z).
Hypothesis W : wf op c s0 n0.

Let cv := fst (do_copy op c s0 copy_atom n0).
Let n1 := snd (do_copy op c s0 copy_atom n0).

Lemma skipped_iff_transient : forall d, skipped op c d = td_transient d.
Proof. intro d. reflexivity. Qed.

Lemma cget_of : forall k d, In (k, d) c -> cget c k = Some d.
Proof. intros. apply cget_in; [exact (wf_nodup _ _ _ _ W) | assumption]. Qed.

(* what the copy stores for trait k *)
Lemma copy_stored : forall k d, In (k, d) c ->
  match vget s0 k with
  | Some v =>
      if td_transient d then vget cv k = None
      else exists v', vget cv k = Some v' /\ erase v' = erase v /\
             (pure (td_type d) = true -> ids_in n0 n1 v' /\ owned_by copy_atom v') /\
             (effective op d = CDeep -> td_type d = TAny \/ td_type d = TReadOnly -> ids_in n0 n1 v')
  | None => vget cv k = None
  end.
Proof.
  intros k d Hin. destruct (vget s0 k) as [v|] eqn:G.
  - destruct (td_transient d) eqn:T.
    + apply (do_copy_skipped op c s0 copy_atom n0 k d (wf_nodup _ _ _ _ W) Hin). left.
      rewrite skipped_iff_transient. exact T.
    + destruct (wf_vals _ _ _ _ W k v G) as [d' [Hin' [Hc _]]].
      assert (d' = d).
      { pose proof (cget_of _ _ Hin) as A. pose proof (cget_of _ _ Hin') as B. congruence. }
      subst d'. apply (do_copy_trait op c s0 copy_atom n0 k d v (wf_nodup _ _ _ _ W) Hin); try assumption;
        try (rewrite skipped_iff_transient; exact T).
  - apply (do_copy_skipped op c s0 copy_atom n0 k d (wf_nodup _ _ _ _ W) Hin). right. exact G.
Qed.

Lemma mono_copy : n0 <= n1.
Proof.
  unfold n1, do_copy. rewrite copy_into_fold.
  exact (fold_mono op c s0 copy_atom c ([], n0)).
Qed.

(* facts about what reading trait k on the copy yields *)
Lemma conforms_default : forall t o, t <> TReadOnly ->
  match t with
  | TCont _ => conforms t (Ct (- (1 + o)) (Some o) []) = true
  | _ => conforms t (Sc 0) = true
  end.
Proof. intros t o _. destruct t; reflexivity. Qed.

Lemma erase_sc : forall v z, erase v = SSc z -> v = Sc z.
Proof. intros v z H. destruct v; simpl in H; [congruence | discriminate]. Qed.

Lemma conforms_int_ids : forall v, conforms TInt v = true -> ids v = [].
Proof. intros v H. destruct v; [reflexivity | discriminate]. Qed.

Lemma copy_read_conforms : forall k d v', In (k, d) c -> read c copy_atom cv k = Some v' ->
  conforms (td_type d) v' = true.
Proof.
  intros k d v' Hin R. pose proof (copy_stored k d Hin) as S. unfold read in R. rewrite (cget_of _ _ Hin) in R.
  destruct (vget cv k) as [w|] eqn:G.
  - inversion R; subst w. destruct (vget s0 k) as [v|] eqn:G0; [|congruence].
    destruct (td_transient d); [congruence|]. destruct S as [w [A [E _]]].
    assert (w = v') by congruence. subst w.
    destruct (wf_vals _ _ _ _ W k v G0) as [d' [Hin' [Hc _]]].
    assert (d' = d) by (pose proof (cget_of _ _ Hin); pose proof (cget_of _ _ Hin'); congruence). subst d'.
    unfold conforms in *. rewrite E. exact Hc.
  - destruct (td_type d); inversion R; subst; reflexivity.
Qed.

Lemma copy_read_owned : forall k d v', In (k, d) c -> is_cont (td_type d) = true ->
  read c copy_atom cv k = Some v' -> owned_by copy_atom v'.
Proof.
  intros k d v' Hin Hcont R. pose proof (copy_stored k d Hin) as S. unfold read in R. rewrite (cget_of _ _ Hin) in R.
  assert (Hp : pure (td_type d) = true).
  { pose proof (wf_simple _ _ _ _ W k d Hin) as X. destruct (td_type d); simpl in *; try discriminate; exact X. }
  destruct (vget cv k) as [w|] eqn:G.
  - inversion R; subst w. destruct (vget s0 k) as [v|] eqn:G0; [|congruence].
    destruct (td_transient d); [congruence|]. destruct S as [w [A [_ [P _]]]].
    assert (w = v') by congruence. subst w. destruct (P Hp) as [_ O]. exact O.
  - destruct (td_type d); simpl in Hcont; try discriminate. inversion R; subst.
    intros x Hx. simpl in Hx. destruct Hx as [<- | []]. reflexivity.
Qed.

(* identities of the copy's value: allocated during the copy, or the copy's own default container *)
Lemma copy_read_ids : forall k d v', In (k, d) c -> td_transient d = false -> law_mode op d = CDeep ->
  read c copy_atom cv k = Some v' -> forall x, In x (ids v') -> n0 <= x \/ x = - (1 + copy_atom).
Proof.
  intros k d v' Hin Ht Hm R x Hx. pose proof (copy_stored k d Hin) as S. unfold read in R.
  rewrite (cget_of _ _ Hin) in R.
  destruct (vget cv k) as [w|] eqn:G.
  - inversion R; subst w. destruct (vget s0 k) as [v|] eqn:G0; [|congruence]. rewrite Ht in S.
    destruct S as [w [A [E [P Q]]]]. assert (w = v') by congruence. subst w. left.
    destruct (wf_vals _ _ _ _ W k v G0) as [d' [Hin' [Hc _]]].
    assert (d' = d) by (pose proof (cget_of _ _ Hin); pose proof (cget_of _ _ Hin'); congruence). subst d'.
    pose proof (wf_simple _ _ _ _ W k d Hin) as Hs.
    destruct (td_type d) eqn:T.
    + assert (Hc' : conforms TInt v' = true) by (unfold conforms in *; rewrite E; exact Hc).
      rewrite (conforms_int_ids _ Hc') in Hx. destruct Hx.
    + simpl in Hs. destruct (P Hs) as [I _]. specialize (I x Hx). lia.
    + pose proof (wf_deep_is_deep _ _ _ _ W k d Hin (or_introl T) Hm) as Hd.
      specialize (Q Hd (or_introl eq_refl) x Hx). lia.
    + pose proof (wf_deep_is_deep _ _ _ _ W k d Hin (or_intror T) Hm) as Hd.
      specialize (Q Hd (or_intror eq_refl) x Hx). lia.
  - destruct (td_type d); inversion R; subst; simpl in Hx; try contradiction.
    destruct Hx as [<- | []]. right. reflexivity.
Qed.

(* identities of the original: allocated before the copy, or the original's own default container *)
Lemma orig_read_ids : forall k v x, read c orig_atom s0 k = Some v -> In x (ids v) ->
  (0 <= x < n0) \/ x = - (1 + orig_atom).
Proof.
  intros k v x R Hx. unfold read in R. destruct (vget s0 k) as [w|] eqn:G.
  - inversion R; subst w. destruct (wf_vals _ _ _ _ W k v G) as [_ [_ [_ B]]]. left. exact (B x Hx).
  - destruct (cget c k) as [d|]; [|discriminate]. destruct (td_type d); inversion R; subst; simpl in Hx; try contradiction.
    destruct Hx as [<- | []]. right. reflexivity.
Qed.

(* shapes: non-transient traits read equal, transient ones read the default *)
Lemma copy_read_shape : forall k d, In (k, d) c -> td_transient d = false ->
  oshape_eqb (read c copy_atom cv k) (read c orig_atom s0 k) = true.
Proof.
  intros k d Hin Ht. pose proof (copy_stored k d Hin) as S. unfold read. rewrite (cget_of _ _ Hin).
  destruct (vget s0 k) as [v|] eqn:G0.
  - rewrite Ht in S. destruct S as [w [A [E _]]]. rewrite A. simpl. rewrite E. apply shape_eqb_refl.
  - rewrite S. destruct (td_type d); reflexivity.
Qed.

Lemma copy_read_transient : forall k d, In (k, d) c -> td_transient d = true ->
  match read c copy_atom cv k with
  | Some v => shape_eqb (erase v) (default_shape (td_type d)) = true
  | None => True
  end.
Proof.
  intros k d Hin Ht. pose proof (copy_stored k d Hin) as S. unfold read. rewrite (cget_of _ _ Hin).
  assert (G : vget cv k = None) by (destruct (vget s0 k); [rewrite Ht in S|]; exact S).
  rewrite G. destruct (td_type d); simpl; try reflexivity; exact I.
Qed.
End Whole.

Lemma forallb_flat_map : forall {A B} (f : B -> bool) (g : A -> list B) (l : list A),
  forallb f (flat_map g l) = forallb (fun x => forallb f (g x)) l.
Proof. intros A B f g l. induction l as [|x r IH]; [reflexivity|]. simpl. rewrite forallb_app, IH. reflexivity. Qed.

Lemma forallb_map : forall {A B} (f : B -> bool) (g : A -> B) (l : list A),
  forallb f (map g l) = forallb (fun x => f (g x)) l.
Proof. intros A B f g l. induction l as [|x r IH]; [reflexivity|]. simpl. rewrite IH. reflexivity. Qed.

Section WholeLaw.
Variables (op : copyop) (c : cls) (s0 : vals) (n0 : Z).
Hypothesis W : wf op c s0 n0.

Let cv := fst (do_copy op c s0 copy_atom n0).
Let n1 := snd (do_copy op c s0 copy_atom n0).
Let ob := obs_of op c s0 n0.

Lemma ob_eq : ob = {| co_same_class := true; co_orig := read_all c orig_atom s0;
                      co_copy := read_all c copy_atom cv; co_probes := probes_of c copy_atom cv n1 |}.
Proof. unfold ob, obs_of, cv, n1. destruct (do_copy op c s0 copy_atom n0). reflexivity. Qed.

Lemma whole_values : clause_values c ob = true.
Proof.
  rewrite ob_eq. unfold clause_values. apply forallb_forall. intros [k d] Hin. simpl.
  destruct (td_transient d) eqn:T; [reflexivity|]. simpl.
  rewrite (vget_read_all_in c copy_atom cv k d Hin), (vget_read_all_in c orig_atom s0 k d Hin).
  exact (copy_read_shape op c s0 n0 W k d Hin T).
Qed.

Lemma whole_transient : clause_transient c ob = true.
Proof.
  rewrite ob_eq. unfold clause_transient. apply forallb_forall. intros [k d] Hin. simpl.
  destruct (td_transient d) eqn:T; [|reflexivity]. simpl.
  rewrite (vget_read_all_in c copy_atom cv k d Hin).
  pose proof (copy_read_transient op c s0 n0 W k d Hin T) as H. fold cv in H.
  destruct (read c copy_atom cv k); [exact H | reflexivity].
Qed.

Lemma whole_unshared : clause_unshared op c ob = true.
Proof.
  rewrite ob_eq. unfold clause_unshared. apply forallb_forall. intros [k d] Hin. simpl.
  destruct (law_mode op d) eqn:M; try reflexivity. destruct (td_transient d) eqn:T; [reflexivity|].
  rewrite (vget_read_all_in c copy_atom cv k d Hin).
  destruct (read c copy_atom cv k) as [v'|] eqn:R; [|reflexivity].
  unfold disjoint. apply forallb_forall. intros x Hx.
  destruct (Law.memz x (all_ids (read_all c orig_atom s0))) eqn:E; [|reflexivity]. exfalso.
  unfold Law.memz in E. apply existsb_exists in E. destruct E as [y [Hy Exy]]. apply Z.eqb_eq in Exy. subst y.
  destruct (in_all_ids_read_all _ _ _ _ Hy) as [k2 [v2 [R2 Hx2]]].
  pose proof (orig_read_ids op c s0 n0 W k2 v2 x R2 Hx2) as A.
  pose proof (copy_read_ids op c s0 n0 W k d v' Hin T M R x Hx) as B.
  pose proof (wf_n0 _ _ _ _ W) as N0. unfold copy_atom, orig_atom in *. lia.
Qed.

Lemma whole_owner : clause_owner c ob = true.
Proof.
  rewrite ob_eq. unfold clause_owner. apply forallb_forall. intros [k d] Hin. simpl.
  destruct (is_cont (td_type d)) eqn:C; [|reflexivity]. simpl.
  rewrite (vget_read_all_in c copy_atom cv k d Hin).
  destruct (read c copy_atom cv k) as [v'|] eqn:R; [|reflexivity].
  apply forallb_forall. intros o Ho.
  rewrite (copy_read_owned op c s0 n0 W k d v' Hin C R o Ho). apply Z.eqb_refl.
Qed.

(* the probes of one container trait of the copy *)
Lemma cont_probe_ok : forall k d v' path, In (k, d) c -> is_cont (td_type d) = true ->
  read c copy_atom cv k = Some v' -> In path (cpaths v') ->
  probe_cont (td_type d) v' k path n1 =
    PCont k path TraitError Ok [copy_atom] [copy_atom] [copy_atom] true.
Proof.
  intros k d v' path Hin C R Hp.
  assert (Pu : pure (td_type d) = true).
  { pose proof (wf_simple _ _ _ _ W k d Hin) as X. destruct (td_type d); simpl in *; try discriminate; exact X. }
  destruct (live_append v' (td_type d) copy_atom n1 path Pu
              (copy_read_conforms op c s0 n0 W k d v' Hin R) (copy_read_owned op c s0 n0 W k d v' Hin C R) Hp)
    as [Ri [v'' [m Rv]]].
  unfold probe_cont. rewrite Ri, Rv. reflexivity.
Qed.

Ltac cont_case k d T Hin :=
  let v' := fresh "v'" in let R := fresh "R" in let path := fresh "path" in let Hp := fresh "Hp" in
  let C := fresh "C" in let E := fresh "E" in
  destruct (read c copy_atom cv k) as [v'|] eqn:R; [|reflexivity];
  rewrite forallb_map; apply forallb_forall; intros path Hp;
  assert (C : is_cont (td_type d) = true) by (rewrite T; reflexivity);
  rewrite <- T;
  pose proof (cont_probe_ok k d v' path Hin C R Hp) as E; rewrite E; simpl;
  try reflexivity; destruct path; reflexivity.

Lemma whole_invalid : clause_invalid ob = true.
Proof.
  rewrite ob_eq. unfold clause_invalid. simpl. unfold probes_of. rewrite forallb_flat_map.
  apply forallb_forall. intros [k d] Hin. simpl. destruct (td_type d) eqn:T; simpl; try reflexivity.
  cont_case k d T Hin.
Qed.

Lemma whole_valid : clause_valid ob = true.
Proof.
  rewrite ob_eq. unfold clause_valid. simpl. unfold probes_of. rewrite forallb_flat_map.
  apply forallb_forall. intros [k d] Hin. simpl. destruct (td_type d) eqn:T; simpl; try reflexivity.
  cont_case k d T Hin.
Qed.

Lemma whole_instances : clause_instances op ob = true.
Proof.
  rewrite ob_eq. unfold clause_instances. simpl. unfold probes_of. rewrite forallb_flat_map.
  apply forallb_forall. intros [k d] Hin. simpl. destruct (td_type d) eqn:T; simpl; try reflexivity.
  cont_case k d T Hin.
Qed.

Lemma whole_readonly : clause_readonly c ob = true.
Proof.
  rewrite ob_eq. unfold clause_readonly. simpl. unfold probes_of. rewrite forallb_flat_map.
  apply forallb_forall. intros [k d] Hin. simpl. destruct (td_type d) eqn:T; simpl; try reflexivity.
  - cont_case k d T Hin.
  - rewrite (cget_of op c s0 n0 W k d Hin). rewrite (vget_read_all_in c orig_atom s0 k d Hin).
    unfold read at 1. destruct (vget s0 k) as [v|] eqn:G0; [|rewrite (cget_of op c s0 n0 W k d Hin), T; reflexivity].
    destruct (td_transient d) eqn:Tr; [reflexivity|]. simpl.
    pose proof (copy_stored op c s0 n0 W k d Hin) as S. rewrite G0, Tr in S. destruct S as [w [A _]]. fold cv in A.
    unfold assign. rewrite (cget_of op c s0 n0 W k d Hin), T, A. simpl.
    rewrite (vget_read_all_in c copy_atom cv k d Hin).
    pose proof (copy_read_shape op c s0 n0 W k d Hin Tr) as Sh. fold cv in Sh.
    rewrite Sh. reflexivity.
Qed.

(* The whole law holds on the model's observation of the copy, for every copy operation, every class
   and every well-formed source state (the two listed findings excluded by [wf]). *)
Theorem law_holds_on_copy : law op c ob = [].
Proof.
  unfold law.
  rewrite whole_values, whole_transient, whole_unshared, whole_owner, whole_invalid, whole_valid, whole_readonly,
    whole_instances.
  rewrite ob_eq. reflexivity.
Qed.
End WholeLaw.
