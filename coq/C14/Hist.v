(* C14 — every state reached by an assignment / nested-append history is well-formed, hence the whole
   law holds on the model's observation of a copy taken after ANY history. *)
From Coq Require Import ZArith List Bool Lia.
From TV Require Import Common.Harness C14.Model C14.Law C14.Corr C14.Proofs C14.Whole.
Import ListNotations.
Open Scope Z_scope.

(* what a validator returns is a value it accepts *)
Lemma validate_conforms : forall v t o n v' n', validate t o v n = Some (v', n') -> conforms t v' = true.
Proof.
  induction v as [z | id ow items IH] using value_ind'; intros t o n v' n' H.
  - destruct t; simpl in H; try discriminate.
    + destruct (0 <=? z) eqn:E; inversion H; subst. unfold conforms. simpl. exact E.
    + inversion H; subst. reflexivity.
    + inversion H; subst. reflexivity.
  - destruct t as [| inner | |]; try (simpl in H; discriminate).
    + rewrite validate_cont in H.
      assert (L : forall l m l' m',
                 Forall (fun v => forall t o n v' n', validate t o v n = Some (v', n') -> conforms t v' = true) l ->
                 validate_list inner o l m = Some (l', m') -> conf_list inner (map erase l') = true).
      { induction l as [|x r IHr]; intros m l' m' HF HS; simpl in HS.
        - inversion HS; subst. reflexivity.
        - inversion HF as [|? ? Hx Hr]; subst.
          destruct (validate inner o x m) as [[x' m1]|] eqn:E1; [|discriminate].
          destruct (validate_list inner o r m1) as [[r' m2]|] eqn:E2; [|discriminate].
          inversion HS; subst. simpl. pose proof (Hx _ _ _ _ _ E1) as Q. unfold conforms in Q. rewrite Q. simpl.
          exact (IHr _ _ _ Hr E2). }
      destruct (validate_list inner o items (n + 1)) as [[items' n1]|] eqn:E; [|discriminate].
      inversion H; subst. unfold conforms. simpl erase. rewrite conf_cont. exact (L _ _ _ _ IH E).
    + simpl in H. inversion H; subst. reflexivity.
    + simpl in H. inversion H; subst. reflexivity.
Qed.

Definition bounded (lo hi : Z) (v : value) : Prop := forall x, In x (ids v) -> lo <= x < hi.

(* identities of a validated value, for the trait types of a simple class *)
Lemma validate_bounded : forall t o v n v' n' lo, simple t = true -> lo <= n -> bounded lo n v ->
  validate t o v n = Some (v', n') -> n <= n' /\ bounded lo n' v'.
Proof.
  intros t o v n v' n' lo Hs Hlo Hb H. destruct (validate_spec _ _ _ _ _ _ H) as [M [_ P]]. split; [exact M|].
  destruct t; simpl in Hs.
  - destruct (P eq_refl) as [I _]. intros x Hx. specialize (I x Hx). lia.
  - destruct (P Hs) as [I _]. intros x Hx. specialize (I x Hx). lia.
  - destruct v; simpl in H; inversion H; subst; intros x Hx; specialize (Hb x Hx); lia.
  - destruct v; simpl in H; inversion H; subst; intros x Hx; specialize (Hb x Hx); lia.
Qed.

Lemma strip_bounded : forall v n v' n', strip v n = (v', n') -> n <= n' /\ bounded n n' v'.
Proof. intros v n v' n' H. destruct (strip_fresh _ _ _ _ H) as [A B]. split; [exact A | exact B]. Qed.

(* ---------- conf_list / ids under list surgery ---------- *)
Lemma conf_list_app : forall inner a b, conf_list inner (a ++ b) = conf_list inner a && conf_list inner b.
Proof. intros inner a b. induction a as [|x r IH]; [reflexivity|]. simpl. rewrite IH. apply andb_assoc. Qed.

Lemma conf_list_cons : forall inner x l, conf_list inner (x :: l) = conf inner x && conf_list inner l.
Proof. reflexivity. Qed.

Lemma conf_list_firstn : forall inner l i, conf_list inner l = true -> conf_list inner (firstn i l) = true.
Proof.
  intros inner l. induction l as [|x r IH]; intros i H; destruct i; simpl in *; try reflexivity.
  apply andb_true_iff in H. destruct H as [A B]. rewrite A. simpl. apply IH. exact B.
Qed.
Lemma conf_list_skipn : forall inner l i, conf_list inner l = true -> conf_list inner (skipn i l) = true.
Proof.
  intros inner l. induction l as [|x r IH]; intros i H; destruct i; simpl in *; try reflexivity; try exact H.
  apply andb_true_iff in H. destruct H as [A B]. apply IH. exact B.
Qed.

Lemma in_flat_firstn : forall (l : list value) i x, In x (flat_map ids (firstn i l)) -> In x (flat_map ids l).
Proof.
  induction l as [|y r IH]; intros i x H; destruct i; simpl in *; try contradiction.
  apply in_app_or in H. apply in_or_app. destruct H; [left; assumption | right; eapply IH; eauto].
Qed.
Lemma in_flat_skipn : forall (l : list value) i x, In x (flat_map ids (skipn i l)) -> In x (flat_map ids l).
Proof.
  induction l as [|y r IH]; intros i x H; destruct i; simpl in *; try contradiction; try exact H.
  apply in_or_app. right. eapply IH; eauto.
Qed.

(* ---------- append_at ---------- *)
Lemma in_flat_owners_firstn : forall (l : list value) i x, In x (flat_map owners (firstn i l)) -> In x (flat_map owners l).
Proof.
  induction l as [|y r IH]; intros i x H; destruct i; simpl in *; try contradiction.
  apply in_app_or in H. apply in_or_app. destruct H; [left; assumption | right; eapply IH; eauto].
Qed.
Lemma in_flat_owners_skipn : forall (l : list value) i x, In x (flat_map owners (skipn i l)) -> In x (flat_map owners l).
Proof.
  induction l as [|y r IH]; intros i x H; destruct i; simpl in *; try contradiction; try exact H.
  apply in_or_app. right. eapply IH; eauto.
Qed.

Lemma nth_error_split_ids : forall (l : list value) i y, nth_error l i = Some y ->
  forall x, In x (ids y) -> In x (flat_map ids l).
Proof. intros l i y H x Hx. apply in_flat_map. exists y. split; [eapply nth_error_In; eauto | exact Hx]. Qed.

(* a container trait's value is bound to its object at every depth; plain (Any) values are not *)
Definition bound_if_cont (t : ttype) (oo : Z) (v : value) : Prop :=
  forall i, t = TCont i -> pure i = true /\ owned_by oo v.

Lemma append_at_spec : forall path t v x n v' n' who lo oo,
  lo <= n -> conforms t v = true -> bounded lo n v -> bounded lo n x -> bound_if_cont t oo v ->
  append_at t v path x n = Appended v' n' who ->
  n <= n' /\ conforms t v' = true /\ bounded lo n' v' /\ bound_if_cont t oo v'.
Proof.
  induction path as [|i p IH]; intros t v x n v' n' who lo oo Hlo Hc Hb Hx Hp H.
  - destruct v as [z | id ow items]; simpl in H; [discriminate|].
    destruct t as [| inner | |].
    + unfold conforms in Hc. simpl in Hc. discriminate.
    + destruct (Hp inner eq_refl) as [Pi Ow].
      assert (ow = Some oo) by (apply Ow; simpl; left; reflexivity). subst ow.
      destruct (validate inner oo x n) as [[x' m]|] eqn:E; [|discriminate]. inversion H; subst.
      assert (Si : simple inner = true) by (destruct inner; simpl in *; try reflexivity; try discriminate; exact Pi).
      destruct (validate_bounded inner oo x n x' n' lo Si Hlo Hx E) as [M B].
      destruct (validate_spec _ _ _ _ _ _ E) as [_ [_ P]]. destruct (P Pi) as [_ Ox].
      split; [exact M|]. split; [|split].
      * unfold conforms in *. simpl erase in *. rewrite conf_cont in *. rewrite map_app, conf_list_app, Hc. simpl.
        pose proof (validate_conforms _ _ _ _ _ _ E) as Q. unfold conforms in Q. rewrite Q. reflexivity.
      * intros y Hy. simpl in Hy. destruct Hy as [<- | Hy].
        -- specialize (Hb id (or_introl eq_refl)). lia.
        -- rewrite flat_map_app in Hy. apply in_app_or in Hy. destruct Hy as [Hy | Hy].
           ++ specialize (Hb y (or_intror Hy)). lia.
           ++ simpl in Hy. rewrite app_nil_r in Hy. exact (B y Hy).
      * intros j Hj. inversion Hj; subst j. split; [exact Pi|].
        intros y Hy. simpl in Hy. destruct Hy as [<- | Hy]; [reflexivity|].
        rewrite flat_map_app in Hy. apply in_app_or in Hy. destruct Hy as [Hy | Hy].
        -- apply Ow. simpl. right. exact Hy.
        -- simpl in Hy. rewrite app_nil_r in Hy. exact (Ox y Hy).
    + (* Any: a plain container, or whatever object was stored *)
      assert (G : exists x', (ow = None /\ x' = x /\ n' = n \/ exists o, ow = Some o /\ validate TAny o x n = Some (x', n'))
                            /\ v' = Ct id ow (items ++ [x'])).
      { destruct ow as [o|].
        - destruct (validate TAny o x n) as [[x' m]|] eqn:E; [|discriminate]. inversion H; subst.
          exists x'. split; [right; exists o; split; [reflexivity | exact E] | reflexivity].
        - inversion H; subst. exists x. split; [left; repeat split | reflexivity]. }
      destruct G as [x' [Hx' ->]].
      assert (x' = x /\ n' = n).
      { destruct Hx' as [[_ [A B]] | [o [_ E]]]; [split; assumption|]. destruct x; simpl in E; inversion E; split; reflexivity. }
      destruct H0 as [-> ->]. split; [lia|]. split; [reflexivity|]. split.
      * intros y Hy. simpl in Hy. destruct Hy as [<- | Hy].
        -- exact (Hb id (or_introl eq_refl)).
        -- rewrite flat_map_app in Hy. apply in_app_or in Hy. destruct Hy as [Hy | Hy].
           ++ exact (Hb y (or_intror Hy)).
           ++ simpl in Hy. rewrite app_nil_r in Hy. exact (Hx y Hy).
      * intros j Hj. discriminate.
    + assert (G : exists x', (ow = None /\ x' = x /\ n' = n \/ exists o, ow = Some o /\ validate TAny o x n = Some (x', n'))
                            /\ v' = Ct id ow (items ++ [x'])).
      { destruct ow as [o|].
        - destruct (validate TAny o x n) as [[x' m]|] eqn:E; [|discriminate]. inversion H; subst.
          exists x'. split; [right; exists o; split; [reflexivity | exact E] | reflexivity].
        - inversion H; subst. exists x. split; [left; repeat split | reflexivity]. }
      destruct G as [x' [Hx' ->]].
      assert (x' = x /\ n' = n).
      { destruct Hx' as [[_ [A B]] | [o [_ E]]]; [split; assumption|]. destruct x; simpl in E; inversion E; split; reflexivity. }
      destruct H0 as [-> ->]. split; [lia|]. split; [reflexivity|]. split.
      * intros y Hy. simpl in Hy. destruct Hy as [<- | Hy].
        -- exact (Hb id (or_introl eq_refl)).
        -- rewrite flat_map_app in Hy. apply in_app_or in Hy. destruct Hy as [Hy | Hy].
           ++ exact (Hb y (or_intror Hy)).
           ++ simpl in Hy. rewrite app_nil_r in Hy. exact (Hx y Hy).
      * intros j Hj. discriminate.
  - destruct v as [z | id ow items]; cbn [append_at] in H; [discriminate|].
    destruct (nth_error items i) as [y|] eqn:N; [|discriminate].
    set (inner := match t with TCont j => j | _ => TAny end) in *.
    destruct (append_at inner y p x n) as [y' m who' | |] eqn:A; try discriminate. inversion H; subst.
    pose proof (nth_error_In _ _ N) as Hy.
    assert (Cy : conforms inner y = true).
    { unfold inner. destruct t as [| j | |].
      - unfold conforms in Hc. simpl in Hc. discriminate.
      - unfold conforms in Hc. simpl erase in Hc. rewrite conf_cont in Hc. exact (conf_list_in _ _ _ Hc Hy).
      - destruct y; reflexivity.
      - destruct y; reflexivity. }
    assert (By : bounded lo n y).
    { intros z Hz. apply Hb. simpl. right. eapply nth_error_split_ids; eauto. }
    assert (Py : bound_if_cont inner oo y).
    { unfold inner. intros j Hj. destruct t as [| j0 | |]; try discriminate. subst j0.
      destruct (Hp _ eq_refl) as [Pj Ow]. simpl in Pj. split; [exact Pj|]. eapply owners_item; eauto. }
    destruct (IH inner y x n y' n' who lo oo Hlo Cy By Hx Py A) as [M [Cy' [By' Py']]].
    match goal with |- context[y' :: ?T] => change T with (skipn (S i) items) end.
    split; [exact M|]. split; [|split].
    + destruct t as [| j | |]; try reflexivity.
      * unfold conforms in Hc. simpl in Hc. discriminate.
      * unfold conforms in *. cbn [erase] in *. rewrite conf_cont in *.
        rewrite map_app, conf_list_app, map_cons, conf_list_cons. rewrite <- firstn_map, <- skipn_map.
        rewrite (conf_list_firstn _ _ i Hc), (conf_list_skipn _ _ (S i) Hc). unfold inner, conforms in Cy'. rewrite Cy'.
        reflexivity.
    + intros z Hz. simpl in Hz. destruct Hz as [<- | Hz].
      * specialize (Hb id (or_introl eq_refl)). lia.
      * rewrite flat_map_app in Hz. apply in_app_or in Hz. destruct Hz as [Hz | Hz].
        -- apply in_flat_firstn in Hz. specialize (Hb z (or_intror Hz)). lia.
        -- simpl in Hz. apply in_app_or in Hz. destruct Hz as [Hz | Hz]; [exact (By' z Hz)|].
           apply (in_flat_skipn items (S i) z) in Hz. specialize (Hb z (or_intror Hz)). lia.
    + intros j Hj. destruct (Hp j Hj) as [Pj Ow]. split; [exact Pj|].
      intros z Hz. simpl in Hz. destruct Hz as [<- | Hz]; [apply Ow; simpl; left; reflexivity|].
      rewrite flat_map_app in Hz. apply in_app_or in Hz. destruct Hz as [Hz | Hz].
      * apply in_flat_owners_firstn in Hz. apply Ow. simpl. right. exact Hz.
      * simpl in Hz. apply in_app_or in Hz. destruct Hz as [Hz | Hz].
        -- subst t. assert (Pin : bound_if_cont inner oo y') by exact Py'.
           unfold inner in Pin. simpl in Pin. simpl in Pj.
           destruct j as [| j' | |]; simpl in Pj; try discriminate.
           ++ (* items are Int: y' has no owners *)
              unfold inner in Cy'. simpl in Cy'. destruct y'; [destruct Hz | unfold conforms in Cy'; simpl in Cy'; discriminate].
           ++ destruct (Pin j' eq_refl) as [_ Oy']. exact (Oy' z Hz).
        -- apply (in_flat_owners_skipn items (S i) z) in Hz. apply Ow. simpl. right. exact Hz.
Qed.

(* ---------- reachable states ---------- *)
Definition wfs (c : cls) (s : vals) (n : Z) : Prop :=
  0 <= n /\
  forall k v, vget s k = Some v ->
    exists d, In (k, d) c /\ conforms (td_type d) v = true /\ bounded 0 n v /\ bound_if_cont (td_type d) orig_atom v.

Lemma cget_some_in : forall c k d, cget c k = Some d -> In (k, d) c.
Proof.
  induction c as [|[k1 d1] r IH]; intros k d H; simpl in H; [discriminate|].
  destruct (k1 =? k) eqn:E; [apply Z.eqb_eq in E; inversion H; subst; left; reflexivity | right; apply IH; exact H].
Qed.

Lemma bounded_mono : forall lo n n' v, bounded lo n v -> n <= n' -> bounded lo n' v.
Proof. intros lo n n' v H Hn x Hx. specialize (H x Hx). lia. Qed.

Lemma wfs_mono : forall c s n n', wfs c s n -> n <= n' -> wfs c s n'.
Proof.
  intros c s n n' [N H] Hn. split; [lia|]. intros k v G. destruct (H k v G) as [d [A [B [C D]]]].
  exists d. split; [exact A|]. split; [exact B|]. split; [eapply bounded_mono; eauto | exact D].
Qed.

Lemma wfs_vset : forall c s n k d v, wfs c s n -> In (k, d) c -> conforms (td_type d) v = true ->
  bounded 0 n v -> bound_if_cont (td_type d) orig_atom v -> wfs c (vset s k v) n.
Proof.
  intros c s n k d v [N H] Hin Hc Hb Ho. split; [exact N|]. intros k' v' G.
  destruct (Z.eq_dec k' k) as [->|Hne].
  - rewrite vget_vset_same in G. inversion G; subst. exists d. split; [exact Hin|]. split; [exact Hc|]. split; [exact Hb | exact Ho].
  - rewrite vget_vset_other in G by assumption. exact (H k' v' G).
Qed.

Section Reach.
Variable c : cls.
Hypothesis ND : NoDup (map fst c).
Hypothesis SIMPLE : forall k d, In (k, d) c -> simple (td_type d) = true.

Lemma assign_wfs : forall s k raw n s' n' out, wfs c s n -> bounded 0 n raw ->
  assign c orig_atom s k raw n = (s', n', out) -> n <= n' /\ wfs c s' n'.
Proof.
  intros s k raw n s' n' out Wf Hraw H. pose proof (assign_mono _ _ _ _ _ _ _ _ _ H) as M. split; [exact M|].
  unfold assign in H. destruct (cget c k) as [d|] eqn:G; [|inversion H; subst; exact Wf].
  pose proof (cget_some_in _ _ _ G) as Hin. pose proof (SIMPLE _ _ Hin) as Hs.
  assert (K : forall v m, validate (td_type d) orig_atom raw n = Some (v, m) -> wfs c (vset s k v) m).
  { intros v m E. assert (N : 0 <= n) by (destruct Wf; assumption).
    destruct (validate_bounded _ _ _ _ _ _ 0 Hs N Hraw E) as [M' B].
    apply wfs_vset with (d := d); try assumption.
    - eapply wfs_mono; eauto.
    - exact (validate_conforms _ _ _ _ _ _ E).
    - intros i Hi. destruct (validate_spec _ _ _ _ _ _ E) as [_ [_ P]].
      assert (Pu : pure (td_type d) = true) by (rewrite Hi in *; exact Hs).
      destruct (P Pu) as [_ O]. split; [rewrite Hi in Pu; exact Pu | exact O]. }
  destruct (td_type d) eqn:T;
    try (destruct (vget s k) eqn:Gk; [inversion H; subst; exact Wf|]);
    (destruct (validate _ orig_atom raw n) as [[v m]|] eqn:E; inversion H; subst; [apply K; reflexivity | exact Wf]).
Qed.

Lemma hstep_wfs : forall s n h s' n' out, wfs c s n -> hstep c orig_atom s n h = (s', n', out) ->
  n <= n' /\ wfs c s' n'.
Proof.
  intros s n h s' n' out Wf H. destruct h as [k raw | k path x]; simpl in H.
  - destruct (strip raw n) as [raw' n1] eqn:S. destruct (strip_bounded _ _ _ _ S) as [M1 B1].
    assert (Wf1 : wfs c s n1) by (eapply wfs_mono; eauto).
    assert (B0 : bounded 0 n1 raw') by (destruct Wf as [N _]; intros y Hy; specialize (B1 y Hy); lia).
    destruct (assign_wfs _ _ _ _ _ _ _ Wf1 B0 H) as [M2 W2]. split; [lia | exact W2].
  - destruct (cget c k) as [d|] eqn:G; [|inversion H; subst; split; [lia | exact Wf]].
    destruct (vget s k) as [v|] eqn:Gv; [|inversion H; subst; split; [lia | exact Wf]].
    destruct (strip x n) as [x' n1] eqn:S. destruct (strip_bounded _ _ _ _ S) as [M1 B1].
    assert (Wf1 : wfs c s n1) by (eapply wfs_mono; eauto).
    destruct Wf as [N Hv]. destruct (Hv k v Gv) as [d' [Hin [Hc [Hb Ho]]]].
    assert (d' = d) by (pose proof (cget_in _ _ _ ND Hin); congruence). subst d'.
    destruct (append_at (td_type d) v path x' n1) as [v' m who | |] eqn:A; inversion H; subst; try (split; [lia | exact Wf1]).
    assert (B0 : bounded 0 n1 x') by (intros y Hy; specialize (B1 y Hy); lia).
    destruct (append_at_spec path (td_type d) v x' n1 v' n' who 0 orig_atom ltac:(lia) Hc
                (bounded_mono _ _ _ _ Hb M1) B0 Ho A) as [M2 [C2 [B2 O2]]].
    split; [lia|]. apply wfs_vset with (d := d); try assumption. eapply wfs_mono; eauto.
Qed.

Lemma hrun_wfs : forall hs s n, wfs c s n -> wfs c (fst (hrun c orig_atom s n hs)) (snd (hrun c orig_atom s n hs)).
Proof.
  induction hs as [|h r IH]; intros s n Wf; simpl; [exact Wf|].
  destruct (hstep c orig_atom s n h) as [[s' n'] out] eqn:E.
  destruct (hstep_wfs _ _ _ _ _ _ Wf E) as [_ W']. exact (IH _ _ W').
Qed.

Lemma wfs_empty : wfs c [] first_id.
Proof. split; [unfold first_id; lia|]. intros k v G. discriminate. Qed.
End Reach.

(* ---------- the main theorem ---------- *)
Theorem law_holds_after_every_history :
  forall (op : copyop) (c : cls) (hs : list hop),
    NoDup (map fst c) ->
    (forall k d, In (k, d) c -> simple (td_type d) = true) ->
    (forall k d, In (k, d) c -> td_type d = TAny \/ td_type d = TReadOnly -> law_mode op d = CDeep -> effective op d = CDeep) ->
    law op c (model_obs op c hs) = [].
Proof.
  intros op c hs ND SI DD. rewrite model_obs_is_obs_of.
  pose proof (hrun_wfs c ND SI hs [] first_id (wfs_empty c)) as [N H].
  apply law_holds_on_copy. constructor; try assumption.
  intros k v G. destruct (H k v G) as [d [A [B [C _]]]]. exists d. split; [exact A|]. split; [exact B | exact C].
Qed.
