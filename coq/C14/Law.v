(* C14 — the property as a boolean checker on ONE observed copy (never mentions Model.do_copy /
   Model.validate).  Observation recorded from an implementation:
     the class (trait types, transient flags, copy metadata), the copy operation,
     orig / copy : every trait read back on the original and on the copy after the copy was made
                   (containers with identity atoms and the object their owner reference points to),
     same_class, and the liveness probes made on the copy.
   Clauses (codes):
     1 same class                      2 non-transient values equal          3 transients back at default
     4 a container shared with the original although the copy mode is deep (reading DESIGN 6a:
       copy="ref"/"shallow" share by definition; pickle, copy.deepcopy and clone_traits(copy="deep")
       are deep for every trait without such metadata)
     5 a container of a container trait of the copy is not bound to the copy (owner reference)
     6 invalid item accepted by a (nested) container of the copy / invalid scalar accepted
     7 valid mutation of the copy: wrong outcome, or its items handler / observer / declared observer
       did not fire exactly on the copy, or a dependent property is stale
     8 write-once attribute writable again (or lost)
     9 a child object reached through an Instance / List(Instance) / Dict trait differs in state, or is
       shared with the original although the trait's own copy metadata is "deep" (or the copy is a pickle)                                                                            *)
From Coq Require Import ZArith List Bool.
From TV Require Import Common.Harness C14.Model.
Import ListNotations.
Open Scope Z_scope.

Inductive probe :=
| PCont (k : Z) (path : list nat) (inv val : outcome) (who_items who_obs who_decl : list Z) (prop_ok : bool)
| PScalar (k : Z) (inv : outcome)
| PReadOnly (k : Z) (rewrite : outcome)
(* Instance graph of the object (driver-side fixture, not in the Gallina model): the child object(s)
   reached through an Instance / List(Instance) trait: shared with the original?  equal state? *)
| PInst (k : Z) (meta : option cmode) (shared : bool) (equal : bool).   (* meta: the trait's copy metadata *)

Record cobs := {
  co_same_class : bool;
  co_orig : vals;            (* read after the copy was made; absent = unset write-once *)
  co_copy : vals;
  co_probes : list probe
}.

Fixpoint shape_eqb (a b : shape) {struct a} : bool :=
  match a, b with
  | SSc x, SSc y => x =? y
  | SCt l, SCt m =>
      (fix go (l m : list shape) {struct l} : bool :=
         match l, m with
         | [], [] => true
         | x :: l', y :: m' => shape_eqb x y && go l' m'
         | _, _ => false
         end) l m
  | _, _ => false
  end.

Definition oshape_eqb (a b : option value) : bool :=
  match a, b with
  | Some x, Some y => shape_eqb (erase x) (erase y)
  | None, None => true
  | _, _ => false
  end.

Definition memz (x : Z) (l : list Z) : bool := existsb (Z.eqb x) l.
Definition disjoint (a b : list Z) : bool := forallb (fun x => negb (memz x b)) a.

(* the mode the PROPERTY assigns to a trait under a copy operation (not copy_traits' own rule) *)
Definition law_mode (op : copyop) (d : tdef) : cmode :=
  match op with Pickle => CDeep | _ =>
  match td_copy d with
  | Some CRef => CRef
  | Some CShallow => CShallow
  | Some CDeep => CDeep
  | None => match op with
            | Pickle | Deepcopy => CDeep
            | Clone (Some CDeep) => CDeep
            | Clone (Some CShallow) => CShallow
            | Clone _ => CRef
            end
  end end.

Definition is_cont (t : ttype) : bool := match t with TCont _ => true | _ => false end.

Definition default_shape (t : ttype) : shape := match t with TCont _ => SCt [] | _ => SSc 0 end.

Definition copy_atom : Z := 1.

Definition clause_values (c : cls) (ob : cobs) : bool :=
  forallb (fun p => td_transient (snd p) || oshape_eqb (vget (co_copy ob) (fst p)) (vget (co_orig ob) (fst p))) c.

Definition clause_transient (c : cls) (ob : cobs) : bool :=
  forallb (fun p => negb (td_transient (snd p)) ||
                    match vget (co_copy ob) (fst p) with
                    | Some v => shape_eqb (erase v) (default_shape (td_type (snd p)))
                    | None => true
                    end) c.

Definition clause_unshared (op : copyop) (c : cls) (ob : cobs) : bool :=
  forallb (fun p => match law_mode op (snd p), td_transient (snd p) with
                    | CDeep, false =>
                        match vget (co_copy ob) (fst p) with
                        | Some v => disjoint (ids v) (all_ids (co_orig ob))
                        | None => true
                        end
                    | _, _ => true
                    end) c.

Definition clause_owner (c : cls) (ob : cobs) : bool :=
  forallb (fun p => negb (is_cont (td_type (snd p))) ||
                    match vget (co_copy ob) (fst p) with
                    | Some v => forallb (fun o => match o with Some x => x =? copy_atom | None => false end) (owners v)
                    | None => true
                    end) c.

Definition out_is (o : outcome) (k : Z) : bool :=
  match o, k with Ok, 0 => true | TraitError, 1 => true | OtherError, 2 => true | _, _ => false end.

Definition only_copy (l : list Z) : bool := match l with [x] => x =? copy_atom | _ => false end.

Definition clause_invalid (ob : cobs) : bool :=
  forallb (fun pr => match pr with
                     | PCont _ _ inv _ _ _ _ _ => out_is inv 1
                     | PScalar _ inv => out_is inv 1
                     | PReadOnly _ _ => true
                     | PInst _ _ _ _ => true
                     end) (co_probes ob).

Definition clause_valid (ob : cobs) : bool :=
  forallb (fun pr => match pr with
                     | PCont _ path _ val wi wo wd pok =>
                         out_is val 0 &&
                         match path with
                         | [] => only_copy wi && only_copy wo && only_copy wd && pok
                         | _ => true
                         end
                     | _ => true
                     end) (co_probes ob).

Definition clause_readonly (c : cls) (ob : cobs) : bool :=
  forallb (fun pr => match pr with
                     | PReadOnly k rw =>
                         match cget c k with
                         | Some d =>
                             match vget (co_orig ob) k with
                             | Some _ => td_transient d ||
                                         (out_is rw 1 && oshape_eqb (vget (co_copy ob) k) (vget (co_orig ob) k))
                             | None => true
                             end
                         | None => out_is rw 1   (* fixture: an attribute writable only until the object is
                                                    initialised (UUID(can_init=True)), written at construction *)
                         end
                     | _ => true
                     end) (co_probes ob).

(* children (HasTraits instances) reached through Instance / List(Instance) / Dict traits are not containers:
   the property's "shares no mutable container" does not speak about them.  They must be equal in state, and
   they must be copies (not shared) only where the trait's OWN copy metadata says deep (Instance and List carry
   copy="deep"); a trait without copy metadata is copied by reference by design of copy_traits, and "ref" /
   "shallow" share by definition. *)
Definition clause_instances (op : copyop) (ob : cobs) : bool :=
  forallb (fun pr => match pr with
                     | PInst _ meta shared equal =>
                         equal && (negb shared ||
                                   match op, meta with
                                   | Pickle, _ => false             (* a pickle never shares *)
                                   | _, Some CDeep => false
                                   | _, _ => true
                                   end)
                     | _ => true
                     end) (co_probes ob).

Definition law (op : copyop) (c : cls) (ob : cobs) : list Z :=
  chk 1 (co_same_class ob) ++ chk 2 (clause_values c ob) ++ chk 3 (clause_transient c ob)
  ++ chk 4 (clause_unshared op c ob) ++ chk 5 (clause_owner c ob) ++ chk 6 (clause_invalid ob)
  ++ chk 7 (clause_valid ob) ++ chk 8 (clause_readonly c ob) ++ chk 9 (clause_instances op ob).
