(* C14 — Instance graphs: objects holding child objects through Instance / List(Instance) / Dict(K, Instance)
   traits with per-trait copy metadata, and the `inited` flag (write-once-until-initialised attributes).

   Executable model of the recursion of HasTraits.__deepcopy__ / clone_traits / copy_traits through child
   objects (has_traits.py 1546-1693): a child reached through a trait whose EFFECTIVE mode is deep is copied by
   copy.deepcopy(value, memo) -> child.__deepcopy__(memo) -> child.clone_traits(copy=memo["traits_copy_mode"]),
   i.e. recursively with the SAME operation and the child's own per-trait metadata; ref / shallow keep the child
   objects (a shallow copy of a List/Dict of instances is a new container of the same objects); pickling copies
   everything.  Every clone ends with _trait_set_inited() (1682) and __setstate__ with the same call (1360).
   Object graphs are TREES here (no aliasing between fields; the memo that preserves aliasing inside one copy is
   exercised by the driver's fixture — probe 906 — but not modelled).
   One child entry (k, c) per child object: a List(Instance) / Dict field with three children is three entries
   with the same field id k.  Field metadata is global (field id -> copy metadata). *)
From Coq Require Import ZArith List Bool Lia.
From TV Require Import Common.Harness C14.Model.
Import ListNotations.
Open Scope Z_scope.

Inductive obj := Ob (id : Z) (inited : bool) (scalars : list (Z * Z)) (children : list (Z * obj)).

Section obj_ind'.
  Variable P : obj -> Prop.
  Hypothesis H : forall id ini sc ch, Forall (fun p => P (snd p)) ch -> P (Ob id ini sc ch).
  Fixpoint obj_ind' (o : obj) : P o :=
    match o with
    | Ob id ini sc ch =>
        H id ini sc ch ((fix go (l : list (Z * obj)) : Forall (fun p => P (snd p)) l :=
                           match l with
                           | [] => Forall_nil _
                           | p :: r => Forall_cons p (obj_ind' (snd p)) (go r)
                           end) ch)
    end.
End obj_ind'.

(* effective mode of a child field under a copy operation: the rule of copy_traits (Model.effective) *)
Definition eff (op : copyop) (meta : option cmode) : cmode :=
  effective op {| td_type := TAny; td_transient := false; td_copy := meta |}.

Definition copy_children (copy_obj : obj -> Z -> obj * Z) (op : copyop) (meta : Z -> option cmode)
  : list (Z * obj) -> Z -> list (Z * obj) * Z :=
  fix go (l : list (Z * obj)) (m : Z) {struct l} : list (Z * obj) * Z :=
    match l with
    | [] => ([], m)
    | (k, c) :: r =>
        match eff op (meta k) with
        | CDeep => let '(c', m1) := copy_obj c m in let '(r', m2) := go r m1 in ((k, c') :: r', m2)
        | _ => let '(r', m2) := go r m in ((k, c) :: r', m2)
        end
    end.

Fixpoint copy_obj (op : copyop) (meta : Z -> option cmode) (o : obj) (n : Z) {struct o} : obj * Z :=
  match o with
  | Ob id ini sc ch =>
      let '(ch', n') :=
        (fix go (l : list (Z * obj)) (m : Z) {struct l} : list (Z * obj) * Z :=
           match l with
           | [] => ([], m)
           | (k, c) :: r =>
               match eff op (meta k) with
               | CDeep => let '(c', m1) := copy_obj op meta c m in let '(r', m2) := go r m1 in ((k, c') :: r', m2)
               | _ => let '(r', m2) := go r m in ((k, c) :: r', m2)
               end
           end) ch (n + 1) in
      (Ob n true sc ch', n')                               (* new object; _trait_set_inited() at the end *)
  end.

Lemma copy_obj_eq : forall op meta id ini sc ch n,
  copy_obj op meta (Ob id ini sc ch) n =
  let '(ch', n') := copy_children (copy_obj op meta) op meta ch (n + 1) in (Ob n true sc ch', n').
Proof. reflexivity. Qed.

(* observations *)
Inductive oshape := OS (scalars : list (Z * Z)) (children : list (Z * oshape)).
Fixpoint oerase (o : obj) : oshape :=
  match o with Ob _ _ sc ch => OS sc (map (fun p => (fst p, oerase (snd p))) ch) end.

(* identities of the object and of everything below it *)
Fixpoint oids (o : obj) : list Z :=
  match o with Ob id _ _ ch => id :: flat_map (fun p => oids (snd p)) ch end.

(* identities reached from o through deep fields only (the part of the graph the property demands to be new) *)
Fixpoint dids (op : copyop) (meta : Z -> option cmode) (o : obj) : list Z :=
  match o with
  | Ob id _ _ ch =>
      id :: flat_map (fun p => match eff op (meta (fst p)) with CDeep => dids op meta (snd p) | _ => [] end) ch
  end.

(* children kept by reference *)
Definition kept (op : copyop) (meta : Z -> option cmode) (ch : list (Z * obj)) : list (Z * obj) :=
  filter (fun p => match eff op (meta (fst p)) with CDeep => false | _ => true end) ch.

Definition children_of (o : obj) : list (Z * obj) := match o with Ob _ _ _ ch => ch end.
Definition inited_of (o : obj) : bool := match o with Ob _ i _ _ => i end.
Definition id_of (o : obj) : Z := match o with Ob i _ _ _ => i end.

(* every object below o reached through deep fields is initialised *)
Fixpoint dinited (op : copyop) (meta : Z -> option cmode) (o : obj) : bool :=
  match o with
  | Ob _ ini _ ch =>
      ini && forallb (fun p => match eff op (meta (fst p)) with CDeep => dinited op meta (snd p) | _ => true end) ch
  end.

(* a write-once-until-initialised attribute (UUID(can_init=True)): assignable only while not inited *)
Definition assign_initonly (o : obj) (k v : Z) : option obj :=
  match o with
  | Ob id ini sc ch => if ini then None else Some (Ob id ini ((k, v) :: sc) ch)
  end.

(* ---------- theorems ---------- *)
Section Copy.
Variables (op : copyop) (meta : Z -> option cmode).

Definition Pcopy (o : obj) : Prop := forall n o' n', copy_obj op meta o n = (o', n') ->
  n < n' /\ oerase o' = oerase o /\ (forall x, In x (dids op meta o') -> n <= x < n') /\
  dinited op meta o' = true /\ id_of o' = n.

Lemma copy_children_spec : forall ch, Forall (fun p => Pcopy (snd p)) ch -> forall m ch' m',
  copy_children (copy_obj op meta) op meta ch m = (ch', m') ->
  m <= m' /\ map (fun p => (fst p, oerase (snd p))) ch' = map (fun p => (fst p, oerase (snd p))) ch /\
  (forall x, In x (flat_map (fun p => match eff op (meta (fst p)) with CDeep => dids op meta (snd p) | _ => [] end) ch')
             -> m <= x < m') /\
  forallb (fun p => match eff op (meta (fst p)) with CDeep => dinited op meta (snd p) | _ => true end) ch' = true /\
  kept op meta ch' = kept op meta ch.
Proof.
  induction ch as [|[k c] r IH]; intros HF m ch' m' H; simpl in H.
  - inversion H; subst. split; [lia|]. split; [reflexivity|]. split; [intros y []|]. split; reflexivity.
  - inversion HF as [|? ? Hc Hr]; subst. simpl in Hc.
    destruct (eff op (meta k)) eqn:E.
    + destruct (copy_children (copy_obj op meta) op meta r m) as [r' m2] eqn:R. inversion H; subst.
      destruct (IH Hr _ _ _ R) as [A [B [C [D K]]]]. split; [exact A|]. split; [simpl; congruence|]. split.
      * intros x Hx. simpl in Hx. rewrite E in Hx. simpl in Hx. exact (C x Hx).
      * split; [simpl; rewrite E; exact D | unfold kept in *; simpl; rewrite E; simpl; congruence].
    + destruct (copy_children (copy_obj op meta) op meta r m) as [r' m2] eqn:R. inversion H; subst.
      destruct (IH Hr _ _ _ R) as [A [B [C [D K]]]]. split; [exact A|]. split; [simpl; congruence|]. split.
      * intros x Hx. simpl in Hx. rewrite E in Hx. simpl in Hx. exact (C x Hx).
      * split; [simpl; rewrite E; exact D | unfold kept in *; simpl; rewrite E; simpl; congruence].
    + destruct (copy_obj op meta c m) as [c' m1] eqn:CC.
      destruct (copy_children (copy_obj op meta) op meta r m1) as [r' m2] eqn:R. inversion H; subst.
      destruct (Hc _ _ _ CC) as [A1 [A2 [A3 [A4 _]]]]. destruct (IH Hr _ _ _ R) as [A [B [C [D K]]]].
      split; [lia|]. split; [simpl; congruence|]. split.
      * intros x Hx. simpl in Hx. rewrite E in Hx. apply in_app_or in Hx. destruct Hx as [Hx|Hx].
        -- specialize (A3 x Hx). lia.
        -- specialize (C x Hx). lia.
      * split; [simpl; rewrite E, A4; exact D | unfold kept in *; simpl; rewrite E; simpl; exact K].
Qed.

Lemma copy_obj_spec : forall o, Pcopy o.
Proof.
  induction o as [id ini sc ch IH] using obj_ind'. intros n o' n' H. rewrite copy_obj_eq in H.
  destruct (copy_children (copy_obj op meta) op meta ch (n + 1)) as [ch' m'] eqn:C. inversion H; subst.
  destruct (copy_children_spec ch IH _ _ _ C) as [A [B [D [E _]]]].
  split; [lia|]. split; [simpl; congruence|]. split.
  - intros x Hx. simpl in Hx. destruct Hx as [<- | Hx]; [lia|]. specialize (D x Hx). lia.
  - split; [simpl; exact E | reflexivity].
Qed.

(* children reached through a field that is not deep are the original's child objects themselves *)
Lemma copy_obj_kept : forall id ini sc ch n,
  kept op meta (children_of (fst (copy_obj op meta (Ob id ini sc ch) n))) = kept op meta ch.
Proof.
  intros id ini sc ch n. rewrite copy_obj_eq.
  destruct (copy_children (copy_obj op meta) op meta ch (n + 1)) as [ch' m'] eqn:C. simpl.
  assert (HF : Forall (fun p => Pcopy (snd p)) ch) by (apply Forall_forall; intros p _; apply copy_obj_spec).
  destruct (copy_children_spec ch HF _ _ _ C) as [_ [_ [_ [_ K]]]]. exact K.
Qed.
End Copy.

(* pickling: every field is deep, so [dids] is all identities *)
Lemma eff_pickle : forall m, eff Pickle m = CDeep.
Proof. reflexivity. Qed.

Lemma dids_pickle_all : forall meta o, dids Pickle meta o = oids o.
Proof.
  intros meta. induction o as [id ini sc ch IH] using obj_ind'. simpl. f_equal.
  induction ch as [|p r IHr]; [reflexivity|]. inversion IH; subst. simpl. rewrite H1, IHr; auto.
Qed.

(* prediction used by the correspondence: is a child reached through a field with this metadata shared? *)
Definition child_shared (op : copyop) (meta : option cmode) : bool :=
  match eff op meta with CDeep => false | _ => true end.

(* ---------- aliasing inside one copy: the memo of copy.deepcopy / clone_traits ----------
   clone_traits records memo[id(self)] = new and every deepcopy(value, memo) consults it, so an object reachable
   through two fields is copied ONCE.  Shared objects are represented here by subtrees with the same identity. *)
Fixpoint mlookup (memo : list (Z * obj)) (i : Z) : option obj :=
  match memo with [] => None | (k, c) :: r => if k =? i then Some c else mlookup r i end.

Fixpoint copy_m (op : copyop) (meta : Z -> option cmode) (o : obj) (memo : list (Z * obj)) (n : Z) {struct o}
  : obj * list (Z * obj) * Z :=
  match o with
  | Ob id ini sc ch =>
      match mlookup memo id with
      | Some c => (c, memo, n)                                  (* already copied: the same copy again *)
      | None =>
          let '(ch', memo', n') :=
            (fix go (l : list (Z * obj)) (mm : list (Z * obj)) (m : Z) {struct l} : list (Z * obj) * list (Z * obj) * Z :=
               match l with
               | [] => ([], mm, m)
               | (k, c) :: r =>
                   match eff op (meta k) with
                   | CDeep => let '(c', mm1, m1) := copy_m op meta c mm m in
                              let '(r', mm2, m2) := go r mm1 m1 in ((k, c') :: r', mm2, m2)
                   | _ => let '(r', mm2, m2) := go r mm m in ((k, c) :: r', mm2, m2)
                   end
               end) ch memo (n + 1) in
          let c := Ob n true sc ch' in
          (c, (id, c) :: memo', n')
      end
  end.

(* an object that has been copied is in the memo afterwards, under its own identity *)
Lemma copy_m_records : forall op meta o memo n,
  let '(c, memo', _) := copy_m op meta o memo n in mlookup memo' (id_of o) = Some c.
Proof.
  intros op meta [id ini sc ch] memo n. simpl.
  destruct (mlookup memo id) as [c|] eqn:L; [exact L|].
  match goal with |- context[?F ch memo (n + 1)] => destruct (F ch memo (n + 1)) as [[ch' memo'] n'] end.
  simpl. rewrite Z.eqb_refl. reflexivity.
Qed.

(* aliasing is preserved: copying (later, with the memo the first copy produced) any object with the same identity
   yields the very same copy, and allocates nothing *)
Theorem alias_preserved : forall op meta o1 o2 memo n c1 memo1 n1,
  copy_m op meta o1 memo n = (c1, memo1, n1) -> id_of o2 = id_of o1 ->
  copy_m op meta o2 memo1 n1 = (c1, memo1, n1).
Proof.
  intros op meta o1 o2 memo n c1 memo1 n1 H Hid.
  pose proof (copy_m_records op meta o1 memo n) as R. rewrite H in R.
  destruct o2 as [id2 ini2 sc2 ch2]. simpl in Hid. subst id2. simpl. rewrite R. reflexivity.
Qed.

(* ---------- __setstate__ and post_init handlers (probe 910) ----------
   A handler watches key [w]; when it is hooked up and [w] is assigned a value different from the stored one it
   writes [flag := 1].  __setstate__ (has_traits.py 1353-1358) restores the state with trait_set and hooks the
   post_init handlers up AFTERWARDS. *)
Definition st := list (Z * Z).
Fixpoint sget (s : st) (k : Z) : Z := match s with [] => 0 | (k', v) :: r => if k' =? k then v else sget r k end.
Definition sset (s : st) (k v : Z) : st := (k, v) :: s.

Definition assign_h (hooked : bool) (w flag : Z) (s : st) (k v : Z) : st :=
  let s1 := sset s k v in
  if hooked && (k =? w) && negb (sget s k =? v) then sset s1 flag 1 else s1.

Fixpoint trait_set_h (hooked : bool) (w flag : Z) (s : st) (state : list (Z * Z)) : st :=
  match state with [] => s | (k, v) :: r => trait_set_h hooked w flag (assign_h hooked w flag s k v) r end.

(* hooks attached after the state is in place (the code) / before it (the shape of seed C14-t1) *)
Definition setstate_quiet (w flag : Z) (state : list (Z * Z)) : st := trait_set_h false w flag [] state.
Definition setstate_early_hooks (w flag : Z) (state : list (Z * Z)) : st := trait_set_h true w flag [] state.

Lemma find_app' : forall {A} (f : A -> bool) l m,
  find f (l ++ m) = match find f l with Some x => Some x | None => find f m end.
Proof. intros A f l m. induction l as [|x r IH]; [reflexivity|]. simpl. destruct (f x); [reflexivity | exact IH]. Qed.

Lemma trait_set_quiet_get : forall w flag state s k,
  sget (trait_set_h false w flag s state) k =
  match find (fun p => fst p =? k) (rev state) with Some p => snd p | None => sget s k end.
Proof.
  intros w flag state. induction state as [|[k0 v0] r IH]; intros s k; simpl; [reflexivity|].
  rewrite IH. unfold assign_h. simpl. rewrite find_app'.
  destruct (find (fun p => fst p =? k) (rev r)) as [p|]; [reflexivity|]. simpl.
  destruct (k0 =? k); reflexivity.
Qed.

(* restoring a state quietly: every key reads the value the state gives it (last binding), whatever the handlers
   would have done — in particular the flag reads what was pickled *)
Theorem setstate_restores_quietly : forall w flag state k,
  sget (setstate_quiet w flag state) k =
  match find (fun p => fst p =? k) (rev state) with Some p => snd p | None => 0 end.
Proof. intros. unfold setstate_quiet. rewrite trait_set_quiet_get. reflexivity. Qed.

Theorem early_hooks_refuted : exists w flag state,
  sget (setstate_early_hooks w flag state) flag <> sget (setstate_quiet w flag state) flag.
Proof. exists 2, 1, [(1, 0); (2, 7)]. vm_compute. discriminate. Qed.

(* ---------- non-write-through delegates across a pickle (probe 909) ----------
   A delegated attribute reads its local override if there is one, else the delegated-to object's attribute.
   __getstate__ (1301-1314) pickles a delegate only when it has a local override (name in __dict__). *)
Record dobj := { d_override : option Z; d_target : Z }.          (* local override; the target's attribute *)
Definition dread (o : dobj) : Z := match d_override o with Some v => v | None => d_target o end.
Definition dpickle (o : dobj) : dobj := {| d_override := d_override o; d_target := d_target o |}.
(* the shape of seed C14-n3: the resolved value is pickled and comes back as a local override *)
Definition dpickle_resolved (o : dobj) : dobj := {| d_override := Some (dread o); d_target := d_target o |}.
Definition dset_target (o : dobj) (v : Z) : dobj := {| d_override := d_override o; d_target := v |}.

(* an unpickled delegate reads as the original, and a never-overridden one keeps following its target *)
Theorem unpickled_delegate_follows : forall o v,
  dread (dpickle o) = dread o /\ (d_override o = None -> dread (dset_target (dpickle o) v) = v).
Proof. intros o v. split; [reflexivity|]. intro H. unfold dread, dset_target, dpickle. simpl. rewrite H. reflexivity. Qed.

Theorem resolved_pickle_refuted : exists o v,
  d_override o = None /\ dread (dset_target (dpickle_resolved o) v) <> v.
Proof. exists {| d_override := None; d_target := 3 |}, 55. split; [reflexivity | vm_compute; discriminate]. Qed.
