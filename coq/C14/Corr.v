(* C14 — correspondence: one case = class, history on the original, copy operation and the
   observation recorded from the implementation.  [model_obs] is the model's own observation (the
   theorems of Proofs.v speak about it); corr_codes compares it with the implementation's field by
   field, law_codes evaluates the law on the implementation's observation. *)
From Coq Require Import ZArith List Bool.
From TV Require Import Common.Harness C14.Model C14.Law C14.Graph.
Import ListNotations.
Open Scope Z_scope.

Definition case := (cls * list hop * copyop * cobs)%type.

Definition orig_atom : Z := 0.
Definition first_id : Z := 100.

Definition inner_of (t : ttype) : ttype := match t with TCont i => i | _ => TAny end.
Fixpoint elem_at (t : ttype) (path : list nat) : ttype :=
  match path with [] => inner_of t | _ :: p => elem_at (inner_of t) p end.
Definition valid_item (t : ttype) : value := match t with TCont _ => Ct 0 None [] | _ => Sc 1000 end.
Definition invalid_item : value := Sc (-1).

(* what reading a trait yields: the stored value or the default bound to the object *)
Definition read (c : cls) (o : Z) (s : vals) (k : Z) : option value :=
  match vget s k with
  | Some v => Some v
  | None => match cget c k with
            | Some d => match td_type d with
                        | TCont _ => Some (Ct (- (1 + o)) (Some o) [])
                        | TReadOnly => None
                        | _ => Some (Sc 0)
                        end
            | None => None
            end
  end.

Definition read_all (c : cls) (o : Z) (s : vals) : vals :=
  flat_map (fun p => match read c o s (fst p) with Some v => [(fst p, v)] | None => [] end) c.

(* paths of all containers inside a value *)
Fixpoint cpaths (v : value) : list (list nat) :=
  match v with
  | Sc _ => []
  | Ct _ _ items =>
      [] :: (fix go (l : list value) (i : nat) {struct l} : list (list nat) :=
               match l with [] => [] | x :: r => map (cons i) (cpaths x) ++ go r (S i) end) items 0%nat
  end.

Definition out_of (r : mres) : outcome :=
  match r with Appended _ _ _ => Ok | Rejected => TraitError | BadPath => OtherError end.
Definition who_of (r : mres) : list Z :=
  match r with Appended _ _ (Some o) => [o] | _ => [] end.

Definition probe_cont (t : ttype) (v : value) (k : Z) (path : list nat) (n : Z) : probe :=
  let ri := append_at t v path invalid_item n in
  let rv := append_at t v path (valid_item (elem_at t path)) n in
  PCont k path (out_of ri) (out_of rv) (who_of rv) (who_of rv) (who_of rv)
        (match rv with Appended _ _ (Some _) => true | _ => match path with [] => false | _ => true end end).

Definition probes_of (c : cls) (o : Z) (s : vals) (n : Z) : list probe :=
  flat_map (fun p =>
    let k := fst p in
    match td_type (snd p) with
    | TCont _ => match read c o s k with
                 | Some v => map (fun path => probe_cont (td_type (snd p)) v k path n) (cpaths v)
                 | None => []
                 end
    | TInt => [PScalar k (match validate TInt o invalid_item n with Some _ => Ok | None => TraitError end)]
    | TReadOnly => [PReadOnly k (snd (assign c o s k (Sc 5) n))]
    | TAny => []
    end) c.

Definition model_obs (op : copyop) (c : cls) (hs : list hop) : cobs :=
  let '(s0, n0) := hrun c orig_atom [] first_id hs in
  let '(cv, n1) := do_copy op c s0 copy_atom n0 in
  {| co_same_class := true;
     co_orig := read_all c orig_atom s0;
     co_copy := read_all c copy_atom cv;
     co_probes := probes_of c copy_atom cv n1 |}.

(* ----- comparison ----- *)
Definition shapes_eqb (c : cls) (a b : vals) : bool :=
  forallb (fun p => oshape_eqb (vget a (fst p)) (vget b (fst p))) c.

Definition shared_with (orig : vals) (v : option value) : bool :=
  match v with Some x => negb (disjoint (ids x) (all_ids orig)) | None => false end.

Definition owned_pattern (v : option value) : list bool :=
  match v with
  | Some x => map (fun o => match o with Some y => y =? copy_atom | None => false end) (owners x)
  | None => []
  end.

Fixpoint blist_eqb (a b : list bool) : bool :=
  match a, b with [], [] => true | x :: a', y :: b' => Bool.eqb x y && blist_eqb a' b' | _, _ => false end.
Fixpoint nlist_eqb (a b : list nat) : bool :=
  match a, b with [], [] => true | x :: a', y :: b' => Nat.eqb x y && nlist_eqb a' b' | _, _ => false end.
Fixpoint zl_eqb (a b : list Z) : bool :=
  match a, b with [], [] => true | x :: a', y :: b' => (x =? y) && zl_eqb a' b' | _, _ => false end.
Definition outcome_eqb (a b : outcome) : bool :=
  match a, b with Ok, Ok | TraitError, TraitError | OtherError, OtherError => true | _, _ => false end.

Definition probe_eqb (a b : probe) : bool :=
  match a, b with
  | PCont k p i v wi wo wd ok, PCont k' p' i' v' wi' wo' wd' ok' =>
      (k =? k') && nlist_eqb p p' && outcome_eqb i i' && outcome_eqb v v' &&
      match p with
      | [] => zl_eqb wi wi' && zl_eqb wo wo' && zl_eqb wd wd' && Bool.eqb ok ok'
      | _ => true
      end
  | PScalar k i, PScalar k' i' => (k =? k') && outcome_eqb i i'
  | PReadOnly k r, PReadOnly k' r' => (k =? k') && outcome_eqb r r'
  | _, _ => false
  end.

(* probes of the driver's Instance-graph fixture (trait ids >= 900) have no counterpart in the model *)
Definition model_probe (p : probe) : bool :=
  match p with
  | PCont k _ _ _ _ _ _ _ => k <? 900
  | PScalar k _ => k <? 900
  | PReadOnly k _ => k <? 900
  | PInst _ _ _ _ => false
  end.

(* codes: 11 original's values, 12 copy's values, 13 sharing pattern, 14 owner pattern, 15 probes,
   16 class, 17 sharing of child objects (Graph.child_shared) *)
Definition corr_codes (cs : case) : list Z :=
  let '(c, hs, op, ob) := cs in
  let m := model_obs op c hs in
  chk 11 (shapes_eqb c (co_orig m) (co_orig ob))
  ++ chk 12 (shapes_eqb c (co_copy m) (co_copy ob))
  ++ chk 13 (forallb (fun p => Bool.eqb (shared_with (co_orig m) (vget (co_copy m) (fst p)))
                                        (shared_with (co_orig ob) (vget (co_copy ob) (fst p)))) c)
  ++ chk 14 (forallb (fun p => blist_eqb (owned_pattern (vget (co_copy m) (fst p)))
                                         (owned_pattern (vget (co_copy ob) (fst p)))) c)
  ++ chk 15 (list_eqb probe_eqb (co_probes m) (filter model_probe (co_probes ob)))
  ++ chk 16 (Bool.eqb (co_same_class m) (co_same_class ob))
  (* 17: children reached through Instance / List(Instance) / Dict traits are shared with the original exactly
     when the object-graph model (C14/Graph.v) says so: effective mode of the trait not deep *)
  ++ chk 17 (forallb (fun pr => match pr with
                                | PInst _ meta shared _ => Bool.eqb shared (child_shared op meta)
                                | _ => true
                                end) (co_probes ob)).

Definition law_codes (cs : case) : list Z := let '(c, hs, op, ob) := cs in law op c ob.
