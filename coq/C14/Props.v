(* C14 — property theorems only.  `c` is the class (trait name -> type, transient flag, copy
   metadata) with distinct names, `src` the state of the original, `o` the identity of the new object,
   `n` the identity counter before the copy; the copy is `do_copy op c src o n` for
   op in {Pickle, Deepcopy, Clone None|shallow|deep}.  `conforms` = the stored value is one the
   trait's validator accepts (every state reached through the validators is). *)
From Coq Require Import ZArith List Bool.
From TV Require Import Common.Harness Common.CTables C14.Model C14.Law C14.Corr C14.Proofs C14.Whole C14.Hist C14.Graph.
Import ListNotations.
Open Scope Z_scope.

(* MAIN THEOREM.  The whole law (all 9 clauses of C14/Law.v: same class, equal values, transients at
   default, no shared container where the mode is deep, containers bound to the copy, invalid items
   rejected and valid mutations notifying exactly the copy on every container path, write-once stays
   written) holds on the model's observation of a copy taken by ANY copy operation after ANY history
   of assignments and nested appends (valid or rejected) on an object of ANY class with distinct trait
   names whose container types are List/Dict/Set nestings over Int — the listed finding excluded: no
   Any/ReadOnly trait without copy metadata is deep-copied by copy.deepcopy (which copies it by
   reference). *)
Theorem law_holds_after_every_history :
  forall (op : copyop) (c : cls) (hs : list hop),
    NoDup (map fst c) ->
    (forall k d, In (k, d) c -> simple (td_type d) = true) ->
    (forall k d, In (k, d) c -> td_type d = TAny \/ td_type d = TReadOnly ->
                 law_mode op d = CDeep -> effective op d = CDeep) ->
    law op c (model_obs op c hs) = [].
Proof. exact Hist.law_holds_after_every_history. Qed.
Print Assumptions law_holds_after_every_history.

(* the same for every well-formed source state, however reached *)
Theorem law_holds_on_copy :
  forall op c s0 n0, wf op c s0 n0 -> law op c (obs_of op c s0 n0) = [].
Proof. exact Whole.law_holds_on_copy. Qed.
Print Assumptions law_holds_on_copy.

(* every state reached by a history is well-formed (values conform, identities below the counter,
   containers of container traits bound to the object at every depth) *)
Theorem reachable_states_wellformed :
  forall c, NoDup (map fst c) -> (forall k d, In (k, d) c -> simple (td_type d) = true) ->
  forall hs, wfs c (fst (hrun c orig_atom [] first_id hs)) (snd (hrun c orig_atom [] first_id hs)).
Proof. intros c ND SI hs. apply hrun_wfs; [exact ND | exact SI | apply wfs_empty]. Qed.
Print Assumptions reachable_states_wellformed.

(* equal non-transient values: every copied trait reads back == the original's value *)
Theorem roundtrip_values :
  forall op c src o n k d v, NoDup (map fst c) -> In (k, d) c ->
    skipped op c d = false -> vget src k = Some v -> conforms (td_type d) v = true ->
    exists v', vget (fst (do_copy op c src o n)) k = Some v' /\ erase v' = erase v.
Proof.
  intros op c src o n k d v ND Hin Hs Hv Hc.
  destruct (do_copy_trait op c src o n k d v ND Hin Hs Hv Hc) as [v' [A [B _]]]. exists v'. tauto.
Qed.
Print Assumptions roundtrip_values.

(* transient traits (and never-set ones) are not carried over: the copy reads their default
   ([skipped] = the trait is transient) — also when EVERY trait is transient (repair 28581b3). *)
Theorem transients_reset :
  forall op c src o n k d, NoDup (map fst c) -> In (k, d) c ->
    skipped op c d = true \/ vget src k = None -> vget (fst (do_copy op c src o n)) k = None.
Proof. exact do_copy_skipped. Qed.
Print Assumptions transients_reset.

(* no shared container, at any nesting depth: every container identity inside the copy's value was
   allocated during the copy (>= n), for List/Dict/Set nestings under EVERY copy mode (assignment
   re-wraps) and for Any/ReadOnly traits whenever the effective mode is deep.  Identities of the
   original were allocated before the copy (< n). *)
Theorem no_shared_container :
  forall op c src o n k d v, NoDup (map fst c) -> In (k, d) c ->
    skipped op c d = false -> vget src k = Some v -> conforms (td_type d) v = true ->
    pure (td_type d) = true \/ (effective op d = CDeep /\ (td_type d = TAny \/ td_type d = TReadOnly)) ->
    exists v', vget (fst (do_copy op c src o n)) k = Some v' /\
               forall x, In x (ids v') -> n <= x < snd (do_copy op c src o n).
Proof.
  intros op c src o n k d v ND Hin Hs Hv Hc Hk.
  destruct (do_copy_trait op c src o n k d v ND Hin Hs Hv Hc) as [v' [A [_ [P Q]]]]. exists v'. split; [exact A|].
  destruct Hk as [Hp | [Hd Ht]]; [destruct (P Hp) as [I _]; exact I | exact (Q Hd Ht)].
Qed.
Print Assumptions no_shared_container.

(* the copy is live: every (nested) container of a container trait of the copy is bound to the copy,
   rejects the invalid item and accepts a valid one notifying the copy — for every container path *)
Theorem copy_is_live :
  forall op c src o n k d v, NoDup (map fst c) -> In (k, d) c ->
    skipped op c d = false -> vget src k = Some v -> conforms (td_type d) v = true -> pure (td_type d) = true ->
    exists v', vget (fst (do_copy op c src o n)) k = Some v' /\ owned_by o v' /\
      forall p m, In p (cpaths v') ->
        append_at (td_type d) v' p invalid_item m = Rejected /\
        exists v'' m', append_at (td_type d) v' p (valid_item (elem_at (td_type d) p)) m = Appended v'' m' (Some o).
Proof.
  intros op c src o n k d v ND Hin Hs Hv Hc Hp.
  destruct (do_copy_trait op c src o n k d v ND Hin Hs Hv Hc) as [v' [A [E [P _]]]].
  destruct (P Hp) as [_ O]. exists v'. split; [exact A|]. split; [exact O|].
  intros p m Hpath. apply live_append; try assumption. unfold conforms in *. rewrite E. exact Hc.
Qed.
Print Assumptions copy_is_live.

(* write-once attributes stay written: the copy holds the value and a further assignment raises *)
Theorem readonly_stays_written :
  forall op c src o n k d v x m, NoDup (map fst c) -> In (k, d) c -> td_type d = TReadOnly ->
    skipped op c d = false -> vget src k = Some v ->
    exists v', vget (fst (do_copy op c src o n)) k = Some v' /\ erase v' = erase v /\
               snd (assign c o (fst (do_copy op c src o n)) k x m) = TraitError.
Proof.
  intros op c src o n k d v x m ND Hin Ht Hs Hv.
  assert (Hc : conforms (td_type d) v = true) by (unfold conforms; rewrite Ht; destruct (erase v); reflexivity).
  destruct (do_copy_trait op c src o n k d v ND Hin Hs Hv Hc) as [v' [A [E _]]].
  exists v'. split; [exact A|]. split; [exact E|].
  unfold assign. rewrite (cget_in _ _ _ ND Hin), Ht, A. reflexivity.
Qed.
Print Assumptions readonly_stays_written.

(* trait definition objects: general form of T3's round trip (instantiated on the tables regenerated
   from ctraits.c on every run) *)
Theorem ctrait_roundtrip :
  forall (T : ctables), tables_ok T = true -> forall tr tr0, wf_ctrait T tr ->
    exists st, getstate T tr = Some st /\ ctrait_agree T (setstate T st tr0) tr.
Proof. exact CTables.ctrait_roundtrip. Qed.
Print Assumptions ctrait_roundtrip.

(* ----- Instance graphs (C14/Graph.v): objects holding child objects through Instance / List(Instance) / Dict traits
   with per-trait copy metadata; trees of any depth and width ----- *)

(* the copy of an object graph: equal state at every depth; the new root and every object reached from it through
   fields whose effective mode is deep are NEW (identities allocated during the copy), recursively with the same
   operation and the children's own metadata; all of them are initialised *)
Theorem instance_graph_copy :
  forall op meta o n o' n', copy_obj op meta o n = (o', n') ->
    n < n' /\ oerase o' = oerase o /\ (forall x, In x (dids op meta o') -> n <= x < n') /\
    dinited op meta o' = true /\ id_of o' = n.
Proof. intros op meta o. exact (copy_obj_spec op meta o). Qed.
Print Assumptions instance_graph_copy.

(* children reached through a field that is not deep (ref / shallow / no metadata under a reference copy) are the
   original's child objects themselves — sharing by definition *)
Theorem reference_children_are_shared :
  forall op meta id ini sc ch n,
    kept op meta (children_of (fst (copy_obj op meta (Ob id ini sc ch) n))) = kept op meta ch.
Proof. exact copy_obj_kept. Qed.
Print Assumptions reference_children_are_shared.

(* a pickle copies the whole graph: every identity below the copy is new *)
Theorem pickle_copies_whole_graph :
  forall meta o n o' n', copy_obj Pickle meta o n = (o', n') -> forall x, In x (oids o') -> n <= x < n'.
Proof.
  intros meta o n o' n' H x Hx. destruct (copy_obj_spec Pickle meta o n o' n' H) as [_ [_ [D _]]].
  apply D. rewrite dids_pickle_all. exact Hx.
Qed.
Print Assumptions pickle_copies_whole_graph.

(* write-once-until-initialised attributes (UUID(can_init=True)): every copy is initialised, so the attribute
   cannot be written again on it *)
Theorem copy_is_initialised :
  forall op meta o n k v, assign_initonly (fst (copy_obj op meta o n)) k v = None.
Proof. intros op meta [id ini sc ch] n k v. rewrite copy_obj_eq.
       destruct (copy_children (copy_obj op meta) op meta ch (n + 1)). reflexivity. Qed.
Print Assumptions copy_is_initialised.

(* aliasing inside one copy (the memo): an object reached a second time — anything with the same identity — is
   given the very same copy, and nothing is allocated *)
Theorem aliasing_preserved_by_memo :
  forall op meta o1 o2 memo n c1 memo1 n1,
    copy_m op meta o1 memo n = (c1, memo1, n1) -> id_of o2 = id_of o1 ->
    copy_m op meta o2 memo1 n1 = (c1, memo1, n1).
Proof. exact alias_preserved. Qed.
Print Assumptions aliasing_preserved_by_memo.

(* __setstate__ hooks the post_init handlers up after trait_set: every key of the restored object reads what the
   pickled state says, whatever the handlers would write (probe 910; early_hooks_refuted = seed C14-t1) *)
Theorem setstate_restores_quietly :
  forall w flag state k,
    sget (setstate_quiet w flag state) k =
    match find (fun p => fst p =? k) (rev state) with Some p => snd p | None => 0 end.
Proof. exact Graph.setstate_restores_quietly. Qed.
Print Assumptions setstate_restores_quietly.

(* a non-write-through delegate pickles only its local override: the unpickled one reads as the original and a
   never-overridden one keeps following its target (probe 909; resolved_pickle_refuted = seed C14-n3) *)
Theorem unpickled_delegate_follows :
  forall o v, dread (dpickle o) = dread o /\ (d_override o = None -> dread (dset_target (dpickle o) v) = v).
Proof. exact Graph.unpickled_delegate_follows. Qed.
Print Assumptions unpickled_delegate_follows.

Example seeded_shapes_refuted :
  (exists w flag state, sget (setstate_early_hooks w flag state) flag <> sget (setstate_quiet w flag state) flag)
  /\ (exists o v, d_override o = None /\ dread (dset_target (dpickle_resolved o) v) <> v)
  /\ (let shared := Ob 7 true [(0, 1)] [] in
      let '(c1, m1, n1) := copy_m Pickle (fun _ => None) shared [] 100 in
      copy_m Pickle (fun _ => None) shared m1 n1 = (c1, m1, n1) /\ id_of c1 = 100).
Proof. split; [exact early_hooks_refuted|]. split; [exact resolved_pickle_refuted|]. vm_compute. split; reflexivity. Qed.

Example instance_graph_nontrivial :
  let meta := fun k => if k =? 1 then Some CDeep else None in      (* field 1: Instance (deep), field 2: Dict values *)
  let leaf := fun i => Ob i true [(0, i)] [] in
  let o := Ob 10 true [(0, 5)] [(1, Ob 11 true [] [(1, leaf 12); (2, leaf 13)]); (2, leaf 14)] in
  let c := fst (copy_obj Deepcopy meta o 100) in
  oerase c = oerase o
  /\ oids c = [100; 101; 102; 13; 14]          (* deep fields new at every depth, reference fields shared *)
  /\ oids (fst (copy_obj Pickle meta o 100)) = [100; 101; 102; 103; 104]
  /\ assign_initonly c 9 9 = None /\ assign_initonly (Ob 1 false [] []) 9 9 <> None.
Proof. vm_compute. repeat split; try reflexivity. discriminate. Qed.

(* ----- refuted on the current tree (known findings): the model follows the code ----- *)
(* copy.deepcopy shares a list held by an Any trait without copy metadata *)
Theorem deepcopy_any_shared_refuted :
  exists c src, let '(cv, _) := do_copy Deepcopy c src 1 200 in
    vget cv 0 = vget src 0 /\ vget src 0 = Some (Ct 100 None [Sc 1]).
Proof.
  exists [(0, {| td_type := TAny; td_transient := false; td_copy := None |})], [(0, Ct 100 None [Sc 1])].
  vm_compute. split; reflexivity.
Qed.
Print Assumptions deepcopy_any_shared_refuted.

(* with only transient traits (the case repaired by 28581b3) nothing is copied, under every operation *)
Example all_transient_reset :
  let c := [(0, {| td_type := TInt; td_transient := true; td_copy := None |});
            (1, {| td_type := TCont TInt; td_transient := true; td_copy := None |})] in
  map (fun op => fst (do_copy op c [(0, Sc 5); (1, Ct 100 (Some 0) [Sc 3])] 1 200))
      [Pickle; Deepcopy; Clone None; Clone (Some CShallow); Clone (Some CDeep)] = [[]; []; []; []; []].
Proof. vm_compute. reflexivity. Qed.

(* Non-vacuity: a class with a nested container trait, an Any trait, a transient and a write-once
   trait; after a history with a rejected item the pickled copy satisfies the whole law, the
   hypotheses of the theorems above are met, and the copy's containers are new and bound to it. *)
Example copy_nontrivial :
  let c := [(0, {| td_type := TCont (TCont TInt); td_transient := false; td_copy := Some CDeep |});
            (1, {| td_type := TAny; td_transient := false; td_copy := None |});
            (2, {| td_type := TInt; td_transient := true; td_copy := None |});
            (3, {| td_type := TReadOnly; td_transient := false; td_copy := None |})] in
  let hs := [HAssign 0 (Ct 0 None [Ct 0 None [Sc 1]; Ct 0 None []]); HAppend 0 [0%nat] (Sc (-1));
             HAppend 0 [1%nat] (Sc 4); HAssign 1 (Ct 0 None [Sc 2]); HAssign 2 (Sc 42); HAssign 3 (Sc 9)] in
  law Pickle c (model_obs Pickle c hs) = []
  /\ NoDup (map fst c)
  /\ length (co_probes (model_obs Pickle c hs)) = 5%nat
  /\ map (fun p => erase (snd p)) (co_copy (model_obs Pickle c hs))
     = [SCt [SCt [SSc 1]; SCt [SSc 4]]; SCt [SSc 2]; SSc 0; SSc 9].
Proof.
  vm_compute. repeat split; try reflexivity.
  repeat constructor; simpl; intuition discriminate.
Qed.
