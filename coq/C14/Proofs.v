(* C14 — proofs. *)
From Coq Require Import ZArith List Bool Lia.
From TV Require Import Common.Harness C14.Model C14.Law C14.Corr.
Import ListNotations.
Open Scope Z_scope.

(* ---------- induction over nested values ---------- *)
Section value_ind'.
  Variable P : value -> Prop.
  Hypothesis HSc : forall z, P (Sc z).
  Hypothesis HCt : forall id ow items, Forall P items -> P (Ct id ow items).
  Fixpoint value_ind' (v : value) : P v :=
    match v with
    | Sc z => HSc z
    | Ct id ow items =>
        HCt id ow items ((fix go (l : list value) : Forall P l :=
                            match l with
                            | [] => Forall_nil P
                            | x :: r => Forall_cons x (value_ind' x) (go r)
                            end) items)
    end.
End value_ind'.

(* the list loops of validate / strip as named functions *)
Definition validate_list (inner : ttype) (o : Z) : list value -> Z -> option (list value * Z) :=
  fix go (l : list value) (m : Z) {struct l} : option (list value * Z) :=
    match l with
    | [] => Some ([], m)
    | x :: r => match validate inner o x m with
                | None => None
                | Some (x', m1) => match go r m1 with
                                   | None => None
                                   | Some (r', m2) => Some (x' :: r', m2)
                                   end
                end
    end.

Lemma validate_cont : forall inner o id ow items n,
  validate (TCont inner) o (Ct id ow items) n =
  match validate_list inner o items (n + 1) with
  | None => None
  | Some (items', n') => Some (Ct n (Some o) items', n')
  end.
Proof. reflexivity. Qed.

Definition strip_list : list value -> Z -> list value * Z :=
  fix go (l : list value) (m : Z) {struct l} : list value * Z :=
    match l with
    | [] => ([], m)
    | x :: r => let '(x', m1) := strip x m in let '(r', m2) := go r m1 in (x' :: r', m2)
    end.

Lemma strip_cont : forall id ow items n,
  strip (Ct id ow items) n = let '(items', n') := strip_list items (n + 1) in (Ct n None items', n').
Proof. reflexivity. Qed.

(* ---------- ranges of identities ---------- *)
Definition ids_in (lo hi : Z) (v : value) : Prop := forall x, In x (ids v) -> lo <= x < hi.
Definition ids_in_l (lo hi : Z) (l : list value) : Prop := forall x, In x (flat_map ids l) -> lo <= x < hi.

Lemma ids_in_l_cons : forall lo hi x r, ids_in lo hi x -> ids_in_l lo hi r -> ids_in_l lo hi (x :: r).
Proof. intros lo hi x r H1 H2 y Hy. simpl in Hy. apply in_app_or in Hy. destruct Hy; auto. Qed.

Lemma ids_in_weaken : forall lo hi lo' hi' v, ids_in lo hi v -> lo' <= lo -> hi <= hi' -> ids_in lo' hi' v.
Proof. intros lo hi lo' hi' v H Hl Hh x Hx. specialize (H x Hx). lia. Qed.
Lemma ids_in_l_weaken : forall lo hi lo' hi' l, ids_in_l lo hi l -> lo' <= lo -> hi <= hi' -> ids_in_l lo' hi' l.
Proof. intros lo hi lo' hi' v H Hl Hh x Hx. specialize (H x Hx). lia. Qed.

(* strip: every identity of the result is new *)
Lemma strip_fresh : forall v n v' n', strip v n = (v', n') -> n <= n' /\ ids_in n n' v'.
Proof.
  induction v as [z | id ow items IH] using value_ind'; intros n v' n' H.
  - simpl in H. inversion H; subst. split; [lia | intros x []].
  - rewrite strip_cont in H.
    assert (L : forall l m l' m', Forall (fun v => forall n v' n', strip v n = (v', n') -> n <= n' /\ ids_in n n' v') l ->
                                 strip_list l m = (l', m') -> m <= m' /\ ids_in_l m m' l').
    { induction l as [|x r IHr]; intros m l' m' HF HS; simpl in HS.
      - inversion HS; subst. split; [lia | intros y []].
      - inversion HF as [|? ? Hx Hr]; subst.
        destruct (strip x m) as [x' m1] eqn:E1. destruct (strip_list r m1) as [r' m2] eqn:E2.
        inversion HS; subst. destruct (Hx _ _ _ E1) as [A1 A2]. destruct (IHr _ _ _ Hr E2) as [B1 B2].
        split; [lia|]. apply ids_in_l_cons.
        + eapply ids_in_weaken; eauto; lia.
        + eapply ids_in_l_weaken; eauto; lia. }
    destruct (strip_list items (n + 1)) as [items' n1] eqn:E. inversion H; subst.
    destruct (L _ _ _ _ IH E) as [A B]. split; [lia|].
    intros y Hy. simpl in Hy. destruct Hy as [<- | Hy]; [lia|]. specialize (B y Hy). lia.
Qed.

Lemma strip_erase : forall v n, erase (fst (strip v n)) = erase v.
Proof.
  induction v as [z | id ow items IH] using value_ind'; intros n; [reflexivity|].
  rewrite strip_cont.
  assert (L : forall l m, Forall (fun v => forall n, erase (fst (strip v n)) = erase v) l ->
                          map erase (fst (strip_list l m)) = map erase l).
  { induction l as [|x r IHr]; intros m HF; [reflexivity|]. inversion HF as [|? ? Hx Hr]; subst. simpl.
    specialize (Hx m). destruct (strip x m) as [x' m1]. specialize (IHr m1 Hr).
    destruct (strip_list r m1) as [r' m2]. simpl in *. congruence. }
  specialize (L items (n + 1) IH). destruct (strip_list items (n + 1)) as [items' n1]. simpl in *. congruence.
Qed.

(* ---------- validate ---------- *)
(* container types all the way down to Int (what List/Dict/Set nestings of the generator are) *)
Fixpoint pure (t : ttype) : bool := match t with TInt => true | TCont i => pure i | _ => false end.

Definition owned_by (o : Z) (v : value) : Prop := forall x, In x (owners v) -> x = Some o.

Lemma validate_spec : forall v t o n v' n', validate t o v n = Some (v', n') ->
  n <= n' /\ erase v' = erase v /\
  (pure t = true -> ids_in n n' v' /\ owned_by o v').
Proof.
  induction v as [z | id ow items IH] using value_ind'; intros t o n v' n' H.
  - destruct t; simpl in H; try discriminate.
    + destruct (0 <=? z); inversion H; subst. split; [lia|]. split; [reflexivity|].
      intros _. split; intros y [].
    + inversion H; subst. split; [lia|]. split; [reflexivity|]. discriminate.
    + inversion H; subst. split; [lia|]. split; [reflexivity|]. discriminate.
  - destruct t as [| inner | |]; try (simpl in H; discriminate).
    + rewrite validate_cont in H.
      assert (L : forall l m l' m',
                 Forall (fun v => forall t o n v' n', validate t o v n = Some (v', n') ->
                           n <= n' /\ erase v' = erase v /\
                           (pure t = true -> ids_in n n' v' /\ owned_by o v')) l ->
                 validate_list inner o l m = Some (l', m') ->
                 m <= m' /\ map erase l' = map erase l /\
                 (pure inner = true -> ids_in_l m m' l' /\ forall x, In x (flat_map owners l') -> x = Some o)).
      { induction l as [|x r IHr]; intros m l' m' HF HS; simpl in HS.
        - inversion HS; subst. split; [lia|]. split; [reflexivity|]. intros _. split; intros y [].
        - inversion HF as [|? ? Hx Hr]; subst.
          destruct (validate inner o x m) as [[x' m1]|] eqn:E1; [|discriminate].
          destruct (validate_list inner o r m1) as [[r' m2]|] eqn:E2; [|discriminate].
          inversion HS; subst. destruct (Hx _ _ _ _ _ E1) as [A1 [A2 A4]].
          destruct (IHr _ _ _ Hr E2) as [B1 [B2 B3]].
          split; [lia|]. split; [simpl; congruence|]. intro Hp.
          destruct (A4 Hp) as [A5 A6]. destruct (B3 Hp) as [B4 B5]. split.
          + apply ids_in_l_cons; [eapply ids_in_weaken; eauto; lia | eapply ids_in_l_weaken; eauto; lia].
          + intros y Hy. simpl in Hy. apply in_app_or in Hy. destruct Hy; auto. }
      destruct (validate_list inner o items (n + 1)) as [[items' n1]|] eqn:E; [|discriminate].
      inversion H; subst. destruct (L _ _ _ _ IH E) as [A [B C]].
      split; [lia|]. split; [simpl; congruence|].
      intro Hp. simpl in Hp. destruct (C Hp) as [C1 C2]. split.
      * intros x Hx. simpl in Hx. destruct Hx as [<- | Hx]; [lia|]. specialize (C1 x Hx). lia.
      * intros x Hx. simpl in Hx. destruct Hx as [<- | Hx]; [reflexivity | auto].
    + simpl in H. inversion H; subst. split; [lia|]. split; [reflexivity|]. discriminate.
    + simpl in H. inversion H; subst. split; [lia|]. split; [reflexivity|]. discriminate.
Qed.

(* ---------- conformance (what the validators accept) ---------- *)
Fixpoint conf (t : ttype) (s : shape) {struct s} : bool :=
  match t, s with
  | TInt, SSc z => 0 <=? z
  | TInt, SCt _ => false
  | TCont _, SSc _ => false
  | TCont inner, SCt items =>
      (fix go (l : list shape) {struct l} : bool :=
         match l with [] => true | x :: r => conf inner x && go r end) items
  | _, _ => true
  end.
Definition conforms (t : ttype) (v : value) : bool := conf t (erase v).

Definition conf_list (inner : ttype) : list shape -> bool :=
  fix go (l : list shape) {struct l} : bool := match l with [] => true | x :: r => conf inner x && go r end.
Lemma conf_cont : forall inner items, conf (TCont inner) (SCt items) = conf_list inner items.
Proof. reflexivity. Qed.

Lemma validate_total : forall v t o n, conforms t v = true -> exists v' n', validate t o v n = Some (v', n').
Proof.
  induction v as [z | id ow items IH] using value_ind'; intros t o n H; unfold conforms in H.
  - destruct t; simpl in *; try discriminate; try (eexists; eexists; reflexivity).
    rewrite H. eexists; eexists; reflexivity.
  - destruct t as [| inner | |]; simpl erase in H; try (simpl in H; discriminate);
      try (simpl; eexists; eexists; reflexivity).
    rewrite conf_cont in H. rewrite validate_cont.
    assert (L : forall l m, Forall (fun v => forall t o n, conforms t v = true ->
                                     exists v' n', validate t o v n = Some (v', n')) l ->
                            conf_list inner (map erase l) = true ->
                            exists l' m', validate_list inner o l m = Some (l', m')).
    { induction l as [|x r IHr]; intros m HF HC; simpl.
      - eexists; eexists; reflexivity.
      - inversion HF as [|? ? Hx Hr]; subst. simpl in HC. apply andb_true_iff in HC. destruct HC as [C1 C2].
        destruct (Hx inner o m C1) as [x' [m1 E1]]. rewrite E1.
        destruct (IHr m1 Hr C2) as [r' [m2 E2]]. rewrite E2. eexists; eexists; reflexivity. }
    destruct (L items (n + 1) IH H) as [l' [m' E]]. rewrite E. eexists; eexists; reflexivity.
Qed.

(* ---------- the store ---------- *)
Lemma vget_vdel_other : forall s k k', k' <> k -> vget (vdel s k) k' = vget s k'.
Proof.
  induction s as [|[a v] r IH]; intros k k' Hne; simpl; [reflexivity|].
  destruct (a =? k) eqn:E.
  - apply Z.eqb_eq in E. subst. destruct (k =? k') eqn:E2; [apply Z.eqb_eq in E2; congruence | reflexivity].
  - simpl. destruct (a =? k'); [reflexivity | apply IH; assumption].
Qed.
Lemma vget_vset_same : forall s k v, vget (vset s k v) k = Some v.
Proof. intros. unfold vset. simpl. rewrite Z.eqb_refl. reflexivity. Qed.
Lemma vget_vset_other : forall s k v k', k' <> k -> vget (vset s k v) k' = vget s k'.
Proof.
  intros. unfold vset. simpl. destruct (k =? k') eqn:E; [apply Z.eqb_eq in E; congruence|].
  apply vget_vdel_other. assumption.
Qed.

Lemma assign_frame : forall c o s k raw n s' n' out k', assign c o s k raw n = (s', n', out) -> k' <> k ->
  vget s' k' = vget s k'.
Proof.
  intros c o s k raw n s' n' out k' H Hne. unfold assign in H.
  destruct (cget c k) as [d|]; [|inversion H; subst; reflexivity].
  destruct (td_type d) eqn:T; try (destruct (vget s k) eqn:G; [inversion H; subst; reflexivity|]);
    destruct (validate _ o raw n) as [[v m]|]; inversion H; subst; try reflexivity; apply vget_vset_other; assumption.
Qed.

Lemma assign_mono : forall c o s k raw n s' n' out, assign c o s k raw n = (s', n', out) -> n <= n'.
Proof.
  intros c o s k raw n s' n' out H. unfold assign in H.
  destruct (cget c k) as [d|]; [|inversion H; subst; lia].
  assert (V : forall t, match validate t o raw n with Some (_, m) => n <= m | None => True end).
  { intro t. destruct (validate t o raw n) as [[v m]|] eqn:E; [|exact I]. apply validate_spec in E. tauto. }
  destruct (td_type d) eqn:T; try (destruct (vget s k) eqn:G; [inversion H; subst; lia|]);
    match goal with H : context[validate ?t o raw n] |- _ => specialize (V t); destruct (validate t o raw n) as [[v m]|] end;
    inversion H; subst; lia.
Qed.

Lemma copy_value_spec : forall m v n v1 n1, copy_value m v n = (v1, n1) ->
  n <= n1 /\ erase v1 = erase v /\ (m = CDeep -> ids_in n n1 v1).
Proof.
  intros m v n v1 n1 H. destruct m; simpl in H.
  - inversion H; subst. split; [lia|]. split; [reflexivity | discriminate].
  - destruct v; simpl in H; inversion H; subst; (split; [lia|]; split; [reflexivity | discriminate]).
  - pose proof (strip_erase v n) as E. pose proof (strip_fresh v n) as F.
    destruct (strip v n) as [a b]. inversion H; subst. destruct (F _ _ eq_refl) as [F1 F2].
    split; [lia|]. split; [exact E | intros _; exact F2].
Qed.

(* ---------- one trait of the copy loop ---------- *)
Definition skipped (op : copyop) (c0 : cls) (d : tdef) : bool := td_transient d.

Definition copy_one (op : copyop) (c0 : cls) (src : vals) (o : Z) (st : vals * Z) (kd : Z * tdef) : vals * Z :=
  let '(dst, n) := st in
  let '(k, d) := kd in
  if skipped op c0 d then (dst, n)
  else match vget src k with
       | None => (dst, n)
       | Some v => let '(v1, n1) := copy_value (effective op d) v n in
                   let '(dst', n2, _) := assign c0 o dst k v1 n1 in (dst', n2)
       end.

Lemma copy_into_fold : forall op c0 src o c dst n,
  copy_into op c0 c src o dst n = fold_left (copy_one op c0 src o) c (dst, n).
Proof.
  intros op c0 src o c. induction c as [|[k d] r IH]; intros dst n; simpl; [reflexivity|].
  unfold skipped. destruct (td_transient d); [apply IH|].
  destruct (vget src k) as [v|]; [|apply IH].
  destruct (copy_value (effective op d) v n) as [v1 n1]. destruct (assign c0 o dst k v1 n1) as [[dst' n2] out].
  apply IH.
Qed.

Definition fresh_kind (op : copyop) (d : tdef) : Prop :=
  pure (td_type d) = true \/ effective op d = CDeep.

Lemma copy_one_spec : forall op c0 src o dst n k d dst' n',
  copy_one op c0 src o (dst, n) (k, d) = (dst', n') ->
  n <= n' /\ (forall k', k' <> k -> vget dst' k' = vget dst k') /\
  (skipped op c0 d = true \/ vget src k = None -> vget dst' k = vget dst k) /\
  (forall v, skipped op c0 d = false -> vget src k = Some v -> cget c0 k = Some d -> vget dst k = None ->
             conforms (td_type d) v = true ->
     exists v', vget dst' k = Some v' /\ erase v' = erase v /\
                (pure (td_type d) = true -> ids_in n n' v' /\ owned_by o v') /\
                (effective op d = CDeep -> td_type d = TAny \/ td_type d = TReadOnly -> ids_in n n' v')).
Proof.
  intros op c0 src o dst n k d dst' n' H. unfold copy_one in H.
  destruct (skipped op c0 d) eqn:S.
  { inversion H; subst. split; [lia|]. split; [reflexivity|]. split; [reflexivity | discriminate]. }
  destruct (vget src k) as [v|] eqn:G.
  2:{ inversion H; subst. split; [lia|]. split; [reflexivity|]. split; [reflexivity | discriminate]. }
  destruct (copy_value (effective op d) v n) as [v1 n1] eqn:CV.
  destruct (assign c0 o dst k v1 n1) as [[dst2 n2] out] eqn:A. inversion H; subst.
  destruct (copy_value_spec _ _ _ _ _ CV) as [M1 [E1 F1]]. pose proof (assign_mono _ _ _ _ _ _ _ _ _ A) as M2.
  split; [lia|]. split; [intros k' Hne; eapply assign_frame; eauto|].
  split; [intros [X|X]; discriminate|].
  intros v0 _ Hv Hc Hd Hconf. inversion Hv; subst v0.
  unfold assign in A. rewrite Hc in A.
  assert (Hconf1 : conforms (td_type d) v1 = true) by (unfold conforms in *; rewrite E1; exact Hconf).
  destruct (validate_total v1 (td_type d) o n1 Hconf1) as [v' [m E]].
  assert (A' : (vset dst k v', m, Ok) = (dst', n', out)).
  { revert A E. destruct (td_type d); intros A E; try rewrite Hd in A; rewrite E in A; exact A. }
  inversion A'; subst. destruct (validate_spec _ _ _ _ _ _ E) as [V1 [V2 V3]].
  exists v'. split; [apply vget_vset_same|]. split; [congruence|]. split.
  - intro Hp. destruct (V3 Hp) as [I O]. split; [eapply ids_in_weaken; eauto; lia | exact O].
  - intros Hdeep Hty. assert (v' = v1).
    { destruct Hty as [T|T]; rewrite T in E; destruct v1; simpl in E; inversion E; reflexivity. }
    subst v'. eapply ids_in_weaken; [apply F1; exact Hdeep | lia | lia].
Qed.

Arguments copy_one : simpl never.

Lemma fold_mono : forall op c0 src o c st, snd st <= snd (fold_left (copy_one op c0 src o) c st).
Proof.
  intros op c0 src o c. induction c as [|[k d] r IH]; intros [dst n]; simpl; [lia|].
  destruct (copy_one op c0 src o (dst, n) (k, d)) as [dst1 n1] eqn:E.
  pose proof (copy_one_spec _ _ _ _ _ _ _ _ _ _ E) as [M _]. specialize (IH (dst1, n1)). simpl in *. lia.
Qed.

Lemma fold_frame : forall op c0 src o c st k, ~ In k (map fst c) ->
  vget (fst (fold_left (copy_one op c0 src o) c st)) k = vget (fst st) k.
Proof.
  intros op c0 src o c. induction c as [|[k1 d] r IH]; intros [dst n] k Hn; simpl; [reflexivity|].
  destruct (copy_one op c0 src o (dst, n) (k1, d)) as [dst1 n1] eqn:E.
  pose proof (copy_one_spec _ _ _ _ _ _ _ _ _ _ E) as [_ [F _]].
  rewrite IH; [|intro X; apply Hn; right; exact X]. simpl. apply F. intro X; apply Hn; left; simpl; congruence.
Qed.

(* the value the copy ends up with for trait k is the one its own step stored *)
Lemma fold_key : forall op c0 src o c st k d, NoDup (map fst c) -> In (k, d) c ->
  exists dst1 n1, snd st <= n1 /\ vget dst1 k = vget (fst st) k /\
    let st2 := copy_one op c0 src o (dst1, n1) (k, d) in
    vget (fst (fold_left (copy_one op c0 src o) c st)) k = vget (fst st2) k /\
    snd st2 <= snd (fold_left (copy_one op c0 src o) c st).
Proof.
  intros op c0 src o c. induction c as [|[k1 d1] r IH]; intros [dst n] k d ND Hin; [destruct Hin|].
  simpl in ND. inversion ND as [|? ? Hnotin ND']; subst. simpl.
  destruct Hin as [Heq | Hin].
  - inversion Heq; subst. exists dst, n. split; [simpl; lia|]. split; [reflexivity|].
    destruct (copy_one op c0 src o (dst, n) (k, d)) as [dst1 n1] eqn:E. simpl. split.
    + apply (fold_frame op c0 src o r (dst1, n1) k Hnotin).
    + apply (fold_mono op c0 src o r (dst1, n1)).
  - destruct (copy_one op c0 src o (dst, n) (k1, d1)) as [dstA nA] eqn:E.
    pose proof (copy_one_spec _ _ _ _ _ _ _ _ _ _ E) as [M [F _]].
    destruct (IH (dstA, nA) k d ND' Hin) as [dst1 [n1 [A [B C]]]].
    exists dst1, n1. split; [simpl in *; lia|]. split.
    + simpl in *. rewrite B. apply F. intro X. subst. apply Hnotin.
      apply in_map_iff. exists (k1, d). split; [reflexivity | exact Hin].
    + exact C.
Qed.

Lemma cget_in : forall c k d, NoDup (map fst c) -> In (k, d) c -> cget c k = Some d.
Proof.
  induction c as [|[k1 d1] r IH]; intros k d ND Hin; [destruct Hin|]. simpl in *.
  inversion ND as [|? ? Hnotin ND']; subst. destruct Hin as [Heq | Hin].
  - inversion Heq; subst. rewrite Z.eqb_refl. reflexivity.
  - destruct (k1 =? k) eqn:E; [|apply IH; assumption].
    apply Z.eqb_eq in E. subst. exfalso. apply Hnotin. apply in_map_iff. exists (k, d). split; [reflexivity | exact Hin].
Qed.

(* ---------- the copy as a whole ---------- *)
Lemma do_copy_trait : forall op c src o n k d v, NoDup (map fst c) -> In (k, d) c ->
  skipped op c d = false -> vget src k = Some v -> conforms (td_type d) v = true ->
  exists v', vget (fst (do_copy op c src o n)) k = Some v' /\ erase v' = erase v /\
    (pure (td_type d) = true -> ids_in n (snd (do_copy op c src o n)) v' /\ owned_by o v') /\
    (effective op d = CDeep -> td_type d = TAny \/ td_type d = TReadOnly ->
     ids_in n (snd (do_copy op c src o n)) v').
Proof.
  intros op c src o n k d v ND Hin Hs Hv Hc. unfold do_copy. rewrite copy_into_fold.
  destruct (fold_key op c src o c ([], n) k d ND Hin) as [dst1 [n1 [A [B [C D]]]]]. simpl in A, B.
  destruct (copy_one op c src o (dst1, n1) (k, d)) as [dst2 n2] eqn:E. simpl in C, D.
  destruct (copy_one_spec _ _ _ _ _ _ _ _ _ _ E) as [M [_ [_ S]]].
  destruct (S v Hs Hv (cget_in _ _ _ ND Hin) B Hc) as [v' [G [Er [P Q]]]].
  exists v'. split; [etransitivity; [exact C | exact G]|]. split; [exact Er|]. split.
  - intro Hp. destruct (P Hp) as [I O]. split; [|exact O].
    intros x Hx. specialize (I x Hx). split; [lia|]. eapply Z.lt_le_trans; [apply I | exact D].
  - intros X Y. intros x Hx. specialize (Q X Y x Hx). split; [lia|]. eapply Z.lt_le_trans; [apply Q | exact D].
Qed.

Lemma do_copy_skipped : forall op c src o n k d, NoDup (map fst c) -> In (k, d) c ->
  skipped op c d = true \/ vget src k = None -> vget (fst (do_copy op c src o n)) k = None.
Proof.
  intros op c src o n k d ND Hin Hs. unfold do_copy. rewrite copy_into_fold.
  destruct (fold_key op c src o c ([], n) k d ND Hin) as [dst1 [n1 [A [B [C D]]]]]. simpl in A, B.
  destruct (copy_one op c src o (dst1, n1) (k, d)) as [dst2 n2] eqn:E. simpl in C.
  destruct (copy_one_spec _ _ _ _ _ _ _ _ _ _ E) as [_ [_ [S _]]].
  etransitivity; [exact C|]. rewrite (S Hs). exact B.
Qed.

(* ---------- liveness: what a container bound to its owner does ---------- *)
Definition cpaths_list : list value -> nat -> list (list nat) :=
  fix go (l : list value) (i : nat) {struct l} : list (list nat) :=
    match l with [] => [] | x :: r => map (cons i) (cpaths x) ++ go r (S i) end.

Lemma cpaths_cont : forall id ow items, cpaths (Ct id ow items) = [] :: cpaths_list items 0%nat.
Proof. reflexivity. Qed.

Lemma cpaths_list_in : forall l i0 j q, In (j :: q) (cpaths_list l i0) ->
  exists y, (i0 <= j)%nat /\ nth_error l (j - i0) = Some y /\ In q (cpaths y).
Proof.
  induction l as [|x r IH]; intros i0 j q H; simpl in H; [destruct H|].
  apply in_app_or in H. destruct H as [H | H].
  - apply in_map_iff in H. destruct H as [q' [E Hq]]. inversion E; subst.
    exists x. split; [lia|]. rewrite Nat.sub_diag. split; [reflexivity | exact Hq].
  - destruct (IH _ _ _ H) as [y [A [B C]]]. exists y. split; [lia|]. split; [|exact C].
    replace (j - i0)%nat with (S (j - S i0)) by lia. exact B.
Qed.

Lemma conf_list_in : forall inner l y, conf_list inner (map erase l) = true -> In y l -> conforms inner y = true.
Proof.
  induction l as [|x r IH]; intros y H Hin; [destruct Hin|]. simpl in H. apply andb_true_iff in H.
  destruct H as [H1 H2]. destruct Hin as [<- | Hin]; [exact H1 | apply IH; assumption].
Qed.

Lemma owners_item : forall id ow items y o, owned_by o (Ct id ow items) -> In y items -> owned_by o y.
Proof.
  intros id ow items y o H Hin x Hx. apply H. simpl. right. apply in_flat_map. exists y. split; assumption.
Qed.

Lemma pure_validate_invalid : forall inner o n, pure inner = true -> validate inner o invalid_item n = None.
Proof. intros inner o n H. destruct inner; simpl in *; try discriminate; reflexivity. Qed.

Lemma pure_validate_valid : forall inner o n, pure inner = true ->
  exists x' n', validate inner o (valid_item inner) n = Some (x', n').
Proof.
  intros inner o n H. destruct inner; simpl in H; try discriminate.
  - simpl. eexists; eexists; reflexivity.
  - unfold valid_item. rewrite validate_cont. simpl. eexists; eexists; reflexivity.
Qed.

(* every (nested) container of a value bound to o rejects the invalid item and accepts a valid one,
   notifying o — for every container path, at any nesting depth *)
Lemma live_append : forall v t o n p, pure t = true -> conforms t v = true -> owned_by o v -> In p (cpaths v) ->
  append_at t v p invalid_item n = Rejected /\
  exists v' n', append_at t v p (valid_item (elem_at t p)) n = Appended v' n' (Some o).
Proof.
  induction v as [z | id ow items IH] using value_ind'; intros t o n p Hp Hc Ho Hin; [destruct Hin|].
  destruct t as [| inner | |]; simpl in Hp; try discriminate.
  assert (How : ow = Some o) by (apply Ho; simpl; left; reflexivity). subst ow.
  unfold conforms in Hc. simpl erase in Hc. rewrite conf_cont in Hc.
  rewrite cpaths_cont in Hin. destruct Hin as [<- | Hin].
  - cbn [append_at]. rewrite (pure_validate_invalid inner o n Hp). split; [reflexivity|].
    change (elem_at (TCont inner) []) with inner.
    destruct (pure_validate_valid inner o n Hp) as [x' [n' E]]. rewrite E. eexists; eexists; reflexivity.
  - destruct p as [|j q].
    { exfalso. clear - Hin. revert Hin. generalize 0%nat. induction items as [|x r IHr]; intros i H; simpl in H; [exact H|].
      apply in_app_or in H. destruct H as [H|H]; [apply in_map_iff in H; destruct H as [? [E _]]; discriminate | eapply IHr; eauto]. }
    destruct (cpaths_list_in _ _ _ _ Hin) as [y [_ [Hn Hq]]]. rewrite Nat.sub_0_r in Hn.
    pose proof (nth_error_In _ _ Hn) as Hy.
    rewrite Forall_forall in IH.
    destruct (IH y Hy inner o n q Hp (conf_list_in _ _ _ Hc Hy) (owners_item _ _ _ _ _ Ho Hy) Hq) as [R [v' [n' A]]].
    cbn [append_at]. rewrite Hn. rewrite R. split; [reflexivity|].
    change (elem_at (TCont inner) (j :: q)) with (elem_at inner q). rewrite A. eexists; eexists; reflexivity.
Qed.
