(* C16 — correspondence.  One case = pool size, root, the legacy name (structured), the graphs
   the harness registered through observe(), and the history with both call logs.
   Codes: 100*step + 1 the observe call count differs from the C08 model's prediction (the
   specification calls_spec), 2 outcome, 3 heap slots; step 0 code 9: the graphs used for observe are
   not [legacy_to_graph] of the name. *)
From Coq Require Import ZArith List Arith Bool PeanoNat.
From TV Require Import Common.Harness Common.ObsCore C08.Model C08.Law C08.Corr C16.Model C16.Law.
Import ListNotations.
Open Scope nat_scope.

Definition case := (nat * oid * ename * list graph * list (op16 * obs16))%type.

Fixpoint graphs_eqb (a b : list graph) : bool :=
  match a, b with
  | [], [] => true
  | x :: a', y :: b' => graph_eqb x y && graphs_eqb a' b'
  | _, _ => false
  end.

(* the model's step for a C16 operation: registration = observe() of every graph of the name *)
Definition step16 (gs : list graph) (root : oid) (st : state) (o : op16) : state * obs :=
  match o with
  | Mut m => step st m
  | Reg => (fold_left (fun s g => fst (step s (Observe 0 root g))) gs st, mkObs Ok [] [])
  | RegLazy x f items =>
      let '(s1, ob1) := step st (TouchItems x f items) in
      (fold_left (fun s g => fst (step s (Observe 0 root g))) gs s1, mkObs (ob_out ob1) [] (ob_delta ob1))
  | Unreg =>
      fold_left (fun (p : state * obs) g =>
                   let '(s, ob) := p in
                   let '(s', ob') := step s (Unobserve 0 root g) in
                   (s', match ob_out ob with Ok => ob' | _ => ob end)) gs (st, mkObs Ok [] [])
  end.

Fixpoint corr16_hist (gs : list graph) (root : oid) (i : Z) (st : state) (ih : heap)
         (hist : list (op16 * obs16)) : list Z :=
  match hist with
  | [] => []
  | (o, ob) :: r =>
      let '(st', m) := step16 gs root st o in
      let ih' := apply_delta ih (o_delta ob) in
      map (fun c => (100 * i + c)%Z)
        (chk 1 (Nat.eqb (length (ob_calls m)) (length (o_ocalls ob)))
         ++ chk 2 (outcome_eqb (ob_out m) (o_out ob))
         ++ chk 3 (forallb (fun e => let '(x, f, v) := e in perm_eqb (st_heap st' x f) v) (o_delta ob)
                   && forallb (fun e => let '(x, f, v) := e in perm_eqb (ih' x f) v) (ob_delta m)))
      ++ corr16_hist gs root (i + 1)%Z st' ih' r
  end.

Definition corr_codes (c : case) : list Z :=
  let '(npool, root, e, gs, hist) := c in
  chk 9 (match legacy_to_graph e with Some gs' => graphs_eqb gs gs' | None => false end)
  ++ corr16_hist gs root 0%Z (init npool) (fun _ _ => []) hist.
Definition law_codes (c : case) : list Z :=
  let '(npool, root, e, gs, hist) := c in
  law16_hist gs root 0%Z false (fun _ _ => []) hist.
