(* C16 — property theorems only (specification level: legacy_to_graph + reachability, and its
   agreement with the C08 observe model; the legacy listener algorithm itself is tied by the
   correspondence run through both APIs). *)
From Coq Require Import ZArith List Arith Bool PeanoNat Permutation.
From TV Require Import Common.Harness Common.ObsCore C08.Model C08.Law C08.Proofs C16.Model C16.Law C16.Corr C16.Proofs.
Import ListNotations.
Open Scope nat_scope.

(* On tree-shaped heaps (links go up a rank, no object is referenced twice) the graphs of a legacy
   name reach every (object, trait) along at most one path: a listener that does not count
   references and observe's reference-counted notifier report the same number of calls. *)
Theorem unshared_multiplicity_le_1 :
  forall t rank h k e gs r x f,
    ranked rank h -> unshared h -> names_nodup e -> legacy_to_graph e = Some gs ->
    path_count t h k gs r x f <= 1.
Proof. exact path_count_le_1_lemma. Qed.
Print Assumptions unshared_multiplicity_le_1.

(* stronger: on such heaps no notifier at all is expected twice *)
Theorem unshared_hooks_nodup :
  forall t rank h k e gs r,
    ranked rank h -> unshared h -> names_nodup e -> legacy_to_graph e = Some gs ->
    NoDup (flat_map (fun g => expected t h k g r) gs).
Proof.
  intros t rank h k e gs r R U ND L. destruct (legacy_distinct e gs ND L) as [DF DA].
  apply (expected_list_NoDup t rank h k R U gs r DF DA).
Qed.
Print Assumptions unshared_hooks_nodup.

(* Specification = observe model: in any state satisfying the C08 invariant whose registrations are
   the graphs of the name, for any notified change of (x, f) on a tree-shaped heap, the number of
   calls the C08 model makes for the key equals the number of paths of the legacy specification. *)
Theorem legacy_spec_eq_observe_model :
  forall rank st o x f e gs k,
    inv st -> op_hyp st o = true -> notified st o = Some (x, f) ->
    ranked rank (st_heap st) -> unshared (st_heap st) ->
    names_nodup e -> legacy_to_graph e = Some gs -> st_regs st = map (pair k) gs ->
    length (filter (hkey_eqb k) (map call_key (ob_calls (snd (step st o)))))
    = path_count (st_traits st) (st_heap st) k gs (snd k) x f.
Proof. exact legacy_eq_observe_lemma. Qed.
Print Assumptions legacy_spec_eq_observe_model.

(* ... where the C08 hypothesis (edge-acyclicity) holds trivially: links go up the rank, and the
   objects put into the slot are above its owner (fresh objects at every insertion). *)
Theorem tree_shaped_edge_acyclic :
  forall t rank h rs o fo news,
    fo <> TA -> ranked rank h -> (forall y, In y news -> rank o < rank y) ->
    (forall kc, In kc (occ_all t h rs o fo) -> forall y, In y news -> walkable t (upd h o fo news) (snd kc) y = true) ->
    edge_acyclic t h rs o fo news.
Proof. exact ranked_edge_acyclic_lemma. Qed.
Print Assumptions tree_shaped_edge_acyclic.

(* Removing the registration stops all calls: a key without live registration is never called. *)
Theorem remove_stops_calls :
  forall st o k, inv st -> op_hyp st o = true -> (forall g, ~ In (k, g) (st_regs st)) ->
    ~ In k (map call_key (ob_calls (snd (step st o)))).
Proof. exact remove_stops_calls_lemma. Qed.
Print Assumptions remove_stops_calls.

(* Re-assigning the intermediate trait named first: reported iff the separator after it is '.'. *)
Theorem dot_reports_colon_silent :
  forall t rank h names s p rest gs r f,
    ranked rank h -> (forall f', In f' names -> t r f' = true) -> rest <> [] -> In f names ->
    legacy_to_graph ((names, s, p) :: rest) = Some gs ->
    existsb (fun g => matched t h g r r f) gs = sep_notify s.
Proof. exact dot_colon_lemma. Qed.
Print Assumptions dot_reports_colon_silent.

(* Non-vacuity: 'kids.f:value' on a tree; the graphs, a history through the C08 model with its
   hypotheses, and the path counts. *)
Example name_nontrivial :
  let e := [([3], Dot, false); ([1], Colon, true); ([0], Dot, false)] in
  let gs := [G [3] true true false [G [6] true false false [G [1] false true true [G [0] true true false []]]]] in
  let ops := [SetCont 0 3 [1; 2] false; SetRef 1 1 [3]; SetRef 2 1 [4]; Observe 0 0 (hd (G [0] true true false []) gs);
              Probe 3; SetRef 1 1 [5]; Probe 3; Probe 5; Splice 6 6 0 1 []; Probe 5] in
  legacy_to_graph e = Some gs
  /\ hyps (init 6) ops = true
  /\ map (fun p => length (ob_calls (snd p))) (run (init 6) ops) = [0; 0; 0; 0; 1; 0; 0; 1; 1; 0]
  /\ path_count init_traits (st_heap (final (init 6) (firstn 4 ops))) (0, 0) gs 0 3 0 = 1.
Proof. vm_compute. repeat split; reflexivity. Qed.
