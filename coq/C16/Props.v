(* C16 — property theorems only. *)
From Coq Require Import List Arith Bool PeanoNat Permutation.
From TV Require Import Common.ObsCore C08.Model C08.Proofs C16.Model C16.Proofs.
Import ListNotations.

Theorem walk_goes_up_the_rank :
  forall rank h o fo g, ranked rank h -> forall x, visits h g x o fo = true -> rank x <= rank o.
Proof. exact visits_rank. Qed.
Print Assumptions walk_goes_up_the_rank.
