(* C16 — lemmas: walks go up the rank; on ranked heaps every change is edge-acyclic (the C08
   hypothesis holds trivially); on tree-shaped heaps every hook is expected at most once. *)
From Coq Require Import List Arith Bool PeanoNat Permutation Lia.
From TV Require Import Common.ObsCore C08.Model C08.Law C08.Proofs C16.Model.
Import ListNotations.

Lemma matched_visits t h o fo g : forall x, matched t h g x o fo = true -> visits t h g x o fo = true.
Proof.
  induction g as [fs n e p cs IH] using graph_ind'. intros x. cbn [matched visits]. rewrite Forall_forall in IH.
  intros A. apply existsb_exists in A. destruct A as [f [Hf A]]. apply andb_true_iff in A. destruct A as [Tf A].
  apply existsb_exists. exists f. split; [exact Hf|]. rewrite Tf. cbn [andb].
  apply orb_true_iff in A. apply orb_true_iff. destruct A as [A|A].
  - left. apply andb_true_iff in A. tauto.
  - right. apply existsb_exists in A. destruct A as [y [Hy A]]. apply existsb_exists in A.
    destruct A as [c [Hc A]]. apply existsb_exists. exists y. split; [exact Hy|].
    apply existsb_exists. exists c. split; [exact Hc|]. apply IH; assumption.
Qed.

(* on a ranked heap (a DAG, in particular a tree) whose rank also dominates the new content of
   the slot, the change is edge-acyclic for every set of registrations *)
(* ---------- '.' reports, ':' is silent ---------- *)
Lemma matched_root_slot t rank h f n e p cs r f0 :
  ranked rank h -> t r f = true -> matched t h (G [f] n e p cs) r r f0 = n && Nat.eqb f f0.
Proof.
  intros R Tf. cbn [matched existsb]. rewrite Tf, orb_false_r. cbn [andb].
  assert (existsb (fun y => existsb (fun c => matched t h c y r f0) cs) (h r f) = false) as E.
  { destruct (existsb _ (h r f)) eqn:Q; [exfalso|reflexivity].
    apply existsb_exists in Q. destruct Q as [y [Hy Q]]. apply existsb_exists in Q. destruct Q as [c [Hc Q]].
    apply matched_visits in Q. apply (visits_rank t rank h r f0 c R) in Q. pose proof (R r f y Hy). lia. }
  rewrite E, orb_false_r. unfold slot_eqb. rewrite Nat.eqb_refl. reflexivity.
Qed.

Lemma link_root_slot t rank h f n p cs r f0 :
  ranked rank h -> t r f = true -> matched t h (link f n p cs) r r f0 = n && Nat.eqb f f0.
Proof.
  intros R Tf. unfold link. destruct (is_container f); apply (matched_root_slot t rank); assumption.
Qed.

Lemma existsb_map {A B} (p : B -> bool) (g : A -> B) l : existsb p (map g l) = existsb (fun a => p (g a)) l.
Proof. induction l; cbn; [reflexivity|]. rewrite IHl. reflexivity. Qed.

Lemma dot_colon_lemma t rank h names s p rest gs r f :
  ranked rank h -> (forall f', In f' names -> t r f' = true) -> rest <> [] -> In f names ->
  legacy_to_graph ((names, s, p) :: rest) = Some gs ->
  existsb (fun g => matched t h g r r f) gs = sep_notify s.
Proof.
  intros R Tn NE I L. cbn [legacy_to_graph] in L. destruct rest as [|it rest]; [congruence|].
  destruct (legacy_to_graph (it :: rest)) as [cs|]; [|discriminate]. inversion L; subst gs. clear L.
  rewrite existsb_map.
  destruct (sep_notify s) eqn:S.
    + apply existsb_exists. exists f. split; [exact I|]. rewrite (link_root_slot t rank); [|exact R|apply Tn; exact I].
      rewrite Nat.eqb_refl. reflexivity.
    + destruct (existsb _ names) eqn:Q; [|reflexivity]. apply existsb_exists in Q. destruct Q as [f' [If' Q]].
      rewrite (link_root_slot t rank) in Q; [|exact R|apply Tn; exact If']. cbn in Q. discriminate.
Qed.

(* ---------- tree-shaped heaps: every hook is expected at most once ---------- *)
Inductive reach (h : heap) : oid -> oid -> Prop :=
| reach_refl x : reach h x x
| reach_step x w f z : reach h x w -> In z (h w f) -> reach h x z.

Lemma reach_cons h y f y' : In y' (h y f) -> forall z, reach h y' z -> reach h y z.
Proof.
  intros I z R. induction R as [|a w f' z R IH I'].
  - eapply reach_step; [apply reach_refl|exact I].
  - eapply reach_step; [apply IH; exact I|exact I'].
Qed.

Lemma rank_reach rank h : ranked rank h -> forall x z, reach h x z -> rank x <= rank z.
Proof.
  intros R x z Rz. induction Rz as [|a w f z Rz IH I]; [lia|]. pose proof (R w f z I). lia.
Qed.

(* ancestors of one object form a chain *)
Lemma reach_chain h : unshared h -> forall a z, reach h a z -> forall b, reach h b z -> reach h a b \/ reach h b a.
Proof.
  intros [_ U] a z Ra. induction Ra as [a|a w f z Ra IH I]; intros b Rb.
  - right. exact Rb.
  - inversion Rb as [|b' w' f' z' Rb' I']; subst.
    + left. eapply reach_step; eassumption.
    + destruct (U w f w' f' z I I') as [-> _]. apply IH. exact Rb'.
Qed.

Lemma hooks_reach t h k g : forall x z fz kd, In (z, fz, kd) (expected t h k g x) -> reach h x z.
Proof.
  induction g as [fs n e p cs IH] using graph_ind'. intros x z fz kd I. rewrite Forall_forall in IH.
  cbn [expected] in I. apply in_app_or in I. destruct I as [I|I].
  - destruct e; [|destruct I]. destruct I as [E|[]]. inversion E. apply reach_refl.
  - apply in_flat_map in I. destruct I as [f [Hf I]]. destruct (t x f); [|destruct I].
    apply in_app_or in I. destruct I as [I|I].
    + unfold own in I. apply in_app_or in I. destruct I as [I|I].
      * destruct n; [|destruct I]. destruct I as [E|[]]. inversion E. apply reach_refl.
      * apply in_map_iff in I. destruct I as [c [E _]]. inversion E. apply reach_refl.
    + apply in_flat_map in I. destruct I as [y [Hy I]]. apply in_flat_map in I. destruct I as [c [Hc I]].
      eapply reach_cons; [exact Hy|]. apply (IH c Hc y z fz kd I).
Qed.

(* where the hooks of a single-trait node applied to x live: on x itself (slot (x, f) or the
   trait_added maintainer), or strictly below slot (x, f) *)
Lemma region t h k f n e p cs : forall x z fz kd,
  In (z, fz, kd) (expected t h k (G [f] n e p cs) x) ->
  (z = x /\ (fz = f \/ (fz = TA /\ kd = KAdded k (G [f] n e p cs)))) \/ (exists y, In y (h x f) /\ reach h y z).
Proof.
  intros x z fz kd I. cbn [expected flat_map] in I. rewrite app_nil_r in I. apply in_app_or in I. destruct I as [I|I].
  - left. destruct e; [|destruct I]. destruct I as [E|[]]. inversion E. split; [reflexivity|]. right. split; reflexivity.
  - destruct (t x f); [|destruct I]. apply in_app_or in I. destruct I as [I|I].
    + left. unfold own in I. apply in_app_or in I. destruct I as [I|I].
      * destruct n; [|destruct I]. destruct I as [E|[]]. inversion E. tauto.
      * apply in_map_iff in I. destruct I as [c [E _]]. inversion E. tauto.
    + right. apply in_flat_map in I. destruct I as [y [Hy I]]. apply in_flat_map in I. destruct I as [c [Hc I]].
      exists y. split; [exact Hy|].
      apply (hooks_reach t h k c y z fz kd I).
Qed.

Lemma NoDup_app_intro {A} (l l' : list A) :
  NoDup l -> NoDup l' -> (forall x, In x l -> In x l' -> False) -> NoDup (l ++ l').
Proof.
  induction 1 as [|a l Na ND IH]; intros N' D; cbn [app]; [exact N'|].
  constructor.
  - intros I. apply in_app_or in I. destruct I as [I|I]; [contradiction|]. apply (D a); [left; reflexivity|exact I].
  - apply IH; [exact N'|]. intros x I I'. apply (D x); [right; exact I|exact I'].
Qed.

Lemma NoDup_flat_map {A B} (F : A -> list B) l :
  NoDup l -> (forall a, In a l -> NoDup (F a)) ->
  (forall a b x, In a l -> In b l -> a <> b -> In x (F a) -> In x (F b) -> False) ->
  NoDup (flat_map F l).
Proof.
  induction 1 as [|a l Na ND IH]; intros H1 H2; cbn [flat_map]; [constructor|].
  apply NoDup_app_intro.
  - apply H1. left. reflexivity.
  - apply IH; [intros; apply H1; right; assumption|].
    intros b c x Ib Ic. apply H2; right; assumption.
  - intros x Ia Il. apply in_flat_map in Il. destruct Il as [b [Ib Ix]].
    apply (H2 a b x); [left; reflexivity|right; exact Ib| |exact Ia|exact Ix].
    intros ->. contradiction.
Qed.

Lemma NoDup_map_inj {A B} (g : A -> B) l a b :
  NoDup (map g l) -> In a l -> In b l -> g a = g b -> a = b.
Proof.
  induction l as [|c l IH]; cbn; intros ND Ia Ib E; [destruct Ia|].
  inversion ND as [|? ? Nc ND']; subst.
  destruct Ia as [->|Ia], Ib as [->|Ib]; [reflexivity| | |apply IH; assumption].
  - exfalso. apply Nc. rewrite E. apply in_map. exact Ib.
  - exfalso. apply Nc. rewrite <- E. apply in_map. exact Ia.
Qed.

Lemma NoDup_of_map {A B} (g : A -> B) l : NoDup (map g l) -> NoDup l.
Proof.
  induction l as [|c l IH]; cbn; intros ND; [constructor|]. inversion ND; subst.
  constructor; [|apply IH; assumption]. intros I. apply H1. apply in_map. exact I.
Qed.

Fixpoint all_distinct (cs : list graph) : Prop :=
  match cs with [] => True | c :: l => distinct_fields c /\ all_distinct l end.
Lemma distinct_fields_unfold fs n e p cs :
  distinct_fields (G fs n e p cs) <-> (exists f, fs = [f]) /\ NoDup (map gfield cs) /\ all_distinct cs.
Proof.
  cbn [distinct_fields].
  assert ((fix all (l : list graph) : Prop := match l with [] => True | c :: l' => distinct_fields c /\ all l' end) cs
          = all_distinct cs) as E by (induction cs; cbn; congruence).
  rewrite E. tauto.
Qed.
Lemma all_distinct_In cs c : all_distinct cs -> In c cs -> distinct_fields c.
Proof. induction cs; cbn; [tauto|]. intros [A B] [->|I]; auto. Qed.
Lemma distinct_single g : distinct_fields g -> exists f n e p cs, g = G [f] n e p cs.
Proof.
  destruct g as [fs n e p cs]. intros D. apply (proj1 (distinct_fields_unfold fs n e p cs)) in D.
  destruct D as [[f ->] _]. exists f, n, e, p, cs. reflexivity.
Qed.

Section Tree.
  Variables (t : traits) (rank : oid -> nat) (h : heap) (k : hkey).
  Hypothesis R : ranked rank h.
  Hypothesis U : unshared h.

  (* two different sibling graphs with different fields, applied to the same object, share no hook *)
  Lemma siblings_disjoint c1 c2 y hk :
    distinct_fields c1 -> distinct_fields c2 -> gfield c1 <> gfield c2 ->
    In hk (expected t h k c1 y) -> In hk (expected t h k c2 y) -> False.
  Proof.
    intros D1 D2 NE I1 I2. destruct hk as [[z fz] kd].
    destruct (distinct_single c1 D1) as [f1 [n1 [e1 [p1 [cs1 ->]]]]].
    destruct (distinct_single c2 D2) as [f2 [n2 [e2 [p2 [cs2 ->]]]]]. cbn [gfield hd] in NE.
    destruct (region t h k f1 n1 e1 p1 cs1 y z fz kd I1) as [[E1 F1]|[y1 [Hy1 R1]]];
      destruct (region t h k f2 n2 e2 p2 cs2 y z fz kd I2) as [[E2 F2]|[y2 [Hy2 R2]]].
    - destruct F1 as [F1|[F1 K1]], F2 as [F2|[F2 K2]]; try congruence.
      + subst fz. rewrite K2 in I1. cbn [expected flat_map] in I1. rewrite app_nil_r in I1.
        apply in_app_or in I1. destruct I1 as [I1|I1].
        * destruct e1; [|destruct I1]. destruct I1 as [E|[]]. inversion E. congruence.
        * destruct (t y f1); [|destruct I1]. apply in_app_or in I1. destruct I1 as [I1|I1].
          -- unfold own in I1. apply in_app_or in I1. destruct I1 as [I1|I1].
             ++ destruct n1; [|destruct I1]. destruct I1 as [E|[]]. discriminate.
             ++ apply in_map_iff in I1. destruct I1 as [c [E _]]. discriminate.
          -- apply in_flat_map in I1. destruct I1 as [y' [Hy' I1]]. apply in_flat_map in I1.
             destruct I1 as [c [_ I1]]. apply hooks_reach in I1. subst z.
             pose proof (R _ _ _ Hy'). pose proof (rank_reach rank h R _ _ I1). lia.
      + subst fz. rewrite K1 in I2. cbn [expected flat_map] in I2. rewrite app_nil_r in I2.
        apply in_app_or in I2. destruct I2 as [I2|I2].
        * destruct e2; [|destruct I2]. destruct I2 as [E|[]]. inversion E. congruence.
        * destruct (t y f2); [|destruct I2]. apply in_app_or in I2. destruct I2 as [I2|I2].
          -- unfold own in I2. apply in_app_or in I2. destruct I2 as [I2|I2].
             ++ destruct n2; [|destruct I2]. destruct I2 as [E|[]]. discriminate.
             ++ apply in_map_iff in I2. destruct I2 as [c [E _]]. discriminate.
          -- apply in_flat_map in I2. destruct I2 as [y' [Hy' I2]]. apply in_flat_map in I2.
             destruct I2 as [c [_ I2]]. apply hooks_reach in I2. subst z.
             pose proof (R _ _ _ Hy'). pose proof (rank_reach rank h R _ _ I2). lia.
    - subst z. pose proof (R _ _ _ Hy2). pose proof (rank_reach rank h R _ _ R2). lia.
    - subst z. pose proof (R _ _ _ Hy1). pose proof (rank_reach rank h R _ _ R1). lia.
    - destruct (reach_chain h U y1 z R1 y2 R2) as [C|C].
      + inversion C as [|a w f' b C' I']; subst.
        * destruct U as [_ U2]. destruct (U2 _ _ _ _ _ Hy1 Hy2) as [_ E]. congruence.
        * destruct U as [_ U2]. destruct (U2 _ _ _ _ _ I' Hy2) as [-> _].
          pose proof (R _ _ _ Hy1). pose proof (rank_reach rank h R _ _ C'). lia.
      + inversion C as [|a w f' b C' I']; subst.
        * destruct U as [_ U2]. destruct (U2 _ _ _ _ _ Hy1 Hy2) as [_ E]. congruence.
        * destruct U as [_ U2]. destruct (U2 _ _ _ _ _ I' Hy1) as [-> _].
          pose proof (R _ _ _ Hy2). pose proof (rank_reach rank h R _ _ C'). lia.
  Qed.

  (* hooks below two different members of one slot are disjoint *)
  Lemma members_disjoint x f y1 y2 z :
    In y1 (h x f) -> In y2 (h x f) -> y1 <> y2 -> reach h y1 z -> reach h y2 z -> False.
  Proof.
    intros H1 H2 NE R1 R2. destruct U as [_ U2].
    destruct (reach_chain h U y1 z R1 y2 R2) as [C|C]; inversion C as [|a w f' b C' I']; subst; try congruence.
    - destruct (U2 _ _ _ _ _ I' H2) as [-> _]. pose proof (R _ _ _ H1). pose proof (rank_reach rank h R _ _ C'). lia.
    - destruct (U2 _ _ _ _ _ I' H1) as [-> _]. pose proof (R _ _ _ H2). pose proof (rank_reach rank h R _ _ C'). lia.
  Qed.

  Lemma expected_NoDup g : distinct_fields g -> forall x, NoDup (expected t h k g x).
  Proof.
    induction g as [fs n e p cs IH] using graph_ind'. intros D x. rewrite Forall_forall in IH.
    apply (proj1 (distinct_fields_unfold fs n e p cs)) in D. destruct D as [[f ->] [DF DA]].
    cbn [expected flat_map]. rewrite app_nil_r. apply NoDup_app_intro.
    - destruct e; [constructor; [intros []|constructor]|constructor].
    - destruct (t x f); [|constructor]. unfold own. rewrite <- app_assoc.
      apply NoDup_app_intro; [|apply NoDup_app_intro|].
      + destruct n; [constructor; [intros []|constructor]|constructor].
      + apply FinFun.Injective_map_NoDup; [|apply (NoDup_of_map gfield); exact DF].
        intros c1 c2 E. inversion E. reflexivity.
      + apply NoDup_flat_map.
        * destruct U as [U1 _]. apply U1.
        * intros y Hy. apply NoDup_flat_map.
          -- apply (NoDup_of_map gfield). exact DF.
          -- intros c Hc. apply IH; [exact Hc|]. apply (all_distinct_In cs); assumption.
          -- intros c1 c2 hk H1 H2 NE I1 I2. apply (siblings_disjoint c1 c2 y hk); try assumption.
             ++ apply (all_distinct_In cs); assumption.
             ++ apply (all_distinct_In cs); assumption.
             ++ intros E. apply NE. apply (NoDup_map_inj gfield cs); assumption.
        * intros y1 y2 hk H1 H2 NE I1 I2. destruct hk as [[z fz] kd].
          apply in_flat_map in I1. destruct I1 as [c1 [_ I1]]. apply in_flat_map in I2. destruct I2 as [c2 [_ I2]].
          apply (members_disjoint x f y1 y2 z H1 H2 NE); eapply hooks_reach; eassumption.
      + intros hk I1 I2. apply in_map_iff in I1. destruct I1 as [c [<- _]].
        apply in_flat_map in I2. destruct I2 as [y [Hy I2]]. apply in_flat_map in I2. destruct I2 as [c' [_ I2]].
        apply hooks_reach in I2. pose proof (R _ _ _ Hy). pose proof (rank_reach rank h R _ _ I2). lia.
      + intros hk I1 I2. destruct n; [|destruct I1]. destruct I1 as [<-|[]].
        apply in_app_or in I2. destruct I2 as [I2|I2].
        * apply in_map_iff in I2. destruct I2 as [c [E _]]. discriminate.
        * apply in_flat_map in I2. destruct I2 as [y [Hy I2]]. apply in_flat_map in I2. destruct I2 as [c' [_ I2]].
          apply hooks_reach in I2. pose proof (R _ _ _ Hy). pose proof (rank_reach rank h R _ _ I2). lia.
    - (* the trait_added maintainer vs the rest *)
      intros hk I1 I2. destruct e; [|destruct I1]. destruct I1 as [<-|[]].
      destruct (t x f); [|destruct I2]. apply in_app_or in I2. destruct I2 as [I2|I2].
      + unfold own in I2. apply in_app_or in I2. destruct I2 as [I2|I2].
        * destruct n; [|destruct I2]. destruct I2 as [E|[]]. discriminate.
        * apply in_map_iff in I2. destruct I2 as [c [E _]]. discriminate.
      + apply in_flat_map in I2. destruct I2 as [y [Hy I2]]. apply in_flat_map in I2. destruct I2 as [c' [_ I2]].
        apply hooks_reach in I2. pose proof (R _ _ _ Hy). pose proof (rank_reach rank h R _ _ I2). lia.
  Qed.

  Lemma expected_list_NoDup gs r :
    NoDup (map gfield gs) -> all_distinct gs -> NoDup (flat_map (fun g => expected t h k g r) gs).
  Proof.
    intros DF DA. apply NoDup_flat_map.
    - apply (NoDup_of_map gfield). exact DF.
    - intros g Hg. apply expected_NoDup. apply (all_distinct_In gs); assumption.
    - intros g1 g2 hk H1 H2 NE I1 I2. apply (siblings_disjoint g1 g2 r hk); try assumption.
      + apply (all_distinct_In gs); assumption.
      + apply (all_distinct_In gs); assumption.
      + intros E. apply NE. apply (NoDup_map_inj gfield gs); assumption.
  Qed.
End Tree.
(* ---------- the graphs of a legacy name ---------- *)
Definition names_nodup (e : ename) : Prop := Forall (fun it : list fname * sep * bool => NoDup (fst (fst it))) e.

Lemma gfield_link f n p cs : gfield (link f n p cs) = f.
Proof. unfold link. destruct (is_container f); reflexivity. Qed.

Lemma link_distinct f n p cs : NoDup (map gfield cs) -> all_distinct cs -> distinct_fields (link f n p cs).
Proof.
  intros DF DA. unfold link. destruct (is_container f).
  - apply distinct_fields_unfold. split; [eexists; reflexivity|]. split; [repeat constructor; intros []|].
    cbn [all_distinct]. split; [|exact I].
    apply distinct_fields_unfold. split; [eexists; reflexivity|]. tauto.
  - apply distinct_fields_unfold. split; [eexists; reflexivity|]. tauto.
Qed.

Lemma legacy_distinct : forall e gs, names_nodup e -> legacy_to_graph e = Some gs ->
  NoDup (map gfield gs) /\ all_distinct gs.
Proof.
  induction e as [|[[names s] p] rest IH]; intros gs ND L; [discriminate|].
  inversion ND as [|? ? Nn Nr]; subst. cbn [fst] in Nn.
  destruct rest as [|it rest].
  - cbn [legacy_to_graph] in L. destruct (forallb _ names); [|discriminate]. inversion L; subst gs. clear L. split.
    + rewrite map_map. cbn [gfield hd]. rewrite map_id. exact Nn.
    + clear. induction names; cbn [map all_distinct]; [exact I|]. split; [|assumption].
      apply distinct_fields_unfold. split; [eexists; reflexivity|]. split; [constructor|exact I].
  - change (legacy_to_graph ((names, s, p) :: it :: rest))
      with (match legacy_to_graph (it :: rest) with
            | Some cs => Some (map (fun f => link f (sep_notify s) p cs) names) | None => None end) in L.
    destruct (legacy_to_graph (it :: rest)) as [cs|] eqn:E; [|discriminate]. inversion L; subst gs. clear L.
    destruct (IH cs Nr eq_refl) as [DF DA]. split.
    + rewrite map_map. erewrite map_ext; [rewrite map_id; exact Nn|]. intros f. apply gfield_link.
    + clear Nn ND. induction names; cbn; [exact I|]. split; [apply link_distinct; assumption|assumption].
Qed.

(* ---------- path multiplicity on trees ---------- *)
Lemma all_equal_length {A} (a : A) l : NoDup l -> (forall y, In y l -> y = a) -> length l <= 1.
Proof.
  intros ND E. destruct l as [|b [|c l]]; cbn; [lia|lia|exfalso].
  inversion ND as [|? ? Nb _]; subst. apply Nb. left.
  rewrite (E b (or_introl eq_refl)). rewrite (E c (or_intror (or_introl eq_refl))). reflexivity.
Qed.

Lemma user_hook_eqb_spec x f hk k :
  (forall z fz k', hk = (z, fz, KUser k') -> k' = k) ->
  user_hook_eqb x f hk = true -> hk = (x, f, KUser k).
Proof.
  destruct hk as [[z fz] kd]. intros K. cbn. rewrite andb_true_iff. intros [S Kd].
  apply slot_eqb_true in S. destruct S as [-> ->]. destruct kd as [k'| |]; try discriminate.
  rewrite (K x f k' eq_refl). reflexivity.
Qed.

Lemma path_count_le_1_lemma t rank h k e gs r x f :
  ranked rank h -> unshared h -> names_nodup e -> legacy_to_graph e = Some gs ->
  path_count t h k gs r x f <= 1.
Proof.
  intros R U ND L. destruct (legacy_distinct e gs ND L) as [DF DA].
  unfold path_count. apply (all_equal_length (x, f, KUser k)).
  - apply NoDup_filter. apply (expected_list_NoDup t rank h k R U gs r DF DA).
  - intros hk I. apply filter_In in I. destruct I as [I P]. apply (user_hook_eqb_spec x f hk k); [|exact P].
    intros z fz k' ->. apply in_flat_map in I. destruct I as [g [_ I]]. eapply expected_user_key. exact I.
Qed.

Lemma path_count_pos t h k gs r x f :
  0 < path_count t h k gs r x f <-> existsb (fun g => matched t h g r x f) gs = true.
Proof.
  unfold path_count. split.
  - intros P. destruct (filter _ _) as [|hk l] eqn:E; [cbn in P; lia|].
    assert (In hk (filter (user_hook_eqb x f) (flat_map (fun g => expected t h k g r) gs))) as I
      by (rewrite E; left; reflexivity).
    apply filter_In in I. destruct I as [I Q]. apply in_flat_map in I. destruct I as [g [Hg I]].
    apply existsb_exists. exists g. split; [exact Hg|].
    apply (users_on_expected t h k x f g r). destruct hk as [[z fz] kd]. cbn in Q.
    apply andb_true_iff in Q. destruct Q as [S Kd]. destruct kd as [k'| |]; try discriminate.
    exists k'. unfold users_on. apply in_flat_map. exists (z, fz, KUser k'). split; [exact I|].
    cbn. rewrite S. left. reflexivity.
  - intros M. apply existsb_exists in M. destruct M as [g [Hg M]].
    apply (users_on_expected t h k x f g r) in M. destruct M as [u Iu]. unfold users_on in Iu.
    apply in_flat_map in Iu. destruct Iu as [[[z fz] kd] [I Q]]. cbn in Q.
    destruct (slot_eqb z fz x f) eqn:S; [|destruct Q]. destruct kd as [k'| |]; try (destruct Q; fail).
    assert (In (z, fz, KUser k') (filter (user_hook_eqb x f) (flat_map (fun g => expected t h k g r) gs))) as F.
    { apply filter_In. split; [apply in_flat_map; exists g; split; assumption|]. cbn. rewrite S. reflexivity. }
    destruct (filter _ _); [destruct F|cbn; lia].
Qed.

Lemma count_key_nodup k l : NoDup l ->
  length (filter (hkey_eqb k) l) = if mem_key k l then 1 else 0.
Proof.
  induction 1 as [|a l Na ND IH]; [reflexivity|]. cbn [filter mem_key].
  destruct (hkey_eqb k a) eqn:Q.
  - apply hkey_eqb_spec in Q. subst a. cbn [orb length]. rewrite IH.
    destruct (mem_key k l) eqn:M; [apply mem_key_In in M; contradiction|reflexivity].
  - cbn [orb]. exact IH.
Qed.

Lemma legacy_eq_observe_lemma rank st o x f e gs k :
  inv st -> op_hyp st o = true -> notified st o = Some (x, f) ->
  ranked rank (st_heap st) -> unshared (st_heap st) ->
  names_nodup e -> legacy_to_graph e = Some gs -> st_regs st = map (pair k) gs ->
  length (filter (hkey_eqb k) (map call_key (ob_calls (snd (step st o)))))
  = path_count (st_traits st) (st_heap st) k gs (snd k) x f.
Proof.
  intros I Hy N R U ND L RG. pose proof (step_spec st o I Hy) as S. unfold step_ok in S.
  destruct (step st o) as [st' ob]. rewrite N in S. destruct S as [_ [_ [NDk [Sp _]]]]. cbn [snd].
  rewrite (count_key_nodup k _ NDk).
  pose proof (path_count_le_1_lemma (st_traits st) rank (st_heap st) k e gs (snd k) x f R U ND L) as LE.
  pose proof (path_count_pos (st_traits st) (st_heap st) k gs (snd k) x f) as POS.
  destruct (mem_key k (map call_key (ob_calls ob))) eqn:M.
  - apply mem_key_In in M. apply Sp in M. destruct M as [g [Hg Mg]]. rewrite RG in Hg.
    apply in_map_iff in Hg. destruct Hg as [g' [E Hg']]. inversion E; subst g'.
    assert (existsb (fun g => matched (st_traits st) (st_heap st) g (snd k) x f) gs = true) as X
      by (apply existsb_exists; exists g; split; assumption).
    apply POS in X. lia.
  - destruct (existsb (fun g => matched (st_traits st) (st_heap st) g (snd k) x f) gs) eqn:X.
    + exfalso. apply existsb_exists in X. destruct X as [g [Hg Mg]].
      assert (In k (map call_key (ob_calls ob))) as IK.
      { apply Sp. exists g. split; [rewrite RG; apply in_map; exact Hg|exact Mg]. }
      apply mem_key_In in IK. congruence.
    + assert (~ 0 < path_count (st_traits st) (st_heap st) k gs (snd k) x f) as NZ
        by (intros Z; apply POS in Z; congruence).
      lia.
Qed.

Lemma remove_stops_calls_lemma st o k :
  inv st -> op_hyp st o = true -> (forall g, ~ In (k, g) (st_regs st)) ->
  ~ In k (map call_key (ob_calls (snd (step st o)))).
Proof.
  intros I Hy NR. pose proof (step_spec st o I Hy) as S. unfold step_ok in S.
  destruct (step st o) as [st' ob]. cbn [snd]. destruct (notified st o) as [[x f]|].
  - destruct S as [_ [_ [_ [Sp _]]]]. intros IK. apply Sp in IK. destruct IK as [g [Hg _]]. apply (NR g Hg).
  - destruct S as [_ [_ ->]]. intros [].
Qed.
