(* C16 — lemmas: walks go up the rank; on ranked heaps every change is edge-acyclic (the C08
   hypothesis holds trivially); on tree-shaped heaps every hook is expected at most once. *)
From Coq Require Import List Arith Bool PeanoNat Permutation Lia.
From TV Require Import Common.ObsCore C08.Model C08.Proofs C16.Model.
Import ListNotations.

Lemma visits_rank rank h o fo g : ranked rank h -> forall x, visits h g x o fo = true -> rank x <= rank o.
Proof.
  intros R. induction g as [f n cs IH] using graph_ind'. intros x. cbn [visits]. rewrite Forall_forall in IH.
  rewrite orb_true_iff. intros [A|A].
  - apply slot_eqb_true in A. destruct A as [-> _]. lia.
  - apply existsb_exists in A. destruct A as [y [Hy A]]. apply existsb_exists in A. destruct A as [c [Hc A]].
    apply (IH c Hc y) in A. pose proof (R x f y Hy). lia.
Qed.

Lemma matched_visits h o fo g : forall x, matched h g x o fo = true -> visits h g x o fo = true.
Proof.
  induction g as [f n cs IH] using graph_ind'. intros x. cbn [matched visits]. rewrite Forall_forall in IH.
  rewrite !orb_true_iff. intros [A|A].
  - left. apply andb_true_iff in A. tauto.
  - right. apply existsb_exists in A. destruct A as [y [Hy A]]. apply existsb_exists in A.
    destruct A as [c [Hc A]]. apply existsb_exists. exists y. split; [exact Hy|].
    apply existsb_exists. exists c. split; [exact Hc|]. apply IH; assumption.
Qed.

(* on a ranked heap (a DAG, in particular a tree) whose rank also dominates the new content of
   the slot, the change is edge-acyclic for every set of registrations *)
Lemma ranked_edge_acyclic_lemma rank h rs o fo news :
  ranked rank h -> (forall y, In y news -> rank o < rank y) -> edge_acyclic h rs o fo news.
Proof.
  intros R N kc _ y Hy. destruct (visits h (snd kc) y o fo) eqn:V; [exfalso|reflexivity].
  apply (visits_rank rank h o fo (snd kc) R) in V.
  destruct Hy as [Hy|Hy]; [pose proof (R o fo y Hy)|pose proof (N y Hy)]; lia.
Qed.

(* ---------- '.' reports, ':' is silent ---------- *)
Lemma matched_root_slot rank h f n cs r f0 :
  ranked rank h -> matched h (G f n cs) r r f0 = n && Nat.eqb f f0.
Proof.
  intros R. cbn [matched].
  assert (existsb (fun y => existsb (fun c => matched h c y r f0) cs) (h r f) = false) as E.
  { destruct (existsb _ (h r f)) eqn:Q; [exfalso|reflexivity].
    apply existsb_exists in Q. destruct Q as [y [Hy Q]]. apply existsb_exists in Q. destruct Q as [c [Hc Q]].
    apply matched_visits in Q. apply (visits_rank rank h r f0 c R) in Q. pose proof (R r f y Hy). lia. }
  rewrite E, orb_false_r. unfold slot_eqb. rewrite Nat.eqb_refl. reflexivity.
Qed.

Lemma link_root_slot rank h f n cs r f0 :
  ranked rank h -> matched h (link f n cs) r r f0 = n && Nat.eqb f f0.
Proof.
  intros R. unfold link. destruct (is_container f); apply (matched_root_slot rank); exact R.
Qed.

Lemma existsb_map {A B} (p : B -> bool) (g : A -> B) l : existsb p (map g l) = existsb (fun a => p (g a)) l.
Proof. induction l; cbn; [reflexivity|]. rewrite IHl. reflexivity. Qed.

Lemma dot_colon_lemma rank h names s rest gs r f :
  ranked rank h -> rest <> [] -> NoDup names -> In f names ->
  legacy_to_graph ((names, s) :: rest) = Some gs ->
  existsb (fun g => matched h g r r f) gs = sep_notify s.
Proof.
  intros R NE ND I L. cbn [legacy_to_graph] in L. destruct rest as [|it rest]; [congruence|].
  destruct (legacy_to_graph (it :: rest)) as [cs|]; [|discriminate]. inversion L; subst gs. clear L.
  rewrite existsb_map.
  destruct (sep_notify s) eqn:S.
    + apply existsb_exists. exists f. split; [exact I|]. rewrite (link_root_slot rank); [|exact R].
      rewrite Nat.eqb_refl. reflexivity.
    + destruct (existsb _ names) eqn:Q; [|reflexivity]. apply existsb_exists in Q. destruct Q as [f' [_ Q]].
      rewrite (link_root_slot rank) in Q; [|exact R]. cbn in Q. discriminate.
Qed.
