(* C16 — lemmas *)
From Coq Require Import List Arith Bool PeanoNat Permutation Lia.
From TV Require Import Common.ObsCore C08.Model C08.Proofs C16.Model.
Import ListNotations.

Lemma visits_rank rank h o fo g : ranked rank h -> forall x, visits h g x o fo = true -> rank x <= rank o.
Proof.
  intros R. induction g as [f n cs IH] using graph_ind'. intros x. cbn [visits]. rewrite Forall_forall in IH.
  rewrite orb_true_iff. intros [A|A].
  - apply slot_eqb_true in A. destruct A as [-> _]. lia.
  - apply existsb_exists in A. destruct A as [y [Hy A]]. apply existsb_exists in A. destruct A as [c [Hc A]].
    apply (IH c Hc y) in A. pose proof (R x f y Hy). lia.
Qed.
