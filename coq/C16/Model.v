(* C16 — legacy on_trait_change extended names against observe, on unshared graphs.

   There is no step model of traits/traits_listener.py (DESIGN 6 C16).  The model is the
   SPECIFICATION of the common fragment:
     - [ename]: an extended name as a sequence of items, each item a group of alternative trait
       names ([a,b]; a singleton for a plain name) with the separator that follows it
       ('.' = changes to this link are reported, ':' = they are not; ListenerParser,
       traits_listener.py l.945-1236);
     - [legacy_to_graph]: the observer graphs of the corresponding observe expression: a container
       trait in the middle of a name stands for its items (legacy 'kids.value' = observe
       'kids.items.value'), the last item always notifies;
     - the reachability semantics [matched] / [expected] of Common/ObsCore.v, and the executable
       observe model of C08 (the handler calls of [C08.Model.step]).
   What a listener without reference counting reports for a change of slot (x, f) is the number of
   PATHS reaching it ([path_count]); observe reports 1 if there is a path.  On tree-shaped heaps the
   two agree (Props.unshared_multiplicity_le_1). *)
From Coq Require Import List Arith Bool PeanoNat.
From TV Require Import Common.ObsCore C08.Model.
Import ListNotations.

Inductive sep := Dot | Colon.
(* an item: the alternative names, the separator that follows, and the '?' suffix (optional: no complaint where
   the trait is missing) *)
Definition ename := list (list fname * sep * bool).

Definition is_container (f : fname) : bool := (3 <=? f) && (f <=? 5).
Definition sep_notify (s : sep) : bool := match s with Dot => true | Colon => false end.

(* one link of a name: trait f, then (for List/Dict/Set traits) the items of its value *)
Definition link (f : fname) (n p : bool) (cs : list graph) : graph :=
  if is_container f then G [f] n true p [G [items_field f] n false false cs] else G [f] n true p cs.

Fixpoint legacy_to_graph (e : ename) : option (list graph) :=
  match e with
  | [] => None
  | [(names, _, p)] =>
      (* the final attribute: a plain (non-container) trait, always notifying *)
      if forallb (fun f => negb (is_container f)) names then Some (map (fun f => G [f] true true p []) names) else None
  | (names, s, p) :: rest =>
      match legacy_to_graph rest with
      | Some cs => Some (map (fun f => link f (sep_notify s) p cs) names)
      | None => None
      end
  end.

(* number of paths along which the graphs reach slot (x, f) with a notifying node: the multiplicity
   of the user hook in [expected] (what a listener that does not count references reports) *)
Definition user_hook_eqb (x : oid) (f : fname) (hk : oid * fname * kind) : bool :=
  let '(y, g, kd) := hk in
  slot_eqb y g x f && match kd with KUser _ => true | _ => false end.
Definition path_count (t : traits) (h : heap) (k : hkey) (gs : list graph) (r x : oid) (f : fname) : nat :=
  length (filter (user_hook_eqb x f) (flat_map (fun g => expected t h k g r) gs)).

(* tree-shaped heaps: links go strictly up a rank (no cycle), no object is referenced twice *)
(* [ranked] is Common/ObsCore.ranked *)
Definition unshared (h : heap) : Prop :=
  (forall x f, NoDup (h x f)) /\
  (forall x f x' f' y, In y (h x f) -> In y (h x' f') -> x = x' /\ f = f').
(* the graphs of a legacy name: every node observes exactly one trait, and the alternatives of one
   item name different traits *)
Definition gfield (g : graph) : fname := match g with G fs _ _ _ _ => hd 0 fs end.
Fixpoint distinct_fields (g : graph) {struct g} : Prop :=
  match g with
  | G fs _ _ _ cs =>
      (exists f, fs = [f]) /\
      NoDup (map gfield cs) /\
      (fix all (l : list graph) : Prop := match l with [] => True | c :: l' => distinct_fields c /\ all l' end) cs
  end.
