(* C16 — the property as a boolean checker on ONE history observed through BOTH APIs.
   Per operation the implementation reports the calls received by the observe() handler and by
   the 4-parameter on_trait_change handler, as (object, trait) pairs, plus the changed heap slots.
   The law recomputes from the heap whether the changed slot is matched by the graphs of the name.

   Clause codes (100*step + code):
     1 change of the final attribute: the two APIs were not called the same number of times
     2 change of the final attribute: not (exactly one call iff the object is reachable along the name)
     3 re-assignment of an intermediate trait: legacy reports it on a ':' link or off the path, or
       does not report it on a '.' link
     4 the same for observe
     5 a call while the registration is not (or no longer) in place
     6 a reported (object, trait) is not the one that changed
     7 a call although nothing changed (same value assigned)

   Readings (DESIGN 6, 6a C16): in-place item mutations of intermediate containers are not compared
   directly (whether legacy reports them depends on the handler signature), only through their
   effect on which final attributes are tracked afterwards; intermediate re-assignments are compared
   by "reported or not" (not by count); values are identity-distinct and unequal. *)
From Coq Require Import ZArith List Arith Bool PeanoNat.
From TV Require Import Common.Harness Common.ObsCore C08.Model C08.Law C16.Model.
Import ListNotations.
Open Scope nat_scope.

(* RegLazy x f items: the registration itself reads the container link f of x, whose default (a _name_default
   method) has content: ListenerItem._register_list/_register_dict use getattr(object, name), which materialises
   the default; observe() is registered right after and finds the container there *)
Inductive op16 := Reg | Unreg | Mut (o : op) | RegLazy (x : oid) (f : fname) (items : list oid).

Record obs16 := mkObs16 {
  o_out : outcome;
  o_ocalls : list (oid * fname);       (* observe handler: (event.object, event.name) *)
  o_lcalls : list (oid * fname);       (* on_trait_change handler: (object, name) *)
  o_delta : list (oid * fname * list oid)
}.

Definition pair_is (x : oid) (f : fname) (p : oid * fname) : bool := Nat.eqb (fst p) x && Nat.eqb (snd p) f.
Definition nonempty {A} (l : list A) : bool := match l with [] => false | _ => true end.

Definition law16_step (gs : list graph) (root : oid) (active : bool) (hb : heap) (o : op16) (ob : obs16) : list Z :=
  let ha := apply_delta hb (o_delta ob) in
  match o with
  | Reg | Unreg | RegLazy _ _ _ => chk 5 (is_nil (o_ocalls ob) && is_nil (o_lcalls ob))
  | Mut m =>
      match op_slot m with
      | None => chk 5 (is_nil (o_ocalls ob) && is_nil (o_lcalls ob))
      | Some (x, f) =>
          let reach := existsb (fun g => matched init_traits hb g root x f) gs in
          let c := classify init_traits hb ha m in
          if negb active then chk 5 (is_nil (o_ocalls ob) && is_nil (o_lcalls ob))
          else match m, c with
               | Probe _, _ =>
                   chk 1 (Nat.eqb (length (o_ocalls ob)) (length (o_lcalls ob)))
                   ++ chk 2 (Nat.eqb (length (o_ocalls ob)) (if reach then 1 else 0)
                             && Nat.eqb (length (o_lcalls ob)) (if reach then 1 else 0))
                   ++ chk 6 (forallb (pair_is x f) (o_ocalls ob ++ o_lcalls ob))
               | (SetRef _ _ _ | SetCont _ _ _ _), Exact =>
                   chk 3 (Bool.eqb (nonempty (o_lcalls ob)) reach)
                   ++ chk 4 (Bool.eqb (nonempty (o_ocalls ob)) reach)
                   ++ chk 6 (forallb (pair_is x f) (o_ocalls ob ++ o_lcalls ob))
               | (SetRef _ _ _ | SetCont _ _ _ _), _ =>
                   chk 7 (is_nil (o_ocalls ob) && is_nil (o_lcalls ob))
               | _, _ => []          (* in-place item mutations, default materialisation: not compared *)
               end
      end
  end.

Fixpoint law16_hist (gs : list graph) (root : oid) (i : Z) (active : bool) (h : heap)
         (hist : list (op16 * obs16)) : list Z :=
  match hist with
  | [] => []
  | (o, ob) :: r =>
      map (fun c => (100 * i + c)%Z) (law16_step gs root active h o ob)
      ++ law16_hist gs root (i + 1)%Z
           (match o with Reg | RegLazy _ _ _ => true | Unreg => false | Mut _ => active end)
           (apply_delta h (o_delta ob)) r
  end.

(* Re-entrant removal (a handler that removes ANOTHER registration for the same name while the
   notification round is in progress): per operation the implementation reports whether the second
   registration has been removed (before or during the operation), the number of calls the second handler
   received and the number the first one received.  8: a handler was called after (or in the very round
   in which) its registration was removed — "removing the registration stops all calls";
   9: while both are registered they are called alike. *)
Fixpoint reent_hist (i : Z) (l : list (bool * nat * nat)) : list Z :=
  match l with
  | [] => []
  | (removed, second, first) :: r =>
      map (fun c => (100 * i + c)%Z)
        (if removed then chk 8 (Nat.eqb second 0) else chk 9 (Nat.eqb second first))
      ++ reent_hist (i + 1)%Z r
  end.
Definition reent_codes (l : list (bool * nat * nat)) : list Z := reent_hist 0%Z l.
