(* C09 — correspondence: one case = static heap description, the observables of the pool, the
   initial snapshot and the history of (operation, observation recorded from the implementation). *)
From Coq Require Import ZArith List Arith Bool PeanoNat.
From TV Require Import Common.Harness C09.Model C09.Law.
Import ListNotations.

(* object description: oid, kind, trait names, link fields (name, value objects), items *)
Definition odesc := (oid * okind * list fname * list (fname * list oid) * list oid)%type.

Fixpoint find_obj (ds : list odesc) (x : oid) : option odesc :=
  match ds with
  | [] => None
  | d :: r => let '(y, _, _, _, _) := d in if Nat.eqb x y then Some d else find_obj r x
  end.
Fixpoint assoc_links (l : list (fname * list oid)) (f : fname) : list oid :=
  match l with [] => [] | (f', v) :: r => if Nat.eqb f f' then v else assoc_links r f end.

Definition heap_of (ds : list odesc) : heap :=
  mkHeap
    (fun x => match find_obj ds x with Some (_, k, _, _, _) => k | None => KOther end)
    (fun x f => match find_obj ds x with Some (_, KObj, ts, _, _) => memb f ts | _ => false end)
    (fun x f => match find_obj ds x with Some (_, _, _, ls, _) => assoc_links ls f | None => [] end)
    (fun x => match find_obj ds x with Some (_, _, _, _, it) => it | None => [] end).

Definition hooks_of (s : snap) : hooks := fun o => snap_get s o.

Record case := mkCase {
  c_heap : list odesc;
  c_univ : list obsv;
  c_init : snap;
  c_hist : list (op * iobs);
  c_pool_collected : bool }.

Fixpoint natlist_eqb (a b : list nat) : bool :=
  match a, b with
  | [], [] => true
  | x :: a', y :: b' => Nat.eqb x y && natlist_eqb a' b'
  | _, _ => false
  end.
Definition oexn_eqb (a b : option exn) : bool :=
  match a, b with None, None => true | Some x, Some y => exn_eqb x y | _, _ => false end.

Definition zchk (c : nat) (b : bool) : list nat := if b then [] else [c].

(* codes: 100*step + 1 outcome class, 2 handler calls, 3 some notifier list *)
(* The model is re-synchronised on the implementation's snapshot after every step. *)
Fixpoint corr_hist (h : heap) (univ : list obsv) (i : nat) (prev : snap) (s : state) (hist : list (op * iobs)) : list nat :=
  match hist with
  | [] => []
  | (o, ob) :: r =>
      let cur := i_snap ob ++ prev in
      let '(s', m) := step h s o in
      map (fun c => (100 * i + c)%nat)
          (zchk 1 (oexn_eqb (o_out m) (i_out ob))
           ++ zchk 2 (natlist_eqb (map k_handler (o_calls m)) (i_calls ob))
           ++ zchk 3 (forallb (fun o => memb (fst o) (dead_objs s')
                                         || nl_perm (st_hooks s' o) (snap_get cur o)) univ))
      ++ corr_hist h univ (S i) cur (mkState (hooks_of cur) (dead_handlers s') (dead_objs s')) r
  end.

Definition corr_codes (c : case) : list Z :=
  map Z.of_nat (corr_hist (heap_of (c_heap c)) (c_univ c) 0 (c_init c) (mkState (hooks_of (c_init c)) [] []) (c_hist c)).
Definition law_codes (c : case) : list Z :=
  map Z.of_nat (law_hist (heap_of (c_heap c)) (c_univ c) (c_init c) 0 (mkL [] []) [] [] (c_init c) (c_hist c)
                ++ (if c_pool_collected c then [] else [7%nat])).
