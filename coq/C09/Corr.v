(* C09 — correspondence: one case = static heap description, the observables of the pool, the
   initial snapshot and the history of (operation, observation recorded from the implementation). *)
From Coq Require Import ZArith List Arith Bool PeanoNat.
From TV Require Import Common.Harness C09.Model C09.Dyn C09.Law.
Import ListNotations.

(* object description: oid, kind, trait names, link fields (name, value objects), items *)
Definition odesc := (oid * okind * list fname * list (fname * list oid) * list oid)%type.

Fixpoint find_obj (ds : list odesc) (x : oid) : option odesc :=
  match ds with
  | [] => None
  | d :: r => let '(y, _, _, _, _) := d in if Nat.eqb x y then Some d else find_obj r x
  end.
Fixpoint assoc_links (l : list (fname * list oid)) (f : fname) : list oid :=
  match l with [] => [] | (f', v) :: r => if Nat.eqb f f' then v else assoc_links r f end.

Definition heap_of (ds : list odesc) : heap :=
  mkHeap
    (fun x => match find_obj ds x with Some (_, k, _, _, _) => k | None => KOther end)
    (fun x f => match find_obj ds x with Some (_, KObj, ts, _, _) => memb f ts | _ => false end)
    (fun x f => match find_obj ds x with Some (_, _, _, ls, _) => assoc_links ls f | None => [] end)
    (fun x => match find_obj ds x with Some (_, _, _, _, it) => it | None => [] end).

Definition hooks_of (s : snap) : hooks := fun o => snap_get s o.

(* To keep the case terms small, graphs are written once, in a per-case table, and referred to by
   index in operations and in maintainer notifiers. *)
Inductive rnotifier :=
| RUser (k : key) (rc : nat)
| RMaint (m : mkind) (gi : nat) (k : key)
| RForeign (i : nat).
Definition rsnap := list (obsv * list rnotifier).
Inductive rop :=
| RRegister (x : oid) (hd dp : nat) (gis : list nat)
| RUnregister (x : oid) (hd dp : nat) (gis : list nat)
| RChange (o : oid) (f : fname)
| RCollectOwner (hd : nat)
| RCollectObj (o : oid)
| RSetLink (o : oid) (f : fname) (v : list oid)
| RSetItems (c : oid) (v removed added : list oid) (fired : bool)
| RAddTrait (o : oid) (f : fname) (v : list oid).
Record riobs := mkRI { r_out : option exn; r_calls : list nat; r_snap : rsnap; r_dead : option bool }.

Record case := mkCase {
  c_heap : list odesc;
  c_univ : list obsv;
  c_graphs : list graph;
  c_rinit : rsnap;
  c_rhist : list (rop * riobs);
  c_pool_collected : bool }.

Definition gref (gt : list graph) (i : nat) : graph := nth i gt (G (NNamed 0%nat false false) []).
Definition notifier_of (gt : list graph) (n : rnotifier) : notifier :=
  match n with
  | RUser k rc => NUser k rc
  | RMaint m gi k => NMaint m (gref gt gi) k
  | RForeign i => NForeign i
  end.
Definition snap_of (gt : list graph) (s : rsnap) : snap :=
  map (fun p => (fst p, map (notifier_of gt) (snd p))) s.
Definition op_of (gt : list graph) (o : rop) : dop :=
  match o with
  | RRegister x hd dp gis => DStatic (Register x hd dp (map (gref gt) gis))
  | RUnregister x hd dp gis => DStatic (Unregister x hd dp (map (gref gt) gis))
  | RChange o f => DStatic (Change o f)
  | RCollectOwner hd => DStatic (CollectOwner hd)
  | RCollectObj o => DStatic (CollectObj o)
  | RSetLink o f v => DSetLink o f v
  | RSetItems c v removed added fired => DSetItems c v removed added fired
  | RAddTrait o f v => DAddTrait o f v
  end.
Definition iobs_of (gt : list graph) (r : riobs) : iobs :=
  mkI (r_out r) (r_calls r) (snap_of gt (r_snap r)) (r_dead r).
Definition c_init (c : case) : snap := snap_of (c_graphs c) (c_rinit c).
Definition c_hist (c : case) : list (dop * iobs) :=
  map (fun p => (op_of (c_graphs c) (fst p), iobs_of (c_graphs c) (snd p))) (c_rhist c).

Fixpoint natlist_eqb (a b : list nat) : bool :=
  match a, b with
  | [], [] => true
  | x :: a', y :: b' => Nat.eqb x y && natlist_eqb a' b'
  | _, _ => false
  end.
(* the order in which the handlers are called is not part of the statement (a coroutine handler dispatched by
   dispatch_same runs as a task, after the synchronous ones): calls are compared as sorted lists *)
Fixpoint ins_nat (x : nat) (l : list nat) : list nat :=
  match l with [] => [x] | y :: r => if Nat.leb x y then x :: l else y :: ins_nat x r end.
Definition sort_nat (l : list nat) : list nat := fold_right ins_nat [] l.
Definition oexn_eqb (a b : option exn) : bool :=
  match a, b with None, None => true | Some x, Some y => exn_eqb x y | _, _ => false end.

Definition zchk (c : nat) (b : bool) : list nat := if b then [] else [c].

(* codes: 100*step + 1 outcome class, 2 handler calls, 3 some notifier list *)
(* The model is re-synchronised on the implementation's snapshot after every step. *)
Fixpoint corr_hist (univ : list obsv) (i : nat) (prev : snap) (d : dstate) (hist : list (dop * iobs)) : list nat :=
  match hist with
  | [] => []
  | (o, ob) :: r =>
      let cur := i_snap ob ++ prev in
      let '(d', m) := dstep d o in
      let s' := d_st d' in
      map (fun c => (100 * i + c)%nat)
          (zchk 1 (oexn_eqb (o_out m) (i_out ob))
           ++ zchk 2 (natlist_eqb (sort_nat (map k_handler (o_calls m))) (sort_nat (i_calls ob)))
           ++ zchk 3 (forallb (fun o => memb (fst o) (dead_objs s')
                                         || nl_perm (st_hooks s' o) (snap_get cur o)) univ))
      ++ corr_hist univ (S i) cur (mkD (d_heap d') (mkState (hooks_of cur) (dead_handlers s') (dead_objs s'))) r
  end.

Definition lstep_of (h : heap) (o : dop) : lstep * heap :=
  match o with
  | DStatic o' => (LStatic o', h)
  | DSetLink x f v => let h' := set_links h x f v in (LMut h', h')
  | DSetItems c v _ _ _ => let h' := set_items h c v in (LMut h', h')
  | DAddTrait x f v => if has_trait h x f then (LMut h, h) else let h' := add_trait_h h x f v in (LMut h', h')
  end.
Fixpoint lhist_of (h : heap) (hist : list (dop * iobs)) : list (lstep * iobs) :=
  match hist with
  | [] => []
  | (o, ob) :: r => let '(l, h') := lstep_of h o in (l, ob) :: lhist_of h' r
  end.

Definition corr_codes (c : case) : list Z :=
  map Z.of_nat (corr_hist (c_univ c) 0 (c_init c) (mkD (heap_of (c_heap c)) (mkState (hooks_of (c_init c)) [] [])) (c_hist c)).
Definition law_codes (c : case) : list Z :=
  map Z.of_nat (law_hist_dyn (c_univ c) (c_init c) 0 (heap_of (c_heap c)) (mkL [] []) [] [] (c_init c)
                             (lhist_of (heap_of (c_heap c)) (c_hist c))
                ++ (if c_pool_collected c then [] else [7%nat])).

(* typed constructors for the generated case terms (elaboration of plain tuples is several times slower) *)
Definition od (x : oid) (k : okind) (ts : list fname) (ls : list (fname * list oid)) (it : list oid) : odesc :=
  (x, k, ts, ls, it).
Definition lk (f : fname) (v : list oid) : fname * list oid := (f, v).
Definition ov (o : oid) (f : fname) : obsv := (o, f).
Definition se (o : oid) (f : fname) (ns : list rnotifier) : obsv * list rnotifier := ((o, f), ns).
Definition ky (h t d : nat) : key := (h, t, d).
Definition hs (o : rop) (r : riobs) : rop * riobs := (o, r).
