(* C09 — lemmas.  Style: stdlib + lia. *)
From Coq Require Import List Arith Bool PeanoNat Lia Permutation.
From TV Require Import C09.Model.
Import ListNotations.

(* ------------------------------------------------------------------ equalities *)
Lemma graph_ind' (P : graph -> Prop) :
  (forall n cs, Forall P cs -> P (G n cs)) -> forall g, P g.
Proof.
  intros H. fix IH 1. intros [n cs]. apply H.
  induction cs as [|c cs IHcs]; constructor; [apply IH|apply IHcs].
Qed.

Lemma ckind_eqb_spec a b : ckind_eqb a b = true <-> a = b.
Proof. destruct a, b; cbn; split; congruence. Qed.
Lemma node_eqb_spec a b : node_eqb a b = true <-> a = b.
Proof.
  destruct a, b; cbn; try (split; congruence);
    rewrite !andb_true_iff, ?Nat.eqb_eq, ?ckind_eqb_spec, !eqb_true_iff;
    (split; [intros [[-> ->] ->]; reflexivity | intros [= -> -> ->]; auto]).
Qed.
Lemma graph_eqb_spec g1 : forall g2, graph_eqb g1 g2 = true <-> g1 = g2.
Proof.
  induction g1 as [n1 cs1 IH] using graph_ind'. intros [n2 cs2]. cbn [graph_eqb].
  rewrite andb_true_iff, node_eqb_spec.
  assert ((fix go (l1 l2 : list graph) : bool :=
             match l1, l2 with
             | [], [] => true
             | a :: l1', b :: l2' => graph_eqb a b && go l1' l2'
             | _, _ => false
             end) cs1 cs2 = true <-> cs1 = cs2) as L.
  { revert cs2. induction cs1 as [|a cs1 IHcs]; intros [|b cs2]; try (split; discriminate).
    - split; reflexivity.
    - inversion IH as [|? ? Ha Hcs]; subst. rewrite andb_true_iff, (Ha b), (IHcs Hcs cs2).
      split; [intros [-> ->]; reflexivity|intros [= -> ->]; split; reflexivity]. }
  rewrite L. split; [intros [-> ->]; reflexivity|intros [= -> ->]; split; reflexivity].
Qed.
Lemma key_eqb_spec a b : key_eqb a b = true <-> a = b.
Proof.
  destruct a as [[h t] d], b as [[h' t'] d']. cbn. rewrite !andb_true_iff, !Nat.eqb_eq.
  split; [intros [[-> ->] ->]; reflexivity|intros [= -> -> ->]; auto].
Qed.
Lemma mkind_eqb_spec a b : mkind_eqb a b = true <-> a = b.
Proof.
  destruct a, b; cbn; try (split; congruence).
  rewrite ckind_eqb_spec. split; [intros ->; reflexivity|intros [= ->]; reflexivity].
Qed.
Lemma akey_eqb_spec a b : akey_eqb a b = true <-> a = b.
Proof.
  destruct a, b; cbn; try (split; congruence).
  - rewrite key_eqb_spec. split; [intros ->; reflexivity|intros [= ->]; reflexivity].
  - rewrite !andb_true_iff, mkind_eqb_spec, graph_eqb_spec, key_eqb_spec.
    split; [intros [[-> ->] ->]; reflexivity|intros [= -> -> ->]; auto].
Qed.
Lemma akey_eqb_refl a : akey_eqb a a = true.
Proof. apply akey_eqb_spec. reflexivity. Qed.
Lemma obsv_eqb_spec a b : obsv_eqb a b = true <-> a = b.
Proof.
  destruct a, b. unfold obsv_eqb. cbn. rewrite andb_true_iff, !Nat.eqb_eq.
  split; [intros [-> ->]; reflexivity|intros [= -> ->]; auto].
Qed.
Lemma obsv_eqb_refl a : obsv_eqb a a = true.
Proof. apply obsv_eqb_spec. reflexivity. Qed.

(* the identity a list element is compared by *)
Definition akey_of (n : notifier) : option akey :=
  match n with
  | NUser k _ => Some (AUser k)
  | NMaint m g k => Some (AMaint m g k)
  | NForeign _ => None
  end.
Lemma matches_spec a n : matches a n = true <-> akey_of n = Some a.
Proof.
  destruct a, n; cbn; try (split; congruence).
  - rewrite key_eqb_spec. split; [intros ->; reflexivity|intros [= ->]; reflexivity].
  - rewrite !andb_true_iff, mkind_eqb_spec, graph_eqb_spec, key_eqb_spec.
    split; [intros [[-> ->] ->]; reflexivity|intros [= -> -> ->]; auto].
Qed.
Lemma matches_other a b n : matches a n = true -> matches b n = akey_eqb a b.
Proof.
  intros M. apply matches_spec in M.
  destruct (matches b n) eqn:E.
  - apply matches_spec in E. rewrite M in E. inversion E; subst. symmetry. apply akey_eqb_refl.
  - destruct (akey_eqb a b) eqn:Q; [|reflexivity]. apply akey_eqb_spec in Q. subst.
    apply matches_spec in M. congruence.
Qed.

(* ------------------------------------------------------------------ counting *)
(* what is counted: a (handler, graph) identity or a foreign element *)
Inductive ckey := CK (a : akey) | CF (id : nat).
Definition ckey_eqb (a b : ckey) : bool :=
  match a, b with
  | CK x, CK y => akey_eqb x y
  | CF i, CF j => Nat.eqb i j
  | _, _ => false
  end.
Lemma ckey_eqb_spec a b : ckey_eqb a b = true <-> a = b.
Proof.
  destruct a, b; cbn; try (split; congruence).
  - rewrite akey_eqb_spec. split; [intros ->; reflexivity|intros [= ->]; reflexivity].
  - rewrite Nat.eqb_eq. split; [intros ->; reflexivity|intros [= ->]; reflexivity].
Qed.
Definition b2n (b : bool) : nat := if b then 1 else 0.

(* multiplicity of c carried by one list element: a user notifier counts its reference count *)
Definition weight (c : ckey) (n : notifier) : nat :=
  match c, n with
  | CK a, NUser _ rc => if matches a n then rc else 0
  | CK a, NMaint _ _ _ => b2n (matches a n)
  | CF i, NForeign j => b2n (Nat.eqb i j)
  | _, _ => 0
  end.
Fixpoint cnt (c : ckey) (l : list notifier) : nat :=
  match l with [] => 0 | n :: r => weight c n + cnt c r end.
Lemma cnt_app c l1 l2 : cnt c (l1 ++ l2) = cnt c l1 + cnt c l2.
Proof. induction l1; cbn; lia. Qed.

(* invariants of one list: stored reference counts are positive; at most one user notifier per identity *)
Definition posb (l : list notifier) : bool :=
  forallb (fun n => match n with NUser _ rc => Nat.ltb 0 rc | _ => true end) l.
Fixpoint uniqb (l : list notifier) : bool :=
  match l with
  | [] => true
  | n :: r => match n with
              | NUser k _ => negb (existsb (matches (AUser k)) r)
              | _ => true
              end && uniqb r
  end.

(* ------------------------------------------------------------------ add_to / remove_from on one list *)
Lemma weight_after_match a c n :
  matches a n = true ->
  match n with
  | NUser k rc => weight c (NUser k (S rc)) = weight c n + b2n (ckey_eqb (CK a) c)
  | _ => weight c n = b2n (ckey_eqb (CK a) c)
  end.
Proof.
  intros M. destruct n as [k rc|m g k|i].
  - destruct c as [b|j]; cbn [weight ckey_eqb]; [|cbn; lia].
    change (matches b (NUser k (S rc))) with (matches b (NUser k rc)).
    rewrite (matches_other a b _ M). destruct (akey_eqb a b); cbn; lia.
  - destruct c as [b|j]; cbn [weight ckey_eqb]; [|reflexivity].
    rewrite (matches_other a b _ M). reflexivity.
  - destruct a; discriminate.
Qed.

Lemma bump_first_some k l : forall l', bump_first (AUser k) l = Some l' ->
  forall c, cnt c l' = cnt c l + b2n (ckey_eqb (CK (AUser k)) c).
Proof.
  induction l as [|n r IH]; intros l' E c; [discriminate|]. cbn [bump_first] in E.
  destruct (matches (AUser k) n) eqn:M.
  - pose proof (weight_after_match (AUser k) c n M) as W.
    destruct n; try discriminate M. inversion E; subst; cbn [cnt]; lia.
  - destruct (bump_first (AUser k) r) as [r'|]; [|discriminate]. inversion E; subst.
    cbn [cnt]. rewrite (IH r' eq_refl c). lia.
Qed.
Lemma bump_first_none a l : bump_first a l = None -> forall n, In n l -> matches a n = false.
Proof.
  induction l as [|m r IH]; intros E n Hn; [destruct Hn|]. cbn [bump_first] in E.
  destruct (matches a m) eqn:M.
  - destruct m; discriminate.
  - destruct (bump_first a r); [discriminate|]. destruct Hn as [->|Hn]; [exact M|apply IH; auto].
Qed.

Lemma cnt_l_add a l c : cnt c (l_add a l) = cnt c l + b2n (ckey_eqb (CK a) c).
Proof.
  destruct a as [k|m g k]; cbn [l_add].
  - destruct (bump_first (AUser k) l) as [l'|] eqn:B.
    + apply (bump_first_some _ _ _ B).
    + rewrite cnt_app. cbn [cnt]. rewrite Nat.add_0_r. f_equal.
      assert (matches (AUser k) (NUser k 1) = true) as M by (apply matches_spec; reflexivity).
      pose proof (weight_after_match (AUser k) c (NUser k 0) M) as W. cbn beta iota in W.
      rewrite W. destruct c as [b|j]; cbn; [destruct b; cbn; try reflexivity; destruct (key_eqb _ _); reflexivity|reflexivity].
  - rewrite cnt_app. cbn [cnt]. rewrite Nat.add_0_r. f_equal.
    assert (matches (AMaint m g k) (NMaint m g k) = true) as M by (apply matches_spec; reflexivity).
    apply (weight_after_match _ c _ M).
Qed.

Lemma l_rem_ok a l : forall l', l_rem a l = inl l' ->
  forall c, cnt c l = cnt c l' + b2n (ckey_eqb (CK a) c).
Proof.
  induction l as [|n r IH]; intros l' E c; [discriminate|]. cbn [l_rem] in E.
  destruct (matches a n) eqn:M.
  - pose proof (weight_after_match a c n M) as W.
    destruct n as [k [|[|rc]]|m g k|i]; inversion E; subst; cbn [cnt].
    + assert (matches a (NUser k 0) = true) as M0 by exact M.
      pose proof (weight_after_match a c (NUser k 0) M0) as W0. cbn beta iota in W0.
      assert (weight c (NUser k 0) = 0) by (destruct c as [b|j]; cbn [weight]; [destruct (matches b (NUser k 0))|]; reflexivity). lia.
    + assert (matches a (NUser k (S rc)) = true) as M1 by exact M.
      pose proof (weight_after_match a c (NUser k (S rc)) M1) as W1. cbn beta iota in W1. lia.
    + lia.
    + lia.
  - destruct (l_rem a r) as [r'|e]; [|discriminate]. inversion E; subst.
    cbn [cnt]. rewrite (IH r' eq_refl c). lia.
Qed.

Lemma weight_nomatch a n : matches a n = false -> weight (CK a) n = 0.
Proof. intros M. destruct n; cbn; rewrite ?M; reflexivity. Qed.

Lemma l_rem_err a l e : posb l = true -> l_rem a l = inr e -> e = NotifierNotFound /\ cnt (CK a) l = 0.
Proof.
  induction l as [|n r IH]; intros P E; cbn [l_rem] in E.
  - inversion E. split; reflexivity.
  - cbn [posb forallb] in P. apply andb_true_iff in P. destruct P as [Pn Pr].
    destruct (matches a n) eqn:M.
    + destruct n as [k [|[|rc]]|m g k|i]; try discriminate; destruct a; discriminate.
    + destruct (l_rem a r) as [r'|e'] eqn:R; [discriminate|]. inversion E; subst.
      destruct (IH Pr eq_refl) as [-> C]. split; [reflexivity|]. cbn [cnt].
      rewrite (weight_nomatch _ _ M), C. reflexivity.
Qed.
Lemma l_rem_succeeds a l : posb l = true -> 0 < cnt (CK a) l -> exists l', l_rem a l = inl l'.
Proof.
  intros P C. destruct (l_rem a l) as [l'|e] eqn:R; [eauto|].
  destruct (l_rem_err _ _ _ P R) as [_ Z]. lia.
Qed.

Lemma posb_app l1 l2 : posb (l1 ++ l2) = posb l1 && posb l2.
Proof. apply forallb_app. Qed.
Lemma posb_bump a l : forall l', bump_first a l = Some l' -> posb l = true -> posb l' = true.
Proof.
  induction l as [|n r IH]; intros l' E P; [discriminate|]. cbn [bump_first] in E.
  cbn [posb forallb] in P. apply andb_true_iff in P. destruct P as [Pn Pr].
  destruct (matches a n).
  - destruct n; inversion E; subst; cbn [posb forallb]; rewrite ?Pn; exact Pr.
  - destruct (bump_first a r) as [r'|]; [|discriminate]. inversion E; subst.
    cbn [posb forallb]. rewrite Pn. apply (IH r' eq_refl Pr).
Qed.
Lemma posb_l_add a l : posb l = true -> posb (l_add a l) = true.
Proof.
  intros P. destruct a as [k|m g k]; cbn [l_add].
  - destruct (bump_first (AUser k) l) as [l'|] eqn:B; [apply (posb_bump _ _ _ B P)|].
    rewrite posb_app, P. reflexivity.
  - rewrite posb_app, P. reflexivity.
Qed.
Lemma posb_l_rem a l : forall l', l_rem a l = inl l' -> posb l = true -> posb l' = true.
Proof.
  induction l as [|n r IH]; intros l' E P; [discriminate|]. cbn [l_rem] in E.
  cbn [posb forallb] in P. apply andb_true_iff in P. destruct P as [Pn Pr].
  destruct (matches a n).
  - destruct n as [k [|[|rc]]|m g k|i]; inversion E; subst; try exact Pr; cbn [posb forallb]; exact Pr.
  - destruct (l_rem a r) as [r'|e]; [|discriminate]. inversion E; subst.
    cbn [posb forallb]. rewrite Pn. apply (IH r' eq_refl Pr).
Qed.

(* ------------------------------------------------------------------ hook states *)
Definition posH (H : hooks) : Prop := forall o, posb (H o) = true.
Definition cntH (H : hooks) (o : obsv) (c : ckey) : nat := cnt c (H o).
Definition eind (e : entry) (o : obsv) (c : ckey) : nat :=
  b2n (obsv_eqb (fst e) o && ckey_eqb (CK (snd e)) c).
Fixpoint ecnt (o : obsv) (c : ckey) (es : list entry) : nat :=
  match es with [] => 0 | e :: r => eind e o c + ecnt o c r end.
Lemma ecnt_app o c l1 l2 : ecnt o c (l1 ++ l2) = ecnt o c l1 + ecnt o c l2.
Proof. induction l1; cbn; lia. Qed.
Lemma ecnt_rev o c l : ecnt o c (rev l) = ecnt o c l.
Proof. induction l; cbn; [reflexivity|]. rewrite ecnt_app. cbn. lia. Qed.
Lemma eind_self e : eind e (fst e) (CK (snd e)) = 1.
Proof. unfold eind. rewrite obsv_eqb_refl. cbn. rewrite akey_eqb_refl. reflexivity. Qed.

Lemma cntH_upd H o0 l o c :
  cntH (upd H o0 l) o c = if obsv_eqb o o0 then cnt c l else cntH H o c.
Proof. unfold cntH, upd. destruct (obsv_eqb o o0); reflexivity. Qed.
Lemma obsv_eqb_sym a b : obsv_eqb a b = obsv_eqb b a.
Proof. unfold obsv_eqb. rewrite (Nat.eqb_sym (fst a)), (Nat.eqb_sym (snd a)). reflexivity. Qed.

Lemma do_add e H : exists H', do_entry false e H = inl H' /\
  (forall o c, cntH H' o c = cntH H o c + eind e o c) /\ (posH H -> posH H').
Proof.
  destruct e as [o0 a]. cbn [do_entry]. eexists. split; [reflexivity|]. split.
  - intros o c. rewrite cntH_upd. unfold eind. cbn [fst snd]. rewrite (obsv_eqb_sym o0 o).
    destruct (obsv_eqb o o0) eqn:Q.
    + apply obsv_eqb_spec in Q. subst. rewrite cnt_l_add. reflexivity.
    + cbn. lia.
  - intros P o. unfold upd. destruct (obsv_eqb o o0); [apply posb_l_add, P|apply P].
Qed.
Lemma do_rem_ok e H H' : do_entry true e H = inl H' ->
  (forall o c, cntH H o c = cntH H' o c + eind e o c) /\ (posH H -> posH H').
Proof.
  destruct e as [o0 a]. cbn [do_entry]. destruct (l_rem a (H o0)) as [l|x] eqn:R; [|discriminate].
  intros E. inversion E; subst. split.
  - intros o c. rewrite cntH_upd. unfold eind. cbn [fst snd]. rewrite (obsv_eqb_sym o0 o).
    destruct (obsv_eqb o o0) eqn:Q.
    + apply obsv_eqb_spec in Q. subst. apply (l_rem_ok _ _ _ R).
    + cbn. lia.
  - intros P o. unfold upd. destruct (obsv_eqb o o0); [apply (posb_l_rem _ _ _ R), P|apply P].
Qed.
Lemma do_rem_err e H x : posH H -> do_entry true e H = inr x ->
  x = NotifierNotFound /\ cntH H (fst e) (CK (snd e)) = 0.
Proof.
  destruct e as [o0 a]. cbn [do_entry fst snd]. intros P.
  destruct (l_rem a (H o0)) as [l|y] eqn:R; [discriminate|]. intros E. inversion E; subst.
  apply (l_rem_err _ _ _ (P o0) R).
Qed.
Lemma do_rem_succeeds e H : posH H -> 0 < cntH H (fst e) (CK (snd e)) -> exists H', do_entry true e H = inl H'.
Proof.
  destruct e as [o0 a]. cbn [do_entry fst snd]. intros P C.
  destruct (l_rem_succeeds a (H o0) (P o0) C) as [l ->]. eauto.
Qed.

(* ------------------------------------------------------------------ exec / undo *)
Lemma exec_add es : forall H L, exists H', exec false es H L = (H', L ++ es, None) /\
  (forall o c, cntH H' o c = cntH H o c + ecnt o c es) /\ (posH H -> posH H').
Proof.
  induction es as [|e es IH]; intros H L; cbn [exec].
  - exists H. rewrite app_nil_r. repeat split; auto; intros; cbn; lia.
  - destruct (do_add e H) as (H1 & -> & C1 & P1).
    destruct (IH H1 (L ++ [e])) as (H2 & -> & C2 & P2). exists H2.
    rewrite <- app_assoc. repeat split; auto. intros o c. rewrite C2, C1. cbn. lia.
Qed.

Lemma exec_rm es : forall H L H' L' e, posH H -> exec true es H L = (H', L', e) ->
  posH H' /\ exists done, L' = L ++ done /\
    (forall o c, cntH H o c = cntH H' o c + ecnt o c done) /\
    (e = None -> done = es) /\ (forall x, e = Some x -> x = NotifierNotFound).
Proof.
  induction es as [|a es IH]; intros H L H' L' e P E; cbn [exec] in E.
  - inversion E; subst. split; [exact P|]. exists []. rewrite app_nil_r.
    split; [reflexivity|]. split; [intros; cbn; lia|]. split; [reflexivity|discriminate].
  - destruct (do_entry true a H) as [H1|x] eqn:D.
    + destruct (do_rem_ok _ _ _ D) as [C1 P1].
      destruct (IH _ _ _ _ _ (P1 P) E) as (P2 & done & -> & C2 & N & X).
      split; [exact P2|]. exists (a :: done). rewrite <- app_assoc.
      split; [reflexivity|]. split; [intros o c; rewrite C1, C2; cbn; lia|].
      split; [intros ->; rewrite N; reflexivity|exact X].
    + inversion E; subst. split; [exact P|]. exists []. rewrite app_nil_r.
      split; [reflexivity|]. split; [intros; cbn; lia|]. split; [discriminate|].
      intros y [= <-]. apply (do_rem_err _ _ _ P D).
Qed.

Lemma exec_rm_succeeds es : forall H L, posH H -> (forall o c, ecnt o c es <= cntH H o c) ->
  exists H', exec true es H L = (H', L ++ es, None).
Proof.
  induction es as [|a es IH]; intros H L P C; cbn [exec].
  - exists H. rewrite app_nil_r. reflexivity.
  - destruct (do_rem_succeeds a H P) as [H1 D].
    { specialize (C (fst a) (CK (snd a))). cbn [ecnt] in C. rewrite eind_self in C. lia. }
    rewrite D. destruct (do_rem_ok _ _ _ D) as [C1 P1].
    destruct (IH H1 (L ++ [a]) (P1 P)) as [H2 E2].
    { intros o c. specialize (C o c). cbn [ecnt] in C. rewrite C1 in C. lia. }
    exists H2. rewrite E2, <- app_assoc. reflexivity.
Qed.

Lemma undo_exec rm es : forall H L0,
  undo rm es H = let '(H', _, e) := exec (negb rm) es H L0 in (H', e).
Proof.
  induction es as [|a es IH]; intros H L0; cbn [undo exec]; [reflexivity|].
  destruct (do_entry (negb rm) a H) as [H1|x]; [apply IH|reflexivity].
Qed.

(* ------------------------------------------------------------------ one outermost walk *)
Definition pcnt (h : heap) (k : key) (rm : bool) (g : graph) (x : oid) (o : obsv) (c : ckey) : nat :=
  ecnt o c (fst (plan h k rm g x)).

Definition shifted (rm : bool) (H H' : hooks) (d : obsv -> ckey -> nat) : Prop :=
  forall o c, if rm then cntH H o c = cntH H' o c + d o c else cntH H' o c = cntH H o c + d o c.
Definition same_counts (H H' : hooks) : Prop := forall o c, cntH H' o c = cntH H o c.

(* undoing a log whose entries are all accounted for in the current state *)
Lemma undo_restores rm L H1 : posH H1 ->
  (rm = false -> forall o c, ecnt o c L <= cntH H1 o c) ->
  exists H2, undo rm (rev L) H1 = (H2, None) /\ posH H2 /\
    forall o c, if rm then cntH H2 o c = cntH H1 o c + ecnt o c L
                else cntH H1 o c = cntH H2 o c + ecnt o c L.
Proof.
  intros P C. rewrite (undo_exec rm (rev L) H1 []). destruct rm; cbn [negb].
  - destruct (exec_add (rev L) H1 []) as (H2 & -> & C2 & P2). exists H2.
    split; [reflexivity|]. split; [auto|]. intros o c. rewrite C2, ecnt_rev. reflexivity.
  - destruct (exec_rm_succeeds (rev L) H1 [] P) as [H2 E2].
    { intros o c. rewrite ecnt_rev. apply C. reflexivity. }
    rewrite E2. destruct (exec_rm _ _ _ _ _ _ P E2) as (P2 & done & Ld & C2 & N & _).
    exists H2. split; [reflexivity|]. split; [exact P2|].
    intros o c. rewrite (N eq_refl) in C2. rewrite C2, ecnt_rev. reflexivity.
Qed.

Lemma walk_outer_spec h k rm g x H H' e : posH H -> walk_outer h k rm g x H = (H', e) ->
  posH H' /\
  match e with
  | None => snd (plan h k rm g x) = false /\ shifted rm H H' (pcnt h k rm g x)
  | Some y => same_counts H H' /\
              ((y = ValueError /\ snd (plan h k rm g x) = true) \/ (y = NotifierNotFound /\ rm = true))
  end.
Proof.
  intros P. unfold walk_outer, pcnt, shifted, same_counts.
  destruct (plan h k rm g x) as [es sf]. cbn [fst snd]. destruct rm.
  - destruct (exec true es H []) as [[H1 L] e0] eqn:E.
    destruct (exec_rm _ _ _ _ _ _ P E) as (P1 & done & Ld & C1 & N & X). cbn [app] in Ld. subst L.
    destruct (undo_restores true done H1 P1) as (H2 & U & P2 & C2); [discriminate|].
    destruct e0 as [y|].
    + rewrite U. intros W. inversion W; subst. split; [exact P2|]. split.
      * intros o c. rewrite C2, C1. reflexivity.
      * right. split; [apply X; reflexivity|reflexivity].
    + rewrite (N eq_refl) in *. destruct sf.
      * rewrite U. intros W. inversion W; subst. split; [exact P2|]. split.
        -- intros o c. rewrite C2, C1. reflexivity.
        -- left. split; reflexivity.
      * intros W. inversion W; subst. split; [exact P1|]. split; [reflexivity|exact C1].
  - destruct (exec_add es H []) as (H1 & -> & C1 & P1). cbn [app]. destruct sf.
    + destruct (undo_restores false es H1 (P1 P)) as (H2 & U & P2 & C2).
      { intros _ o c. rewrite C1. lia. }
      rewrite U. intros W. inversion W; subst. split; [exact P2|]. split.
      * intros o c. specialize (C2 o c). rewrite C1 in C2. lia.
      * left. split; reflexivity.
    + intros W. inversion W; subst. split; [auto|]. split; [reflexivity|exact C1].
Qed.

(* ------------------------------------------------------------------ removal plan = registration plan, as multisets *)
Lemma pseq_snd p q : snd (pseq p q) = snd p || snd q.
Proof. destruct p as [l [|]]; reflexivity. Qed.
Lemma pseq_ecnt o c p q : snd p = false -> ecnt o c (fst (pseq p q)) = ecnt o c (fst p) + ecnt o c (fst q).
Proof. destruct p as [l [|]]; cbn; [discriminate|]. intros _. apply ecnt_app. Qed.

Definition pleq (o : obsv) (c : ckey) (p q : pl) : Prop :=
  snd p = snd q /\ (snd q = false -> ecnt o c (fst p) = ecnt o c (fst q)).
Lemma pleq_refl o c p : pleq o c p p.
Proof. split; auto. Qed.
Lemma pleq_pseq o c p p' q q' : pleq o c p p' -> pleq o c q q' -> pleq o c (pseq p q) (pseq p' q').
Proof.
  intros [F1 E1] [F2 E2]. split.
  - rewrite !pseq_snd. congruence.
  - rewrite pseq_snd. intros F. apply orb_false_iff in F. destruct F as [Fa Fb].
    rewrite !pseq_ecnt by congruence. rewrite E1, E2 by assumption. reflexivity.
Qed.
Lemma pleq_pl_all {A} o c (f g : A -> pl) l :
  (forall a, In a l -> pleq o c (f a) (g a)) -> pleq o c (pl_all f l) (pl_all g l).
Proof.
  induction l as [|a l IH]; intros Hl; [apply pleq_refl|].
  change (pl_all f (a :: l)) with (pseq (f a) (pl_all f l)).
  change (pl_all g (a :: l)) with (pseq (g a) (pl_all g l)).
  apply pleq_pseq; [apply Hl; left; reflexivity|apply IH; intros; apply Hl; right; assumption].
Qed.
Lemma pleq_four o c s1 s2 s3 s3' s4 :
  pleq o c s3 s3' -> pleq o c (pseq s4 (pseq s3 (pseq s2 s1))) (pseq s1 (pseq s2 (pseq s3' s4))).
Proof.
  intros [F E]. split.
  - rewrite !pseq_snd, F. destruct (snd s1), (snd s2), (snd s3'), (snd s4); reflexivity.
  - rewrite !pseq_snd. intros Q.
    destruct (snd s1) eqn:Q1; [discriminate|]. destruct (snd s2) eqn:Q2; [discriminate|].
    destruct (snd s3') eqn:Q3; [discriminate|]. destruct (snd s4) eqn:Q4; [discriminate|].
    rewrite !pseq_ecnt; rewrite ?pseq_snd, ?F, ?Q1, ?Q2, ?Q3, ?Q4; try reflexivity.
    rewrite (E eq_refl). lia.
Qed.

Lemma plan_rm_equiv h k o c g : forall x, pleq o c (plan h k true g x) (plan h k false g x).
Proof.
  induction g as [n cs IH] using graph_ind'. intros x. cbn [plan].
  apply pleq_four. apply pleq_pl_all. intros ch Hc.
  destruct (objects h n x) as [ys|]; [|apply pleq_refl].
  apply pleq_pl_all. intros y _. rewrite Forall_forall in IH. apply (IH ch Hc y).
Qed.

Lemma plan_rm_flag h k g x : snd (plan h k true g x) = snd (plan h k false g x).
Proof. apply (plan_rm_equiv h k (0, 0) (CF 0) g x). Qed.
Lemma plan_rm_cnt h k g x o c : snd (plan h k false g x) = false ->
  pcnt h k true g x o c = pcnt h k false g x o c.
Proof. intros F. apply (plan_rm_equiv h k o c g x). exact F. Qed.

(* ------------------------------------------------------------------ apply_observers *)
Fixpoint gsum (h : heap) (k : key) (gs : list graph) (x : oid) (o : obsv) (c : ckey) : nat :=
  match gs with [] => 0 | g :: r => pcnt h k false g x o c + gsum h k r x o c end.

Lemma walk_outer_add_succeeds h k g x H : posH H -> snd (plan h k false g x) = false ->
  exists H', walk_outer h k false g x H = (H', None).
Proof.
  intros P F. destruct (walk_outer h k false g x H) as [H' [y|]] eqn:W; [|eauto].
  destruct (walk_outer_spec _ _ _ _ _ _ _ _ P W) as [_ [_ [[_ T]|[_ T]]]]; congruence.
Qed.
Lemma walk_outer_rm_succeeds h k g x H : posH H -> snd (plan h k true g x) = false ->
  (forall o c, pcnt h k true g x o c <= cntH H o c) ->
  exists H', walk_outer h k true g x H = (H', None).
Proof.
  intros P F C. unfold walk_outer, pcnt in *. destruct (plan h k true g x) as [es sf]. cbn [fst snd] in *.
  subst sf. destruct (exec_rm_succeeds es H [] P C) as [H1 ->]. eauto.
Qed.

Lemma reapply_restores h k rm x : forall applied H0 H1, posH H1 ->
  (forall g, In g applied -> snd (plan h k false g x) = false) ->
  shifted rm H0 H1 (gsum h k applied x) ->
  exists H2, reapply h k (negb rm) applied x H1 = (H2, None) /\ posH H2 /\ same_counts H0 H2.
Proof.
  induction applied as [|g r IH]; intros H0 H1 P F S; cbn [reapply].
  - exists H1. split; [reflexivity|]. split; [exact P|]. intros o c. specialize (S o c).
    cbn [gsum] in S. destruct rm; lia.
  - assert (snd (plan h k false g x) = false) as Fg by (apply F; left; reflexivity).
    destruct rm; cbn [negb].
    + destruct (walk_outer_add_succeeds h k g x H1 P Fg) as [H1' W]. rewrite W.
      destruct (walk_outer_spec _ _ _ _ _ _ _ _ P W) as [P' [_ S']].
      apply (IH H0 H1' P'); [intros; apply F; right; assumption|].
      intros o c. specialize (S o c). specialize (S' o c). cbn [gsum] in S. cbn beta iota in *. lia.
    + destruct (walk_outer_rm_succeeds h k g x H1 P) as [H1' W].
      { rewrite plan_rm_flag. exact Fg. }
      { intros o c. rewrite (plan_rm_cnt _ _ _ _ _ _ Fg). specialize (S o c). cbn [gsum] in S.
        cbn beta iota in S. lia. }
      rewrite W. destruct (walk_outer_spec _ _ _ _ _ _ _ _ P W) as [P' [_ S']].
      apply (IH H0 H1' P'); [intros; apply F; right; assumption|].
      intros o c. specialize (S o c). specialize (S' o c). rewrite (plan_rm_cnt _ _ _ _ _ _ Fg) in S'.
      cbn [gsum] in S. cbn beta iota in *. lia.
Qed.

(* where an exception of a registration call comes from: ValueError from a node that does not apply
   (iter_observables / iter_objects), NotifierNotFound from remove_from during a removal *)
Definition exn_ok (h : heap) (k : key) (rm : bool) (x : oid) (gs : list graph) (y : exn) : Prop :=
  (y = ValueError /\ exists g, In g gs /\ snd (plan h k false g x) = true)
  \/ (y = NotifierNotFound /\ rm = true).

Lemma apply_loop_spec h k rm x : forall gs H applied H0 H' e, posH H ->
  (forall g, In g applied -> snd (plan h k false g x) = false) ->
  shifted rm H0 H (gsum h k applied x) ->
  apply_loop h k rm gs x H applied = (H', e) ->
  posH H' /\
  match e with
  | None => shifted rm H0 H' (fun o c => gsum h k applied x o c + gsum h k gs x o c)
            /\ (forall g, In g gs -> snd (plan h k false g x) = false)
  | Some y => same_counts H0 H' /\ exn_ok h k rm x gs y
  end.
Proof.
  induction gs as [|g gs IH]; intros H applied H0 H' e P F S A; cbn [apply_loop] in A.
  - inversion A; subst. split; [exact P|]. split; [|intros g []].
    intros o c. specialize (S o c). cbn [gsum]. destruct rm; lia.
  - destruct (walk_outer h k rm g x H) as [H1 [y|]] eqn:W.
    + destruct (walk_outer_spec _ _ _ _ _ _ _ _ P W) as [P1 [S1 X1]].
      destruct (reapply_restores h k rm x applied H0 H1 P1 F) as (H2 & R & P2 & S2).
      { intros o c. specialize (S o c). specialize (S1 o c). destruct rm; lia. }
      rewrite R in A. inversion A; subst. split; [exact P2|]. split; [exact S2|].
      destruct X1 as [[-> T]|[-> ->]]; [left; split; [reflexivity|]|right; split; reflexivity].
      exists g. split; [left; reflexivity|]. destruct rm; [rewrite <- plan_rm_flag|]; exact T.
    + destruct (walk_outer_spec _ _ _ _ _ _ _ _ P W) as [P1 [F1 S1]].
      assert (snd (plan h k false g x) = false) as Fg.
      { destruct rm; [rewrite <- plan_rm_flag|]; exact F1. }
      assert (forall o c, pcnt h k rm g x o c = pcnt h k false g x o c) as Q.
      { intros o c. destruct rm; [apply plan_rm_cnt; exact Fg|reflexivity]. }
      destruct (IH H1 (g :: applied) H0 H' e P1) as [P' R]; [| |exact A|].
      * intros g' [<-|Hg]; [exact Fg|apply F; exact Hg].
      * intros o c. specialize (S o c). specialize (S1 o c). rewrite Q in S1. cbn [gsum].
        destruct rm; lia.
      * split; [exact P'|]. destruct e as [y|].
        { destruct R as [R1 [[-> (g' & Hg' & T)]|R2]]; (split; [exact R1|]); [left|right; exact R2].
          split; [reflexivity|]. exists g'. split; [right; exact Hg'|exact T]. }
        destruct R as [R1 R2]. split.
        -- intros o c. specialize (R1 o c). cbn [gsum] in *. destruct rm; lia.
        -- intros g' [<-|Hg]; [exact Fg|apply R2; exact Hg].
Qed.

Lemma apply_observers_spec h k rm gs x H H' e : posH H -> apply_observers h k rm gs x H = (H', e) ->
  posH H' /\
  match e with
  | None => shifted rm H H' (gsum h k gs x) /\ (forall g, In g gs -> snd (plan h k false g x) = false)
  | Some y => same_counts H H' /\ exn_ok h k rm x gs y
  end.
Proof.
  intros P A. unfold apply_observers in A.
  destruct (apply_loop_spec h k rm x gs H [] H H' e P) as [P' R]; [intros g []| |exact A|].
  - intros o c. cbn [gsum]. destruct rm; lia.
  - split; [exact P'|]. destruct e; [exact R|]. destruct R as [R1 R2]. split; [|exact R2].
    intros o c. specialize (R1 o c). cbn [gsum] in R1. destruct rm; lia.
Qed.

(* a removal of graphs that are all (completely) there succeeds *)
Lemma apply_loop_rm_succeeds h k x : forall gs H applied, posH H ->
  (forall g, In g gs -> snd (plan h k false g x) = false) ->
  (forall o c, gsum h k gs x o c <= cntH H o c) ->
  exists H', apply_loop h k true gs x H applied = (H', None).
Proof.
  induction gs as [|g gs IH]; intros H applied P F C; cbn [apply_loop]; [eauto|].
  assert (snd (plan h k false g x) = false) as Fg by (apply F; left; reflexivity).
  destruct (walk_outer_rm_succeeds h k g x H P) as [H1 W].
  { rewrite plan_rm_flag. exact Fg. }
  { intros o c. rewrite (plan_rm_cnt _ _ _ _ _ _ Fg). specialize (C o c). cbn [gsum] in C. lia. }
  rewrite W. destruct (walk_outer_spec _ _ _ _ _ _ _ _ P W) as [P1 [_ S1]].
  apply (IH H1 (g :: applied) P1); [intros; apply F; right; assumption|].
  intros o c. specialize (C o c). specialize (S1 o c). cbn beta iota in S1.
  rewrite (plan_rm_cnt _ _ _ _ _ _ Fg) in S1. cbn [gsum] in C. lia.
Qed.

(* ------------------------------------------------------------------ histories *)
Definition rsig := (oid * nat * nat * list graph)%type.
Definition sig_cnt (h : heap) (s : rsig) (o : obsv) (c : ckey) : nat :=
  let '(x, hd, dp, gs) := s in gsum h (hd, x, dp) gs x o c.
Fixpoint sigs_cnt (h : heap) (l : list rsig) (o : obsv) (c : ckey) : nat :=
  match l with [] => 0 | s :: r => sig_cnt h s o c + sigs_cnt h r o c end.

(* the successful registrations / removals of a trace *)
Fixpoint ok_regs (tr : list (op * obs)) : list rsig :=
  match tr with
  | [] => []
  | (Register x hd dp gs, ob) :: r =>
      match o_out ob with None => (x, hd, dp, gs) :: ok_regs r | Some _ => ok_regs r end
  | _ :: r => ok_regs r
  end.
Fixpoint ok_unregs (tr : list (op * obs)) : list rsig :=
  match tr with
  | [] => []
  | (Unregister x hd dp gs, ob) :: r =>
      match o_out ob with None => (x, hd, dp, gs) :: ok_unregs r | Some _ => ok_unregs r end
  | _ :: r => ok_unregs r
  end.

Lemma step_spec h s o s' ob : posH (st_hooks s) -> step h s o = (s', ob) ->
  posH (st_hooks s') /\
  match o with
  | Register x hd dp gs =>
      match o_out ob with
      | None => shifted false (st_hooks s) (st_hooks s') (gsum h (hd, x, dp) gs x)
      | Some y => same_counts (st_hooks s) (st_hooks s') /\ exn_ok h (hd, x, dp) false x gs y
      end
  | Unregister x hd dp gs =>
      match o_out ob with
      | None => shifted true (st_hooks s) (st_hooks s') (gsum h (hd, x, dp) gs x)
      | Some y => same_counts (st_hooks s) (st_hooks s') /\ exn_ok h (hd, x, dp) true x gs y
      end
  | _ => st_hooks s' = st_hooks s /\ o_out ob = None
  end.
Proof.
  intros P S. destruct o as [x hd dp gs|x hd dp gs|o f|hd|t]; cbn [step] in S.
  - destruct (apply_observers h (hd, x, dp) false gs x (st_hooks s)) as [H e] eqn:A.
    inversion S; subst. cbn [st_hooks o_out].
    destruct (apply_observers_spec _ _ _ _ _ _ _ _ P A) as [P' R]. split; [exact P'|].
    destruct e; [exact R|apply R].
  - destruct (apply_observers h (hd, x, dp) true gs x (st_hooks s)) as [H e] eqn:A.
    inversion S; subst. cbn [st_hooks o_out].
    destruct (apply_observers_spec _ _ _ _ _ _ _ _ P A) as [P' R]. split; [exact P'|].
    destruct e; [exact R|apply R].
  - inversion S; subst. auto.
  - inversion S; subst. auto.
  - inversion S; subst. auto.
Qed.

(* the accounting equation: at every moment, every count of every notifier list is the initial
   count plus what the successful registrations planned minus what the successful removals planned *)
Lemma accounting h : forall ops s tr s', posH (st_hooks s) -> run h s ops = (tr, s') ->
  posH (st_hooks s') /\
  forall o c, cntH (st_hooks s') o c + sigs_cnt h (ok_unregs tr) o c
              = cntH (st_hooks s) o c + sigs_cnt h (ok_regs tr) o c.
Proof.
  induction ops as [|o ops IH]; intros s tr s' P R; cbn [run] in R.
  - inversion R; subst. split; [exact P|]. intros; cbn; lia.
  - destruct (step h s o) as [s1 ob] eqn:S. destruct (run h s1 ops) as [tr1 s2] eqn:R1.
    inversion R; subst. destruct (step_spec _ _ _ _ _ P S) as [P1 Q].
    destruct (IH _ _ _ P1 R1) as [P2 E]. split; [exact P2|]. intros o' c. specialize (E o' c).
    destruct o as [x hd dp gs|x hd dp gs|o f|hd|t]; cbn [ok_regs ok_unregs].
    + destruct (o_out ob); cbn [sigs_cnt sig_cnt].
      * destruct Q as [Q _]. rewrite <- (Q o' c). exact E.
      * specialize (Q o' c). cbn beta iota in Q. lia.
    + destruct (o_out ob); cbn [sigs_cnt sig_cnt].
      * destruct Q as [Q _]. rewrite <- (Q o' c). exact E.
      * specialize (Q o' c). cbn beta iota in Q. lia.
    + destruct Q as [<- _]. exact E.
    + destruct Q as [<- _]. exact E.
    + destruct Q as [<- _]. exact E.
Qed.

Lemma sigs_cnt_perm h l1 l2 : Permutation l1 l2 -> forall o c, sigs_cnt h l1 o c = sigs_cnt h l2 o c.
Proof. induction 1; intros o c; cbn [sigs_cnt]; try rewrite IHPermutation; try lia. congruence. Qed.

(* n registrations and n removals, interleaved in any way with anything else that is balanced too:
   every count of every list is back to its initial value *)
Lemma balanced_identity h ops s tr s' : posH (st_hooks s) -> run h s ops = (tr, s') ->
  Permutation (ok_regs tr) (ok_unregs tr) ->
  forall o c, cntH (st_hooks s') o c = cntH (st_hooks s) o c.
Proof.
  intros P R B o c. destruct (accounting h ops s tr s' P R) as [_ E]. specialize (E o c).
  rewrite (sigs_cnt_perm h _ _ B o c) in E. lia.
Qed.

(* failure atomicity, at any depth and across parallel graphs *)
Lemma failure_atomic_cnt h s o s' ob : posH (st_hooks s) -> step h s o = (s', ob) ->
  o_out ob <> None -> forall o' c, cntH (st_hooks s') o' c = cntH (st_hooks s) o' c.
Proof.
  intros P S N. destruct (step_spec _ _ _ _ _ P S) as [_ Q].
  destruct o as [x hd dp gs|x hd dp gs|o f|hd|t].
  - destruct (o_out ob); [apply Q|congruence].
  - destruct (o_out ob); [apply Q|congruence].
  - destruct Q; congruence.
  - destruct Q; congruence.
  - destruct Q; congruence.
Qed.

(* a removal of something that is not (completely) there raises and changes nothing *)
Lemma extra_unregister h s x hd dp gs s' ob : posH (st_hooks s) ->
  (exists o c, cntH (st_hooks s) o c < gsum h (hd, x, dp) gs x o c) ->
  step h s (Unregister x hd dp gs) = (s', ob) ->
  (exists y, o_out ob = Some y /\
             ((forall g, In g gs -> snd (plan h (hd, x, dp) false g x) = false) -> y = NotifierNotFound))
  /\ forall o c, cntH (st_hooks s') o c = cntH (st_hooks s) o c.
Proof.
  intros P (o & c & Lt) S. destruct (step_spec _ _ _ _ _ P S) as [_ Q]. cbn beta iota in Q.
  destruct (o_out ob) as [y|].
  - destruct Q as [Q X]. split; [|exact Q]. exists y. split; [reflexivity|].
    intros F. destruct X as [[-> (g & Hg & T)]|[-> _]]; [|reflexivity]. rewrite (F g Hg) in T. discriminate.
  - specialize (Q o c). cbn beta iota in Q. lia.
Qed.

(* ------------------------------------------------------------------ weak references *)
Lemma memb_spec x l : memb x l = true <-> In x l.
Proof.
  unfold memb. rewrite existsb_exists. split.
  - intros (y & Hy & E). apply Nat.eqb_eq in E. subst. exact Hy.
  - intros Hx. exists x. split; [exact Hx|apply Nat.eqb_refl].
Qed.
Lemma calls_only_alive s l k : In k (calls_of s l) -> alive s k = true.
Proof.
  unfold calls_of. rewrite in_flat_map. intros (n & _ & Hk).
  destruct n as [k' rc| |]; try destruct Hk. destruct (alive s k') eqn:A; [|destruct Hk].
  destruct Hk as [<-|[]]. exact A.
Qed.
Lemma step_dead_mono h s o s' ob k : step h s o = (s', ob) -> alive s k = false -> alive s' k = false.
Proof.
  intros S A. unfold alive in *.
  destruct o as [x hd dp gs|x hd dp gs|o f|hd|t]; cbn [step] in S.
  - destruct (apply_observers _ _ _ _ _ _). inversion S; subst. exact A.
  - destruct (apply_observers _ _ _ _ _ _). inversion S; subst. exact A.
  - inversion S; subst. exact A.
  - inversion S; subst. cbn [dead_handlers dead_objs memb existsb] in *.
    apply andb_false_iff in A. apply andb_false_iff. destruct A as [A|A]; [left|right; exact A].
    apply negb_false_iff in A. apply negb_false_iff. fold (memb (k_handler k) (dead_handlers s)).
    rewrite A. apply orb_true_r.
  - inversion S; subst. cbn [dead_handlers dead_objs memb existsb] in *.
    apply andb_false_iff in A. apply andb_false_iff. destruct A as [A|A]; [left; exact A|right].
    apply negb_false_iff in A. apply negb_false_iff. fold (memb (k_target k) (dead_objs s)).
    rewrite A. apply orb_true_r.
Qed.
Lemma collect_kills h s o s' ob : step h s o = (s', ob) ->
  match o with
  | CollectOwner hd => forall t dp, alive s' (hd, t, dp) = false
  | CollectObj t => forall hd dp, alive s' (hd, t, dp) = false
  | _ => True
  end.
Proof.
  intros S. destruct o; try exact I; cbn [step] in S; inversion S; subst; intros; unfold alive;
    cbn [dead_handlers dead_objs k_handler k_target fst snd memb existsb]; rewrite Nat.eqb_refl; cbn.
  - reflexivity.
  - apply andb_false_r.
Qed.
Lemma dead_silent h : forall ops s tr s' k, run h s ops = (tr, s') -> alive s k = false ->
  alive s' k = false /\
  forall o f ob, In (Change o f, ob) tr -> ~ In k (o_calls ob) /\ o_out ob = None.
Proof.
  induction ops as [|o ops IH]; intros s tr s' k R A; cbn [run] in R.
  - inversion R; subst. split; [exact A|]. intros ? ? ? [].
  - destruct (step h s o) as [s1 ob] eqn:S. destruct (run h s1 ops) as [tr1 s2] eqn:R1.
    inversion R; subst. pose proof (step_dead_mono _ _ _ _ _ k S A) as A1.
    destruct (IH _ _ _ k R1 A1) as [A2 Q]. split; [exact A2|].
    intros o' f ob' [E|Hin]; [|apply (Q _ _ _ Hin)].
    inversion E; subst. cbn [step] in S. inversion S; subst. cbn [o_calls o_out]. split; [|reflexivity].
    intros Hk. apply calls_only_alive in Hk. congruence.
Qed.

(* ------------------------------------------------------------------ at most one user notifier per identity *)
Definition uniqH (H : hooks) : Prop := forall o, uniqb (H o) = true.

Lemma bump_keys k l : forall l', bump_first (AUser k) l = Some l' ->
  forall b, existsb (matches b) l' = existsb (matches b) l.
Proof.
  induction l as [|n r IH]; intros l' E b; [discriminate|]. cbn [bump_first] in E.
  destruct (matches (AUser k) n) eqn:M.
  - destruct n; try discriminate M. inversion E; subst. reflexivity.
  - destruct (bump_first (AUser k) r) as [r'|]; [|discriminate]. inversion E; subst.
    cbn [existsb]. rewrite (IH r' eq_refl b). reflexivity.
Qed.
Lemma uniqb_bump k l : forall l', bump_first (AUser k) l = Some l' -> uniqb l = true -> uniqb l' = true.
Proof.
  induction l as [|n r IH]; intros l' E U; [discriminate|]. cbn [bump_first] in E.
  cbn [uniqb] in U. apply andb_true_iff in U. destruct U as [Un Ur].
  destruct (matches (AUser k) n) eqn:M.
  - destruct n; try discriminate M. inversion E; subst. cbn [uniqb]. rewrite Un, Ur. reflexivity.
  - destruct (bump_first (AUser k) r) as [r'|] eqn:B; [|discriminate]. inversion E; subst.
    cbn [uniqb]. rewrite (IH r' eq_refl Ur), andb_true_r.
    destruct n; try reflexivity. rewrite (bump_keys _ _ _ B). exact Un.
Qed.
Lemma key_eqb_sym a b : key_eqb a b = key_eqb b a.
Proof.
  destruct (key_eqb a b) eqn:E; symmetry.
  - apply key_eqb_spec in E. subst. apply key_eqb_spec. reflexivity.
  - destruct (key_eqb b a) eqn:F; [|reflexivity]. apply key_eqb_spec in F. subst.
    assert (key_eqb a a = true) by (apply key_eqb_spec; reflexivity). congruence.
Qed.
Lemma uniqb_snoc l n : uniqb l = true ->
  (forall k rc, n = NUser k rc -> existsb (matches (AUser k)) l = false) -> uniqb (l ++ [n]) = true.
Proof.
  induction l as [|m r IH]; intros U F.
  - cbn. destruct n; reflexivity.
  - cbn [uniqb app] in *. apply andb_true_iff in U. destruct U as [Um Ur].
    rewrite IH; [|exact Ur|]. 
    + rewrite andb_true_r. destruct m as [k' rc'| |]; try reflexivity.
      rewrite existsb_app. apply negb_true_iff in Um. rewrite Um. cbn [existsb orb].
      destruct n as [k rc| |]; try reflexivity. cbn [matches]. rewrite orb_false_r.
      specialize (F k rc eq_refl). cbn [existsb matches] in F. apply orb_false_iff in F.
      destruct F as [F _]. rewrite key_eqb_sym, F. reflexivity.
    + intros k rc E. specialize (F k rc E). cbn [existsb] in F. apply orb_false_iff in F. apply F.
Qed.
Lemma bump_none_exists k l : bump_first (AUser k) l = None -> existsb (matches (AUser k)) l = false.
Proof.
  intros B. destruct (existsb (matches (AUser k)) l) eqn:E; [|reflexivity].
  apply existsb_exists in E. destruct E as (n & Hn & M). rewrite (bump_first_none _ _ B n Hn) in M. discriminate.
Qed.
Lemma uniqb_l_add a l : uniqb l = true -> uniqb (l_add a l) = true.
Proof.
  intros U. destruct a as [k|m g k]; cbn [l_add].
  - destruct (bump_first (AUser k) l) as [l'|] eqn:B; [apply (uniqb_bump _ _ _ B U)|].
    apply uniqb_snoc; [exact U|]. intros k' rc [= <- <-]. apply (bump_none_exists _ _ B).
  - apply uniqb_snoc; [exact U|]. intros; discriminate.
Qed.
Lemma l_rem_keys a l : forall l', l_rem a l = inl l' ->
  forall b, existsb (matches b) l' = true -> existsb (matches b) l = true.
Proof.
  induction l as [|n r IH]; intros l' E b X; [discriminate|]. cbn [l_rem] in E.
  destruct (matches a n) eqn:M.
  - destruct n as [k [|[|rc]]|m g k|i]; inversion E; subst; cbn [existsb] in *;
      try (rewrite X; apply orb_true_r); try exact X.
  - destruct (l_rem a r) as [r'|e]; [|discriminate]. inversion E; subst. cbn [existsb] in *.
    apply orb_true_iff in X. destruct X as [X|X]; [rewrite X; reflexivity|].
    rewrite (IH r' eq_refl b X). apply orb_true_r.
Qed.
Lemma uniqb_l_rem a l : forall l', l_rem a l = inl l' -> uniqb l = true -> uniqb l' = true.
Proof.
  induction l as [|n r IH]; intros l' E U; [discriminate|]. cbn [l_rem] in E.
  cbn [uniqb] in U. apply andb_true_iff in U. destruct U as [Un Ur].
  destruct (matches a n) eqn:M.
  - destruct n as [k [|[|rc]]|m g k|i]; inversion E; subst; try exact Ur.
    cbn [uniqb]. rewrite Un, Ur. reflexivity.
  - destruct (l_rem a r) as [r'|e] eqn:R; [|discriminate]. inversion E; subst.
    cbn [uniqb]. rewrite (IH r' eq_refl Ur), andb_true_r.
    destruct n as [k rc| |]; try reflexivity. apply negb_true_iff. apply negb_true_iff in Un.
    destruct (existsb (matches (AUser k)) r') eqn:X; [|reflexivity].
    rewrite (l_rem_keys _ _ _ R _ X) in Un. discriminate.
Qed.

Lemma do_entry_uniq rm e H H' : uniqH H -> do_entry rm e H = inl H' -> uniqH H'.
Proof.
  destruct e as [o0 a]. intros U D o. destruct rm; cbn [do_entry] in D.
  - destruct (l_rem a (H o0)) as [l|x] eqn:R; [|discriminate]. inversion D; subst.
    unfold upd. destruct (obsv_eqb o o0); [apply (uniqb_l_rem _ _ _ R), U|apply U].
  - inversion D; subst. unfold upd. destruct (obsv_eqb o o0); [apply uniqb_l_add, U|apply U].
Qed.
Lemma exec_uniq rm es : forall H L H' L' e, uniqH H -> exec rm es H L = (H', L', e) -> uniqH H'.
Proof.
  induction es as [|a es IH]; intros H L H' L' e U E; cbn [exec] in E.
  - inversion E; subst. exact U.
  - destruct (do_entry rm a H) as [H1|x] eqn:D.
    + apply (IH _ _ _ _ _ (do_entry_uniq _ _ _ _ U D) E).
    + inversion E; subst. exact U.
Qed.
Lemma undo_uniq rm es H H' e : uniqH H -> undo rm es H = (H', e) -> uniqH H'.
Proof.
  intros U X. rewrite (undo_exec rm es H []) in X.
  destruct (exec (negb rm) es H []) as [[H1 L1] e1] eqn:E. inversion X; subst.
  apply (exec_uniq _ _ _ _ _ _ _ U E).
Qed.
Lemma walk_outer_uniq h k rm g x H H' e : uniqH H -> walk_outer h k rm g x H = (H', e) -> uniqH H'.
Proof.
  intros U W. unfold walk_outer in W. destruct (plan h k rm g x) as [es sf].
  destruct (exec rm es H []) as [[H1 L] e0] eqn:E. pose proof (exec_uniq _ _ _ _ _ _ _ U E) as U1.
  destruct (undo rm (rev L) H1) as [H2 e2] eqn:X. pose proof (undo_uniq _ _ _ _ _ U1 X) as U2.
  destruct e0 as [y|]; [|destruct sf]; try (destruct e2; inversion W; subst; exact U2).
  inversion W; subst. exact U1.
Qed.
Lemma reapply_uniq h k rm x : forall applied H H' e, uniqH H -> reapply h k rm applied x H = (H', e) -> uniqH H'.
Proof.
  induction applied as [|g r IH]; intros H H' e U R; cbn [reapply] in R.
  - inversion R; subst. exact U.
  - destruct (walk_outer h k rm g x H) as [H1 [y|]] eqn:W; pose proof (walk_outer_uniq _ _ _ _ _ _ _ _ U W) as U1.
    + inversion R; subst. exact U1.
    + apply (IH _ _ _ U1 R).
Qed.
Lemma apply_loop_uniq h k rm x : forall gs H applied H' e, uniqH H ->
  apply_loop h k rm gs x H applied = (H', e) -> uniqH H'.
Proof.
  induction gs as [|g gs IH]; intros H applied H' e U A; cbn [apply_loop] in A.
  - inversion A; subst. exact U.
  - destruct (walk_outer h k rm g x H) as [H1 [y|]] eqn:W; pose proof (walk_outer_uniq _ _ _ _ _ _ _ _ U W) as U1.
    + destruct (reapply h k (negb rm) applied x H1) as [H2 e2] eqn:R.
      pose proof (reapply_uniq _ _ _ _ _ _ _ _ U1 R) as U2. destruct e2; inversion A; subst; exact U2.
    + apply (IH _ _ _ _ U1 A).
Qed.
Lemma step_uniq h s o s' ob : uniqH (st_hooks s) -> step h s o = (s', ob) -> uniqH (st_hooks s').
Proof.
  intros U S. destruct o as [x hd dp gs|x hd dp gs|o f|hd|t]; cbn [step] in S.
  - destruct (apply_observers _ _ _ _ _ _) as [H e] eqn:A. inversion S; subst.
    apply (apply_loop_uniq _ _ _ _ _ _ _ _ _ U A).
  - destruct (apply_observers _ _ _ _ _ _) as [H e] eqn:A. inversion S; subst.
    apply (apply_loop_uniq _ _ _ _ _ _ _ _ _ U A).
  - inversion S; subst. exact U.
  - inversion S; subst. exact U.
  - inversion S; subst. exact U.
Qed.
Lemma run_uniq h : forall ops s tr s', uniqH (st_hooks s) -> run h s ops = (tr, s') -> uniqH (st_hooks s').
Proof.
  induction ops as [|o ops IH]; intros s tr s' U R; cbn [run] in R.
  - inversion R; subst. exact U.
  - destruct (step h s o) as [s1 ob] eqn:S. destruct (run h s1 ops) as [tr1 s2] eqn:R1.
    inversion R; subst. apply (IH _ _ _ (step_uniq _ _ _ _ _ U S) R1).
Qed.

(* ------------------------------------------------------------------ calls on a change *)
Definition ncalls (k : key) (l : list key) : nat := length (filter (key_eqb k) l).
Lemma ncalls_app k l1 l2 : ncalls k (l1 ++ l2) = ncalls k l1 + ncalls k l2.
Proof. unfold ncalls. rewrite filter_app, app_length. reflexivity. Qed.
Lemma nomatch_cnt a l : existsb (matches a) l = false -> cnt (CK a) l = 0.
Proof.
  induction l as [|n r IH]; [reflexivity|]. cbn [existsb cnt]. intros E.
  apply orb_false_iff in E. destruct E as [M E]. rewrite (weight_nomatch _ _ M), (IH E). reflexivity.
Qed.
Lemma key_eqb_refl k : key_eqb k k = true.
Proof. apply key_eqb_spec. reflexivity. Qed.

(* a change of o.f calls handler k exactly once if a user notifier of k is on the list (whatever its
   reference count) and k's owner and target are alive, else not at all *)
Lemma calls_count s l k : posb l = true -> uniqb l = true ->
  ncalls k (calls_of s l) = if alive s k && (0 <? cnt (CK (AUser k)) l) then 1 else 0.
Proof.
  induction l as [|n r IH]; intros P U.
  - cbn. rewrite andb_false_r. reflexivity.
  - cbn [posb forallb] in P. apply andb_true_iff in P. destruct P as [Pn Pr].
    cbn [uniqb] in U. apply andb_true_iff in U. destruct U as [Un Ur].
    change (calls_of s (n :: r)) with
      ((match n with NUser k' _ => if alive s k' then [k'] else [] | _ => [] end) ++ calls_of s r).
    rewrite ncalls_app, (IH Pr Ur). cbn [cnt].
    destruct n as [k' rc|m g k'|i].
    + cbn [weight matches]. destruct (key_eqb k k') eqn:Q.
      * apply key_eqb_spec in Q. subst k'. apply negb_true_iff in Un.
        rewrite (nomatch_cnt _ _ Un). rewrite Nat.add_0_r.
        replace (0 <? 0) with false by reflexivity. rewrite Pn, andb_false_r, andb_true_r.
        destruct (alive s k); [|reflexivity].
        unfold ncalls. cbn [filter]. rewrite key_eqb_refl. reflexivity.
      * cbn [Nat.add]. destruct (alive s k'); cbn [ncalls filter]; unfold ncalls; cbn [filter]; rewrite ?Q; reflexivity.
    + cbn [weight matches b2n]. reflexivity.
    + cbn [weight]. reflexivity.
Qed.

(* ------------------------------------------------------------------ equal counts = equal lists up to order *)
Definition ckey_of (n : notifier) : ckey :=
  match n with
  | NUser k _ => CK (AUser k)
  | NMaint m g k => CK (AMaint m g k)
  | NForeign i => CF i
  end.
Lemma weight_pos_inv c n : 0 < weight c n -> ckey_of n = c.
Proof.
  destruct c as [a|i], n as [k rc|m g k|j]; cbn [weight ckey_of]; try lia.
  - destruct (matches a (NUser k rc)) eqn:M; [|lia]. apply matches_spec in M. cbn in M. congruence.
  - destruct (matches a (NMaint m g k)) eqn:M; [|cbn; lia]. apply matches_spec in M. cbn in M. congruence.
  - destruct (Nat.eqb i j) eqn:E; [|cbn; lia]. apply Nat.eqb_eq in E. congruence.
Qed.
Lemma weight_own n : posb [n] = true -> 0 < weight (ckey_of n) n.
Proof.
  destruct n as [k rc|m g k|j]; cbn [posb forallb weight ckey_of matches].
  - rewrite key_eqb_refl, andb_true_r. apply Nat.ltb_lt.
  - intros _. replace (mkind_eqb m m) with true by (symmetry; apply mkind_eqb_spec; reflexivity).
    replace (graph_eqb g g) with true by (symmetry; apply graph_eqb_spec; reflexivity).
    rewrite key_eqb_refl. cbn. lia.
  - intros _. rewrite Nat.eqb_refl. cbn. lia.
Qed.
Lemma cnt_pos_in c l : 0 < cnt c l -> exists n, In n l /\ 0 < weight c n.
Proof.
  induction l as [|m r IH]; cbn [cnt]; [lia|]. intros Hc.
  destruct (Nat.eq_dec (weight c m) 0) as [Z|Z].
  - destruct IH as (n & Hn & W); [lia|]. exists n. split; [right; exact Hn|exact W].
  - exists m. split; [left; reflexivity|lia].
Qed.
Lemma cnt_mid c l1 n l2 : cnt c (l1 ++ n :: l2) = weight c n + cnt c (l1 ++ l2).
Proof. rewrite !cnt_app. cbn [cnt]. lia. Qed.
Lemma posb_mid l1 n l2 : posb (l1 ++ n :: l2) = true -> posb [n] = true /\ posb (l1 ++ l2) = true.
Proof.
  unfold posb. rewrite !forallb_app. cbn [forallb].
  intros E. apply andb_true_iff in E. destruct E as [E1 E2].
  apply andb_true_iff in E2. destruct E2 as [E2 E3]. rewrite E1, E2, E3. split; reflexivity.
Qed.
Lemma uniqb_mid l1 n l2 : uniqb (l1 ++ n :: l2) = true -> uniqb (l1 ++ l2) = true.
Proof.
  induction l1 as [|m l1 IH]; cbn [app uniqb]; intros U; apply andb_true_iff in U; destruct U as [Um U].
  - exact U.
  - rewrite (IH U), andb_true_r. destruct m as [k rc| |]; try reflexivity.
    apply negb_true_iff in Um. apply negb_true_iff. rewrite existsb_app in *. cbn [existsb] in Um.
    apply orb_false_iff in Um. destruct Um as [A B]. apply orb_false_iff in B. destruct B as [_ B].
    rewrite A, B. reflexivity.
Qed.
Lemma uniq_user_cnt k rc l : uniqb l = true -> In (NUser k rc) l -> cnt (CK (AUser k)) l = rc.
Proof.
  induction l as [|m r IH]; intros U Hin; [destruct Hin|].
  cbn [uniqb] in U. apply andb_true_iff in U. destruct U as [Um Ur]. cbn [cnt]. destruct Hin as [->|Hin].
  - apply negb_true_iff in Um. rewrite (nomatch_cnt _ _ Um). cbn [weight matches].
    rewrite key_eqb_refl. lia.
  - rewrite (IH Ur Hin). destruct m as [k' rc'|m' g' k'|j]; cbn [weight matches b2n]; try lia.
    destruct (key_eqb k k') eqn:Q; [|lia]. apply key_eqb_spec in Q. subst k'.
    apply negb_true_iff in Um. assert (existsb (matches (AUser k)) r = true) as X.
    { apply existsb_exists. exists (NUser k rc). split; [exact Hin|]. cbn. apply key_eqb_refl. }
    congruence.
Qed.

Lemma posb_cons n r : posb (n :: r) = posb [n] && posb r.
Proof. unfold posb. cbn [forallb]. rewrite andb_true_r. reflexivity. Qed.

Lemma cnt_perm : forall l l', posb l = true -> uniqb l = true -> posb l' = true -> uniqb l' = true ->
  (forall c, cnt c l = cnt c l') -> Permutation l l'.
Proof.
  induction l as [|n r IH]; intros l' P U P' U' C.
  - destruct l' as [|n' r']; [constructor|]. exfalso.
    assert (posb [n'] = true) as Pn.
    { rewrite posb_cons in P'. apply andb_true_iff in P'. apply P'. }
    pose proof (weight_own n' Pn) as W. specialize (C (ckey_of n')). cbn [cnt] in C. lia.
  - assert (posb [n] = true /\ posb r = true) as [Pn Pr].
    { rewrite posb_cons in P. apply andb_true_iff in P. exact P. }
    assert (uniqb r = true) as Ur by (cbn [uniqb] in U; apply andb_true_iff in U; apply U).
    pose proof (weight_own n Pn) as W.
    destruct (cnt_pos_in (ckey_of n) l') as (n' & Hin' & W').
    { rewrite <- C. cbn [cnt]. lia. }
    assert (n' = n) as ->.
    { pose proof (weight_pos_inv _ _ W') as K.
      destruct n as [k rc|m g k|j], n' as [k' rc'|m' g' k'|j']; cbn [ckey_of] in K; try congruence.
      inversion K; subst k'. f_equal.
      rewrite <- (uniq_user_cnt k rc' l' U' Hin').
      rewrite <- (uniq_user_cnt k rc (NUser k rc :: r) U (or_introl eq_refl)). symmetry. apply C. }
    destruct (in_split _ _ Hin') as (l1 & l2 & ->).
    apply Permutation_cons_app. destruct (posb_mid _ _ _ P') as [_ P12].
    apply IH; [exact Pr|exact Ur|exact P12|apply (uniqb_mid _ _ _ U')|].
    intros c. specialize (C c). cbn [cnt] in C. rewrite cnt_mid in C. lia.
Qed.

Definition wfH (H : hooks) : Prop := posH H /\ uniqH H.
Lemma same_counts_perm H H' : wfH H -> wfH H' -> (forall o c, cntH H' o c = cntH H o c) ->
  forall o, Permutation (H' o) (H o).
Proof. intros [P U] [P' U'] C o. apply cnt_perm; auto. intros c. apply C. Qed.

(* ------------------------------------------------------------------ final forms *)
Lemma run_wf h ops s tr s' : wfH (st_hooks s) -> run h s ops = (tr, s') -> wfH (st_hooks s').
Proof.
  intros [P U] R. split; [apply (accounting h ops s tr s' P R)|apply (run_uniq h ops s tr s' U R)].
Qed.
Lemma step_wf h s o s' ob : wfH (st_hooks s) -> step h s o = (s', ob) -> wfH (st_hooks s').
Proof.
  intros [P U] S. split; [apply (step_spec _ _ _ _ _ P S)|apply (step_uniq _ _ _ _ _ U S)].
Qed.
Lemma wf_empty : wfH (fun _ => []).
Proof. split; intros o; reflexivity. Qed.

Lemma balanced_identity_perm h ops s tr s' : wfH (st_hooks s) -> run h s ops = (tr, s') ->
  Permutation (ok_regs tr) (ok_unregs tr) ->
  forall o, Permutation (st_hooks s' o) (st_hooks s o).
Proof.
  intros W R B. apply same_counts_perm; [exact W|apply (run_wf _ _ _ _ _ W R)|].
  apply (balanced_identity h ops s tr s' (proj1 W) R B).
Qed.

Lemma failure_atomic_perm h s o s' ob : wfH (st_hooks s) -> step h s o = (s', ob) ->
  o_out ob <> None -> forall o', Permutation (st_hooks s' o') (st_hooks s o').
Proof.
  intros W S N. apply same_counts_perm; [exact W|apply (step_wf _ _ _ _ _ W S)|].
  apply (failure_atomic_cnt h s o s' ob (proj1 W) S N).
Qed.

Lemma extra_unregister_perm h s x hd dp gs s' ob : wfH (st_hooks s) ->
  (exists o c, cntH (st_hooks s) o c < gsum h (hd, x, dp) gs x o c) ->
  step h s (Unregister x hd dp gs) = (s', ob) ->
  (exists y, o_out ob = Some y /\
             ((forall g, In g gs -> snd (plan h (hd, x, dp) false g x) = false) -> y = NotifierNotFound))
  /\ forall o, Permutation (st_hooks s' o) (st_hooks s o).
Proof.
  intros W X S. destruct (extra_unregister h s x hd dp gs s' ob (proj1 W) X S) as [E C].
  split; [exact E|]. apply same_counts_perm; [exact W|apply (step_wf _ _ _ _ _ W S)|exact C].
Qed.

Lemma change_calls h s o f s' ob k : wfH (st_hooks s) -> step h s (Change o f) = (s', ob) ->
  ncalls k (o_calls ob) = if alive s k && (0 <? cntH (st_hooks s) (o, f) (CK (AUser k))) then 1 else 0.
Proof.
  intros [P U] S. cbn [step] in S. inversion S; subst. cbn [o_calls]. apply calls_count; [apply P|apply U].
Qed.

Lemma calls_in_between h ops s tr s1 o f s2 ob k : wfH (st_hooks s) ->
  run h s ops = (tr, s1) -> step h s1 (Change o f) = (s2, ob) ->
  cntH (st_hooks s) (o, f) (CK (AUser k)) = 0 ->
  ncalls k (o_calls ob) =
    if alive s1 k && (sigs_cnt h (ok_unregs tr) (o, f) (CK (AUser k)) <? sigs_cnt h (ok_regs tr) (o, f) (CK (AUser k)))
    then 1 else 0.
Proof.
  intros W R S Z. rewrite (change_calls h s1 o f s2 ob k (run_wf _ _ _ _ _ W R) S).
  destruct (accounting h ops s tr s1 (proj1 W) R) as [_ E]. specialize (E (o, f) (CK (AUser k))).
  rewrite Z in E.
  replace (sigs_cnt h (ok_unregs tr) (o, f) (CK (AUser k)) <? sigs_cnt h (ok_regs tr) (o, f) (CK (AUser k)))
    with (0 <? cntH (st_hooks s1) (o, f) (CK (AUser k))); [reflexivity|].
  destruct (0 <? cntH (st_hooks s1) (o, f) (CK (AUser k))) eqn:A; symmetry.
  - apply Nat.ltb_lt in A. apply Nat.ltb_lt. lia.
  - apply Nat.ltb_ge in A. apply Nat.ltb_ge. lia.
Qed.

Lemma register_outcome h s x hd dp gs s' ob : posH (st_hooks s) ->
  step h s (Register x hd dp gs) = (s', ob) ->
  (o_out ob = None <-> forall g, In g gs -> snd (plan h (hd, x, dp) false g x) = false)
  /\ (forall y, o_out ob = Some y -> y = ValueError).
Proof.
  intros P S. cbn [step] in S.
  destruct (apply_observers h (hd, x, dp) false gs x (st_hooks s)) as [H e] eqn:A. inversion S; subst.
  cbn [o_out]. destruct (apply_observers_spec _ _ _ _ _ _ _ _ P A) as [_ R]. destruct e as [y|].
  - destruct R as [_ [[-> (g & Hg & T)]|[_ Q]]]; [|discriminate]. split.
    + split; [discriminate|]. intros F. rewrite (F g Hg) in T. discriminate.
    + intros y [= <-]. reflexivity.
  - split; [split; [intros _; apply R|reflexivity]|discriminate].
Qed.
