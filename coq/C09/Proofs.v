(* C09 — lemmas.  Style: stdlib + lia. *)
From Coq Require Import List Arith Bool PeanoNat Lia Permutation.
From TV Require Import C09.Model.
Import ListNotations.

(* ------------------------------------------------------------------ equalities *)
Lemma graph_ind' (P : graph -> Prop) :
  (forall n cs, Forall P cs -> P (G n cs)) -> forall g, P g.
Proof.
  intros H. fix IH 1. intros [n cs]. apply H.
  induction cs as [|c cs IHcs]; constructor; [apply IH|apply IHcs].
Qed.

Lemma ckind_eqb_spec a b : ckind_eqb a b = true <-> a = b.
Proof. destruct a, b; cbn; split; congruence. Qed.
Lemma node_eqb_spec a b : node_eqb a b = true <-> a = b.
Proof.
  destruct a, b; cbn; try (split; congruence);
    rewrite !andb_true_iff, ?Nat.eqb_eq, ?ckind_eqb_spec, !eqb_true_iff;
    (split; [intros [[-> ->] ->]; reflexivity | intros [= -> -> ->]; auto]).
Qed.
Lemma graph_eqb_spec g1 : forall g2, graph_eqb g1 g2 = true <-> g1 = g2.
Proof.
  induction g1 as [n1 cs1 IH] using graph_ind'. intros [n2 cs2]. cbn [graph_eqb].
  rewrite andb_true_iff, node_eqb_spec.
  assert ((fix go (l1 l2 : list graph) : bool :=
             match l1, l2 with
             | [], [] => true
             | a :: l1', b :: l2' => graph_eqb a b && go l1' l2'
             | _, _ => false
             end) cs1 cs2 = true <-> cs1 = cs2) as L.
  { revert cs2. induction cs1 as [|a cs1 IHcs]; intros [|b cs2]; try (split; discriminate).
    - split; reflexivity.
    - inversion IH as [|? ? Ha Hcs]; subst. rewrite andb_true_iff, (Ha b), (IHcs Hcs cs2).
      split; [intros [-> ->]; reflexivity|intros [= -> ->]; split; reflexivity]. }
  rewrite L. split; [intros [-> ->]; reflexivity|intros [= -> ->]; split; reflexivity].
Qed.
Lemma key_eqb_spec a b : key_eqb a b = true <-> a = b.
Proof.
  destruct a as [[h t] d], b as [[h' t'] d']. cbn. rewrite !andb_true_iff, !Nat.eqb_eq.
  split; [intros [[-> ->] ->]; reflexivity|intros [= -> -> ->]; auto].
Qed.
Lemma mkind_eqb_spec a b : mkind_eqb a b = true <-> a = b.
Proof.
  destruct a, b; cbn; try (split; congruence).
  rewrite ckind_eqb_spec. split; [intros ->; reflexivity|intros [= ->]; reflexivity].
Qed.
Lemma akey_eqb_spec a b : akey_eqb a b = true <-> a = b.
Proof.
  destruct a, b; cbn; try (split; congruence).
  - rewrite key_eqb_spec. split; [intros ->; reflexivity|intros [= ->]; reflexivity].
  - rewrite !andb_true_iff, mkind_eqb_spec, graph_eqb_spec, key_eqb_spec.
    split; [intros [[-> ->] ->]; reflexivity|intros [= -> -> ->]; auto].
Qed.
Lemma akey_eqb_refl a : akey_eqb a a = true.
Proof. apply akey_eqb_spec. reflexivity. Qed.
Lemma obsv_eqb_spec a b : obsv_eqb a b = true <-> a = b.
Proof.
  destruct a, b. unfold obsv_eqb. cbn. rewrite andb_true_iff, !Nat.eqb_eq.
  split; [intros [-> ->]; reflexivity|intros [= -> ->]; auto].
Qed.
Lemma obsv_eqb_refl a : obsv_eqb a a = true.
Proof. apply obsv_eqb_spec. reflexivity. Qed.

(* the identity a list element is compared by *)
Definition akey_of (n : notifier) : option akey :=
  match n with
  | NUser k _ => Some (AUser k)
  | NMaint m g k => Some (AMaint m g k)
  | NForeign _ => None
  end.
Lemma matches_spec a n : matches a n = true <-> akey_of n = Some a.
Proof.
  destruct a, n; cbn; try (split; congruence).
  - rewrite key_eqb_spec. split; [intros ->; reflexivity|intros [= ->]; reflexivity].
  - rewrite !andb_true_iff, mkind_eqb_spec, graph_eqb_spec, key_eqb_spec.
    split; [intros [[-> ->] ->]; reflexivity|intros [= -> -> ->]; auto].
Qed.
Lemma matches_other a b n : matches a n = true -> matches b n = akey_eqb a b.
Proof.
  intros M. apply matches_spec in M.
  destruct (matches b n) eqn:E.
  - apply matches_spec in E. rewrite M in E. inversion E; subst. symmetry. apply akey_eqb_refl.
  - destruct (akey_eqb a b) eqn:Q; [|reflexivity]. apply akey_eqb_spec in Q. subst.
    apply matches_spec in M. congruence.
Qed.

(* ------------------------------------------------------------------ counting *)
(* what is counted: a (handler, graph) identity or a foreign element *)
Inductive ckey := CK (a : akey) | CF (id : nat).
Definition ckey_eqb (a b : ckey) : bool :=
  match a, b with
  | CK x, CK y => akey_eqb x y
  | CF i, CF j => Nat.eqb i j
  | _, _ => false
  end.
Lemma ckey_eqb_spec a b : ckey_eqb a b = true <-> a = b.
Proof.
  destruct a, b; cbn; try (split; congruence).
  - rewrite akey_eqb_spec. split; [intros ->; reflexivity|intros [= ->]; reflexivity].
  - rewrite Nat.eqb_eq. split; [intros ->; reflexivity|intros [= ->]; reflexivity].
Qed.
Definition b2n (b : bool) : nat := if b then 1 else 0.

(* multiplicity of c carried by one list element: a user notifier counts its reference count *)
Definition weight (c : ckey) (n : notifier) : nat :=
  match c, n with
  | CK a, NUser _ rc => if matches a n then rc else 0
  | CK a, NMaint _ _ _ => b2n (matches a n)
  | CF i, NForeign j => b2n (Nat.eqb i j)
  | _, _ => 0
  end.
Fixpoint cnt (c : ckey) (l : list notifier) : nat :=
  match l with [] => 0 | n :: r => weight c n + cnt c r end.
Lemma cnt_app c l1 l2 : cnt c (l1 ++ l2) = cnt c l1 + cnt c l2.
Proof. induction l1; cbn; lia. Qed.

(* invariants of one list: stored reference counts are positive; at most one user notifier per identity *)
Definition posb (l : list notifier) : bool :=
  forallb (fun n => match n with NUser _ rc => Nat.ltb 0 rc | _ => true end) l.
Fixpoint uniqb (l : list notifier) : bool :=
  match l with
  | [] => true
  | n :: r => match n with
              | NUser k _ => negb (existsb (matches (AUser k)) r)
              | _ => true
              end && uniqb r
  end.

(* ------------------------------------------------------------------ add_to / remove_from on one list *)
Lemma weight_after_match a c n :
  matches a n = true ->
  match n with
  | NUser k rc => weight c (NUser k (S rc)) = weight c n + b2n (ckey_eqb (CK a) c)
  | _ => weight c n = b2n (ckey_eqb (CK a) c)
  end.
Proof.
  intros M. destruct n as [k rc|m g k|i].
  - destruct c as [b|j]; cbn [weight ckey_eqb]; [|cbn; lia].
    change (matches b (NUser k (S rc))) with (matches b (NUser k rc)).
    rewrite (matches_other a b _ M). destruct (akey_eqb a b); cbn; lia.
  - destruct c as [b|j]; cbn [weight ckey_eqb]; [|reflexivity].
    rewrite (matches_other a b _ M). reflexivity.
  - destruct a; discriminate.
Qed.

Lemma bump_first_some k l : forall l', bump_first (AUser k) l = Some l' ->
  forall c, cnt c l' = cnt c l + b2n (ckey_eqb (CK (AUser k)) c).
Proof.
  induction l as [|n r IH]; intros l' E c; [discriminate|]. cbn [bump_first] in E.
  destruct (matches (AUser k) n) eqn:M.
  - pose proof (weight_after_match (AUser k) c n M) as W.
    destruct n; try discriminate M. inversion E; subst; cbn [cnt]; lia.
  - destruct (bump_first (AUser k) r) as [r'|]; [|discriminate]. inversion E; subst.
    cbn [cnt]. rewrite (IH r' eq_refl c). lia.
Qed.
Lemma bump_first_none a l : bump_first a l = None -> forall n, In n l -> matches a n = false.
Proof.
  induction l as [|m r IH]; intros E n Hn; [destruct Hn|]. cbn [bump_first] in E.
  destruct (matches a m) eqn:M.
  - destruct m; discriminate.
  - destruct (bump_first a r); [discriminate|]. destruct Hn as [->|Hn]; [exact M|apply IH; auto].
Qed.

Lemma cnt_l_add a l c : cnt c (l_add a l) = cnt c l + b2n (ckey_eqb (CK a) c).
Proof.
  destruct a as [k|m g k]; cbn [l_add].
  - destruct (bump_first (AUser k) l) as [l'|] eqn:B.
    + apply (bump_first_some _ _ _ B).
    + rewrite cnt_app. cbn [cnt]. rewrite Nat.add_0_r. f_equal.
      assert (matches (AUser k) (NUser k 1) = true) as M by (apply matches_spec; reflexivity).
      pose proof (weight_after_match (AUser k) c (NUser k 0) M) as W. cbn beta iota in W.
      rewrite W. destruct c as [b|j]; cbn; [destruct b; cbn; try reflexivity; destruct (key_eqb _ _); reflexivity|reflexivity].
  - rewrite cnt_app. cbn [cnt]. rewrite Nat.add_0_r. f_equal.
    assert (matches (AMaint m g k) (NMaint m g k) = true) as M by (apply matches_spec; reflexivity).
    apply (weight_after_match _ c _ M).
Qed.

Lemma l_rem_ok a l : forall l', l_rem a l = inl l' ->
  forall c, cnt c l = cnt c l' + b2n (ckey_eqb (CK a) c).
Proof.
  induction l as [|n r IH]; intros l' E c; [discriminate|]. cbn [l_rem] in E.
  destruct (matches a n) eqn:M.
  - pose proof (weight_after_match a c n M) as W.
    destruct n as [k [|[|rc]]|m g k|i]; inversion E; subst; cbn [cnt].
    + assert (matches a (NUser k 0) = true) as M0 by exact M.
      pose proof (weight_after_match a c (NUser k 0) M0) as W0. cbn beta iota in W0.
      assert (weight c (NUser k 0) = 0) by (destruct c as [b|j]; cbn [weight]; [destruct (matches b (NUser k 0))|]; reflexivity). lia.
    + assert (matches a (NUser k (S rc)) = true) as M1 by exact M.
      pose proof (weight_after_match a c (NUser k (S rc)) M1) as W1. cbn beta iota in W1. lia.
    + lia.
    + lia.
  - destruct (l_rem a r) as [r'|e]; [|discriminate]. inversion E; subst.
    cbn [cnt]. rewrite (IH r' eq_refl c). lia.
Qed.

Lemma weight_nomatch a n : matches a n = false -> weight (CK a) n = 0.
Proof. intros M. destruct n; cbn; rewrite ?M; reflexivity. Qed.

Lemma l_rem_err a l e : posb l = true -> l_rem a l = inr e -> e = NotifierNotFound /\ cnt (CK a) l = 0.
Proof.
  induction l as [|n r IH]; intros P E; cbn [l_rem] in E.
  - inversion E. split; reflexivity.
  - cbn [posb forallb] in P. apply andb_true_iff in P. destruct P as [Pn Pr].
    destruct (matches a n) eqn:M.
    + destruct n as [k [|[|rc]]|m g k|i]; try discriminate; destruct a; discriminate.
    + destruct (l_rem a r) as [r'|e'] eqn:R; [discriminate|]. inversion E; subst.
      destruct (IH Pr eq_refl) as [-> C]. split; [reflexivity|]. cbn [cnt].
      rewrite (weight_nomatch _ _ M), C. reflexivity.
Qed.
Lemma l_rem_succeeds a l : posb l = true -> 0 < cnt (CK a) l -> exists l', l_rem a l = inl l'.
Proof.
  intros P C. destruct (l_rem a l) as [l'|e] eqn:R; [eauto|].
  destruct (l_rem_err _ _ _ P R) as [_ Z]. lia.
Qed.

Lemma posb_app l1 l2 : posb (l1 ++ l2) = posb l1 && posb l2.
Proof. apply forallb_app. Qed.
Lemma posb_bump a l : forall l', bump_first a l = Some l' -> posb l = true -> posb l' = true.
Proof.
  induction l as [|n r IH]; intros l' E P; [discriminate|]. cbn [bump_first] in E.
  cbn [posb forallb] in P. apply andb_true_iff in P. destruct P as [Pn Pr].
  destruct (matches a n).
  - destruct n; inversion E; subst; cbn [posb forallb]; rewrite ?Pn; exact Pr.
  - destruct (bump_first a r) as [r'|]; [|discriminate]. inversion E; subst.
    cbn [posb forallb]. rewrite Pn. apply (IH r' eq_refl Pr).
Qed.
Lemma posb_l_add a l : posb l = true -> posb (l_add a l) = true.
Proof.
  intros P. destruct a as [k|m g k]; cbn [l_add].
  - destruct (bump_first (AUser k) l) as [l'|] eqn:B; [apply (posb_bump _ _ _ B P)|].
    rewrite posb_app, P. reflexivity.
  - rewrite posb_app, P. reflexivity.
Qed.
Lemma posb_l_rem a l : forall l', l_rem a l = inl l' -> posb l = true -> posb l' = true.
Proof.
  induction l as [|n r IH]; intros l' E P; [discriminate|]. cbn [l_rem] in E.
  cbn [posb forallb] in P. apply andb_true_iff in P. destruct P as [Pn Pr].
  destruct (matches a n).
  - destruct n as [k [|[|rc]]|m g k|i]; inversion E; subst; try exact Pr; cbn [posb forallb]; exact Pr.
  - destruct (l_rem a r) as [r'|e]; [|discriminate]. inversion E; subst.
    cbn [posb forallb]. rewrite Pn. apply (IH r' eq_refl Pr).
Qed.

(* ------------------------------------------------------------------ hook states *)
Definition posH (H : hooks) : Prop := forall o, posb (H o) = true.
Definition cntH (H : hooks) (o : obsv) (c : ckey) : nat := cnt c (H o).
Definition eind (e : entry) (o : obsv) (c : ckey) : nat :=
  b2n (obsv_eqb (fst e) o && ckey_eqb (CK (snd e)) c).
Fixpoint ecnt (o : obsv) (c : ckey) (es : list entry) : nat :=
  match es with [] => 0 | e :: r => eind e o c + ecnt o c r end.
Lemma ecnt_app o c l1 l2 : ecnt o c (l1 ++ l2) = ecnt o c l1 + ecnt o c l2.
Proof. induction l1; cbn; lia. Qed.
Lemma ecnt_rev o c l : ecnt o c (rev l) = ecnt o c l.
Proof. induction l; cbn; [reflexivity|]. rewrite ecnt_app. cbn. lia. Qed.
Lemma eind_self e : eind e (fst e) (CK (snd e)) = 1.
Proof. unfold eind. rewrite obsv_eqb_refl. cbn. rewrite akey_eqb_refl. reflexivity. Qed.

Lemma cntH_upd H o0 l o c :
  cntH (upd H o0 l) o c = if obsv_eqb o o0 then cnt c l else cntH H o c.
Proof. unfold cntH, upd. destruct (obsv_eqb o o0); reflexivity. Qed.
Lemma obsv_eqb_sym a b : obsv_eqb a b = obsv_eqb b a.
Proof. unfold obsv_eqb. rewrite (Nat.eqb_sym (fst a)), (Nat.eqb_sym (snd a)). reflexivity. Qed.

Lemma do_add e H : exists H', do_entry false e H = inl H' /\
  (forall o c, cntH H' o c = cntH H o c + eind e o c) /\ (posH H -> posH H').
Proof.
  destruct e as [o0 a]. cbn [do_entry]. eexists. split; [reflexivity|]. split.
  - intros o c. rewrite cntH_upd. unfold eind. cbn [fst snd]. rewrite (obsv_eqb_sym o0 o).
    destruct (obsv_eqb o o0) eqn:Q.
    + apply obsv_eqb_spec in Q. subst. rewrite cnt_l_add. reflexivity.
    + cbn. lia.
  - intros P o. unfold upd. destruct (obsv_eqb o o0); [apply posb_l_add, P|apply P].
Qed.
Lemma do_rem_ok e H H' : do_entry true e H = inl H' ->
  (forall o c, cntH H o c = cntH H' o c + eind e o c) /\ (posH H -> posH H').
Proof.
  destruct e as [o0 a]. cbn [do_entry]. destruct (l_rem a (H o0)) as [l|x] eqn:R; [|discriminate].
  intros E. inversion E; subst. split.
  - intros o c. rewrite cntH_upd. unfold eind. cbn [fst snd]. rewrite (obsv_eqb_sym o0 o).
    destruct (obsv_eqb o o0) eqn:Q.
    + apply obsv_eqb_spec in Q. subst. apply (l_rem_ok _ _ _ R).
    + cbn. lia.
  - intros P o. unfold upd. destruct (obsv_eqb o o0); [apply (posb_l_rem _ _ _ R), P|apply P].
Qed.
Lemma do_rem_err e H x : posH H -> do_entry true e H = inr x ->
  x = NotifierNotFound /\ cntH H (fst e) (CK (snd e)) = 0.
Proof.
  destruct e as [o0 a]. cbn [do_entry fst snd]. intros P.
  destruct (l_rem a (H o0)) as [l|y] eqn:R; [discriminate|]. intros E. inversion E; subst.
  apply (l_rem_err _ _ _ (P o0) R).
Qed.
Lemma do_rem_succeeds e H : posH H -> 0 < cntH H (fst e) (CK (snd e)) -> exists H', do_entry true e H = inl H'.
Proof.
  destruct e as [o0 a]. cbn [do_entry fst snd]. intros P C.
  destruct (l_rem_succeeds a (H o0) (P o0) C) as [l ->]. eauto.
Qed.

(* ------------------------------------------------------------------ exec / undo *)
Lemma exec_add es : forall H L, exists H', exec false es H L = (H', L ++ es, None) /\
  (forall o c, cntH H' o c = cntH H o c + ecnt o c es) /\ (posH H -> posH H').
Proof.
  induction es as [|e es IH]; intros H L; cbn [exec].
  - exists H. rewrite app_nil_r. repeat split; auto. intros; cbn; lia.
  - destruct (do_add e H) as (H1 & -> & C1 & P1).
    destruct (IH H1 (L ++ [e])) as (H2 & -> & C2 & P2). exists H2.
    rewrite <- app_assoc. repeat split; auto. intros o c. rewrite C2, C1. cbn. lia.
Qed.

Lemma exec_rm es : forall H L H' L' e, posH H -> exec true es H L = (H', L', e) ->
  posH H' /\ exists done, L' = L ++ done /\
    (forall o c, cntH H o c = cntH H' o c + ecnt o c done) /\
    (e = None -> done = es) /\ (forall x, e = Some x -> x = NotifierNotFound).
Proof.
  induction es as [|a es IH]; intros H L H' L' e P E; cbn [exec] in E.
  - inversion E; subst. split; [exact P|]. exists []. rewrite app_nil_r.
    repeat split; auto; [intros; cbn; lia|discriminate].
  - destruct (do_entry true a H) as [H1|x] eqn:D.
    + destruct (do_rem_ok _ _ _ D) as [C1 P1].
      destruct (IH _ _ _ _ _ (P1 P) E) as (P2 & done & -> & C2 & N & X).
      split; [exact P2|]. exists (a :: done). rewrite <- app_assoc. repeat split; auto.
      * intros o c. rewrite C1, C2. cbn. lia.
      * intros ->. rewrite N; reflexivity.
    + inversion E; subst. split; [exact P|]. exists []. rewrite app_nil_r.
      repeat split; auto; [intros; cbn; lia|discriminate|].
      intros y [= <-]. apply (do_rem_err _ _ _ P D).
Qed.

Lemma exec_rm_succeeds es : forall H L, posH H -> (forall o c, ecnt o c es <= cntH H o c) ->
  exists H', exec true es H L = (H', L ++ es, None).
Proof.
  induction es as [|a es IH]; intros H L P C; cbn [exec].
  - exists H. rewrite app_nil_r. reflexivity.
  - destruct (do_rem_succeeds a H P) as [H1 D].
    { specialize (C (fst a) (CK (snd a))). cbn [ecnt] in C. rewrite eind_self in C. lia. }
    rewrite D. destruct (do_rem_ok _ _ _ D) as [C1 P1].
    destruct (IH H1 (L ++ [a]) (P1 P)) as [H2 E2].
    { intros o c. specialize (C o c). cbn [ecnt] in C. rewrite C1 in C. lia. }
    exists H2. rewrite E2, <- app_assoc. reflexivity.
Qed.

Lemma undo_exec rm es : forall H L0,
  undo rm es H = let '(H', _, e) := exec (negb rm) es H L0 in (H', e).
Proof.
  induction es as [|a es IH]; intros H L0; cbn [undo exec]; [reflexivity|].
  destruct (do_entry (negb rm) a H) as [H1|x]; [apply IH|reflexivity].
Qed.
