(* C09 — the well-formedness invariant of the hook state survives heap mutations (Dyn.v), so the
   per-step theorems of Props.v (failure_atomic, extra_unregister_raises_and_inert, once-per-change,
   registration_raises_iff_structural: all stated for ANY heap and ANY well-formed state) apply at every
   registration step of every history that also mutates the object graph. *)
From Coq Require Import List Arith Bool PeanoNat Lia Permutation.
From TV Require Import C09.Model C09.Dyn C09.Proofs.
Import ListNotations.

Lemma walk_outer_wf h k rm g x H H' e : wfH H -> walk_outer h k rm g x H = (H', e) -> wfH H'.
Proof.
  intros [P U] W. split; [apply (walk_outer_spec _ _ _ _ _ _ _ _ P W)|apply (walk_outer_uniq _ _ _ _ _ _ _ _ U W)].
Qed.

Lemma maint_each_wf h k rm sw g : forall ys H H' e, wfH H -> maint_each h k rm sw g ys H = (H', e) -> wfH H'.
Proof.
  induction ys as [|y r IH]; intros H H' e W M; cbn [maint_each] in M.
  - inversion M; subst. exact W.
  - destruct (walk_outer h k rm g y H) as [H1 [x|]] eqn:Wo; pose proof (walk_outer_wf _ _ _ _ _ _ _ _ W Wo) as W1.
    + destruct x; try (inversion M; subst; exact W1).
      destruct sw; [apply (IH _ _ _ W1 M)|inversion M; subst; exact W1].
    + apply (IH _ _ _ W1 M).
Qed.
Lemma maint_run_wf h k sw g olds news H H' e : wfH H -> maint_run h k sw g olds news H = (H', e) -> wfH H'.
Proof.
  intros W M. unfold maint_run in M.
  destruct (maint_each h k true sw g olds H) as [H1 [x|]] eqn:E1; pose proof (maint_each_wf _ _ _ _ _ _ _ _ _ W E1) as W1.
  - inversion M; subst. exact W1.
  - apply (maint_each_wf _ _ _ _ _ _ _ _ _ W1 M).
Qed.
Lemma run_notifiers_wf h s t : forall ns olds news H calls H' calls' e, wfH H ->
  run_notifiers h s t ns olds news H calls = (H', calls', e) -> wfH H'.
Proof.
  induction ns as [|n r IH]; intros olds news H calls H' calls' e W R; cbn [run_notifiers] in R.
  - inversion R; subst. exact W.
  - destruct n as [k rc|m g k|i]; try (apply (IH _ _ _ _ _ _ _ W R)).
    destruct (alive s k); [|apply (IH _ _ _ _ _ _ _ W R)].
    destruct m, t; try (apply (IH _ _ _ _ _ _ _ W R)).
    + destruct (maint_run h k true g olds news H) as [H1 [x|]] eqn:M;
        pose proof (maint_run_wf _ _ _ _ _ _ _ _ _ W M) as W1; [inversion R; subst; exact W1|apply (IH _ _ _ _ _ _ _ W1 R)].
    + destruct (maint_run h k false g olds news H) as [H1 [x|]] eqn:M;
        pose proof (maint_run_wf _ _ _ _ _ _ _ _ _ W M) as W1; [inversion R; subst; exact W1|apply (IH _ _ _ _ _ _ _ W1 R)].
Qed.

Lemma walk_plan_add_wf p H H' e : wfH H -> walk_plan p false H = (H', e) -> wfH H'.
Proof.
  intros [P U] W. destruct p as [es sf]. unfold walk_plan in W.
  destruct (exec_add es H []) as (H1 & E1 & C1 & P1). rewrite E1 in W. cbn [app] in W.
  pose proof (exec_uniq _ _ _ _ _ _ _ U E1) as U1. destruct sf.
  - destruct (undo_restores false es H1 (P1 P)) as (H2 & X & P2 & _).
    { intros _ o c. rewrite C1. lia. }
    rewrite X in W. inversion W; subst. split; [exact P2|apply (undo_uniq _ _ _ _ _ U1 X)].
  - inversion W; subst. split; [apply P1, P|exact U1].
Qed.
Lemma run_ta_notifiers_wf h s x f : forall ns H calls H' calls' e, wfH H ->
  run_ta_notifiers h s x f ns H calls = (H', calls', e) -> wfH H'.
Proof.
  induction ns as [|n r IH]; intros H calls H' calls' e W R; cbn [run_ta_notifiers] in R.
  - inversion R; subst. exact W.
  - destruct n as [k rc|m g k|i]; try (apply (IH _ _ _ _ _ W R)).
    destruct m; try (apply (IH _ _ _ _ _ W R)).
    destruct g as [[f' nt opt|c nt opt] cs]; try (apply (IH _ _ _ _ _ W R)).
    destruct (alive s k && Nat.eqb f' f); [|apply (IH _ _ _ _ _ W R)].
    destruct (walk_plan (plan_restricted h k (G (NNamed f' nt opt) cs) x) false H) as [H1 [y|]] eqn:Wp;
      pose proof (walk_plan_add_wf _ _ _ _ W Wp) as W1; [inversion R; subst; exact W1|apply (IH _ _ _ _ _ W1 R)].
Qed.

Lemma dstep_wf d o d' ob : wfH (st_hooks (d_st d)) -> dstep d o = (d', ob) -> wfH (st_hooks (d_st d')).
Proof.
  intros W S. destruct o as [o|x f v|c v removed added fired|x f v]; cbn [dstep] in S.
  - destruct (step (d_heap d) (d_st d) o) as [s' ob'] eqn:St. inversion S; subst. cbn [d_st].
    apply (step_wf _ _ _ _ _ W St).
  - destruct (run_notifiers _ _ _ _ _ _ _ _) as [[H calls] e] eqn:R. inversion S; subst. cbn [d_st with_hooks st_hooks].
    apply (run_notifiers_wf _ _ _ _ _ _ _ _ _ _ _ W R).
  - destruct fired.
    + destruct (run_notifiers _ _ _ _ _ _ _ _) as [[H calls] e] eqn:R. inversion S; subst. cbn [d_st with_hooks st_hooks].
      apply (run_notifiers_wf _ _ _ _ _ _ _ _ _ _ _ W R).
    + inversion S; subst. exact W.
  - destruct (has_trait (d_heap d) x f); [inversion S; subst; exact W|].
    destruct (run_ta_notifiers _ _ _ _ _ _ _) as [[H calls] e] eqn:R. inversion S; subst. cbn [d_st with_hooks st_hooks].
    apply (run_ta_notifiers_wf _ _ _ _ _ _ _ _ _ _ W R).
Qed.

Fixpoint drun (d : dstate) (ops : list dop) : list (dop * obs) * dstate :=
  match ops with
  | [] => ([], d)
  | o :: r => let '(d1, ob) := dstep d o in let '(tr, d2) := drun d1 r in ((o, ob) :: tr, d2)
  end.

Lemma drun_wf : forall ops d tr d', wfH (st_hooks (d_st d)) -> drun d ops = (tr, d') -> wfH (st_hooks (d_st d')).
Proof.
  induction ops as [|o ops IH]; intros d tr d' W R; cbn [drun] in R.
  - inversion R; subst. exact W.
  - destruct (dstep d o) as [d1 ob] eqn:S. destruct (drun d1 ops) as [tr1 d2] eqn:R1. inversion R; subst.
    apply (IH _ _ _ (dstep_wf _ _ _ _ W S) R1).
Qed.

(* hence: at any point of any history with heap mutations, a raising registration or removal leaves
   every notifier list a permutation of what it was *)
Lemma failure_atomic_dyn : forall ops d tr d1 o d2 ob,
  wfH (st_hooks (d_st d)) -> drun d ops = (tr, d1) -> dstep d1 (DStatic o) = (d2, ob) -> o_out ob <> None ->
  forall o', Permutation (st_hooks (d_st d2) o') (st_hooks (d_st d1) o').
Proof.
  intros ops d tr d1 o d2 ob W R S N. pose proof (drun_wf _ _ _ _ W R) as W1.
  cbn [dstep] in S. destruct (step (d_heap d1) (d_st d1) o) as [s' ob'] eqn:St. inversion S; subst. cbn [d_st].
  apply (failure_atomic_perm _ _ _ _ _ W1 St N).
Qed.
