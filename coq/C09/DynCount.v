(* C09 — the counting theorems lifted from static heaps to histories that reassign Instance links
   (Dyn.DSetLink) between registrations: under acyclicity of the reassigned slot and structural validity
   of the live registrations on the new heap, the maintainers found on the slot re-hook exactly what the
   live registrations plan on the new heap, so that at every moment
        every count of every notifier list = what the live registrations plan ON THE CURRENT HEAP.   *)
From Coq Require Import List Arith Bool PeanoNat Lia Permutation.
From TV Require Import C09.Model C09.Dyn C09.Law C09.Proofs C09.LawProofs C09.DynProofs.
Import ListNotations.

Fixpoint lsum {A} (F : A -> nat) (l : list A) : nat :=
  match l with [] => 0 | a :: r => F a + lsum F r end.
Lemma lsum_app {A} (F : A -> nat) a b : lsum F (a ++ b) = lsum F a + lsum F b.
Proof. induction a; cbn; lia. Qed.
Lemma lsum_ext {A} (F G : A -> nat) l : (forall a, In a l -> F a = G a) -> lsum F l = lsum G l.
Proof.
  induction l as [|a l IH]; intros E; [reflexivity|]. cbn. rewrite (E a (or_introl eq_refl)), IH; [reflexivity|].
  intros; apply E; right; assumption.
Qed.
Lemma lsum_plus {A} (F G : A -> nat) l : lsum (fun a => F a + G a) l = lsum F l + lsum G l.
Proof. induction l; cbn; lia. Qed.
Lemma lsum_zero {A} (F : A -> nat) l : (forall a, In a l -> F a = 0) -> lsum F l = 0.
Proof. intros Z. rewrite (lsum_ext F (fun _ => 0) l Z). clear Z. induction l; cbn; auto. Qed.
Lemma lsum_le {A} (F G : A -> nat) l : (forall a, In a l -> F a <= G a) -> lsum F l <= lsum G l.
Proof.
  induction l as [|a l IH]; intros E; [cbn; lia|]. cbn. specialize (E a (or_introl eq_refl)) as E1.
  assert (lsum F l <= lsum G l) by (apply IH; intros; apply E; right; assumption). lia.
Qed.
Lemma lsum_flat_map {A B} (F : B -> nat) (g : A -> list B) l : lsum F (flat_map g l) = lsum (fun a => lsum F (g a)) l.
Proof. induction l; cbn; [reflexivity|]. rewrite lsum_app. lia. Qed.

(* exact count of a loop of plans *)
Lemma pl_all_ecnt {A} o c (f : A -> pl) l : snd (pl_all f l) = false ->
  ecnt o c (fst (pl_all f l)) = lsum (fun a => ecnt o c (fst (f a))) l.
Proof.
  induction l as [|b l IH]; intros F; [reflexivity|].
  change (pl_all f (b :: l)) with (pseq (f b) (pl_all f l)) in *. apply pseq_flag_false in F.
  destruct F as [Fb Fl]. rewrite (pseq_ecnt o c _ _ Fb), (IH Fl). reflexivity.
Qed.
Lemma pl_all_ext_in {A} (f g : A -> pl) l : (forall a, In a l -> f a = g a) -> pl_all f l = pl_all g l.
Proof.
  induction l as [|b l IH]; intros E; [reflexivity|].
  change (pl_all f (b :: l)) with (pseq (f b) (pl_all f l)). change (pl_all g (b :: l)) with (pseq (g b) (pl_all g l)).
  rewrite (E b (or_introl eq_refl)), IH; [reflexivity|]. intros; apply E; right; assumption.
Qed.

(* the objects the children of a node are applied to (none when the node raises or is skipped) *)
Definition nexts (h : heap) (n : node) (x : oid) : list oid :=
  match objects h n x with Some ys => ys | None => [] end.

(* what a node hooks on x itself: user notifier, maintainers, trait_added maintainer *)
Definition loc1 (h : heap) (k : key) (n : node) (x : oid) (o : obsv) (c : ckey) : nat :=
  ecnt o c (fst (if node_notify n then
                   match observables h n x with None => p_fail | Some os => p_ok (map (fun o => (o, AUser k)) os) end
                 else p_ok [])).
Definition loc2 (h : heap) (k : key) (n : node) (cs : list graph) (x : oid) (o : obsv) (c : ckey) : nat :=
  ecnt o c (fst (match observables h n x with
                 | None => p_fail
                 | Some os => p_ok (flat_map (fun o => map (fun c => (o, AMaint (node_mk n) c k)) cs) os)
                 end)).
Definition loc4 (h : heap) (k : key) (g : graph) (x : oid) (o : obsv) (c : ckey) : nat :=
  ecnt o c (fst (match g with
                 | G (NNamed _ _ opt) _ => if is_ht h x then p_ok [((x, F_TA), AMaint MTA g k)]
                                           else if opt then p_ok [] else p_fail
                 | G (NItems _ _ _) _ => p_ok []
                 end)).
Definition loc (h : heap) (k : key) (g : graph) (x : oid) (o : obsv) (c : ckey) : nat :=
  match g with G n cs => loc1 h k n x o c + loc2 h k n cs x o c + loc4 h k g x o c end.

Definition pcount (h : heap) (k : key) (g : graph) (x : oid) (o : obsv) (c : ckey) : nat :=
  ecnt o c (fst (plan h k false g x)).

Lemma plan_cnt h k n cs x o c : snd (plan h k false (G n cs) x) = false ->
  pcount h k (G n cs) x o c
  = loc h k (G n cs) x o c + lsum (fun ch => lsum (fun y => pcount h k ch y o c) (nexts h n x)) cs.
Proof.
  unfold pcount. intros F. cbn [plan] in *.
  apply pseq_flag_false in F. destruct F as [F1 F]. apply pseq_flag_false in F. destruct F as [F2 F].
  apply pseq_flag_false in F. destruct F as [F3 F4].
  rewrite (pseq_ecnt _ _ _ _ F1), (pseq_ecnt _ _ _ _ F2), (pseq_ecnt _ _ _ _ F3).
  rewrite (pl_all_ecnt _ _ _ _ F3).
  match goal with |- context [lsum ?F cs] =>
    rewrite (lsum_ext F (fun ch => lsum (fun y => ecnt o c (fst (plan h k false ch y))) (nexts h n x)) cs) end.
  - unfold loc. fold (loc1 h k n x o c). fold (loc2 h k n cs x o c).
    assert (forall a b s d, a + (b + (s + d)) = a + b + d + s) as R by (intros; lia). rewrite R. f_equal; try (f_equal; unfold loc4; destruct n; reflexivity).
  - intros ch Hch. pose proof (pl_all_flag _ _ F3 ch Hch) as Fc. unfold nexts. cbn beta in *.
    destruct (objects h n x) as [ys|]; [|discriminate Fc]. apply (pl_all_ecnt _ _ _ _ Fc).
Qed.

(* all sub-walks of a structurally valid walk are structurally valid *)
Lemma plan_sub_flag h k n cs x : snd (plan h k false (G n cs) x) = false ->
  forall ch y, In ch cs -> In y (nexts h n x) -> snd (plan h k false ch y) = false.
Proof.
  intros F ch y Hch Hy. cbn [plan] in F.
  apply pseq_flag_false in F. destruct F as [_ F]. apply pseq_flag_false in F. destruct F as [_ F].
  apply pseq_flag_false in F. destruct F as [F3 _]. pose proof (pl_all_flag _ _ F3 ch Hch) as Fc.
  unfold nexts in Hy. destruct (objects h n x) as [ys|]; [|destruct Hy]. apply (pl_all_flag _ _ Fc y Hy).
Qed.

Lemma ecnt_map_maint sg mk0 c0 k o' mk cs :
  ecnt sg (CK (AMaint mk0 c0 k)) (map (fun c => (o', AMaint mk c k)) cs)
  = if obsv_eqb o' sg && mkind_eqb mk mk0 then lsum (fun ch => b2n (graph_eqb ch c0)) cs else 0.
Proof.
  induction cs as [|ch cs IH]; cbn [map ecnt lsum]; [destruct (_ && _); reflexivity|].
  rewrite IH. unfold eind. cbn [fst snd ckey_eqb akey_eqb]. rewrite key_eqb_refl, andb_true_r.
  destruct (obsv_eqb o' sg); cbn [andb]; [|reflexivity].
  destruct (mkind_eqb mk mk0); cbn [andb]; [|reflexivity]. reflexivity.
Qed.

Section Link.
  Variable h : heap.
  Variable x0 : oid.
  Variable f0 : fname.
  Variable news : list oid.
  Let h' := set_links h x0 f0 news.
  Let olds := links h x0 f0.

  (* the node hooks the reassigned slot *)
  Definition hits (n : node) (x : oid) : bool :=
    match n with
    | NNamed f _ _ => has_trait h x f && (Nat.eqb x x0 && Nat.eqb f f0)
    | NItems _ _ _ => false
    end.
  (* the walk of g from x reaches the slot *)
  Fixpoint visits (g : graph) (x : oid) {struct g} : bool :=
    match g with
    | G n cs => hits n x || existsb (fun c => existsb (fun y => visits c y) (nexts h n x)) cs
    end.

  Lemma objects_new n x : objects h' n x = if hits n x then Some news else objects h n x.
  Proof.
    destruct n as [f nt opt|ck nt opt]; cbn [objects hits]; [|reflexivity].
    unfold h'. cbn [has_trait links set_links]. destruct (has_trait h x f); cbn [andb]; [|reflexivity].
    destruct (Nat.eqb x x0 && Nat.eqb f f0); reflexivity.
  Qed.
  Lemma objects_old n x : hits n x = true -> objects h n x = Some olds.
  Proof.
    destruct n as [f nt opt|ck nt opt]; cbn [objects hits]; [|discriminate]. intros H.
    apply andb_true_iff in H. destruct H as [T Q]. apply andb_true_iff in Q. destruct Q as [Qx Qf].
    apply Nat.eqb_eq in Qx. apply Nat.eqb_eq in Qf. subst. rewrite T. reflexivity.
  Qed.
  Lemma nexts_new n x : nexts h' n x = if hits n x then news else nexts h n x.
  Proof. unfold nexts. rewrite objects_new. destruct (hits n x); reflexivity. Qed.
  Lemma nexts_old n x : hits n x = true -> nexts h n x = olds.
  Proof. intros H. unfold nexts. rewrite (objects_old _ _ H). reflexivity. Qed.
  Lemma loc_same k g x o c : loc h' k g x o c = loc h k g x o c.
  Proof. destruct g. reflexivity. Qed.

  (* frame: a walk that does not reach the slot plans the same on both heaps *)
  Lemma plan_frame k rm g : forall x, visits g x = false -> plan h' k rm g x = plan h k rm g x.
  Proof.
    induction g as [n cs IH] using graph_ind'. intros x V. rewrite Forall_forall in IH. cbn [visits] in V.
    apply orb_false_iff in V. destruct V as [Hh Vc]. cbn [plan].
    assert (pl_all (fun c => match objects h' n x with
                             | Some ys => pl_all (fun y => plan h' k rm c y) ys | None => p_fail end) cs
            = pl_all (fun c => match objects h n x with
                               | Some ys => pl_all (fun y => plan h k rm c y) ys | None => p_fail end) cs) as E.
    { apply pl_all_ext_in. intros c Hc. rewrite objects_new, Hh.
      destruct (objects h n x) as [ys|] eqn:O; [|reflexivity]. apply pl_all_ext_in. intros y Hy.
      apply (IH c Hc). destruct (visits c y) eqn:Vy; [|reflexivity].
      assert (existsb (fun c0 => existsb (fun y0 => visits c0 y0) (nexts h n x)) cs = true); [|congruence].
      apply existsb_exists. exists c. split; [exact Hc|]. apply existsb_exists. exists y.
      split; [unfold nexts; rewrite O; exact Hy|exact Vy]. }
    rewrite E. reflexivity.
  Qed.

  (* the child graphs of the maintainers a walk places on the slot *)
  Fixpoint moc (g : graph) (x : oid) {struct g} : list graph :=
    match g with
    | G n cs => (if hits n x then cs else []) ++ flat_map (fun c => flat_map (fun y => moc c y) (nexts h n x)) cs
    end.

  Lemma moc_nil g : forall x, visits g x = false -> moc g x = [].
  Proof.
    induction g as [n cs IH] using graph_ind'. intros x V. rewrite Forall_forall in IH. cbn [visits moc] in *.
    apply orb_false_iff in V. destruct V as [Hh Vc]. rewrite Hh. cbn [app].
    induction cs as [|c cs IHcs]; [reflexivity|]. cbn [flat_map existsb] in *.
    apply orb_false_iff in Vc. destruct Vc as [Vy Vcs].
    rewrite IHcs; [|intros; apply IH; [right; assumption|assumption]|exact Vcs]. rewrite app_nil_r.
    clear IHcs Vcs. induction (nexts h n x) as [|y ys IHy]; [reflexivity|]. cbn [flat_map existsb] in *.
    apply orb_false_iff in Vy. destruct Vy as [V1 V2]. rewrite (IH c (or_introl eq_refl) y V1), IHy; auto.
  Qed.

  (* acyclicity of the reassignment: the slot is reached neither from its old nor from its new value *)
  Definition acyclic : Prop := forall ch y, In y olds \/ In y news -> visits ch y = false.

  (* the substitution theorem: re-hooking the children of the maintainers found on the slot from the old value
     to the new one turns the plan on the old heap into the plan on the new heap *)
  Lemma subst k o c (A : acyclic) g : forall x,
    snd (plan h k false g x) = false -> snd (plan h' k false g x) = false ->
    pcount h' k g x o c + lsum (fun ch => lsum (fun y => pcount h' k ch y o c) olds) (moc g x)
    = pcount h k g x o c + lsum (fun ch => lsum (fun y => pcount h' k ch y o c) news) (moc g x).
  Proof.
    induction g as [n cs IH] using graph_ind'. intros x F F'. rewrite Forall_forall in IH.
    rewrite (plan_cnt h' k n cs x o c F'), (plan_cnt h k n cs x o c F), loc_same, nexts_new.
    cbn [moc]. rewrite !lsum_app, !lsum_flat_map.
    destruct (hits n x) eqn:Hh.
    - rewrite (nexts_old _ _ Hh).
      assert (forall (G : graph -> nat), lsum (fun a => lsum G (flat_map (fun y => moc a y) olds)) cs = 0) as Z.
      { intros G. apply lsum_zero. intros a _. rewrite lsum_flat_map. apply lsum_zero. intros y Hy.
        rewrite (moc_nil a y (A a y (or_introl Hy))). reflexivity. }
      rewrite !Z, !Nat.add_0_r.
      assert (lsum (fun ch => lsum (fun y => pcount h k ch y o c) olds) cs
              = lsum (fun ch => lsum (fun y => pcount h' k ch y o c) olds) cs) as E.
      { apply lsum_ext. intros ch _. apply lsum_ext. intros y Hy. unfold pcount.
        rewrite (plan_frame k false ch y (A ch y (or_introl Hy))). reflexivity. }
      rewrite E. lia.
    - cbn [lsum]. rewrite !Nat.add_0_l.
      assert (forall ch y, In ch cs -> In y (nexts h n x) ->
                pcount h' k ch y o c + lsum (fun c1 => lsum (fun y1 => pcount h' k c1 y1 o c) olds) (moc ch y)
                = pcount h k ch y o c + lsum (fun c1 => lsum (fun y1 => pcount h' k c1 y1 o c) news) (moc ch y)) as Sub.
      { intros ch y Hch Hy. apply (IH ch Hch y).
        - apply (plan_sub_flag h k n cs x F ch y Hch Hy).
        - apply (plan_sub_flag h' k n cs x F' ch y Hch). rewrite nexts_new, Hh. exact Hy. }
      assert (lsum (fun ch => lsum (fun y => pcount h' k ch y o c) (nexts h n x)) cs
              + lsum (fun a => lsum (fun ch => lsum (fun y => pcount h' k ch y o c) olds)
                                    (flat_map (fun y => moc a y) (nexts h n x))) cs
              = lsum (fun ch => lsum (fun y => pcount h k ch y o c) (nexts h n x)) cs
                + lsum (fun a => lsum (fun ch => lsum (fun y => pcount h' k ch y o c) news)
                                      (flat_map (fun y => moc a y) (nexts h n x))) cs) as E.
      { rewrite <- !lsum_plus. apply lsum_ext. intros ch Hch. rewrite !lsum_flat_map, <- !lsum_plus.
        apply lsum_ext. intros y Hy. apply (Sub ch y Hch Hy). }
      lia.
  Qed.

  (* what the maintainers on the slot un-hook is part of what was planned on the old heap *)
  Lemma olds_included k o c (A : acyclic) g : forall x, snd (plan h k false g x) = false ->
    lsum (fun ch => lsum (fun y => pcount h k ch y o c) olds) (moc g x) <= pcount h k g x o c.
  Proof.
    induction g as [n cs IH] using graph_ind'. intros x F. rewrite Forall_forall in IH.
    rewrite (plan_cnt h k n cs x o c F). cbn [moc]. rewrite lsum_app, lsum_flat_map.
    destruct (hits n x) eqn:Hh.
    - rewrite (nexts_old _ _ Hh).
      assert (lsum (fun a => lsum (fun ch => lsum (fun y => pcount h k ch y o c) olds)
                                  (flat_map (fun y => moc a y) olds)) cs = 0) as Z.
      { apply lsum_zero. intros a _. rewrite lsum_flat_map. apply lsum_zero. intros y Hy.
        rewrite (moc_nil a y (A a y (or_introl Hy))). reflexivity. }
      rewrite Z. lia.
    - cbn [lsum].
      assert (lsum (fun a => lsum (fun ch => lsum (fun y => pcount h k ch y o c) olds)
                                  (flat_map (fun y => moc a y) (nexts h n x))) cs
              <= lsum (fun ch => lsum (fun y => pcount h k ch y o c) (nexts h n x)) cs) as L.
      { apply lsum_le. intros ch Hch. rewrite lsum_flat_map. apply lsum_le. intros y Hy.
        apply (IH ch Hch y). apply (plan_sub_flag h k n cs x F ch y Hch Hy). }
      lia.
  Qed.

  (* the MNamed maintainers a walk places on the slot are exactly [moc] *)
  Lemma maint_on_slot k c0 g : forall x, snd (plan h k false g x) = false ->
    pcount h k g x (x0, f0) (CK (AMaint MNamed c0 k)) = lsum (fun ch => b2n (graph_eqb ch c0)) (moc g x).
  Proof.
    induction g as [n cs IH] using graph_ind'. intros x F. rewrite Forall_forall in IH.
    rewrite (plan_cnt h k n cs x _ _ F). cbn [moc]. rewrite lsum_app, lsum_flat_map.
    assert (lsum (fun ch => lsum (fun y => pcount h k ch y (x0, f0) (CK (AMaint MNamed c0 k))) (nexts h n x)) cs
            = lsum (fun a => lsum (fun ch => b2n (graph_eqb ch c0)) (flat_map (fun y => moc a y) (nexts h n x))) cs) as E.
    { apply lsum_ext. intros ch Hch. rewrite lsum_flat_map. apply lsum_ext. intros y Hy.
      apply (IH ch Hch y). apply (plan_sub_flag h k n cs x F ch y Hch Hy). }
    rewrite E. f_equal. clear E IH.
    unfold loc, loc1, loc2, loc4.
    assert (forall es, (forall e, In e es -> match snd e with AMaint MNamed _ _ => False | _ => True end) ->
                       ecnt (x0, f0) (CK (AMaint MNamed c0 k)) es = 0) as Zero.
    { intros es Hes. destruct (Nat.eq_dec (ecnt (x0, f0) (CK (AMaint MNamed c0 k)) es) 0) as [Z|Z]; [exact Z|].
      destruct (ecnt_pos_in (x0, f0) (CK (AMaint MNamed c0 k)) es) as (e & He & _ & Ek); [lia|]. specialize (Hes e He). inversion Ek as [Ek'].
      rewrite Ek' in Hes. destruct Hes. }
    rewrite (Zero (fst (if node_notify n then _ else _))).
    2:{ intros e He. destruct (node_notify n); [|destruct He]. destruct (observables h n x); [|destruct He].
        cbn in He. apply in_map_iff in He. destruct He as (o' & <- & _). exact I. }
    rewrite (Zero (fst (match G n cs with G (NNamed _ _ opt) _ => _ | G (NItems _ _ _) _ => _ end))).
    2:{ intros e He. destruct n as [f nt opt|ck nt opt]; [|destruct He].
        destruct (is_ht h x); [|destruct opt; destruct He]. destruct He as [<-|[]]. exact I. }
    rewrite Nat.add_0_l, Nat.add_0_r.
    destruct n as [f nt opt|ck nt opt]; cbn [observables hits node_mk].
    - destruct (has_trait h x f) eqn:T; cbn [andb].
      + cbn [p_ok fst flat_map]. rewrite app_nil_r, ecnt_map_maint. unfold obsv_eqb. cbn [fst snd mkind_eqb].
        rewrite andb_true_r. destruct (Nat.eqb x x0 && Nat.eqb f f0); reflexivity.
      + destruct opt; reflexivity.
    - destruct (is_cont h x ck).
      + cbn [p_ok fst flat_map]. rewrite app_nil_r, ecnt_map_maint. cbn [mkind_eqb]. rewrite andb_false_r. reflexivity.
      + destruct opt; reflexivity.
  Qed.
End Link.

(* ------------------------------------------------------------------ what a maintainer run does to the counts *)
Lemma me_rm hh k sw c : forall ys H, posH H ->
  (forall y, In y ys -> snd (plan hh k false c y) = false) ->
  (forall o cc, lsum (fun y => pcount hh k c y o cc) ys <= cntH H o cc) ->
  exists H1, maint_each hh k true sw c ys H = (H1, None) /\ posH H1 /\
             forall o cc, cntH H o cc = cntH H1 o cc + lsum (fun y => pcount hh k c y o cc) ys.
Proof.
  induction ys as [|y ys IH]; intros H P F C; cbn [maint_each].
  - exists H. split; [reflexivity|]. split; [exact P|]. intros; cbn; lia.
  - assert (snd (plan hh k false c y) = false) as Fy by (apply F; left; reflexivity).
    destruct (walk_outer_rm_succeeds hh k c y H P) as [H1 W].
    { rewrite plan_rm_flag. exact Fy. }
    { intros o cc. rewrite (plan_rm_cnt _ _ _ _ _ _ Fy). specialize (C o cc). cbn [lsum] in C. unfold pcount, pcnt in *. lia. }
    rewrite W. destruct (walk_outer_spec _ _ _ _ _ _ _ _ P W) as [P1 [_ S1]].
    destruct (IH H1 P1) as (H2 & E2 & P2 & C2).
    { intros; apply F; right; assumption. }
    { intros o cc. specialize (C o cc). specialize (S1 o cc). cbn beta iota in S1.
      rewrite (plan_rm_cnt _ _ _ _ _ _ Fy) in S1. cbn [lsum] in C. unfold pcount, pcnt in *. lia. }
    exists H2. split; [exact E2|]. split; [exact P2|]. intros o cc. specialize (S1 o cc). cbn beta iota in S1.
    rewrite (plan_rm_cnt _ _ _ _ _ _ Fy) in S1. specialize (C2 o cc). cbn [lsum]. unfold pcount, pcnt in *. lia.
Qed.
Lemma me_add hh k c : forall ys H, posH H ->
  (forall y, In y ys -> snd (plan hh k false c y) = false) ->
  exists H1, maint_each hh k false false c ys H = (H1, None) /\ posH H1 /\
             forall o cc, cntH H1 o cc = cntH H o cc + lsum (fun y => pcount hh k c y o cc) ys.
Proof.
  induction ys as [|y ys IH]; intros H P F; cbn [maint_each].
  - exists H. split; [reflexivity|]. split; [exact P|]. intros; cbn; lia.
  - assert (snd (plan hh k false c y) = false) as Fy by (apply F; left; reflexivity).
    destruct (walk_outer_add_succeeds hh k c y H P Fy) as [H1 W]. rewrite W.
    destruct (walk_outer_spec _ _ _ _ _ _ _ _ P W) as [P1 [_ S1]].
    destruct (IH H1 P1) as (H2 & E2 & P2 & C2); [intros; apply F; right; assumption|].
    exists H2. split; [exact E2|]. split; [exact P2|]. intros o cc. specialize (S1 o cc). cbn beta iota in S1.
    specialize (C2 o cc). cbn [lsum]. unfold pcount, pcnt in *. lia.
Qed.

(* the MNamed maintainers of a list, and what all of them un-hook / hook for a link reassignment *)
Definition mrem (hh : heap) (olds : list oid) (o : obsv) (cc : ckey) (n : notifier) : nat :=
  match n with NMaint MNamed c k => lsum (fun y => pcount hh k c y o cc) olds | _ => 0 end.

Lemma run_link_notifiers hh s olds news : dead_handlers s = [] -> dead_objs s = [] ->
  forall ns H calls, posH H ->
  (forall c k, In (NMaint MNamed c k) ns ->
     (forall y, In y olds -> snd (plan hh k false c y) = false) /\
     (forall y, In y news -> snd (plan hh k false c y) = false)) ->
  (forall o cc, lsum (mrem hh olds o cc) ns <= cntH H o cc) ->
  exists H' calls', run_notifiers hh s true ns olds news H calls = (H', calls', None) /\ posH H' /\
    forall o cc, cntH H' o cc + lsum (mrem hh olds o cc) ns = cntH H o cc + lsum (mrem hh news o cc) ns.
Proof.
  intros Dh Do. assert (forall k, alive s k = true) as Al by (intros k; unfold alive; rewrite Dh, Do; reflexivity).
  induction ns as [|n r IH]; intros H calls P F C; cbn [run_notifiers].
  - exists H, calls. split; [reflexivity|]. split; [exact P|]. intros; cbn; lia.
  - assert (forall o cc, lsum (mrem hh olds o cc) r <= cntH H o cc) as Cr.
    { intros o cc. specialize (C o cc). cbn [lsum] in C. lia. }
    assert (forall c k, In (NMaint MNamed c k) r ->
              (forall y, In y olds -> snd (plan hh k false c y) = false) /\
              (forall y, In y news -> snd (plan hh k false c y) = false)) as Fr
        by (intros; apply F; right; assumption).
    destruct n as [k rc|m c k|i].
    + destruct (IH H (if alive s k then calls ++ [k] else calls) P Fr Cr) as (H' & calls' & E & P' & C').
      exists H', calls'. split; [exact E|]. split; [exact P'|]. intros o cc. cbn [lsum mrem]. apply C'.
    + rewrite Al. destruct m.
      * destruct (F c k (or_introl eq_refl)) as [Fo Fn]. unfold maint_run.
        destruct (me_rm hh k true c olds H P Fo) as (H1 & E1 & P1 & C1).
        { intros o cc. specialize (C o cc). cbn [lsum mrem] in C. lia. }
        rewrite E1. destruct (me_add hh k c news H1 P1 Fn) as (H2 & E2 & P2 & C2). rewrite E2.
        destruct (IH H2 calls P2 Fr) as (H' & calls' & E & P' & C').
        { intros o cc. specialize (C o cc). specialize (C1 o cc). specialize (C2 o cc). cbn [lsum mrem] in C. lia. }
        exists H', calls'. split; [exact E|]. split; [exact P'|]. intros o cc.
        specialize (C' o cc). specialize (C1 o cc). specialize (C2 o cc). cbn [lsum mrem]. lia.
      * destruct (IH H calls P Fr Cr) as (H' & calls' & E & P' & C').
        exists H', calls'. split; [exact E|]. split; [exact P'|]. intros o cc. cbn [lsum mrem]. apply C'.
      * destruct (IH H calls P Fr Cr) as (H' & calls' & E & P' & C').
        exists H', calls'. split; [exact E|]. split; [exact P'|]. intros o cc. cbn [lsum mrem]. apply C'.
    + destruct (IH H calls P Fr Cr) as (H' & calls' & E & P' & C').
      exists H', calls'. split; [exact E|]. split; [exact P'|]. intros o cc. cbn [lsum mrem]. apply C'.
Qed.

(* ------------------------------------------------------------------ sums over lists with equal counts *)
Section ByCounts.
  Context {A : Type} (eqb : A -> A -> bool).
  Hypothesis eqb_spec : forall a b, eqb a b = true <-> a = b.
  Definition cntA (a : A) (l : list A) : nat := lsum (fun b => b2n (eqb b a)) l.
  Lemma cntA_pos_in a l : 0 < cntA a l -> In a l.
  Proof.
    induction l as [|b l IH]; cbn [cntA lsum]; [lia|]. destruct (eqb b a) eqn:Q.
    - apply eqb_spec in Q. subst. intros _. left. reflexivity.
    - cbn. intros H. right. apply IH, H.
  Qed.
  Lemma eqb_refl' a : eqb a a = true.
  Proof. apply eqb_spec. reflexivity. Qed.
  Lemma lsum_by_counts (Q : A -> nat) : forall l1 l2, (forall a, cntA a l1 = cntA a l2) -> lsum Q l1 = lsum Q l2.
  Proof.
    induction l1 as [|a r IH]; intros l2 C.
    - destruct l2 as [|b l2]; [reflexivity|]. specialize (C b). cbn [cntA lsum] in C. rewrite eqb_refl' in C. cbn in C. lia.
    - assert (In a l2) as Hin.
      { apply cntA_pos_in. rewrite <- C. cbn [cntA lsum]. rewrite eqb_refl'. cbn. lia. }
      destruct (in_split _ _ Hin) as (u & v & ->). rewrite lsum_app. cbn [lsum].
      rewrite (IH (u ++ v)); [rewrite lsum_app; lia|].
      intros b. specialize (C b). unfold cntA in *. rewrite lsum_app in *. cbn [lsum] in C. lia.
  Qed.
End ByCounts.

Lemma graph_eqb_sym a b : graph_eqb a b = graph_eqb b a.
Proof.
  destruct (graph_eqb a b) eqn:E; symmetry.
  - apply graph_eqb_spec in E. subst. apply graph_eqb_spec. reflexivity.
  - destruct (graph_eqb b a) eqn:F; [|reflexivity]. apply graph_eqb_spec in F. subst.
    assert (graph_eqb a a = true) by (apply graph_eqb_spec; reflexivity). congruence.
Qed.

Definition gk := (graph * key)%type.
Definition gk_eqb (a b : gk) : bool := graph_eqb (fst a) (fst b) && key_eqb (snd a) (snd b).
Lemma gk_eqb_spec a b : gk_eqb a b = true <-> a = b.
Proof.
  destruct a, b. unfold gk_eqb. cbn [fst snd]. rewrite andb_true_iff, graph_eqb_spec, key_eqb_spec.
  split; [intros [-> ->]; reflexivity|intros [= -> ->]; auto].
Qed.
(* the MNamed maintainers of a notifier list *)
Definition ms (ns : list notifier) : list gk :=
  flat_map (fun n => match n with NMaint MNamed c k => [(c, k)] | _ => [] end) ns.
Lemma cnt_ms c k ns : cntA gk_eqb (c, k) (ms ns) = cnt (CK (AMaint MNamed c k)) ns.
Proof.
  unfold cntA. induction ns as [|n r IH]; [reflexivity|]. cbn [ms flat_map cnt]. rewrite lsum_app. fold (ms r). rewrite IH.
  f_equal. destruct n as [k' rc|m g k'|i]; cbn [lsum weight matches]; try reflexivity.
  destruct m; cbn [lsum mkind_eqb andb b2n]; try reflexivity.
  unfold gk_eqb. cbn [fst snd]. rewrite Nat.add_0_r.
  rewrite (graph_eqb_sym g c), (key_eqb_sym k' k). reflexivity.
Qed.

(* ------------------------------------------------------------------ one link reassignment *)
Definition reg := (key * graph * oid)%type.
Definition tot (h : heap) (R : list reg) (o : obsv) (c : ckey) : nat :=
  lsum (fun r : reg => let '(k, g, x) := r in pcount h k g x o c) R.
Definition flags_ok (h : heap) (R : list reg) : Prop :=
  forall k g x, In (k, g, x) R -> snd (plan h k false g x) = false.
(* the hooks are exactly what the live registrations plan on the current heap *)
Definition dinv (h : heap) (H : hooks) (R : list reg) : Prop :=
  posH H /\ (forall o a, cntH H o (CK a) = tot h R o (CK a)) /\ flags_ok h R.

Section LinkStep.
  Variable h : heap.
  Variable x0 : oid.
  Variable f0 : fname.
  Variable news : list oid.
  Let h' := set_links h x0 f0 news.
  Let olds := links h x0 f0.
  Hypothesis A : acyclic h x0 f0 news.

  Lemma moc_flags_new k g : forall x, snd (plan h' k false g x) = false ->
    forall c y, In c (moc h x0 f0 g x) -> In y news -> snd (plan h' k false c y) = false.
  Proof.
    induction g as [n cs IH] using graph_ind'. intros x F c y Hc Hy. rewrite Forall_forall in IH.
    cbn [moc] in Hc. apply in_app_or in Hc. destruct Hc as [Hc|Hc].
    - destruct (hits h x0 f0 n x) eqn:Hh; [|destruct Hc].
      apply (plan_sub_flag h' k n cs x F c y Hc). unfold h'. rewrite nexts_new, Hh. exact Hy.
    - apply in_flat_map in Hc. destruct Hc as (ch & Hch & Hc). apply in_flat_map in Hc. destruct Hc as (z & Hz & Hc).
      destruct (hits h x0 f0 n x) eqn:Hh.
      + rewrite (nexts_old h x0 f0 n x Hh) in Hz. rewrite (moc_nil h x0 f0 ch z (A ch z (or_introl Hz))) in Hc. destruct Hc.
      + apply (IH ch Hch z); [|exact Hc|exact Hy].
        apply (plan_sub_flag h' k n cs x F ch z Hch). unfold h'. rewrite nexts_new, Hh. exact Hz.
  Qed.
  Lemma moc_flags_old k g : forall x, snd (plan h k false g x) = false ->
    forall c y, In c (moc h x0 f0 g x) -> In y olds -> snd (plan h' k false c y) = false.
  Proof.
    induction g as [n cs IH] using graph_ind'. intros x F c y Hc Hy. rewrite Forall_forall in IH.
    cbn [moc] in Hc. apply in_app_or in Hc. destruct Hc as [Hc|Hc].
    - destruct (hits h x0 f0 n x) eqn:Hh; [|destruct Hc]. unfold h'.
      rewrite (plan_frame h x0 f0 news k false c y (A c y (or_introl Hy))).
      apply (plan_sub_flag h k n cs x F c y Hc). rewrite (nexts_old h x0 f0 n x Hh). exact Hy.
    - apply in_flat_map in Hc. destruct Hc as (ch & Hch & Hc). apply in_flat_map in Hc. destruct Hc as (z & Hz & Hc).
      apply (IH ch Hch z); [|exact Hc|exact Hy]. apply (plan_sub_flag h k n cs x F ch z Hch Hz).
  Qed.

  (* the maintainers planned on the slot by all live registrations *)
  Definition slot_maints (R : list reg) : list gk :=
    flat_map (fun r : reg => let '(k, g, x) := r in map (fun ch => (ch, k)) (moc h x0 f0 g x)) R.

  Lemma cnt_slot_maints R c k : flags_ok h R ->
    cntA gk_eqb (c, k) (slot_maints R) = tot h R (x0, f0) (CK (AMaint MNamed c k)).
  Proof.
    intros F. unfold cntA, slot_maints, tot. induction R as [|[[k' g] x] R IH]; [reflexivity|].
    cbn [flat_map lsum]. rewrite lsum_app, IH; [|intros ? ? ? Hin; apply F; right; exact Hin]. f_equal.
    assert (lsum (fun b => b2n (gk_eqb b (c, k))) (map (fun ch => (ch, k')) (moc h x0 f0 g x))
            = if key_eqb k' k then lsum (fun ch => b2n (graph_eqb ch c)) (moc h x0 f0 g x) else 0) as E.
    { induction (moc h x0 f0 g x) as [|ch l IHl]; [cbn; destruct (key_eqb k' k); reflexivity|].
      cbn [map lsum]. rewrite IHl. unfold gk_eqb. cbn [fst snd]. destruct (key_eqb k' k); [rewrite andb_true_r|rewrite andb_false_r]; cbn; lia. }
    rewrite E. destruct (key_eqb k' k) eqn:Q.
    - apply key_eqb_spec in Q. subst k'. symmetry. apply maint_on_slot. apply (F k g x). left. reflexivity.
    - symmetry. apply plan_other_key. cbn [akey_key]. intros Ek. subst. rewrite key_eqb_refl in Q. discriminate.
  Qed.

  Lemma lsum_map {X Y} (F : Y -> nat) (f : X -> Y) l : lsum F (map f l) = lsum (fun a => F (f a)) l.
  Proof. induction l; cbn; congruence. Qed.
  Lemma mrem_ms hh ys o cc ns :
    lsum (mrem hh ys o cc) ns = lsum (fun p : gk => lsum (fun y => pcount hh (snd p) (fst p) y o cc) ys) (ms ns).
  Proof.
    induction ns as [|n r IH]; [reflexivity|]. cbn [lsum ms flat_map]. rewrite lsum_app. fold (ms r). rewrite IH. f_equal.
    destruct n as [k rc|m c k|i]; try reflexivity. destruct m; cbn; lia.
  Qed.
  Lemma slot_sum (Q : key -> graph -> nat) R :
    lsum (fun p : gk => Q (snd p) (fst p)) (slot_maints R)
    = lsum (fun r : reg => let '(k, g, x) := r in lsum (fun ch => Q k ch) (moc h x0 f0 g x)) R.
  Proof.
    unfold slot_maints. rewrite lsum_flat_map. apply lsum_ext. intros [[k g] x] _. rewrite lsum_map. reflexivity.
  Qed.
  Lemma in_cnt_pos n l : posb l = true -> In n l -> 0 < cnt (ckey_of n) l.
  Proof.
    intros P Hin. destruct (in_split _ _ Hin) as (l1 & l2 & ->). rewrite cnt_mid.
    destruct (posb_mid _ _ _ P) as [Pn _]. pose proof (weight_own n Pn). lia.
  Qed.

  Theorem link_step R H s : dinv h H R -> flags_ok h' R ->
    dead_handlers s = [] -> dead_objs s = [] ->
    exists H' calls, run_notifiers h' s true (H (x0, f0)) olds news H [] = (H', calls, None) /\ dinv h' H' R.
  Proof.
    intros (P & Inv & F) F' Dh Do.
    (* the maintainers found on the slot are those the registrations planned there *)
    assert (forall Q : key -> graph -> nat,
              lsum (fun p : gk => Q (snd p) (fst p)) (ms (H (x0, f0)))
              = lsum (fun r : reg => let '(k, g, x) := r in lsum (fun ch => Q k ch) (moc h x0 f0 g x)) R) as Sum.
    { intros Q. rewrite <- slot_sum. apply (lsum_by_counts gk_eqb gk_eqb_spec). intros [c k].
      rewrite cnt_ms, (cnt_slot_maints R c k F). apply Inv. }
    assert (forall c k, In (NMaint MNamed c k) (H (x0, f0)) ->
              exists g x, In (k, g, x) R /\ In c (moc h x0 f0 g x)) as Src.
    { intros c k Hin. pose proof (in_cnt_pos _ _ (P (x0, f0)) Hin) as Pos. cbn [ckey_of] in Pos.
      change (cnt (CK (AMaint MNamed c k)) (H (x0, f0))) with (cntH H (x0, f0) (CK (AMaint MNamed c k))) in Pos.
      rewrite Inv, <- (cnt_slot_maints R c k F) in Pos.
      apply (cntA_pos_in gk_eqb gk_eqb_spec) in Pos. unfold slot_maints in Pos. apply in_flat_map in Pos.
      destruct Pos as ([[k' g] x] & Hr & Hm). apply in_map_iff in Hm. destruct Hm as (ch & E & Hch).
      inversion E; subst. exists g, x. split; assumption. }
    destruct (run_link_notifiers h' s olds news Dh Do (H (x0, f0)) H [] P) as (H' & calls & E & P' & C).
    { intros c k Hin. destruct (Src c k Hin) as (g & x & Hr & Hc). split; intros y Hy.
      - apply (moc_flags_old k g x (F k g x Hr) c y Hc Hy).
      - apply (moc_flags_new k g x (F' k g x Hr) c y Hc Hy). }
    { intros o cc. rewrite mrem_ms, (Sum (fun k ch => lsum (fun y => pcount h' k ch y o cc) olds)).
      destruct cc as [a|i].
      - rewrite Inv. unfold tot. apply lsum_le. intros [[k g] x] Hr.
        eapply Nat.le_trans; [|apply (olds_included h x0 f0 news k o (CK a) A g x (F k g x Hr))].
        apply Nat.eq_le_incl. apply lsum_ext. intros ch _. apply lsum_ext. intros y Hy. unfold pcount, h'.
        rewrite (plan_frame h x0 f0 news k false ch y (A ch y (or_introl Hy))). reflexivity.
      - rewrite lsum_zero; [lia|]. intros [[k g] x] _. apply lsum_zero. intros ch _. apply lsum_zero. intros y _.
        apply plan_no_foreign. }
    exists H', calls. split; [exact E|]. split; [exact P'|]. split; [|exact F'].
    intros o a. specialize (C o (CK a)).
    rewrite !mrem_ms in C.
    rewrite (Sum (fun k ch => lsum (fun y => pcount h' k ch y o (CK a)) olds)) in C.
    rewrite (Sum (fun k ch => lsum (fun y => pcount h' k ch y o (CK a)) news)) in C.
    rewrite Inv in C.
    assert (tot h' R o (CK a)
            + lsum (fun r : reg => let '(k, g, x) := r in
                                   lsum (fun ch => lsum (fun y => pcount h' k ch y o (CK a)) olds) (moc h x0 f0 g x)) R
            = tot h R o (CK a)
              + lsum (fun r : reg => let '(k, g, x) := r in
                                     lsum (fun ch => lsum (fun y => pcount h' k ch y o (CK a)) news) (moc h x0 f0 g x)) R) as S.
    { unfold tot. rewrite <- !lsum_plus. apply lsum_ext. intros [[k g] x] Hr.
      apply (subst h x0 f0 news k o (CK a) A g x (F k g x Hr) (F' k g x Hr)). }
    lia.
  Qed.
End LinkStep.

(* ------------------------------------------------------------------ static steps under the invariant *)
Lemma pcount_foreign h k g x o i : pcount h k g x o (CF i) = 0.
Proof. apply plan_no_foreign. Qed.

Lemma register_step h H R x hd dp g s s' ob : dinv h H R -> st_hooks s = H ->
  step h s (Register x hd dp [g]) = (s', ob) ->
  dinv h (st_hooks s') (if is_none (o_out ob) then ((hd, x, dp), g, x) :: R else R).
Proof.
  intros (P & Inv & F) <- S. destruct (step_spec _ _ _ _ _ P S) as [P' Q]. cbn beta iota in Q.
  destruct (register_outcome _ _ _ _ _ _ _ _ P S) as [RO _].
  destruct (o_out ob) as [y|] eqn:E; cbn [is_none].
  - destruct Q as [Q _]. split; [exact P'|]. split; [|exact F]. intros o a. rewrite (Q o (CK a)). apply Inv.
  - split; [exact P'|]. split.
    + intros o a. specialize (Q o (CK a)). cbn beta iota in Q. cbn [gsum] in Q. unfold tot. cbn [lsum].
      rewrite Q, Inv. unfold tot, pcount, pcnt. lia.
    + intros k' g' x' [Eq|Hin]; [inversion Eq; subst; apply (proj1 RO eq_refl); left; reflexivity|apply (F _ _ _ Hin)].
Qed.

Definition reg_eqb (a b : reg) : bool :=
  let '(k, g, x) := a in let '(k', g', x') := b in key_eqb k k' && graph_eqb g g' && Nat.eqb x x'.
Fixpoint remove_reg (r : reg) (R : list reg) : list reg :=
  match R with [] => [] | a :: R' => if reg_eqb r a then R' else a :: remove_reg r R' end.
Lemma reg_eqb_spec a b : reg_eqb a b = true <-> a = b.
Proof.
  destruct a as [[k g] x], b as [[k' g'] x']. cbn. rewrite !andb_true_iff, key_eqb_spec, graph_eqb_spec, Nat.eqb_eq.
  split; [intros [[-> ->] ->]; reflexivity|intros [= -> -> ->]; auto].
Qed.
Lemma tot_remove h r R o c : In r R ->
  tot h R o c = (let '(k, g, x) := r in pcount h k g x o c) + tot h (remove_reg r R) o c.
Proof.
  induction R as [|a R IH]; intros Hin; [destruct Hin|]. cbn [remove_reg]. destruct (reg_eqb r a) eqn:Q.
  - apply reg_eqb_spec in Q. subst. reflexivity.
  - destruct Hin as [->|Hin]; [rewrite (proj2 (reg_eqb_spec r r) eq_refl) in Q; discriminate|].
    unfold tot in *. cbn [lsum]. rewrite (IH Hin). lia.
Qed.
Lemma in_remove_reg r a R : In a (remove_reg r R) -> In a R.
Proof.
  induction R as [|b R IH]; [intros []|]. cbn [remove_reg]. destruct (reg_eqb r b); [right; assumption|].
  intros [->|H]; [left; reflexivity|right; apply IH, H].
Qed.

(* the removal of a live registration always succeeds and leaves exactly the others *)
Lemma unregister_step h H R x hd dp g s s' ob : dinv h H R -> st_hooks s = H ->
  In ((hd, x, dp), g, x) R ->
  step h s (Unregister x hd dp [g]) = (s', ob) ->
  o_out ob = None /\ dinv h (st_hooks s') (remove_reg ((hd, x, dp), g, x) R).
Proof.
  intros (P & Inv & F) <- Hin S. set (k := (hd, x, dp)) in *.
  assert (snd (plan h k false g x) = false) as Fg by (apply (F k g x Hin)).
  destruct (walk_outer_rm_succeeds h k g x (st_hooks s) P) as [H1 W].
  { rewrite plan_rm_flag. exact Fg. }
  { intros o c. rewrite (plan_rm_cnt _ _ _ _ _ _ Fg). destruct c as [a|i].
    - rewrite Inv, (tot_remove h (k, g, x) R o (CK a) Hin). unfold pcount, pcnt. lia.
    - unfold pcnt. rewrite plan_no_foreign. lia. }
  cbn [step] in S. unfold apply_observers in S. cbn [apply_loop] in S. fold k in S. rewrite W in S.
  inversion S; subst s' ob. cbn [o_out st_hooks]. split; [reflexivity|].
  destruct (walk_outer_spec _ _ _ _ _ _ _ _ P W) as [P1 [_ S1]]. split; [exact P1|]. split.
  - intros o a. specialize (S1 o (CK a)). cbn beta iota in S1. rewrite (plan_rm_cnt _ _ _ _ _ _ Fg) in S1.
    rewrite Inv, (tot_remove h (k, g, x) R o (CK a) Hin) in S1. unfold pcount, pcnt in *. lia.
  - intros k' g' x' Hr. apply (F k' g' x'). apply (in_remove_reg _ _ _ Hr).
Qed.

(* ------------------------------------------------------------------ histories *)
Inductive cop :=
| CReg (x : oid) (hd dp : nat) (g : graph)
| CUnreg (x : oid) (hd dp : nat) (g : graph)
| CChange (o : oid) (f : fname)
| CLink (x0 : oid) (f0 : fname) (news : list oid).
Definition dop_of (c : cop) : dop :=
  match c with
  | CReg x hd dp g => DStatic (Register x hd dp [g])
  | CUnreg x hd dp g => DStatic (Unregister x hd dp [g])
  | CChange o f => DStatic (Change o f)
  | CLink x0 f0 v => DSetLink x0 f0 v
  end.
(* the live registrations after a step *)
Definition live_after (R : list reg) (c : cop) (ob : obs) : list reg :=
  match c with
  | CReg x hd dp g => if is_none (o_out ob) then ((hd, x, dp), g, x) :: R else R
  | CUnreg x hd dp g => if is_none (o_out ob) then remove_reg ((hd, x, dp), g, x) R else R
  | _ => R
  end.
(* side conditions: removals concern live registrations (removing a sub-expression of another registration
   is outside the statement, DESIGN 6a); a reassigned slot is reachable neither from its old nor from its new
   value; the live registrations stay structurally valid on the new heap (else the maintainers raise) *)
Definition admissible (h : heap) (R : list reg) (c : cop) : Prop :=
  match c with
  | CUnreg x hd dp g => In ((hd, x, dp), g, x) R
  | CLink x0 f0 v => acyclic h x0 f0 v /\ flags_ok (set_links h x0 f0 v) R
  | _ => True
  end.
Fixpoint crun (d : dstate) (R : list reg) (ops : list cop) : dstate * list reg * list (cop * obs) :=
  match ops with
  | [] => (d, R, [])
  | c :: r => let '(d1, ob) := dstep d (dop_of c) in
              let '(d2, R2, tr) := crun d1 (live_after R c ob) r in (d2, R2, (c, ob) :: tr)
  end.
Fixpoint admissible_run (d : dstate) (R : list reg) (ops : list cop) : Prop :=
  match ops with
  | [] => True
  | c :: r => admissible (d_heap d) R c /\
              admissible_run (fst (dstep d (dop_of c))) (live_after R c (snd (dstep d (dop_of c)))) r
  end.

Definition no_dead (d : dstate) : Prop := dead_handlers (d_st d) = [] /\ dead_objs (d_st d) = [].
Definition dstate_inv (d : dstate) (R : list reg) : Prop :=
  dinv (d_heap d) (st_hooks (d_st d)) R /\ no_dead d.

Lemma cstep d R c d1 ob : dstate_inv d R -> admissible (d_heap d) R c -> dstep d (dop_of c) = (d1, ob) ->
  dstate_inv d1 (live_after R c ob) /\
  match c with CUnreg _ _ _ _ | CLink _ _ _ => o_out ob = None | _ => True end.
Proof.
  intros [I [Dh Do]] Ad S. destruct c as [x hd dp g|x hd dp g|o f|x0 f0 v]; cbn [dop_of dstep live_after] in *.
  - destruct (step (d_heap d) (d_st d) (Register x hd dp [g])) as [s' ob'] eqn:St. inversion S; subst d1 ob.
    split; [|exact Logic.I]. split; [apply (register_step _ _ _ _ _ _ _ _ _ _ I eq_refl St)|].
    cbn [step] in St. destruct (apply_observers _ _ _ _ _ _). inversion St; subst. split; assumption.
  - destruct (step (d_heap d) (d_st d) (Unregister x hd dp [g])) as [s' ob'] eqn:St. inversion S; subst d1 ob.
    destruct (unregister_step _ _ _ _ _ _ _ _ _ _ I eq_refl Ad St) as [Ok I']. rewrite Ok. cbn [is_none].
    split; [|reflexivity]. split; [exact I'|].
    cbn [step] in St. destruct (apply_observers _ _ _ _ _ _). inversion St; subst. split; assumption.
  - inversion S; subst d1 ob. split; [|exact Logic.I]. split; [exact I|split; assumption].
  - destruct Ad as [A F'].
    destruct (link_step (d_heap d) x0 f0 v A R (st_hooks (d_st d)) (d_st d) I F' Dh Do) as (H' & calls & E & I').
    rewrite E in S. inversion S; subst d1 ob. cbn [o_out]. split; [|reflexivity].
    split; [exact I'|split; assumption].
Qed.

(* THE MAIN THEOREM for histories with link reassignments: at every moment every count of every notifier
   list is what the live registrations plan on the CURRENT heap; removals of live registrations and link
   reassignments never raise *)
Lemma dyn_hooks_are_expected : forall ops d R d' R' tr, dstate_inv d R -> admissible_run d R ops ->
  crun d R ops = (d', R', tr) ->
  dstate_inv d' R' /\
  forall c ob, In (c, ob) tr -> match c with CUnreg _ _ _ _ | CLink _ _ _ => o_out ob = None | _ => True end.
Proof.
  induction ops as [|c ops IH]; intros d R d' R' tr I Ad Cr; cbn [crun] in Cr.
  - inversion Cr; subst. split; [exact I|intros ? ? []].
  - destruct Ad as [Ad1 Ad2]. destruct (dstep d (dop_of c)) as [d1 ob] eqn:S. cbn [fst snd] in Ad2.
    destruct (crun d1 (live_after R c ob) ops) as [[d2 R2] tr2] eqn:Cr2. inversion Cr; subst.
    destruct (cstep d R c d1 ob I Ad1 S) as [I1 O1]. destruct (IH _ _ _ _ _ I1 Ad2 Cr2) as [I2 O2].
    split; [exact I2|]. intros c' ob' [E|Hin]; [inversion E; subst; exact O1|apply (O2 _ _ Hin)].
Qed.

Lemma crun_wf : forall ops d R d' R' tr, wfH (st_hooks (d_st d)) -> crun d R ops = (d', R', tr) ->
  wfH (st_hooks (d_st d')).
Proof.
  induction ops as [|c ops IH]; intros d R d' R' tr W Cr; cbn [crun] in Cr.
  - inversion Cr; subst. exact W.
  - destruct (dstep d (dop_of c)) as [d1 ob] eqn:S.
    destruct (crun d1 (live_after R c ob) ops) as [[d2 R2] tr2] eqn:Cr2. inversion Cr; subst.
    apply (IH _ _ _ _ _ (dstep_wf _ _ _ _ W S) Cr2).
Qed.

Lemma tot_pos_in h R o c : 0 < tot h R o c -> exists k g x, In (k, g, x) R /\ 0 < pcount h k g x o c.
Proof.
  unfold tot. induction R as [|[[k g] x] R IH]; cbn [lsum]; [lia|]. intros P.
  destruct (Nat.eq_dec (pcount h k g x o c) 0) as [Z|Z].
  - destruct IH as (k' & g' & x' & Hin & Pp); [lia|]. exists k', g', x'. split; [right; exact Hin|exact Pp].
  - exists k, g, x. split; [left; reflexivity|lia].
Qed.
Lemma tot_in_pos h R o c k g x : In (k, g, x) R -> 0 < pcount h k g x o c -> 0 < tot h R o c.
Proof.
  unfold tot. induction R as [|r R IH]; intros Hin P; [destruct Hin|]. cbn [lsum]. destruct Hin as [->|Hin].
  - lia.
  - specialize (IH Hin P). lia.
Qed.

(* once per change, on the CURRENT heap: after any admissible history with link reassignments a change of o.f
   calls handler k exactly once iff some live registration of k matches (o, f) on the heap as it is now *)
Lemma dyn_once_per_change d R o f s' ob k : dstate_inv d R -> wfH (st_hooks (d_st d)) ->
  step (d_heap d) (d_st d) (Change o f) = (s', ob) ->
  (ncalls k (o_calls ob) <= 1) /\
  (ncalls k (o_calls ob) = 1 <-> exists g x, In (k, g, x) R /\ l_matched (d_heap d) g x (o, f) = true).
Proof.
  intros [(P & Inv & F) [Dh Do]] W S. rewrite (change_calls _ _ _ _ _ _ k W S).
  assert (alive (d_st d) k = true) as -> by (unfold alive; rewrite Dh, Do; reflexivity). cbn [andb].
  rewrite Inv. split; [destruct (0 <? _); lia|].
  destruct (0 <? tot (d_heap d) R (o, f) (CK (AUser k))) eqn:Z.
  - apply Nat.ltb_lt in Z. split; [intros _|reflexivity].
    destruct (tot_pos_in _ _ _ _ Z) as (k' & g & x & Hin & Pp).
    assert (k' = k) as ->.
    { destruct (key_eqb k' k) eqn:Q; [apply key_eqb_spec, Q|]. unfold pcount in Pp.
      rewrite plan_other_key in Pp; [lia|]. cbn [akey_key]. intros E. subst. rewrite key_eqb_refl in Q. discriminate. }
    exists g, x. split; [exact Hin|]. apply (plan_matched _ k g x (o, f) (F k g x Hin)). exact Pp.
  - apply Nat.ltb_ge in Z. split; [discriminate|]. intros (g & x & Hin & M). exfalso.
    assert (0 < tot (d_heap d) R (o, f) (CK (AUser k))); [|lia].
    apply (tot_in_pos _ _ _ _ k g x Hin). apply (plan_matched _ k g x (o, f) (F k g x Hin)). exact M.
Qed.

(* every live registration removed (in any order, with any reassignments in between): no user notifier and no
   maintainer is left on any list *)
Lemma dyn_all_removed d : dstate_inv d [] -> forall o a, cntH (st_hooks (d_st d)) o (CK a) = 0.
Proof. intros [(_ & Inv & _) _] o a. rewrite Inv. reflexivity. Qed.
