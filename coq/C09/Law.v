(* C09 — the property as a boolean checker on ONE observed history.
   It never mentions Model.step / plan / exec: it reads only the operations, the static heap and the
   observations (outcome class, handler calls, snapshot of every notifier list) and recomputes what
   it needs (which traits an expression matches, whether a walk can fail structurally) from scratch.

   Clause codes (100*step + clause):
     1  a Register/Unregister that raised changed some notifier list (failure atomicity, also the
        "one further unregistration changes nothing" part)
     2  every registration has been matched by a removal, but some notifier list differs from its
        initial population (size, handler identity or reference count)
     3  a change of o.f called a handler a wrong number of times: exactly once iff some live
        registration of that handler matches (o, f) and neither its owner nor its target is dead,
        else not at all (silent for handlers that were partially removed through a sub-expression,
        DESIGN 6a, and for handlers already present in the initial state)
     4  an Unregister with nothing of that handler registered did not raise (NotifierNotFound when the
        walk itself cannot fail)
     5  a weakly referenced owner / observing object was still alive after del + gc.collect()
     6  a change raised
     7  (case level, code 7) the pool objects were kept alive by the registrations
     9  the removal of a LIVE registration (same object, handler, dispatcher and expression registered more often than
        removed; silent once something of that handler has been removed beyond what was registered, DESIGN 6a) raised:
        registrations are reversible one by one
     8  every registration of ONE handler has been matched by a removal (whatever other handlers still have
        registered), the handler was not present initially, but a notifier of it is still on some list *)
From Coq Require Import List Arith Bool PeanoNat.
From TV Require Import C09.Model.
Import ListNotations.

Definition notifier_eqb (a b : notifier) : bool :=
  match a, b with
  | NUser k rc, NUser k' rc' => key_eqb k k' && Nat.eqb rc rc'
  | NMaint m g k, NMaint m' g' k' => mkind_eqb m m' && graph_eqb g g' && key_eqb k k'
  | NForeign i, NForeign j => Nat.eqb i j
  | _, _ => false
  end.

Fixpoint remove_first (n : notifier) (l : list notifier) : option (list notifier) :=
  match l with
  | [] => None
  | m :: l' => if notifier_eqb n m then Some l' else option_map (cons m) (remove_first n l')
  end.
(* multiset equality of two notifier lists *)
Fixpoint nl_perm (a b : list notifier) : bool :=
  match a with
  | [] => match b with [] => true | _ => false end
  | n :: a' => match remove_first n b with Some b' => nl_perm a' b' | None => false end
  end.

Definition snap := list (obsv * list notifier).
Fixpoint snap_get (s : snap) (o : obsv) : list notifier :=
  match s with
  | [] => []
  | (o', l) :: r => if obsv_eqb o o' then l else snap_get r o
  end.
(* the lists of a collected object are gone with it: they are not compared *)
Definition snap_same (univ : list obsv) (dobj : list oid) (a b : snap) : bool :=
  forallb (fun o => memb (fst o) dobj || nl_perm (snap_get a o) (snap_get b o)) univ.

(* the implementation observation of one step; [i_snap] lists only the notifier lists that differ
   from the previous step (an emptied list as [(o, [])]): the snapshot after the step is
   [i_snap ob ++ previous snapshot] under first-match lookup *)
(* i_calls: the handler numbers in call order (a call does not tell through which target/dispatcher it came) *)
Record iobs := mkI { i_out : option exn; i_calls : list nat; i_snap : snap; i_dead : option bool }.

(* ---------- from-scratch oracles over the static heap ---------- *)
Definition applies (h : heap) (n : node) (x : oid) : bool :=
  match n with
  | NNamed f _ _ => has_trait h x f
  | NItems c _ _ => is_cont h x c
  end.
Definition node_opt (n : node) : bool := match n with NNamed _ _ o | NItems _ _ o => o end.
Definition next_objs (h : heap) (n : node) (x : oid) : list oid :=
  match n with NNamed f _ _ => links h x f | NItems _ _ _ => items h x end.
Definition node_slot (n : node) (x : oid) : obsv :=
  match n with NNamed f _ _ => (x, f) | NItems _ _ _ => (x, F_ITEMS) end.

(* does the expression rooted at x deliver changes of the observable [tgt] to the handler? *)
Fixpoint l_matched (h : heap) (g : graph) (x : oid) (tgt : obsv) {struct g} : bool :=
  match g with
  | G n cs =>
      applies h n x &&
      ((node_notify n && obsv_eqb (node_slot n x) tgt)
       || existsb (fun c => existsb (fun y => l_matched h c y tgt) (next_objs h n x)) cs)
  end.

(* can the walk of g from x run without ValueError (every non-optional node applies)? *)
Fixpoint l_struct_ok (h : heap) (g : graph) (x : oid) {struct g} : bool :=
  match g with
  | G n cs =>
      if applies h n x then forallb (fun c => forallb (fun y => l_struct_ok h c y) (next_objs h n x)) cs
      else node_opt n
  end.

(* does the walk certainly touch a notifier list?  A named root node that applies always does (its user
   notifier, else a maintainer, else the trait_added maintainer); an item node without notify and
   without children hooks nothing, so its removal can never fail. *)
Definition l_touches (h : heap) (gs : list graph) (x : oid) : bool :=
  existsb (fun g => match g with G (NNamed f _ _) _ => has_trait h x f | _ => false end) gs.

(* ---------- the ledger of successful registrations ---------- *)
Definition sig := (oid * nat * nat * list graph)%type.
Fixpoint glist_eqb (a b : list graph) : bool :=
  match a, b with
  | [], [] => true
  | x :: a', y :: b' => graph_eqb x y && glist_eqb a' b'
  | _, _ => false
  end.
Definition sig_eqb (a b : sig) : bool :=
  let '(x, hd, dp, gs) := a in let '(x', hd', dp', gs') := b in
  Nat.eqb x x' && Nat.eqb hd hd' && Nat.eqb dp dp' && glist_eqb gs gs'.
Definition sig_key (s : sig) : key := let '(x, hd, dp, _) := s in (hd, x, dp).
Definition cnt_sig (s : sig) (l : list sig) : nat := length (filter (sig_eqb s) l).

Record ledger := mkL { regs : list sig; unregs : list sig }.
Definition balanced (L : ledger) : bool :=
  forallb (fun s => Nat.eqb (cnt_sig s (regs L)) (cnt_sig s (unregs L))) (regs L ++ unregs L).
(* nothing of handler k is (net) registered, nor was ever removed beyond what was registered *)
Definition key_clear (L : ledger) (k : key) : bool :=
  forallb (fun s => negb (key_eqb (sig_key s) k) || Nat.eqb (cnt_sig s (regs L)) (cnt_sig s (unregs L)))
          (regs L ++ unregs L).
Definition key_overdrawn (L : ledger) (k : key) : bool :=
  existsb (fun s => key_eqb (sig_key s) k && Nat.ltb (cnt_sig s (regs L)) (cnt_sig s (unregs L)))
          (regs L ++ unregs L).
Definition key_live_match (h : heap) (L : ledger) (k : key) (tgt : obsv) : bool :=
  existsb (fun s => key_eqb (sig_key s) k && Nat.ltb (cnt_sig s (unregs L)) (cnt_sig s (regs L))
                    && let '(x, _, _, gs) := s in existsb (fun g => l_matched h g x tgt) gs)
          (regs L).

Definition key_in_notifier (k : key) (n : notifier) : bool :=
  match n with NUser k' _ | NMaint _ _ k' => key_eqb k k' | NForeign _ => false end.
Definition key_in_snap (k : key) (s : snap) : bool :=
  existsb (fun p => existsb (key_in_notifier k) (snd p)) s.

Definition hd_in_snap (hd : nat) (s : snap) : bool :=
  existsb (fun p => existsb (fun n => match n with NUser k _ | NMaint _ _ k => Nat.eqb (k_handler k) hd
                                          | NForeign _ => false end) (snd p)) s.
(* a notifier of handler k on a list of a live pool object, in the snapshot as it is now *)
Definition key_on_some_list (univ : list obsv) (dobj : list oid) (k : key) (cur : snap) : bool :=
  existsb (fun o => negb (memb (fst o) dobj) && existsb (key_in_notifier k) (snap_get cur o)) univ.
Definition chk (c : nat) (b : bool) : list nat := if b then [] else [c].
Definition count_nat (k : nat) (l : list nat) : nat := length (filter (Nat.eqb k) l).
Fixpoint dedup_keys (l : list key) : list key :=
  match l with
  | [] => []
  | k :: r => if existsb (key_eqb k) r then dedup_keys r else k :: dedup_keys r
  end.
Definition is_none {A} (o : option A) : bool := match o with None => true | Some _ => false end.

Section Law.
  Variable h : heap.
  Variable univ : list obsv.
  Variable init : snap.

  Definition keys_of (L : ledger) : list key := map sig_key (regs L ++ unregs L).

  Definition law_step (L : ledger) (dh : list nat) (dobj : list oid) (prev cur : snap) (o : op) (ob : iobs)
    : list nat * ledger * list nat * list oid :=
    match o with
    | Register x hd dp gs =>
        let s : sig := (x, hd, dp, gs) in
        let L' := if is_none (i_out ob) then mkL (s :: regs L) (unregs L) else L in
        (chk 1 (is_none (i_out ob) || snap_same univ dobj prev cur)
         ++ chk 2 (negb (balanced L') || snap_same univ dobj init cur)
         ++ chk 8 (forallb (fun k => negb (key_clear L' k && negb (key_in_snap k init))
                                     || negb (key_on_some_list univ dobj k cur)) (keys_of L')),
         L', dh, dobj)
    | Unregister x hd dp gs =>
        let s : sig := (x, hd, dp, gs) in
        let k : key := (hd, x, dp) in
        let L' := if is_none (i_out ob) then mkL (regs L) (s :: unregs L) else L in
        (chk 1 (is_none (i_out ob) || snap_same univ dobj prev cur)
         ++ chk 2 (negb (balanced L') || snap_same univ dobj init cur)
         ++ chk 8 (forallb (fun k => negb (key_clear L' k && negb (key_in_snap k init))
                                     || negb (key_on_some_list univ dobj k cur)) (keys_of L'))
         ++ chk 4 (negb (key_clear L k && negb (key_in_snap k init) && l_touches h gs x)
                   || match i_out ob with
                      | None => false
                      | Some e => negb (forallb (fun g => l_struct_ok h g x) gs) || exn_eqb e NotifierNotFound
                      end)
         ++ chk 9 (negb (Nat.ltb (cnt_sig s (unregs L)) (cnt_sig s (regs L)) && negb (key_overdrawn L k))
                   || is_none (i_out ob)),
         L', dh, dobj)
    | Change o f =>
        let ks := dedup_keys (keys_of L) in
        let hds := map k_handler ks ++ i_calls ob in
        (chk 3 (forallb (fun hd =>
                   let mine := filter (fun k => Nat.eqb (k_handler k) hd) ks in
                   existsb (fun k => key_overdrawn L k || key_in_snap k init) mine ||
                   hd_in_snap hd init ||
                   Nat.eqb (count_nat hd (i_calls ob))
                           (length (filter (fun k => negb (memb (k_handler k) dh) && negb (memb (k_target k) dobj)
                                                     && key_live_match h L k (o, f)) mine))) hds)
         ++ chk 6 (is_none (i_out ob)),
         L, dh, dobj)
    | CollectOwner hd =>
        (chk 5 (match i_dead ob with Some true => true | _ => false end)
         ++ chk 1 (snap_same univ dobj prev cur), L, hd :: dh, dobj)
    | CollectObj x =>
        (chk 5 (match i_dead ob with Some true => true | _ => false end), L, dh, x :: dobj)
    end.

  Fixpoint law_hist (i : nat) (L : ledger) (dh : list nat) (dobj : list oid) (prev : snap)
           (hist : list (op * iobs)) : list nat :=
    match hist with
    | [] => []
    | (o, ob) :: r =>
        let cur := i_snap ob ++ prev in
        let '(codes, L', dh', dobj') := law_step L dh dobj prev cur o ob in
        map (fun c => 100 * i + c) codes ++ law_hist (S i) L' dh' dobj' cur r
    end.
End Law.

(* ---------- histories with heap mutations in between (dynamic cases of the correspondence) ----------
   The law has nothing to say about the mutation step itself (that is property C08); it continues with
   the heap as it is after the mutation: "matched" in clause 3 and "can fail" in clause 4 are always
   evaluated on the current heap.  On a history without mutations this is [law_hist]
   (LawProofs.law_hist_dyn_static). *)
Inductive lstep := LStatic (o : op) | LMut (h' : heap).

Fixpoint law_hist_dyn (univ : list obsv) (init : snap) (i : nat) (h : heap) (L : ledger) (dh : list nat)
         (dobj : list oid) (prev : snap) (hist : list (lstep * iobs)) : list nat :=
  match hist with
  | [] => []
  | (LStatic o, ob) :: r =>
      let cur := i_snap ob ++ prev in
      let '(codes, L', dh', dobj') := law_step h univ init L dh dobj prev cur o ob in
      map (fun c => 100 * i + c) codes ++ law_hist_dyn univ init (S i) h L' dh' dobj' cur r
  | (LMut h', ob) :: r => law_hist_dyn univ init (S i) h' L dh dobj (i_snap ob ++ prev) r
  end.
