(* C09 — the substitution argument of DynCount.v for an abstract "slot" (the observable whose next objects a
   mutation replaces), instantiated for IN-PLACE CONTAINER MUTATION (Dyn.DSetItems: list / dict / set items,
   event.removed / event.added), and the history theorem for link reassignments and container mutations together. *)
From Coq Require Import List Arith Bool PeanoNat Lia Permutation.
From TV Require Import C09.Model C09.Dyn C09.Law C09.Proofs C09.LawProofs C09.DynProofs C09.DynCount.
Import ListNotations.

Lemma lsum_perm {A} (F : A -> nat) l1 l2 : Permutation l1 l2 -> lsum F l1 = lsum F l2.
Proof. induction 1; cbn; lia. Qed.

Definition mg := (mkind * graph)%type.
Definition mg_eqb (a b : mg) : bool := mkind_eqb (fst a) (fst b) && graph_eqb (snd a) (snd b).

Lemma lsum_map_pair (m : mkind) (Q : graph -> oid -> nat) (l : list oid) cs :
  lsum (fun mc : mg => lsum (fun y => Q (snd mc) y) l) (map (pair m) cs) = lsum (fun ch => lsum (fun y => Q ch y) l) cs.
Proof. induction cs as [|ch cs IH]; [reflexivity|]. cbn [map lsum snd]. rewrite IH. reflexivity. Qed.

Section Slot.
  Variables h h' : heap.
  Variable sg : obsv.                          (* the slot *)
  Variable hits : node -> oid -> bool.         (* the node hooks the slot *)
  Variables olds news removed added rest : list oid.
  Hypothesis Hnew : forall n x, objects h' n x = if hits n x then Some news else objects h n x.
  Hypothesis Hold : forall n x, hits n x = true -> objects h n x = Some olds.
  Hypothesis Hobs : forall n x, observables h' n x = observables h n x.
  Hypothesis Hht : forall x, is_ht h' x = is_ht h x.
  (* a node that hooks the slot hooks exactly the slot; a node that does not, does not touch it *)
  Hypothesis Hslot : forall n x, match observables h n x with
                                 | Some os => if hits n x then os = [sg] else ~ In sg os
                                 | None => hits n x = false
                                 end.
  Hypothesis Pold : Permutation olds (removed ++ rest).
  Hypothesis Pnew : Permutation news (added ++ rest).

  Fixpoint svisits (g : graph) (x : oid) {struct g} : bool :=
    match g with
    | G n cs => hits n x || existsb (fun c => existsb (fun y => svisits c y) (nexts h n x)) cs
    end.
  Definition sacyclic : Prop := forall ch y, In y olds \/ In y news -> svisits ch y = false.

  Lemma snexts_new n x : nexts h' n x = if hits n x then news else nexts h n x.
  Proof. unfold nexts. rewrite Hnew. destruct (hits n x); reflexivity. Qed.
  Lemma snexts_old n x : hits n x = true -> nexts h n x = olds.
  Proof. intros H. unfold nexts. rewrite (Hold _ _ H). reflexivity. Qed.
  Lemma sloc_same k g x o c : loc h' k g x o c = loc h k g x o c.
  Proof. destruct g as [n cs]. unfold loc, loc1, loc2, loc4. rewrite !Hobs, Hht. reflexivity. Qed.

  Lemma splan_frame k rm g : forall x, svisits g x = false -> plan h' k rm g x = plan h k rm g x.
  Proof.
    induction g as [n cs IH] using graph_ind'. intros x V. rewrite Forall_forall in IH. cbn [svisits] in V.
    apply orb_false_iff in V. destruct V as [Hh Vc]. cbn [plan]. rewrite !Hobs, Hht.
    assert (pl_all (fun c => match objects h' n x with
                             | Some ys => pl_all (fun y => plan h' k rm c y) ys | None => p_fail end) cs
            = pl_all (fun c => match objects h n x with
                               | Some ys => pl_all (fun y => plan h k rm c y) ys | None => p_fail end) cs) as E.
    { apply pl_all_ext_in. intros c Hc. rewrite Hnew, Hh.
      destruct (objects h n x) as [ys|] eqn:O; [|reflexivity]. apply pl_all_ext_in. intros y Hy.
      apply (IH c Hc). destruct (svisits c y) eqn:Vy; [|reflexivity].
      assert (existsb (fun c0 => existsb (fun y0 => svisits c0 y0) (nexts h n x)) cs = true); [|congruence].
      apply existsb_exists. exists c. split; [exact Hc|]. apply existsb_exists. exists y.
      split; [unfold nexts; rewrite O; exact Hy|exact Vy]. }
    rewrite E. reflexivity.
  Qed.

  (* kind and child graph of the maintainers a walk places on the slot *)
  Fixpoint smoc (g : graph) (x : oid) {struct g} : list mg :=
    match g with
    | G n cs => (if hits n x then map (pair (node_mk n)) cs else [])
                ++ flat_map (fun c => flat_map (fun y => smoc c y) (nexts h n x)) cs
    end.
  Lemma smoc_nil g : forall x, svisits g x = false -> smoc g x = [].
  Proof.
    induction g as [n cs IH] using graph_ind'. intros x V. rewrite Forall_forall in IH. cbn [svisits smoc] in *.
    apply orb_false_iff in V. destruct V as [Hh Vc]. rewrite Hh. cbn [app].
    induction cs as [|c cs IHcs]; [reflexivity|]. cbn [flat_map existsb] in *.
    apply orb_false_iff in Vc. destruct Vc as [Vy Vcs].
    rewrite IHcs; [|intros; apply IH; [right; assumption|assumption]|exact Vcs]. rewrite app_nil_r.
    clear IHcs Vcs. induction (nexts h n x) as [|y ys IHy]; [reflexivity|]. cbn [flat_map existsb] in *.
    apply orb_false_iff in Vy. destruct Vy as [V1 V2]. rewrite (IH c (or_introl eq_refl) y V1), IHy; auto.
  Qed.

  Lemma in_removed_olds y : In y removed -> In y olds.
  Proof. intros H. apply (Permutation_in _ (Permutation_sym Pold)). apply in_or_app. left. exact H. Qed.
  Lemma in_added_news y : In y added -> In y news.
  Proof. intros H. apply (Permutation_in _ (Permutation_sym Pnew)). apply in_or_app. left. exact H. Qed.

  Lemma ssubst k o c (A : sacyclic) g : forall x,
    snd (plan h k false g x) = false -> snd (plan h' k false g x) = false ->
    pcount h' k g x o c + lsum (fun mc : mg => lsum (fun y => pcount h' k (snd mc) y o c) removed) (smoc g x)
    = pcount h k g x o c + lsum (fun mc : mg => lsum (fun y => pcount h' k (snd mc) y o c) added) (smoc g x).
  Proof.
    induction g as [n cs IH] using graph_ind'. intros x F F'. rewrite Forall_forall in IH.
    rewrite (plan_cnt h' k n cs x o c F'), (plan_cnt h k n cs x o c F), sloc_same, snexts_new.
    cbn [smoc]. rewrite !lsum_app, !lsum_flat_map.
    destruct (hits n x) eqn:Hh.
    - rewrite (snexts_old _ _ Hh).
      assert (forall (Q : mg -> nat), lsum (fun a => lsum Q (flat_map (fun y => smoc a y) olds)) cs = 0) as Z.
      { intros Q. apply lsum_zero. intros a _. rewrite lsum_flat_map. apply lsum_zero. intros y Hy.
        rewrite (smoc_nil a y (A a y (or_introl Hy))). reflexivity. }
      rewrite !Z, !Nat.add_0_r.
      assert (lsum (fun ch => lsum (fun y => pcount h k ch y o c) olds) cs
              = lsum (fun ch => lsum (fun y => pcount h' k ch y o c) olds) cs) as E.
      { apply lsum_ext. intros ch _. apply lsum_ext. intros y Hy. unfold pcount.
        rewrite (splan_frame k false ch y (A ch y (or_introl Hy))). reflexivity. }
      rewrite E. clear E Z.
      rewrite (lsum_map_pair (node_mk n) (fun ch y => pcount h' k ch y o c) removed cs),
              (lsum_map_pair (node_mk n) (fun ch y => pcount h' k ch y o c) added cs).
      assert (forall l1 l2 l3, Permutation l1 (l2 ++ l3) ->
                lsum (fun ch => lsum (fun y => pcount h' k ch y o c) l1) cs
                = lsum (fun ch => lsum (fun y => pcount h' k ch y o c) l2) cs
                  + lsum (fun ch => lsum (fun y => pcount h' k ch y o c) l3) cs) as Sp.
      { intros l1 l2 l3 Pm. rewrite <- lsum_plus. apply lsum_ext. intros ch _.
        rewrite (lsum_perm _ _ _ Pm), lsum_app. reflexivity. }
      rewrite (Sp _ _ _ Pnew), (Sp _ _ _ Pold). lia.
    - cbn [lsum]. rewrite !Nat.add_0_l.
      assert (forall ch y, In ch cs -> In y (nexts h n x) ->
                pcount h' k ch y o c + lsum (fun mc : mg => lsum (fun y1 => pcount h' k (snd mc) y1 o c) removed) (smoc ch y)
                = pcount h k ch y o c + lsum (fun mc : mg => lsum (fun y1 => pcount h' k (snd mc) y1 o c) added) (smoc ch y)) as Sub.
      { intros ch y Hch Hy. apply (IH ch Hch y).
        - apply (plan_sub_flag h k n cs x F ch y Hch Hy).
        - apply (plan_sub_flag h' k n cs x F' ch y Hch). rewrite snexts_new, Hh. exact Hy. }
      assert (lsum (fun ch => lsum (fun y => pcount h' k ch y o c) (nexts h n x)) cs
              + lsum (fun a => lsum (fun mc : mg => lsum (fun y => pcount h' k (snd mc) y o c) removed)
                                    (flat_map (fun y => smoc a y) (nexts h n x))) cs
              = lsum (fun ch => lsum (fun y => pcount h k ch y o c) (nexts h n x)) cs
                + lsum (fun a => lsum (fun mc : mg => lsum (fun y => pcount h' k (snd mc) y o c) added)
                                      (flat_map (fun y => smoc a y) (nexts h n x))) cs) as E.
      { rewrite <- !lsum_plus. apply lsum_ext. intros ch Hch. rewrite !lsum_flat_map, <- !lsum_plus.
        apply lsum_ext. intros y Hy. apply (Sub ch y Hch Hy). }
      lia.
  Qed.

  Lemma sremoved_included k o c (A : sacyclic) g : forall x, snd (plan h k false g x) = false ->
    lsum (fun mc : mg => lsum (fun y => pcount h k (snd mc) y o c) removed) (smoc g x) <= pcount h k g x o c.
  Proof.
    induction g as [n cs IH] using graph_ind'. intros x F. rewrite Forall_forall in IH.
    rewrite (plan_cnt h k n cs x o c F). cbn [smoc]. rewrite lsum_app, lsum_flat_map.
    destruct (hits n x) eqn:Hh.
    - rewrite (snexts_old _ _ Hh).
      assert (lsum (fun a => lsum (fun mc : mg => lsum (fun y => pcount h k (snd mc) y o c) removed)
                                  (flat_map (fun y => smoc a y) olds)) cs = 0) as Z.
      { apply lsum_zero. intros a _. rewrite lsum_flat_map. apply lsum_zero. intros y Hy.
        rewrite (smoc_nil a y (A a y (or_introl Hy))). reflexivity. }
      rewrite Z, (lsum_map_pair (node_mk n) (fun ch y => pcount h k ch y o c) removed cs).
      assert (lsum (fun ch => lsum (fun y => pcount h k ch y o c) removed) cs
              <= lsum (fun ch => lsum (fun y => pcount h k ch y o c) olds) cs) as L.
      { apply lsum_le. intros ch _. rewrite (lsum_perm _ _ _ Pold), lsum_app. lia. }
      lia.
    - cbn [lsum].
      assert (lsum (fun a => lsum (fun mc : mg => lsum (fun y => pcount h k (snd mc) y o c) removed)
                                  (flat_map (fun y => smoc a y) (nexts h n x))) cs
              <= lsum (fun ch => lsum (fun y => pcount h k ch y o c) (nexts h n x)) cs) as L.
      { apply lsum_le. intros ch Hch. rewrite lsum_flat_map. apply lsum_le. intros y Hy.
        apply (IH ch Hch y). apply (plan_sub_flag h k n cs x F ch y Hch Hy). }
      lia.
  Qed.

  (* the maintainers of kind m and child graph c0 a walk places on the slot *)
  Lemma smaint_on_slot k m c0 g : m <> MTA -> forall x, snd (plan h k false g x) = false ->
    pcount h k g x sg (CK (AMaint m c0 k)) = lsum (fun mc => b2n (mg_eqb mc (m, c0))) (smoc g x).
  Proof.
    intros Nta. induction g as [n cs IH] using graph_ind'. intros x F. rewrite Forall_forall in IH.
    rewrite (plan_cnt h k n cs x _ _ F). cbn [smoc]. rewrite lsum_app, lsum_flat_map.
    assert (lsum (fun ch => lsum (fun y => pcount h k ch y sg (CK (AMaint m c0 k))) (nexts h n x)) cs
            = lsum (fun a => lsum (fun mc => b2n (mg_eqb mc (m, c0))) (flat_map (fun y => smoc a y) (nexts h n x))) cs) as E.
    { apply lsum_ext. intros ch Hch. rewrite lsum_flat_map. apply lsum_ext. intros y Hy.
      apply (IH ch Hch y). apply (plan_sub_flag h k n cs x F ch y Hch Hy). }
    rewrite E. f_equal. clear E IH.
    unfold loc, loc1, loc2, loc4.
    assert (forall es, (forall e, In e es -> match snd e with AMaint MTA _ _ | AUser _ => True | _ => False end) ->
                       ecnt sg (CK (AMaint m c0 k)) es = 0) as Zero.
    { intros es Hes. destruct (Nat.eq_dec (ecnt sg (CK (AMaint m c0 k)) es) 0) as [Z|Z]; [exact Z|].
      destruct (ecnt_pos_in sg (CK (AMaint m c0 k)) es) as (e & He & _ & Ek); [lia|]. specialize (Hes e He).
      inversion Ek as [Ek']. rewrite Ek' in Hes. destruct m; try destruct Hes. elim Nta. reflexivity. }
    rewrite (Zero (fst (if node_notify n then _ else _))).
    2:{ intros e He. destruct (node_notify n); [|destruct He]. destruct (observables h n x); [|destruct He].
        cbn in He. apply in_map_iff in He. destruct He as (o' & <- & _). exact I. }
    rewrite (Zero (fst (match G n cs with G (NNamed _ _ opt) _ => _ | G (NItems _ _ _) _ => _ end))).
    2:{ intros e He. destruct n as [f nt opt|ck nt opt]; [|destruct He].
        destruct (is_ht h x); [|destruct opt; destruct He]. destruct He as [<-|[]]. exact I. }
    rewrite Nat.add_0_l, Nat.add_0_r. pose proof (Hslot n x) as Hs.
    destruct (observables h n x) as [os|].
    - destruct (hits n x).
      + subst os. cbn [p_ok fst flat_map]. rewrite app_nil_r, ecnt_map_maint, obsv_eqb_refl. cbn [andb].
        destruct (mkind_eqb (node_mk n) m) eqn:Q.
        * clear - Q. induction cs as [|ch cs IHc]; [reflexivity|]. cbn [map lsum]. rewrite IHc. unfold mg_eqb. cbn [fst snd].
          rewrite Q. reflexivity.
        * clear - Q. induction cs as [|ch cs IHc]; [reflexivity|]. cbn [map lsum]. rewrite <- IHc. unfold mg_eqb. cbn [fst snd].
          rewrite Q. reflexivity.
      + cbn [p_ok fst lsum]. destruct (Nat.eq_dec (ecnt sg (CK (AMaint m c0 k))
              (flat_map (fun o => map (fun c => (o, AMaint (node_mk n) c k)) cs) os)) 0) as [Z|Z]; [exact Z|].
        destruct (ecnt_pos_in sg (CK (AMaint m c0 k)) _ (proj1 (Nat.neq_0_lt_0 _) Z)) as (e & He & Ef & _).
        apply in_flat_map in He. destruct He as (o' & Ho' & He). apply in_map_iff in He. destruct He as (ch & <- & _).
        cbn [fst] in Ef. subst o'. contradiction.
    - rewrite Hs. reflexivity.
  Qed.

  Lemma smoc_flags_new (A : sacyclic) k g : forall x, snd (plan h' k false g x) = false ->
    forall mc y, In mc (smoc g x) -> In y added -> snd (plan h' k false (snd mc) y) = false.
  Proof.
    induction g as [n cs IH] using graph_ind'. intros x F mc y Hc Hy. rewrite Forall_forall in IH.
    cbn [smoc] in Hc. apply in_app_or in Hc. destruct Hc as [Hc|Hc].
    - destruct (hits n x) eqn:Hh; [|destruct Hc]. apply in_map_iff in Hc. destruct Hc as (c & <- & Hc). cbn [snd].
      apply (plan_sub_flag h' k n cs x F c y Hc). rewrite snexts_new, Hh. apply in_added_news, Hy.
    - apply in_flat_map in Hc. destruct Hc as (ch & Hch & Hc). apply in_flat_map in Hc. destruct Hc as (z & Hz & Hc).
      destruct (hits n x) eqn:Hh.
      + rewrite (snexts_old n x Hh) in Hz. rewrite (smoc_nil ch z (A ch z (or_introl Hz))) in Hc. destruct Hc.
      + apply (IH ch Hch z); [|exact Hc|exact Hy].
        apply (plan_sub_flag h' k n cs x F ch z Hch). rewrite snexts_new, Hh. exact Hz.
  Qed.
  Lemma smoc_flags_old (A : sacyclic) k g : forall x, snd (plan h k false g x) = false ->
    forall mc y, In mc (smoc g x) -> In y removed -> snd (plan h' k false (snd mc) y) = false.
  Proof.
    induction g as [n cs IH] using graph_ind'. intros x F mc y Hc Hy. rewrite Forall_forall in IH.
    cbn [smoc] in Hc. apply in_app_or in Hc. destruct Hc as [Hc|Hc].
    - destruct (hits n x) eqn:Hh; [|destruct Hc]. apply in_map_iff in Hc. destruct Hc as (c & <- & Hc). cbn [snd].
      pose proof (in_removed_olds y Hy) as Hy'.
      rewrite (splan_frame k false c y (A c y (or_introl Hy'))).
      apply (plan_sub_flag h k n cs x F c y Hc). rewrite (snexts_old n x Hh). exact Hy'.
    - apply in_flat_map in Hc. destruct Hc as (ch & Hch & Hc). apply in_flat_map in Hc. destruct Hc as (z & Hz & Hc).
      apply (IH ch Hch z); [|exact Hc|exact Hy]. apply (plan_sub_flag h k n cs x F ch z Hch Hz).
  Qed.
End Slot.

(* ------------------------------------------------------------------ instance: in-place container mutation *)
Section Items.
  Variable h : heap.
  Variable c0 : oid.
  Variable v removed added rest : list oid.
  Let h' := set_items h c0 v.
  Let olds := items h c0.
  Hypothesis Wf : heap_wf h.
  Hypothesis Hc0 : is_ht h c0 = false.        (* the mutated object is a container, not a HasTraits object *)
  Hypothesis Pold : Permutation olds (removed ++ rest).
  Hypothesis Pnew : Permutation v (added ++ rest).

  Definition ihits (n : node) (x : oid) : bool :=
    match n with
    | NItems ck _ _ => is_cont h x ck && Nat.eqb x c0
    | NNamed _ _ _ => false
    end.
  Lemma i_new n x : objects h' n x = if ihits n x then Some v else objects h n x.
  Proof.
    destruct n as [f nt opt|ck nt opt]; cbn [objects ihits]; [reflexivity|].
    unfold h', is_cont. cbn [kind_of items set_items].
    destruct (match kind_of h x with KCont c' => ckind_eqb ck c' | _ => false end); cbn [andb]; [|reflexivity].
    destruct (Nat.eqb x c0); reflexivity.
  Qed.
  Lemma i_old n x : ihits n x = true -> objects h n x = Some olds.
  Proof.
    destruct n as [f nt opt|ck nt opt]; cbn [objects ihits]; [discriminate|]. intros H.
    apply andb_true_iff in H. destruct H as [T Q]. apply Nat.eqb_eq in Q. subst. rewrite T. reflexivity.
  Qed.
  Lemma i_slot n x : match observables h n x with
                     | Some os => if ihits n x then os = [(c0, F_ITEMS)] else ~ In (c0, F_ITEMS) os
                     | None => ihits n x = false
                     end.
  Proof.
    destruct n as [f nt opt|ck nt opt]; cbn [observables ihits].
    - destruct (has_trait h x f) eqn:T.
      + intros [E|[]]. inversion E; subst. rewrite (Wf _ _ T) in Hc0. discriminate.
      + destruct opt; [intros []|reflexivity].
    - destruct (is_cont h x ck); cbn [andb].
      + destruct (Nat.eqb x c0) eqn:Q.
        * apply Nat.eqb_eq in Q. subst. reflexivity.
        * intros [E|[]]. inversion E; subst. rewrite Nat.eqb_refl in Q. discriminate.
      + destruct opt; [intros []|reflexivity].
  Qed.

  Definition iacyclic : Prop := sacyclic h ihits olds v.
  Notation imoc := (smoc h ihits).

  Lemma imoc_kinds g : forall x mc, In mc (imoc g x) -> exists ck, fst mc = MItems ck.
  Proof.
    induction g as [n cs IH] using graph_ind'. intros x mc Hc. rewrite Forall_forall in IH. cbn [smoc] in Hc.
    apply in_app_or in Hc. destruct Hc as [Hc|Hc].
    - destruct n as [f nt opt|ck nt opt]; cbn [ihits] in Hc; [destruct Hc|].
      destruct (is_cont h x ck && Nat.eqb x c0); [|destruct Hc]. apply in_map_iff in Hc. destruct Hc as (c & <- & _).
      exists ck. reflexivity.
    - apply in_flat_map in Hc. destruct Hc as (ch & Hch & Hc). apply in_flat_map in Hc. destruct Hc as (z & _ & Hc).
      apply (IH ch Hch z mc Hc).
  Qed.
End Items.

(* the item maintainers of a notifier list, with their kinds *)
Definition gk3 := (mg * key)%type.
Definition gk3_eqb (a b : gk3) : bool := mg_eqb (fst a) (fst b) && key_eqb (snd a) (snd b).
Lemma gk3_eqb_spec a b : gk3_eqb a b = true <-> a = b.
Proof.
  destruct a as [[m c] k], b as [[m' c'] k']. unfold gk3_eqb, mg_eqb. cbn [fst snd].
  rewrite !andb_true_iff, mkind_eqb_spec, graph_eqb_spec, key_eqb_spec.
  split; [intros [[-> ->] ->]; reflexivity|intros [= -> -> ->]; auto].
Qed.
Definition ms3 (ns : list notifier) : list gk3 :=
  flat_map (fun n => match n with NMaint (MItems ck) c k => [((MItems ck, c), k)] | _ => [] end) ns.
Lemma mkind_eqb_sym a b : mkind_eqb a b = mkind_eqb b a.
Proof.
  destruct (mkind_eqb a b) eqn:E; symmetry.
  - apply mkind_eqb_spec in E. subst. apply mkind_eqb_spec. reflexivity.
  - destruct (mkind_eqb b a) eqn:F; [|reflexivity]. apply mkind_eqb_spec in F. subst.
    assert (mkind_eqb a a = true) by (apply mkind_eqb_spec; reflexivity). congruence.
Qed.
Lemma cnt_ms3 ck c k ns : cntA gk3_eqb ((MItems ck, c), k) (ms3 ns) = cnt (CK (AMaint (MItems ck) c k)) ns.
Proof.
  unfold cntA. induction ns as [|n r IH]; [reflexivity|]. cbn [ms3 flat_map cnt]. rewrite lsum_app. fold (ms3 r). rewrite IH.
  f_equal. destruct n as [k' rc|m g k'|i]; cbn [lsum weight matches]; try reflexivity.
  destruct m as [|ck'|]; cbn [lsum mkind_eqb andb b2n]; try reflexivity.
  unfold gk3_eqb, mg_eqb. cbn [fst snd mkind_eqb]. rewrite Nat.add_0_r.
  rewrite (graph_eqb_sym g c), (key_eqb_sym k' k).
  assert (ckind_eqb ck' ck = ckind_eqb ck ck') as -> by (destruct ck, ck'; reflexivity). reflexivity.
Qed.
Lemma cnt_ms3_other m c k ns : (forall ck, m <> MItems ck) -> cntA gk3_eqb ((m, c), k) (ms3 ns) = 0.
Proof.
  intros N. unfold cntA. apply lsum_zero. intros [[m' c'] k'] Hin. unfold ms3 in Hin. apply in_flat_map in Hin.
  destruct Hin as (n & _ & Hn). destruct n as [k0 rc|m0 g0 k0|i]; [destruct Hn| |destruct Hn].
  destruct m0 as [|c1|]; [destruct Hn| |destruct Hn]. destruct Hn as [E|[]]. inversion E; subst. unfold gk3_eqb, mg_eqb. cbn [fst snd].
  destruct (mkind_eqb (MItems c1) m) eqn:Q; [|reflexivity]. apply mkind_eqb_spec in Q. elim (N c1). congruence.
Qed.

Definition mrem3 (hh : heap) (ys : list oid) (o : obsv) (cc : ckey) (n : notifier) : nat :=
  match n with NMaint (MItems _) c k => lsum (fun y => pcount hh k c y o cc) ys | _ => 0 end.

Lemma run_items_notifiers hh s removed added : dead_handlers s = [] -> dead_objs s = [] ->
  forall ns H calls, posH H ->
  (forall ck c k, In (NMaint (MItems ck) c k) ns ->
     (forall y, In y removed -> snd (plan hh k false c y) = false) /\
     (forall y, In y added -> snd (plan hh k false c y) = false)) ->
  (forall o cc, lsum (mrem3 hh removed o cc) ns <= cntH H o cc) ->
  exists H' calls', run_notifiers hh s false ns removed added H calls = (H', calls', None) /\ posH H' /\
    forall o cc, cntH H' o cc + lsum (mrem3 hh removed o cc) ns = cntH H o cc + lsum (mrem3 hh added o cc) ns.
Proof.
  intros Dh Do. assert (forall k, alive s k = true) as Al by (intros k; unfold alive; rewrite Dh, Do; reflexivity).
  induction ns as [|n r IH]; intros H calls P F C; cbn [run_notifiers].
  - exists H, calls. split; [reflexivity|]. split; [exact P|]. intros; cbn; lia.
  - assert (forall o cc, lsum (mrem3 hh removed o cc) r <= cntH H o cc) as Cr.
    { intros o cc. specialize (C o cc). cbn [lsum] in C. lia. }
    assert (forall ck c k, In (NMaint (MItems ck) c k) r ->
              (forall y, In y removed -> snd (plan hh k false c y) = false) /\
              (forall y, In y added -> snd (plan hh k false c y) = false)) as Fr
        by (intros; apply (F ck); right; assumption).
    destruct n as [k rc|m c k|i].
    + destruct (IH H (if alive s k then calls ++ [k] else calls) P Fr Cr) as (H' & calls' & E & P' & C').
      exists H', calls'. split; [exact E|]. split; [exact P'|]. intros o cc. cbn [lsum mrem3]. apply C'.
    + rewrite Al. destruct m as [|ck|].
      * destruct (IH H calls P Fr Cr) as (H' & calls' & E & P' & C').
        exists H', calls'. split; [exact E|]. split; [exact P'|]. intros o cc. cbn [lsum mrem3]. apply C'.
      * destruct (F ck c k (or_introl eq_refl)) as [Fo Fn]. unfold maint_run.
        destruct (me_rm hh k false c removed H P Fo) as (H1 & E1 & P1 & C1).
        { intros o cc. specialize (C o cc). cbn [lsum mrem3] in C. lia. }
        rewrite E1. destruct (me_add hh k c added H1 P1 Fn) as (H2 & E2 & P2 & C2). rewrite E2.
        destruct (IH H2 calls P2 Fr) as (H' & calls' & E & P' & C').
        { intros o cc. specialize (C o cc). specialize (C1 o cc). specialize (C2 o cc). cbn [lsum mrem3] in C. lia. }
        exists H', calls'. split; [exact E|]. split; [exact P'|]. intros o cc.
        specialize (C' o cc). specialize (C1 o cc). specialize (C2 o cc). cbn [lsum mrem3]. lia.
      * destruct (IH H calls P Fr Cr) as (H' & calls' & E & P' & C').
        exists H', calls'. split; [exact E|]. split; [exact P'|]. intros o cc. cbn [lsum mrem3]. apply C'.
    + destruct (IH H calls P Fr Cr) as (H' & calls' & E & P' & C').
      exists H', calls'. split; [exact E|]. split; [exact P'|]. intros o cc. cbn [lsum mrem3]. apply C'.
Qed.

Section ItemsStep.
  Variable h : heap.
  Variable c0 : oid.
  Variables v removed added rest : list oid.
  Let h' := set_items h c0 v.
  Let olds := items h c0.
  Let hitsI := ihits h c0.
  Hypothesis Wf : heap_wf h.
  Hypothesis Hc0 : is_ht h c0 = false.
  Hypothesis Pold : Permutation olds (removed ++ rest).
  Hypothesis Pnew : Permutation v (added ++ rest).
  Hypothesis A : sacyclic h hitsI olds v.

  Let Hnew := i_new h c0 v.
  Let Hold := i_old h c0.
  Let Hobs : forall n x, observables h' n x = observables h n x := fun _ _ => eq_refl.
  Let Hht : forall x, is_ht h' x = is_ht h x := fun _ => eq_refl.

  Definition islot_maints (R : list reg) : list gk3 :=
    flat_map (fun r : reg => let '(k, g, x) := r in map (fun mc => (mc, k)) (smoc h hitsI g x)) R.

  Lemma cnt_islot_maints R m c k : flags_ok h R -> m <> MTA ->
    cntA gk3_eqb ((m, c), k) (islot_maints R) = tot h R (c0, F_ITEMS) (CK (AMaint m c k)).
  Proof.
    intros F Nta. unfold cntA, islot_maints, tot. induction R as [|[[k' g] x] R IH]; [reflexivity|].
    cbn [flat_map lsum]. rewrite lsum_app, IH; [|intros ? ? ? Hin; apply F; right; exact Hin]. f_equal.
    assert (lsum (fun b => b2n (gk3_eqb b ((m, c), k))) (map (fun mc => (mc, k')) (smoc h hitsI g x))
            = if key_eqb k' k then lsum (fun mc => b2n (mg_eqb mc (m, c))) (smoc h hitsI g x) else 0) as E.
    { induction (smoc h hitsI g x) as [|mc l IHl]; [cbn; destruct (key_eqb k' k); reflexivity|].
      cbn [map lsum]. rewrite IHl. unfold gk3_eqb. cbn [fst snd].
      destruct (key_eqb k' k); [rewrite andb_true_r|rewrite andb_false_r]; cbn; lia. }
    rewrite E. destruct (key_eqb k' k) eqn:Q.
    - apply key_eqb_spec in Q. subst k'. symmetry.
      apply (smaint_on_slot h (c0, F_ITEMS) hitsI (i_slot h c0 Wf Hc0) k m c g Nta x). apply (F k g x). left. reflexivity.
    - symmetry. apply plan_other_key. cbn [akey_key]. intros Ek. subst. rewrite key_eqb_refl in Q. discriminate.
  Qed.

  Lemma mrem3_ms3 hh ys o cc ns :
    lsum (mrem3 hh ys o cc) ns = lsum (fun p : gk3 => lsum (fun y => pcount hh (snd p) (snd (fst p)) y o cc) ys) (ms3 ns).
  Proof.
    induction ns as [|n r IH]; [reflexivity|]. cbn [lsum ms3 flat_map]. rewrite lsum_app. fold (ms3 r). rewrite IH. f_equal.
    destruct n as [k rc|m c k|i]; try reflexivity. destruct m; cbn; lia.
  Qed.
  Lemma islot_sum (Q : key -> graph -> nat) R :
    lsum (fun p : gk3 => Q (snd p) (snd (fst p))) (islot_maints R)
    = lsum (fun r : reg => let '(k, g, x) := r in lsum (fun mc : mg => Q k (snd mc)) (smoc h hitsI g x)) R.
  Proof.
    unfold islot_maints. rewrite lsum_flat_map. apply lsum_ext. intros [[k g] x] _.
    induction (smoc h hitsI g x) as [|mc l IHl]; [reflexivity|]. cbn [map lsum fst snd]. rewrite IHl. reflexivity.
  Qed.

  Theorem items_step R H s : dinv h H R -> flags_ok h' R ->
    dead_handlers s = [] -> dead_objs s = [] ->
    exists H' calls, run_notifiers h' s false (H (c0, F_ITEMS)) removed added H [] = (H', calls, None) /\ dinv h' H' R.
  Proof.
    intros (P & Inv & F) F' Dh Do.
    assert (forall Q : key -> graph -> nat,
              lsum (fun p : gk3 => Q (snd p) (snd (fst p))) (ms3 (H (c0, F_ITEMS)))
              = lsum (fun r : reg => let '(k, g, x) := r in lsum (fun mc : mg => Q k (snd mc)) (smoc h hitsI g x)) R) as Sum.
    { intros Q. rewrite <- islot_sum. apply (lsum_by_counts gk3_eqb gk3_eqb_spec). intros [[m c] k].
      destruct m as [|ck|].
      - rewrite cnt_ms3_other by (intros ck; discriminate). symmetry. unfold cntA. apply lsum_zero.
        intros [[m' c'] k'] Hin. unfold islot_maints in Hin. apply in_flat_map in Hin. destruct Hin as ([[k2 g] x] & _ & Hm).
        apply in_map_iff in Hm. destruct Hm as (mc & E & Hmc). destruct (imoc_kinds h c0 g x mc Hmc) as [ck Ek].
        inversion E; subst. unfold gk3_eqb, mg_eqb. cbn [fst snd] in *. rewrite Ek. reflexivity.
      - rewrite cnt_ms3. etransitivity; [apply Inv|]. symmetry. apply (cnt_islot_maints R (MItems ck) c k F). discriminate.
      - rewrite cnt_ms3_other by (intros ck; discriminate). symmetry. unfold cntA. apply lsum_zero.
        intros [[m' c'] k'] Hin. unfold islot_maints in Hin. apply in_flat_map in Hin. destruct Hin as ([[k2 g] x] & _ & Hm).
        apply in_map_iff in Hm. destruct Hm as (mc & E & Hmc). destruct (imoc_kinds h c0 g x mc Hmc) as [ck Ek].
        inversion E; subst. unfold gk3_eqb, mg_eqb. cbn [fst snd] in *. rewrite Ek. reflexivity. }
    assert (forall ck c k, In (NMaint (MItems ck) c k) (H (c0, F_ITEMS)) ->
              exists g x, In (k, g, x) R /\ In (MItems ck, c) (smoc h hitsI g x)) as Src.
    { intros ck c k Hin. pose proof (in_cnt_pos _ _ (P (c0, F_ITEMS)) Hin) as Pos. cbn [ckey_of] in Pos.
      change (cnt (CK (AMaint (MItems ck) c k)) (H (c0, F_ITEMS)))
        with (cntH H (c0, F_ITEMS) (CK (AMaint (MItems ck) c k))) in Pos.
      rewrite Inv in Pos. assert (0 < cntA gk3_eqb ((MItems ck, c), k) (islot_maints R)) as Pos'
        by (rewrite (cnt_islot_maints R (MItems ck) c k F) by discriminate; exact Pos). clear Pos. rename Pos' into Pos.
      apply (cntA_pos_in gk3_eqb gk3_eqb_spec) in Pos. unfold islot_maints in Pos. apply in_flat_map in Pos.
      destruct Pos as ([[k' g] x] & Hr & Hm). apply in_map_iff in Hm. destruct Hm as (mc & E & Hmc).
      inversion E; subst. exists g, x. split; assumption. }
    destruct (run_items_notifiers h' s removed added Dh Do (H (c0, F_ITEMS)) H [] P) as (H' & calls & E & P' & C).
    { intros ck c k Hin. destruct (Src ck c k Hin) as (g & x & Hr & Hc). split; intros y Hy.
      - apply (smoc_flags_old h h' hitsI olds v removed rest Hnew Hold Hobs Hht Pold A k g x (F k g x Hr) (MItems ck, c) y Hc Hy).
      - apply (smoc_flags_new h h' hitsI olds v added rest Hnew Hold Pnew A k g x (F' k g x Hr) (MItems ck, c) y Hc Hy). }
    { intros o cc. rewrite mrem3_ms3, (Sum (fun k ch => lsum (fun y => pcount h' k ch y o cc) removed)).
      destruct cc as [a|i].
      - rewrite Inv. unfold tot. apply lsum_le. intros [[k g] x] Hr.
        eapply Nat.le_trans; [|apply (sremoved_included h hitsI olds v removed rest Hold Pold k o (CK a) A g x (F k g x Hr))].
        apply Nat.eq_le_incl. apply lsum_ext. intros mc _. apply lsum_ext. intros y Hy. unfold pcount.
        assert (In y olds) as Hy' by (apply (Permutation_in _ (Permutation_sym Pold)), in_or_app; left; exact Hy).
        rewrite (splan_frame h h' hitsI v Hnew Hobs Hht k false (snd mc) y (A (snd mc) y (or_introl Hy'))). reflexivity.
      - rewrite lsum_zero; [lia|]. intros [[k g] x] _. apply lsum_zero. intros mc _. apply lsum_zero. intros y _.
        apply plan_no_foreign. }
    exists H', calls. split; [exact E|]. split; [exact P'|]. split; [|exact F'].
    intros o a. specialize (C o (CK a)). rewrite !mrem3_ms3 in C.
    rewrite (Sum (fun k ch => lsum (fun y => pcount h' k ch y o (CK a)) removed)) in C.
    rewrite (Sum (fun k ch => lsum (fun y => pcount h' k ch y o (CK a)) added)) in C.
    rewrite Inv in C.
    assert (tot h' R o (CK a)
            + lsum (fun r : reg => let '(k, g, x) := r in
                      lsum (fun mc : mg => lsum (fun y => pcount h' k (snd mc) y o (CK a)) removed) (smoc h hitsI g x)) R
            = tot h R o (CK a)
              + lsum (fun r : reg => let '(k, g, x) := r in
                        lsum (fun mc : mg => lsum (fun y => pcount h' k (snd mc) y o (CK a)) added) (smoc h hitsI g x)) R) as S.
    { unfold tot. rewrite <- !lsum_plus. apply lsum_ext. intros [[k g] x] Hr.
      apply (ssubst h h' hitsI olds v removed added rest Hnew Hold Hobs Hht Pold Pnew k o (CK a) A g x (F k g x Hr) (F' k g x Hr)). }
    lia.
  Qed.
End ItemsStep.

(* ------------------------------------------------------------------ histories with link reassignments AND container mutations *)
Inductive cop2 :=
| C1 (c : cop)
| CItems (c0 : oid) (v removed added rest : list oid).     (* in-place mutation: the container then holds v *)
Definition dop_of2 (c : cop2) : dop :=
  match c with C1 c' => dop_of c' | CItems c0 v removed added _ => DSetItems c0 v removed added true end.
Definition live_after2 (R : list reg) (c : cop2) (ob : obs) : list reg :=
  match c with C1 c' => live_after R c' ob | CItems _ _ _ _ _ => R end.
(* a container mutation is admissible if the event is a faithful delta (old = removed + kept, new = added + kept), the
   container is reachable neither from its old nor from its new items, and the live registrations stay valid *)
Definition admissible2 (h : heap) (R : list reg) (c : cop2) : Prop :=
  match c with
  | C1 c' => admissible h R c'
  | CItems c0 v removed added rest =>
      heap_wf h /\ is_ht h c0 = false /\
      Permutation (items h c0) (removed ++ rest) /\ Permutation v (added ++ rest) /\
      sacyclic h (ihits h c0) (items h c0) v /\ flags_ok (set_items h c0 v) R
  end.
Fixpoint crun2 (d : dstate) (R : list reg) (ops : list cop2) : dstate * list reg * list (cop2 * obs) :=
  match ops with
  | [] => (d, R, [])
  | c :: r => let '(d1, ob) := dstep d (dop_of2 c) in
              let '(d2, R2, tr) := crun2 d1 (live_after2 R c ob) r in (d2, R2, (c, ob) :: tr)
  end.
Fixpoint admissible_run2 (d : dstate) (R : list reg) (ops : list cop2) : Prop :=
  match ops with
  | [] => True
  | c :: r => admissible2 (d_heap d) R c /\
              admissible_run2 (fst (dstep d (dop_of2 c))) (live_after2 R c (snd (dstep d (dop_of2 c)))) r
  end.
Definition quiet_outcome (c : cop2) (ob : obs) : Prop :=
  match c with
  | C1 (CUnreg _ _ _ _) | C1 (CLink _ _ _) | CItems _ _ _ _ _ => o_out ob = None
  | _ => True
  end.

Lemma cstep2 d R c d1 ob : dstate_inv d R -> admissible2 (d_heap d) R c -> dstep d (dop_of2 c) = (d1, ob) ->
  dstate_inv d1 (live_after2 R c ob) /\ quiet_outcome c ob.
Proof.
  intros I Ad S. destruct c as [c'|c0 v removed added rest]; cbn [dop_of2 live_after2 admissible2 quiet_outcome] in *.
  - destruct (cstep d R c' d1 ob I Ad S) as [I1 O1]. split; [exact I1|]. destruct c'; exact O1.
  - destruct I as [I [Dh Do]]. destruct Ad as (Wf & Hc0 & Po & Pn & A & F').
    cbn [dstep] in S.
    destruct (items_step (d_heap d) c0 v removed added rest Wf Hc0 Po Pn A R (st_hooks (d_st d)) (d_st d) I F' Dh Do)
      as (H' & calls & E & I').
    rewrite E in S. inversion S; subst d1 ob. cbn [o_out]. split; [|reflexivity].
    split; [exact I'|split; assumption].
Qed.

Lemma dyn2_hooks_are_expected : forall ops d R d' R' tr, dstate_inv d R -> admissible_run2 d R ops ->
  crun2 d R ops = (d', R', tr) ->
  dstate_inv d' R' /\ forall c ob, In (c, ob) tr -> quiet_outcome c ob.
Proof.
  induction ops as [|c ops IH]; intros d R d' R' tr I Ad Cr; cbn [crun2] in Cr.
  - inversion Cr; subst. split; [exact I|intros ? ? []].
  - destruct Ad as [Ad1 Ad2]. destruct (dstep d (dop_of2 c)) as [d1 ob] eqn:S. cbn [fst snd] in Ad2.
    destruct (crun2 d1 (live_after2 R c ob) ops) as [[d2 R2] tr2] eqn:Cr2. inversion Cr; subst.
    destruct (cstep2 d R c d1 ob I Ad1 S) as [I1 O1]. destruct (IH _ _ _ _ _ I1 Ad2 Cr2) as [I2 O2].
    split; [exact I2|]. intros c' ob' [E|Hin]; [inversion E; subst; exact O1|apply (O2 _ _ Hin)].
Qed.

(* ------------------------------------------------------------------ who is called by a mutation *)
Lemma run_notifiers_calls h s t : forall ns olds news H calls H' calls',
  run_notifiers h s t ns olds news H calls = (H', calls', None) -> calls' = calls ++ calls_of s ns.
Proof.
  induction ns as [|n r IH]; intros olds news H calls H' calls' R; cbn [run_notifiers] in R.
  - inversion R; subst. unfold calls_of. cbn. rewrite app_nil_r. reflexivity.
  - change (calls_of s (n :: r)) with
      ((match n with NUser k' _ => if alive s k' then [k'] else [] | _ => [] end) ++ calls_of s r).
    destruct n as [k rc|m g k|i].
    + rewrite (IH _ _ _ _ _ _ R). destruct (alive s k); [rewrite <- app_assoc|]; reflexivity.
    + cbn [app]. destruct (alive s k); [|apply (IH _ _ _ _ _ _ R)].
      destruct m, t; try (apply (IH _ _ _ _ _ _ R)).
      * destruct (maint_run h k true g olds news H) as [H1 [e|]]; [discriminate|apply (IH _ _ _ _ _ _ R)].
      * destruct (maint_run h k false g olds news H) as [H1 [e|]]; [discriminate|apply (IH _ _ _ _ _ _ R)].
    + cbn [app]. apply (IH _ _ _ _ _ _ R).
Qed.

(* a link reassignment or a container mutation calls handler k exactly once iff some live registration of k matches
   the mutated slot (with notify), and not at all otherwise *)
Lemma slot_calls (h hrun : heap) R H s sg t olds news H' calls k :
  dinv h H R -> wfH H -> dead_handlers s = [] -> dead_objs s = [] ->
  run_notifiers hrun s t (H sg) olds news H [] = (H', calls, None) ->
  (ncalls k calls <= 1) /\
  (ncalls k calls = 1 <-> exists g x, In (k, g, x) R /\ l_matched h g x sg = true).
Proof.
  intros (P & Inv & F) W Dh Do Rn. rewrite (run_notifiers_calls _ _ _ _ _ _ _ _ _ _ Rn). cbn [app].
  rewrite (calls_count s (H sg) k (proj1 W sg) (proj2 W sg)).
  assert (alive s k = true) as -> by (unfold alive; rewrite Dh, Do; reflexivity). cbn [andb].
  change (cnt (CK (AUser k)) (H sg)) with (cntH H sg (CK (AUser k))). rewrite Inv.
  split; [destruct (0 <? _); lia|].
  destruct (0 <? tot h R sg (CK (AUser k))) eqn:Z.
  - apply Nat.ltb_lt in Z. split; [intros _|reflexivity].
    destruct (tot_pos_in _ _ _ _ Z) as (k' & g & x & Hin & Pp).
    assert (k' = k) as ->.
    { destruct (key_eqb k' k) eqn:Q; [apply key_eqb_spec, Q|]. unfold pcount in Pp.
      rewrite plan_other_key in Pp; [lia|]. cbn [akey_key]. intros E. subst. rewrite key_eqb_refl in Q. discriminate. }
    exists g, x. split; [exact Hin|]. apply (plan_matched _ k g x sg (F k g x Hin)). exact Pp.
  - apply Nat.ltb_ge in Z. split; [discriminate|]. intros (g & x & Hin & M). exfalso.
    assert (0 < tot h R sg (CK (AUser k))); [|lia].
    apply (tot_in_pos _ _ _ _ k g x Hin). apply (plan_matched _ k g x sg (F k g x Hin)). exact M.
Qed.
