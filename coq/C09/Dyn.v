(* C09 — executable extension of the model to histories in which the object graph is mutated between
   (un)registrations: Instance links are reassigned and list / dict / set containers are mutated in
   place.  Definitions only; used by the correspondence (Corr.v: dynamic cases) so that the
   registration algebra is also compared with the implementation when maintainers have re-hooked the
   downstream graph in between.  The theorems of Props.v are about histories over a static heap
   ([DStatic] steps only); that maintainers keep the hooks exact under mutation is property C08.

   Modelled code:
     traits/ctraits.c call_notifiers (the notifiers of the changed trait are called on a copy of the
       list, in order; an exception of a notifier propagates out of the assignment)
     traits/trait_list_object.py:236-237, trait_dict_object.py:154-155, trait_set_object.py:128-129
     traits/observation/_observer_change_notifier.py __call__ (muted when target / handler owner is dead)
     traits/observation/_has_traits_helpers.py observer_change_handler (remove the child graph from the
       old value swallowing NotifierNotFound, add it to the new value)
     traits/observation/_{list,dict,set}_item_observer.py _observer_change_handler (remove from every
       removed item, add to every added item; nothing is swallowed) *)
From Coq Require Import List Arith Bool PeanoNat.
From TV Require Import C09.Model.
Import ListNotations.

Definition set_links (h : heap) (o : oid) (f : fname) (v : list oid) : heap :=
  mkHeap (kind_of h) (has_trait h)
         (fun o' f' => if Nat.eqb o' o && Nat.eqb f' f then v else links h o' f') (items h).
Definition set_items (h : heap) (c : oid) (v : list oid) : heap :=
  mkHeap (kind_of h) (has_trait h) (links h) (fun c' => if Nat.eqb c' c then v else items h c').

(* obj.add_trait(f, ...): x gets the trait f; [v] is the value f already has when the framework's trait_added
   maintainers run (an earlier trait_added handler of the class may have assigned it) *)
Definition add_trait_h (h : heap) (o : oid) (f : fname) (v : list oid) : heap :=
  mkHeap (kind_of h) (fun o' f' => (Nat.eqb o' o && Nat.eqb f' f) || has_trait h o' f')
         (fun o' f' => if Nat.eqb o' o && Nat.eqb f' f then v else links h o' f') (items h).

Inductive dop :=
| DStatic (o : op)
| DSetLink (o : oid) (f : fname) (v : list oid)                       (* o.f = v  (None = []) *)
| DSetItems (c : oid) (v removed added : list oid) (fired : bool)     (* in-place container mutation *)
| DAddTrait (o : oid) (f : fname) (v : list oid).                     (* o.add_trait(f, ...) *)

Record dstate := mkD { d_heap : heap; d_st : state }.

(* one maintainer run: remove the child graph g from the old objects, add it to the new ones; each
   is an outermost add_or_remove_notifiers call *)
Fixpoint maint_each (h : heap) (k : key) (rm swallow : bool) (g : graph) (ys : list oid) (H : hooks)
  : hooks * option exn :=
  match ys with
  | [] => (H, None)
  | y :: r =>
      match walk_outer h k rm g y H with
      | (H1, None) => maint_each h k rm swallow g r H1
      | (H1, Some NotifierNotFound) =>
          if swallow then maint_each h k rm swallow g r H1 else (H1, Some NotifierNotFound)
      | (H1, Some e) => (H1, Some e)
      end
  end.

Definition maint_run (h : heap) (k : key) (swallow : bool) (g : graph) (olds news : list oid) (H : hooks)
  : hooks * option exn :=
  match maint_each h k true swallow g olds H with
  | (H1, None) => maint_each h k false false g news H1
  | r => r
  end.

(* calling the notifiers found on the changed observable (a copy of the list), in order *)
Fixpoint run_notifiers (h : heap) (s : state) (on_trait : bool) (ns : list notifier) (olds news : list oid)
         (H : hooks) (calls : list key) : hooks * list key * option exn :=
  match ns with
  | [] => (H, calls, None)
  | n :: r =>
      match n with
      | NUser k _ => run_notifiers h s on_trait r olds news H (if alive s k then calls ++ [k] else calls)
      | NMaint m g k =>
          if alive s k then
            match m, on_trait with
            | MNamed, true =>
                match maint_run h k true g olds news H with
                | (H1, None) => run_notifiers h s on_trait r olds news H1 calls
                | (H1, Some e) => (H1, calls, Some e)
                end
            | MItems _, false =>
                match maint_run h k false g olds news H with
                | (H1, None) => run_notifiers h s on_trait r olds news H1 calls
                | (H1, Some e) => (H1, calls, Some e)
                end
            | _, _ => run_notifiers h s on_trait r olds news H calls
            end
          else run_notifiers h s on_trait r olds news H calls
      | NForeign _ => run_notifiers h s on_trait r olds news H calls
      end
  end.

(* _trait_added_observer.py: the maintainer on x.trait_added whose graph g starts with the named trait that was
   just added applies g to x through a _RestrictedNamedTraitObserver: observables and objects of the new trait,
   notifier and maintainers of the wrapped observer, NO extra graph (the trait_added maintainer is there already).
   That is the registration plan of g at x on the new heap without the applicability test and without its
   trait_added entry. *)
Definition plan_restricted (h : heap) (k : key) (g : graph) (x : oid) : pl :=
  match g with
  | G n cs =>
      match n with
      | NNamed f _ _ =>
          (* _RestrictedNamedTraitObserver: iter_observables yields x._trait(f, 2), iter_objects the value of f;
             notifier and maintainers are those of the wrapped named observer; no extra graph *)
          pseq (if node_notify n then p_ok [((x, f), AUser k)] else p_ok [])
               (pseq (p_ok (map (fun c => ((x, f), AMaint MNamed c k)) cs))
                     (pl_all (fun c => pl_all (fun y => plan h k false c y) (links h x f)) cs))
      | NItems _ _ _ => p_ok []       (* never wrapped: only named observers contribute a trait_added graph *)
      end
  end.
Definition walk_plan (p : pl) (rm : bool) (H : hooks) : hooks * option exn :=
  let '(es, sf) := p in
  let '(H1, L, e) := exec rm es H [] in
  let e' := match e with Some x => Some x | None => if sf then Some ValueError else None end in
  match e' with
  | None => (H1, None)
  | Some x => match undo rm (rev L) H1 with
              | (H2, None) => (H2, Some x)
              | (H2, Some x2) => (H2, Some x2)
              end
  end.
Fixpoint run_ta_notifiers (h : heap) (s : state) (x : oid) (f : fname) (ns : list notifier) (H : hooks)
         (calls : list key) : hooks * list key * option exn :=
  match ns with
  | [] => (H, calls, None)
  | n :: r =>
      match n with
      | NUser k _ => run_ta_notifiers h s x f r H (if alive s k then calls ++ [k] else calls)
      | NMaint MTA (G (NNamed f' nt opt) cs) k =>
          if alive s k && Nat.eqb f' f then
            match walk_plan (plan_restricted h k (G (NNamed f' nt opt) cs) x) false H with
            | (H1, None) => run_ta_notifiers h s x f r H1 calls
            | (H1, Some e) => (H1, calls, Some e)
            end
          else run_ta_notifiers h s x f r H calls
      | _ => run_ta_notifiers h s x f r H calls
      end
  end.

Definition with_hooks (s : state) (H : hooks) : state := mkState H (dead_handlers s) (dead_objs s).

Definition dstep (d : dstate) (o : dop) : dstate * obs :=
  let h := d_heap d in
  let s := d_st d in
  match o with
  | DStatic o' => let '(s', ob) := step h s o' in (mkD h s', ob)
  | DSetLink x f v =>
      let olds := links h x f in
      let h' := set_links h x f v in
      let '(H, calls, e) := run_notifiers h' s true (st_hooks s (x, f)) olds v (st_hooks s) [] in
      (mkD h' (with_hooks s H), mkObs e calls)
  | DSetItems c v removed added fired =>
      let h' := set_items h c v in
      if fired then
        let '(H, calls, e) := run_notifiers h' s false (st_hooks s (c, F_ITEMS)) removed added (st_hooks s) [] in
        (mkD h' (with_hooks s H), mkObs e calls)
      else (mkD h' s, mkObs None [])
  | DAddTrait x f v =>
      (* add_trait of a name that already is a trait of x re-defines it: the notifiers of the old trait are
         carried over, its value stays, trait_added is NOT fired (has_traits.add_trait: `if old_trait is None`) *)
      if has_trait h x f then (d, mkObs None []) else
      let h' := add_trait_h h x f v in
      let '(H, calls, e) := run_ta_notifiers h' s x f (st_hooks s (x, F_TA)) (st_hooks s) [] in
      (mkD h' (with_hooks s H), mkObs e calls)
  end.
