(* C09 — the boolean law of Law.v holds on the model's own observations of every history. *)
From Coq Require Import List Arith Bool PeanoNat Lia Permutation.
From TV Require Import C09.Model C09.Law C09.Proofs.
Import ListNotations.

(* ------------------------------------------------------------------ boolean multiset equality *)
Lemma notifier_eqb_spec a b : notifier_eqb a b = true <-> a = b.
Proof.
  destruct a, b; cbn; try (split; congruence).
  - rewrite andb_true_iff, key_eqb_spec, Nat.eqb_eq. split; [intros [-> ->]; reflexivity|intros [= -> ->]; auto].
  - rewrite !andb_true_iff, mkind_eqb_spec, graph_eqb_spec, key_eqb_spec.
    split; [intros [[-> ->] ->]; reflexivity|intros [= -> -> ->]; auto].
  - rewrite Nat.eqb_eq. split; [intros ->; reflexivity|intros [= ->]; reflexivity].
Qed.
Lemma remove_first_perm n l : forall l', remove_first n l = Some l' -> Permutation l (n :: l').
Proof.
  induction l as [|m r IH]; intros l' E; [discriminate|]. cbn [remove_first] in E.
  destruct (notifier_eqb n m) eqn:Q.
  - apply notifier_eqb_spec in Q. subst. inversion E; subst. reflexivity.
  - destruct (remove_first n r) as [r'|]; [|discriminate]. inversion E; subst.
    rewrite (IH r' eq_refl). apply perm_swap.
Qed.
Lemma remove_first_in n l : In n l -> exists l', remove_first n l = Some l'.
Proof.
  induction l as [|m r IH]; intros Hin; [destruct Hin|]. cbn [remove_first].
  destruct (notifier_eqb n m) eqn:Q; [eauto|].
  destruct Hin as [->|Hin].
  - assert (notifier_eqb n n = true) by (apply notifier_eqb_spec; reflexivity). congruence.
  - destruct (IH Hin) as [r' ->]. cbn. eauto.
Qed.
Lemma nl_perm_complete : forall a b, Permutation a b -> nl_perm a b = true.
Proof.
  induction a as [|n a IH]; intros b P; cbn [nl_perm].
  - apply Permutation_nil in P. subst. reflexivity.
  - destruct (remove_first_in n b) as [b' R]; [apply (Permutation_in _ P); left; reflexivity|].
    rewrite R. apply IH. apply (Permutation_cons_inv (a := n)).
    rewrite P. apply (remove_first_perm _ _ _ R).
Qed.

(* ------------------------------------------------------------------ snapshots of a hook state *)
Definition snap_of_hooks (univ : list obsv) (H : hooks) : snap := map (fun o => (o, H o)) univ.
Lemma snap_get_of_hooks univ H rest o : In o univ -> snap_get (snap_of_hooks univ H ++ rest) o = H o.
Proof.
  induction univ as [|u r IH]; intros Hin; [destruct Hin|]. cbn [snap_of_hooks map app snap_get].
  destruct (obsv_eqb o u) eqn:Q.
  - apply obsv_eqb_spec in Q. subst. reflexivity.
  - destruct Hin as [->|Hin]; [rewrite obsv_eqb_refl in Q; discriminate|apply IH, Hin].
Qed.
Lemma snap_same_intro univ dobj a b :
  (forall o, In o univ -> Permutation (snap_get a o) (snap_get b o)) -> snap_same univ dobj a b = true.
Proof.
  intros P. unfold snap_same. apply forallb_forall. intros o Ho.
  rewrite (nl_perm_complete _ _ (P o Ho)). apply orb_true_r.
Qed.

(* ------------------------------------------------------------------ multisets of registration signatures *)
Lemma glist_eqb_spec a : forall b, glist_eqb a b = true <-> a = b.
Proof.
  induction a as [|x a IH]; intros [|y b]; cbn; try (split; congruence).
  rewrite andb_true_iff, graph_eqb_spec, IH. split; [intros [-> ->]; reflexivity|intros [= -> ->]; auto].
Qed.
Lemma sig_eqb_spec (a b : sig) : sig_eqb a b = true <-> a = b.
Proof.
  destruct a as [[[x hd] dp] gs], b as [[[x' hd'] dp'] gs']. cbn.
  rewrite !andb_true_iff, !Nat.eqb_eq, glist_eqb_spec.
  split; [intros [[[-> ->] ->] ->]; reflexivity|intros [= -> -> -> ->]; auto].
Qed.
Lemma sig_eqb_refl s : sig_eqb s s = true.
Proof. apply sig_eqb_spec. reflexivity. Qed.

Fixpoint ssum (F : sig -> nat) (l : list sig) : nat :=
  match l with [] => 0 | s :: r => F s + ssum F r end.
Lemma ssum_app F a b : ssum F (a ++ b) = ssum F a + ssum F b.
Proof. induction a; cbn; lia. Qed.
Lemma ssum_perm F a b : Permutation a b -> ssum F a = ssum F b.
Proof. induction 1; cbn; lia. Qed.
Lemma sigs_cnt_ssum h l o c : sigs_cnt h l o c = ssum (fun s => sig_cnt h s o c) l.
Proof. induction l; cbn; congruence. Qed.

Lemma cnt_sig_cons s t l : cnt_sig s (t :: l) = b2n (sig_eqb s t) + cnt_sig s l.
Proof. unfold cnt_sig. cbn [filter]. destruct (sig_eqb s t); reflexivity. Qed.
Lemma cnt_sig_app s a b : cnt_sig s (a ++ b) = cnt_sig s a + cnt_sig s b.
Proof. unfold cnt_sig. rewrite filter_app, app_length. reflexivity. Qed.
Lemma cnt_sig_pos_in s l : 0 < cnt_sig s l -> In s l.
Proof.
  induction l as [|t r IH]; [cbn; lia|]. rewrite cnt_sig_cons. destruct (sig_eqb s t) eqn:Q.
  - apply sig_eqb_spec in Q. subst. left. reflexivity.
  - cbn. intros H. right. apply IH, H.
Qed.
Lemma cnt_sig_in_pos s l : In s l -> 0 < cnt_sig s l.
Proof.
  induction l as [|t r IH]; intros Hin; [destruct Hin|]. rewrite cnt_sig_cons. destruct Hin as [->|Hin].
  - rewrite sig_eqb_refl. cbn. lia.
  - specialize (IH Hin). lia.
Qed.
Lemma cnt_sig_perm s a b : Permutation a b -> cnt_sig s a = cnt_sig s b.
Proof. induction 1; rewrite ?cnt_sig_cons; lia. Qed.

Lemma submultiset : forall U R, (forall s, cnt_sig s U <= cnt_sig s R) -> exists X, Permutation R (U ++ X).
Proof.
  induction U as [|u U IH]; intros R C; [exists R; reflexivity|].
  assert (In u R) as Hin.
  { apply cnt_sig_pos_in. specialize (C u). rewrite cnt_sig_cons, sig_eqb_refl in C. cbn in C. lia. }
  destruct (in_split _ _ Hin) as (l1 & l2 & ->).
  destruct (IH (l1 ++ l2)) as [X PX].
  { intros s. specialize (C s). rewrite cnt_sig_cons in C. rewrite cnt_sig_app in *. rewrite cnt_sig_cons in C. lia. }
  exists X. rewrite <- Permutation_middle. cbn [app]. apply perm_skip. exact PX.
Qed.

Lemma cnt_sig_filter P s l : cnt_sig s (filter P l) = if P s then cnt_sig s l else 0.
Proof.
  induction l as [|t r IH]; [cbn; destruct (P s); reflexivity|]. cbn [filter].
  destruct (P t) eqn:Pt; rewrite ?cnt_sig_cons, IH.
  - destruct (sig_eqb s t) eqn:Q; [apply sig_eqb_spec in Q; subst; rewrite Pt; reflexivity|].
    destruct (P s); reflexivity.
  - destruct (sig_eqb s t) eqn:Q; [apply sig_eqb_spec in Q; subst; rewrite Pt; reflexivity|].
    cbn. destruct (P s); reflexivity.
Qed.
Lemma ssum_filter F P l : (forall s, P s = false -> F s = 0) -> ssum F (filter P l) = ssum F l.
Proof.
  intros Z. induction l as [|t r IH]; [reflexivity|]. cbn [filter ssum].
  destruct (P t) eqn:Pt; cbn [ssum]; rewrite IH; [reflexivity|]. rewrite (Z t Pt). reflexivity.
Qed.

Lemma sum_le F P U R : (forall s, P s = true -> cnt_sig s U <= cnt_sig s R) ->
  (forall s, P s = false -> F s = 0) -> ssum F U <= ssum F R.
Proof.
  intros C Z. rewrite <- (ssum_filter F P U Z), <- (ssum_filter F P R Z).
  destruct (submultiset (filter P U) (filter P R)) as [X PX].
  { intros s. rewrite !cnt_sig_filter. destruct (P s) eqn:Ps; [apply C, Ps|lia]. }
  rewrite (ssum_perm F _ _ PX), ssum_app. lia.
Qed.
Lemma sum_lt F P U R s0 : (forall s, P s = true -> cnt_sig s U <= cnt_sig s R) ->
  (forall s, P s = false -> F s = 0) ->
  P s0 = true -> cnt_sig s0 U < cnt_sig s0 R -> 0 < F s0 -> ssum F U < ssum F R.
Proof.
  intros C Z P0 Lt F0. rewrite <- (ssum_filter F P U Z), <- (ssum_filter F P R Z).
  destruct (submultiset (filter P U) (filter P R)) as [X PX].
  { intros s. rewrite !cnt_sig_filter. destruct (P s) eqn:Ps; [apply C, Ps|lia]. }
  rewrite (ssum_perm F _ _ PX), ssum_app.
  assert (In s0 X) as Hin.
  { apply cnt_sig_pos_in. pose proof (cnt_sig_perm s0 _ _ PX) as E.
    rewrite cnt_sig_app, !cnt_sig_filter, P0 in E. lia. }
  destruct (in_split _ _ Hin) as (x1 & x2 & ->). rewrite ssum_app. cbn [ssum]. lia.
Qed.
Lemma sum_le_plus F P U R s0 : (forall s, P s = true -> cnt_sig s U <= cnt_sig s R) ->
  (forall s, P s = false -> F s = 0) ->
  P s0 = true -> cnt_sig s0 U < cnt_sig s0 R -> ssum F U + F s0 <= ssum F R.
Proof.
  intros C Z P0 Lt. rewrite <- (ssum_filter F P U Z), <- (ssum_filter F P R Z).
  destruct (submultiset (filter P U) (filter P R)) as [X PX].
  { intros s. rewrite !cnt_sig_filter. destruct (P s) eqn:Ps; [apply C, Ps|lia]. }
  rewrite (ssum_perm F _ _ PX), ssum_app.
  assert (In s0 X) as Hin.
  { apply cnt_sig_pos_in. pose proof (cnt_sig_perm s0 _ _ PX) as E.
    rewrite cnt_sig_app, !cnt_sig_filter, P0 in E. lia. }
  destruct (in_split _ _ Hin) as (x1 & x2 & ->). rewrite ssum_app. cbn [ssum]. lia.
Qed.
Lemma sum_eq F P U R : (forall s, P s = true -> cnt_sig s U = cnt_sig s R) ->
  (forall s, P s = false -> F s = 0) -> ssum F U = ssum F R.
Proof.
  intros C Z. apply Nat.le_antisymm; apply (sum_le F P); auto; intros s Ps; rewrite (C s Ps); lia.
Qed.

(* ------------------------------------------------------------------ the plan against the law's oracles *)
Definition akey_key (a : akey) : key := match a with AUser k | AMaint _ _ k => k end.

Lemma pseq_flag_false p q : snd (pseq p q) = false <-> snd p = false /\ snd q = false.
Proof. rewrite pseq_snd. apply orb_false_iff. Qed.
Lemma in_pseq e p q : In e (fst (pseq p q)) -> In e (fst p) \/ In e (fst q).
Proof. destruct p as [l [|]]; cbn; [auto|]. apply in_app_or. Qed.
Lemma in_pl_all {A} e (f : A -> pl) l : In e (fst (pl_all f l)) -> exists a, In a l /\ In e (fst (f a)).
Proof.
  induction l as [|a l IH]; [intros []|].
  change (pl_all f (a :: l)) with (pseq (f a) (pl_all f l)). intros Hin.
  destruct (in_pseq _ _ _ Hin) as [H|H]; [exists a; split; [left; reflexivity|exact H]|].
  destruct (IH H) as (b & Hb & He). exists b. split; [right; exact Hb|exact He].
Qed.
Lemma pl_all_flag {A} (f : A -> pl) l : snd (pl_all f l) = false -> forall a, In a l -> snd (f a) = false.
Proof.
  induction l as [|b l IH]; intros F a Hin; [destruct Hin|].
  change (pl_all f (b :: l)) with (pseq (f b) (pl_all f l)) in F. apply pseq_flag_false in F.
  destruct F as [Fb Fl]. destruct Hin as [->|Hin]; [exact Fb|apply IH; assumption].
Qed.
Lemma pl_all_flag_intro {A} (f : A -> pl) l : (forall a, In a l -> snd (f a) = false) -> snd (pl_all f l) = false.
Proof.
  induction l as [|b l IH]; intros F; [reflexivity|].
  change (pl_all f (b :: l)) with (pseq (f b) (pl_all f l)). apply pseq_flag_false.
  split; [apply F; left; reflexivity|apply IH; intros; apply F; right; assumption].
Qed.
Lemma pl_all_pos {A} o c (f : A -> pl) l : snd (pl_all f l) = false ->
  (0 < ecnt o c (fst (pl_all f l)) <-> exists a, In a l /\ 0 < ecnt o c (fst (f a))).
Proof.
  induction l as [|b l IH]; intros F.
  - cbn. split; [lia|intros (a & [] & _)].
  - change (pl_all f (b :: l)) with (pseq (f b) (pl_all f l)) in *. apply pseq_flag_false in F.
    destruct F as [Fb Fl]. rewrite (pseq_ecnt o c _ _ Fb). specialize (IH Fl). split.
    + intros H. destruct (Nat.eq_dec (ecnt o c (fst (f b))) 0) as [Z|Z].
      * destruct (proj1 IH) as (a & Ha & Pa); [lia|]. exists a. split; [right; exact Ha|exact Pa].
      * exists b. split; [left; reflexivity|lia].
    + intros (a & [->|Ha] & Pa); [lia|]. assert (0 < ecnt o c (fst (pl_all f l))) by (apply IH; eauto). lia.
Qed.

(* every planned entry carries the key of the call *)
Lemma plan_keys h k rm g : forall x e, In e (fst (plan h k rm g x)) -> akey_key (snd e) = k.
Proof.
  induction g as [n cs IH] using graph_ind'. intros x e Hin. cbn [plan] in Hin.
  rewrite Forall_forall in IH.
  assert (forall p1 p2 p3 p4 : pl,
             (forall e, In e (fst p1) -> akey_key (snd e) = k) -> (forall e, In e (fst p2) -> akey_key (snd e) = k) ->
             (forall e, In e (fst p3) -> akey_key (snd e) = k) -> (forall e, In e (fst p4) -> akey_key (snd e) = k) ->
             forall e, In e (fst (if rm then pseq p4 (pseq p3 (pseq p2 p1)) else pseq p1 (pseq p2 (pseq p3 p4)))) ->
                       akey_key (snd e) = k) as Comb.
  { intros p1 p2 p3 p4 H1 H2 H3 H4 e' He. destruct rm;
      repeat (apply in_pseq in He; destruct He as [He|He]); auto. }
  apply (Comb _ _ _ _) with (5 := Hin); clear Comb Hin e.
  - intros e He. destruct (node_notify n); [|destruct He].
    destruct (observables h n x); [|destruct He]. cbn in He. apply in_map_iff in He.
    destruct He as (o & <- & _). reflexivity.
  - intros e He. destruct (observables h n x); [|destruct He]. cbn in He. apply in_flat_map in He.
    destruct He as (o & _ & He). apply in_map_iff in He. destruct He as (c & <- & _). reflexivity.
  - intros e He. apply in_pl_all in He. destruct He as (c & Hc & He).
    destruct (objects h n x); [|destruct He]. apply in_pl_all in He. destruct He as (y & _ & He).
    apply (IH c Hc y e He).
  - intros e He. destruct n as [f nt opt|ck nt opt]; [|destruct He].
    destruct (is_ht h x); [|destruct opt; destruct He]. destruct He as [<-|[]]. reflexivity.
Qed.

Lemma ecnt_pos_in o c es : 0 < ecnt o c es -> exists e, In e es /\ fst e = o /\ CK (snd e) = c.
Proof.
  induction es as [|e r IH]; cbn [ecnt]; [lia|]. intros H. unfold eind in H.
  destruct (obsv_eqb (fst e) o && ckey_eqb (CK (snd e)) c) eqn:Q.
  - apply andb_true_iff in Q. destruct Q as [Q1 Q2]. apply obsv_eqb_spec in Q1. apply ckey_eqb_spec in Q2.
    exists e. split; [left; reflexivity|split; assumption].
  - cbn in H. destruct (IH H) as (e' & He' & P). exists e'. split; [right; exact He'|exact P].
Qed.
Lemma plan_other_key h k rm g x o a : akey_key a <> k -> ecnt o (CK a) (fst (plan h k rm g x)) = 0.
Proof.
  intros N. destruct (Nat.eq_dec (ecnt o (CK a) (fst (plan h k rm g x))) 0) as [Z|Z]; [exact Z|].
  destruct (ecnt_pos_in o (CK a) (fst (plan h k rm g x))) as (e & He & _ & E); [lia|].
  inversion E; subst. elim N. apply (plan_keys _ _ _ _ _ _ He).
Qed.
Lemma plan_no_foreign h k rm g x o i : ecnt o (CF i) (fst (plan h k rm g x)) = 0.
Proof.
  destruct (Nat.eq_dec (ecnt o (CF i) (fst (plan h k rm g x))) 0) as [Z|Z]; [exact Z|].
  destruct (ecnt_pos_in o (CF i) (fst (plan h k rm g x))) as (e & _ & _ & E); [lia|]. discriminate.
Qed.

Lemma observables_applies h n x : applies h n x = true -> observables h n x = Some [node_slot n x].
Proof. destruct n; cbn; intros ->; reflexivity. Qed.
Lemma observables_not h n x : applies h n x = false -> observables h n x = if node_opt n then Some [] else None.
Proof. destruct n; cbn; intros ->; reflexivity. Qed.
Lemma objects_applies h n x : applies h n x = true -> objects h n x = Some (next_objs h n x).
Proof. destruct n; cbn; intros ->; reflexivity. Qed.
Lemma objects_not h n x : applies h n x = false -> objects h n x = if node_opt n then Some [] else None.
Proof. destruct n; cbn; intros ->; reflexivity. Qed.

Lemma ecnt_user_of_maints o k es :
  (forall e, In e es -> match snd e with AMaint _ _ _ => True | AUser _ => False end) ->
  ecnt o (CK (AUser k)) es = 0.
Proof.
  intros M. destruct (Nat.eq_dec (ecnt o (CK (AUser k)) es) 0) as [Z|Z]; [exact Z|].
  destruct (ecnt_pos_in o (CK (AUser k)) es) as (e & He & _ & E); [lia|].
  specialize (M e He). inversion E as [E']. rewrite E' in M. destruct M.
Qed.

(* a planned user notifier on tgt <-> the expression matches tgt (from-scratch oracle of the law) *)
Lemma plan_matched h k g : forall x tgt, snd (plan h k false g x) = false ->
  (0 < ecnt tgt (CK (AUser k)) (fst (plan h k false g x)) <-> l_matched h g x tgt = true).
Proof.
  induction g as [n cs IH] using graph_ind'. intros x tgt F. rewrite Forall_forall in IH.
  cbn [plan l_matched] in *.
  apply pseq_flag_false in F. destruct F as [F1 F]. apply pseq_flag_false in F. destruct F as [F2 F].
  apply pseq_flag_false in F. destruct F as [F3 F4].
  rewrite (pseq_ecnt _ _ _ _ F1), (pseq_ecnt _ _ _ _ F2), (pseq_ecnt _ _ _ _ F3).
  (* maintainers and the trait_added entry are no user notifiers *)
  match goal with |- context [ecnt tgt (CK (AUser k)) (fst ?s2) + (_ + ecnt tgt (CK (AUser k)) (fst ?s4))] =>
    assert (ecnt tgt (CK (AUser k)) (fst s2) = 0) as E2;
    [|assert (ecnt tgt (CK (AUser k)) (fst s4) = 0) as E4] end.
  { apply ecnt_user_of_maints. intros e He. destruct (observables h n x); [|destruct He]. cbn in He.
    apply in_flat_map in He. destruct He as (o & _ & He). apply in_map_iff in He.
    destruct He as (c & <- & _). exact I. }
  { apply ecnt_user_of_maints. intros e He. destruct n as [f nt opt|ck nt opt]; [|destruct He].
    destruct (is_ht h x); [|destruct opt; destruct He]. destruct He as [<-|[]]. exact I. }
  rewrite E2, E4, Nat.add_0_l, Nat.add_0_r.
  destruct (applies h n x) eqn:Ap.
  - rewrite (observables_applies _ _ _ Ap) in *. rewrite (objects_applies _ _ _ Ap) in *. cbn [andb].
    rewrite orb_true_iff, andb_true_iff, existsb_exists.
    assert (0 < ecnt tgt (CK (AUser k))
                  (fst (pl_all (fun c => pl_all (fun y => plan h k false c y) (next_objs h n x)) cs))
            <-> exists c, In c cs /\ existsb (fun y => l_matched h c y tgt) (next_objs h n x) = true) as E3.
    { rewrite (pl_all_pos _ _ _ _ F3). split.
      - intros (c & Hc & P). exists c. split; [exact Hc|]. pose proof (pl_all_flag _ _ F3 c Hc) as Fc.
        apply (pl_all_pos _ _ _ _ Fc) in P. destruct P as (y & Hy & P). apply existsb_exists. exists y.
        split; [exact Hy|]. apply (IH c Hc y tgt (pl_all_flag _ _ Fc y Hy)). exact P.
      - intros (c & Hc & P). exists c. split; [exact Hc|]. pose proof (pl_all_flag _ _ F3 c Hc) as Fc.
        apply (pl_all_pos _ _ _ _ Fc). apply existsb_exists in P. destruct P as (y & Hy & P). exists y.
        split; [exact Hy|]. apply (IH c Hc y tgt (pl_all_flag _ _ Fc y Hy)). exact P. }
    destruct (node_notify n) eqn:Nt; cbn [p_ok fst map ecnt].
    + unfold eind. cbn [fst snd ckey_eqb akey_eqb]. rewrite key_eqb_refl, andb_true_r, Nat.add_0_r.
      destruct (obsv_eqb (node_slot n x) tgt) eqn:Q; cbn [b2n].
      * split; [intros _; left; split; reflexivity|intros _; lia].
      * split.
        -- intros H. right. apply E3. lia.
        -- intros [[_ D]|H]; [discriminate|]. apply E3 in H. lia.
    + cbn [Nat.add]. split.
      * intros H. right. apply E3. exact H.
      * intros [[D _]|H]; [discriminate|]. apply E3. exact H.
  - cbn [andb]. rewrite (observables_not _ _ _ Ap) in *. rewrite (objects_not _ _ _ Ap) in *.
    destruct (node_opt n).
    + assert (ecnt tgt (CK (AUser k)) (fst (pl_all (fun c : graph => pl_all (fun y => plan h k false c y) []) cs)) = 0) as Z.
      { destruct (Nat.eq_dec (ecnt tgt (CK (AUser k)) (fst (pl_all (fun c : graph => pl_all (fun y => plan h k false c y) []) cs))) 0) as [Z|Z]; [exact Z|].
        destruct (ecnt_pos_in tgt (CK (AUser k)) _ (proj1 (Nat.neq_0_lt_0 _) Z)) as (e & He & _).
        apply in_pl_all in He. destruct He as (c & _ & []). }
      destruct (node_notify n); cbn [p_ok fst map ecnt]; rewrite ?Z; split; (lia || discriminate).
    + destruct (node_notify n); [discriminate F1|discriminate F2].
Qed.

(* the heaps of the correspondence: only HasTraits objects have traits *)
Definition heap_wf (h : heap) : Prop := forall x f, has_trait h x f = true -> is_ht h x = true.

Lemma struct_ok_flag h k g : heap_wf h -> forall x, l_struct_ok h g x = true -> snd (plan h k false g x) = false.
Proof.
  intros Wf. induction g as [n cs IH] using graph_ind'. intros x S. rewrite Forall_forall in IH.
  cbn [plan l_struct_ok] in *. destruct (applies h n x) eqn:Ap.
  - rewrite (observables_applies _ _ _ Ap), (objects_applies _ _ _ Ap).
    rewrite forallb_forall in S.
    apply pseq_flag_false. split; [destruct (node_notify n); reflexivity|].
    apply pseq_flag_false. split; [reflexivity|]. apply pseq_flag_false. split.
    + apply pl_all_flag_intro. intros c Hc. apply pl_all_flag_intro. intros y Hy.
      apply (IH c Hc). specialize (S c Hc). rewrite forallb_forall in S. apply S, Hy.
    + destruct n as [f nt opt|ck nt opt]; [|reflexivity]. cbn [applies] in Ap. rewrite (Wf x f Ap). reflexivity.
  - rewrite (observables_not _ _ _ Ap), (objects_not _ _ _ Ap), S.
    apply pseq_flag_false. split; [destruct (node_notify n); reflexivity|].
    apply pseq_flag_false. split; [reflexivity|]. apply pseq_flag_false. split.
    + apply pl_all_flag_intro. intros c Hc. reflexivity.
    + destruct n as [f nt opt|ck nt opt]; [|reflexivity]. cbn [node_opt] in S. subst opt.
      destruct (is_ht h x); reflexivity.
Qed.

Lemma pseq_ecnt_ge o c p q : ecnt o c (fst p) <= ecnt o c (fst (pseq p q)).
Proof. destruct p as [l [|]]; cbn; [lia|]. rewrite ecnt_app. lia. Qed.
Lemma pseq_ecnt_ge_r o c p q : snd p = false -> ecnt o c (fst q) <= ecnt o c (fst (pseq p q)).
Proof. intros F. rewrite (pseq_ecnt o c p q F). lia. Qed.

Lemma touches_entry h k gs x : heap_wf h -> l_touches h gs x = true ->
  exists o a, akey_key a = k /\ 0 < gsum h k gs x o (CK a).
Proof.
  intros Wf T. unfold l_touches in T. apply existsb_exists in T. destruct T as (g & Hg & T).
  destruct g as [[f nt opt|ck nt opt] cs]; [|discriminate].
  assert (exists o a, akey_key a = k /\ 0 < pcnt h k false (G (NNamed f nt opt) cs) x o (CK a)) as (o & a & Ka & P).
  { unfold pcnt. cbn [plan observables node_notify]. rewrite T.
    destruct nt.
    - exists (x, f), (AUser k). split; [reflexivity|].
      eapply Nat.lt_le_trans; [|apply pseq_ecnt_ge]. cbn [p_ok fst map ecnt].
      rewrite eind_self. lia.
    - destruct cs as [|c0 cs'].
      + exists (x, F_TA), (AMaint MTA (G (NNamed f false opt) []) k). split; [reflexivity|].
        rewrite (Wf x f T).
        eapply Nat.lt_le_trans; [|apply pseq_ecnt_ge_r; reflexivity].
        eapply Nat.lt_le_trans; [|apply pseq_ecnt_ge_r; reflexivity].
        eapply Nat.lt_le_trans; [|apply pseq_ecnt_ge_r; reflexivity].
        cbn [p_ok fst ecnt]. rewrite eind_self. lia.
      + exists (x, f), (AMaint MNamed c0 k). split; [reflexivity|].
        eapply Nat.lt_le_trans; [|apply pseq_ecnt_ge_r; reflexivity].
        eapply Nat.lt_le_trans; [|apply pseq_ecnt_ge].
        cbn [p_ok fst flat_map map app ecnt node_mk]. rewrite eind_self. lia. }
  exists o, a. split; [exact Ka|]. clear T.
  induction gs as [|g' gs IH]; [destruct Hg|]. cbn [gsum]. destruct Hg as [->|Hg]; [lia|].
  specialize (IH Hg). lia.
Qed.

(* ------------------------------------------------------------------ ledger lemmas *)
Lemma cnt_sig_zero_notin s l : ~ In s l -> cnt_sig s l = 0.
Proof. intros N. destruct (Nat.eq_dec (cnt_sig s l) 0) as [Z|Z]; [exact Z|]. elim N. apply cnt_sig_pos_in. lia. Qed.

Lemma balanced_counts L : balanced L = true -> forall s, cnt_sig s (regs L) = cnt_sig s (unregs L).
Proof.
  unfold balanced. rewrite forallb_forall. intros B s.
  destruct (in_dec (fun a b => match bool_dec (sig_eqb a b) true with
                               | left e => left (proj1 (sig_eqb_spec a b) e)
                               | right n => right (fun e => n (proj2 (sig_eqb_spec a b) e)) end)
                   s (regs L ++ unregs L)) as [Hin|Hn].
  - apply Nat.eqb_eq, B, Hin.
  - rewrite !cnt_sig_zero_notin; [reflexivity| |]; intros H; apply Hn, in_or_app; auto.
Qed.
Lemma sig_in_dec (s : sig) l : {In s l} + {~ In s l}.
Proof.
  apply in_dec. intros a b. destruct (sig_eqb a b) eqn:Q.
  - left. apply sig_eqb_spec, Q.
  - right. intros E. apply sig_eqb_spec in E. congruence.
Qed.

Lemma balanced_sums h L : balanced L = true ->
  forall o c, sigs_cnt h (regs L) o c = sigs_cnt h (unregs L) o c.
Proof.
  intros B o c. rewrite !sigs_cnt_ssum. apply (sum_eq _ (fun _ => true)); [|discriminate].
  intros s _. apply balanced_counts, B.
Qed.

Lemma gsum_other_key h k gs x o a : akey_key a <> k -> gsum h k gs x o (CK a) = 0.
Proof.
  intros N. induction gs as [|g gs IH]; [reflexivity|]. cbn [gsum]. unfold pcnt at 1.
  rewrite (plan_other_key _ _ _ _ _ _ _ N), IH. reflexivity.
Qed.
Lemma sig_cnt_other_key h (s : sig) o a : akey_key a <> sig_key s -> sig_cnt h s o (CK a) = 0.
Proof. destruct s as [[[x hd] dp] gs]. cbn [sig_cnt sig_key]. apply gsum_other_key. Qed.

Lemma key_clear_counts L k : key_clear L k = true ->
  forall s, key_eqb (sig_key s) k = true -> cnt_sig s (regs L) = cnt_sig s (unregs L).
Proof.
  unfold key_clear. rewrite forallb_forall. intros B s K.
  destruct (sig_in_dec s (regs L ++ unregs L)) as [Hin|Hn].
  - specialize (B s Hin). rewrite K in B. cbn in B. apply Nat.eqb_eq, B.
  - rewrite !cnt_sig_zero_notin; [reflexivity| |]; intros H; apply Hn, in_or_app; auto.
Qed.
Lemma not_overdrawn_counts L k : key_overdrawn L k = false ->
  forall s, key_eqb (sig_key s) k = true -> cnt_sig s (unregs L) <= cnt_sig s (regs L).
Proof.
  unfold key_overdrawn. intros B s K.
  destruct (sig_in_dec s (regs L ++ unregs L)) as [Hin|Hn].
  - destruct (Nat.ltb (cnt_sig s (regs L)) (cnt_sig s (unregs L))) eqn:Lt.
    + assert (existsb (fun s0 => key_eqb (sig_key s0) k && (cnt_sig s0 (regs L) <? cnt_sig s0 (unregs L)))
                      (regs L ++ unregs L) = true) as X.
      { apply existsb_exists. exists s. split; [exact Hin|]. rewrite K, Lt. reflexivity. }
      congruence.
    + apply Nat.ltb_ge in Lt. exact Lt.
  - rewrite (cnt_sig_zero_notin s (unregs L)); [lia|]. intros H; apply Hn, in_or_app; auto.
Qed.

(* a key that occurs in no notifier of a list has count 0 there *)
Lemma cnt_key_absent a l : existsb (key_in_notifier (akey_key a)) l = false -> cnt (CK a) l = 0.
Proof.
  induction l as [|n r IH]; [reflexivity|]. cbn [existsb cnt]. intros E. apply orb_false_iff in E.
  destruct E as [E1 E2]. rewrite (IH E2), Nat.add_0_r.
  destruct (matches a n) eqn:M; [|apply weight_nomatch, M].
  apply matches_spec in M. destruct n; cbn in M; inversion M; subst; cbn in E1; rewrite key_eqb_refl in E1; discriminate.
Qed.

(* ------------------------------------------------------------------ the model's observations *)
Definition iobs_of (univ : list obsv) (s' : state) (ob : obs) (o : op) : iobs :=
  mkI (o_out ob) (map k_handler (o_calls ob)) (snap_of_hooks univ (st_hooks s'))
      (match o with CollectOwner _ | CollectObj _ => Some true | _ => None end).
Fixpoint observe (univ : list obsv) (h : heap) (s : state) (ops : list op) : list (op * iobs) :=
  match ops with
  | [] => []
  | o :: r => let '(s', ob) := step h s o in (o, iobs_of univ s' ob o) :: observe univ h s' r
  end.

Section LawInv.
  Variable h : heap.
  Variable univ : list obsv.
  Variable H0 : hooks.
  Hypothesis Wf : heap_wf h.
  Hypothesis W0 : wfH H0.
  Hypothesis Cover : forall o, ~ In o univ -> H0 o = [].
  Let init := snap_of_hooks univ H0.

  Record linv (s : state) (L : ledger) (prev : snap) : Prop := {
    li_wf : wfH (st_hooks s);
    li_prev : forall o, In o univ -> snap_get prev o = st_hooks s o;
    li_acc : forall o c, cntH (st_hooks s) o c + sigs_cnt h (unregs L) o c
                         = cntH H0 o c + sigs_cnt h (regs L) o c;
    li_flags : forall x hd dp gs, In (x, hd, dp, gs) (regs L) ->
               forall g, In g gs -> snd (plan h (hd, x, dp) false g x) = false }.

  Lemma init_get o : In o univ -> snap_get init o = H0 o.
  Proof. intros Hin. unfold init. rewrite <- (app_nil_r (snap_of_hooks univ H0)). apply snap_get_of_hooks, Hin. Qed.

  Lemma obsv_in_dec (o : obsv) l : {In o l} + {~ In o l}.
  Proof.
    apply in_dec. intros a b. destruct (obsv_eqb a b) eqn:Q.
    - left. apply obsv_eqb_spec, Q.
    - right. intros E. apply obsv_eqb_spec in E. congruence.
  Qed.

  (* the initial count of anything carrying a key that does not occur in the initial snapshot *)
  Lemma init_key_absent k a o : key_in_snap k init = false -> akey_key a = k -> cntH H0 o (CK a) = 0.
  Proof.
    intros A K. unfold cntH. destruct (obsv_in_dec o univ) as [Hin|Hn]; [|rewrite (Cover o Hn); reflexivity].
    apply cnt_key_absent. rewrite K. unfold key_in_snap in A.
    destruct (existsb (key_in_notifier k) (H0 o)) eqn:E; [|reflexivity].
    assert (existsb (fun p => existsb (key_in_notifier k) (snd p)) init = true) as X.
    { apply existsb_exists. exists (o, H0 o). split; [|exact E]. unfold init, snap_of_hooks.
      apply in_map_iff. exists o. split; [reflexivity|exact Hin]. }
    congruence.
  Qed.

  Lemma same_as_prev s s' prev dobj cur :
    (forall o, In o univ -> snap_get prev o = st_hooks s o) ->
    (forall o, In o univ -> snap_get cur o = st_hooks s' o) ->
    (forall o, Permutation (st_hooks s' o) (st_hooks s o)) -> snap_same univ dobj prev cur = true.
  Proof.
    intros Pv Cu P. apply snap_same_intro. intros o Ho. rewrite (Pv o Ho), (Cu o Ho). symmetry. apply P.
  Qed.

  Lemma balanced_same s' L' dobj cur : wfH (st_hooks s') ->
    (forall o, In o univ -> snap_get cur o = st_hooks s' o) ->
    (forall o c, cntH (st_hooks s') o c + sigs_cnt h (unregs L') o c = cntH H0 o c + sigs_cnt h (regs L') o c) ->
    negb (balanced L') || snap_same univ dobj init cur = true.
  Proof.
    intros W' Cu Acc. destruct (balanced L') eqn:B; [|reflexivity]. cbn [negb orb].
    apply snap_same_intro. intros o Ho. rewrite (init_get o Ho), (Cu o Ho). symmetry.
    apply same_counts_perm; [exact W0|exact W'|]. intros o' c. specialize (Acc o' c).
    rewrite (balanced_sums h L' B o' c) in Acc. lia.
  Qed.
End LawInv.

Section LawStep.
  Variable h : heap.
  Variable univ : list obsv.
  Variable H0 : hooks.
  Hypothesis Wf : heap_wf h.
  Hypothesis W0 : wfH H0.
  Hypothesis Cover : forall o, ~ In o univ -> H0 o = [].
  Let init := snap_of_hooks univ H0.
  Notation linv := (linv h univ H0).

  Lemma step_dead_same s o s' ob : step h s o = (s', ob) ->
    match o with
    | CollectOwner hd => dead_handlers s' = hd :: dead_handlers s /\ dead_objs s' = dead_objs s
    | CollectObj t => dead_handlers s' = dead_handlers s /\ dead_objs s' = t :: dead_objs s
    | _ => dead_handlers s' = dead_handlers s /\ dead_objs s' = dead_objs s
    end.
  Proof.
    intros S. destruct o; cbn [step] in S; try (destruct (apply_observers _ _ _ _ _ _));
      inversion S; subst; split; reflexivity.
  Qed.

  Lemma cur_get s' prev o : In o univ -> snap_get (snap_of_hooks univ (st_hooks s') ++ prev) o = st_hooks s' o.
  Proof. apply snap_get_of_hooks. Qed.

  (* everything of a handler whose registrations are all matched by removals is gone *)
  Lemma key_clear_zero s L prev k : linv s L prev -> key_clear L k = true -> key_in_snap k init = false ->
    forall o a, akey_key a = k -> cntH (st_hooks s) o (CK a) = 0.
  Proof.
    intros I KC KI o a Ka. pose proof (li_acc _ _ _ _ _ _ I o (CK a)) as Acc.
    rewrite (init_key_absent univ H0 Cover k a o KI Ka) in Acc. rewrite !sigs_cnt_ssum in Acc.
    rewrite (sum_eq (fun s0 => sig_cnt h s0 o (CK a)) (fun s0 => key_eqb (sig_key s0) k)
                    (unregs L) (regs L)) in Acc; [lia| |].
    - intros s0 K0. symmetry. apply (key_clear_counts L _ KC s0 K0).
    - intros s0 K0. apply sig_cnt_other_key. rewrite Ka. intros E. rewrite <- E, key_eqb_refl in K0. discriminate.
  Qed.
  Lemma cnt_zero_no_key k l : posb l = true -> (forall a, akey_key a = k -> cnt (CK a) l = 0) ->
    existsb (key_in_notifier k) l = false.
  Proof.
    intros P Z. destruct (existsb (key_in_notifier k) l) eqn:E; [|reflexivity]. exfalso.
    apply existsb_exists in E. destruct E as (n & Hn & Kn). destruct (in_split _ _ Hn) as (l1 & l2 & ->).
    destruct (posb_mid _ _ _ P) as [Pn _]. pose proof (weight_own n Pn) as W.
    destruct n as [k' rc|m g k'|i]; cbn in Kn; try discriminate; apply key_eqb_spec in Kn; subst k'.
    - specialize (Z (AUser k) eq_refl). rewrite cnt_mid in Z. cbn [ckey_of] in W. lia.
    - specialize (Z (AMaint m g k) eq_refl). rewrite cnt_mid in Z. cbn [ckey_of] in W. lia.
  Qed.
  Lemma clause8 s' L' dobj cur : linv s' L' cur ->
    forallb (fun k => negb (key_clear L' k && negb (key_in_snap k init))
                      || negb (key_on_some_list univ dobj k cur)) (keys_of L') = true.
  Proof.
    intros I. apply forallb_forall. intros k _.
    destruct (key_clear L' k && negb (key_in_snap k init)) eqn:Pre; [|reflexivity]. cbn [negb orb].
    apply andb_true_iff in Pre. destruct Pre as [KC KI]. apply negb_true_iff in KI. apply negb_true_iff.
    destruct (key_on_some_list univ dobj k cur) eqn:E; [|reflexivity]. exfalso. unfold key_on_some_list in E.
    apply existsb_exists in E. destruct E as (o & Ho & E). apply andb_true_iff in E. destruct E as [_ E].
    rewrite (li_prev _ _ _ _ _ _ I o Ho) in E.
    rewrite (cnt_zero_no_key k (st_hooks s' o)) in E; [discriminate|apply (li_wf _ _ _ _ _ _ I)|].
    intros a Ka. apply (key_clear_zero s' L' cur k I KC KI o a Ka).
  Qed.

  Lemma law_register s L prev x hd dp gs s' ob :
    linv s L prev -> step h s (Register x hd dp gs) = (s', ob) ->
    let cur := snap_of_hooks univ (st_hooks s') ++ prev in
    let L' := if is_none (o_out ob) then mkL ((x, hd, dp, gs) :: regs L) (unregs L) else L in
    law_step h univ init L (dead_handlers s) (dead_objs s) prev cur (Register x hd dp gs)
             (iobs_of univ s' ob (Register x hd dp gs))
    = ([], L', dead_handlers s', dead_objs s') /\ linv s' L' cur.
  Proof.
    intros [Ws Pv Acc Fl] S cur L'. pose proof (step_wf _ _ _ _ _ Ws S) as Ws'.
    destruct (step_dead_same _ _ _ _ S) as [-> ->].
    destruct (step_spec _ _ _ _ _ (proj1 Ws) S) as [_ Q]. cbn beta iota in Q.
    destruct (register_outcome _ _ _ _ _ _ _ _ (proj1 Ws) S) as [RO _].
    assert (forall o c, cntH (st_hooks s') o c + sigs_cnt h (unregs L') o c
                        = cntH H0 o c + sigs_cnt h (regs L') o c) as Acc'.
    { intros o c. specialize (Acc o c). subst L'. destruct (o_out ob); cbn [is_none regs unregs sigs_cnt sig_cnt].
      - destruct Q as [Q _]. rewrite (Q o c). exact Acc.
      - specialize (Q o c). cbn beta iota in Q. lia. }
    assert (linv s' L' cur) as I'.
    { constructor; [exact Ws'|intros o Ho; apply cur_get, Ho|exact Acc'|].
      subst L'. destruct (o_out ob); cbn [is_none regs]; [exact Fl|].
      intros x' hd' dp' gs' [E|Hin]; [inversion E; subst; apply RO; reflexivity|apply (Fl _ _ _ _ Hin)]. }
    split; [|exact I'].
    unfold law_step. cbn [iobs_of i_out]. fold L'. f_equal. f_equal. f_equal.
    assert (is_none (o_out ob) || snap_same univ (dead_objs s) prev cur = true) as C1.
    { destruct (o_out ob) as [y|] eqn:E; [|reflexivity]. cbn [is_none orb].
      apply (same_as_prev univ s s'); [exact Pv|intros o Ho; apply cur_get, Ho|].
      apply (failure_atomic_perm h s _ s' ob Ws S). congruence. }
    rewrite C1.
    pose proof (balanced_same h univ H0 W0 s' L' (dead_objs s) cur Ws' (fun o Ho => cur_get s' prev o Ho) Acc') as C2.
    assert (forall b b8, b = true -> b8 = true -> chk 1 true ++ chk 2 b ++ chk 8 b8 = []) as K
        by (intros b b8 -> ->; reflexivity).
    apply K; [exact C2|apply (clause8 s' L' (dead_objs s) cur I')].
  Qed.

  Lemma law_unregister s L prev x hd dp gs s' ob :
    linv s L prev -> step h s (Unregister x hd dp gs) = (s', ob) ->
    let cur := snap_of_hooks univ (st_hooks s') ++ prev in
    let L' := if is_none (o_out ob) then mkL (regs L) ((x, hd, dp, gs) :: unregs L) else L in
    law_step h univ init L (dead_handlers s) (dead_objs s) prev cur (Unregister x hd dp gs)
             (iobs_of univ s' ob (Unregister x hd dp gs))
    = ([], L', dead_handlers s', dead_objs s') /\ linv s' L' cur.
  Proof.
    intros [Ws Pv Acc Fl] S cur L'. pose proof (step_wf _ _ _ _ _ Ws S) as Ws'.
    destruct (step_dead_same _ _ _ _ S) as [-> ->].
    destruct (step_spec _ _ _ _ _ (proj1 Ws) S) as [_ Q]. cbn beta iota in Q.
    assert (forall o c, cntH (st_hooks s') o c + sigs_cnt h (unregs L') o c
                        = cntH H0 o c + sigs_cnt h (regs L') o c) as Acc'.
    { intros o c. specialize (Acc o c). subst L'. destruct (o_out ob); cbn [is_none regs unregs sigs_cnt sig_cnt].
      - destruct Q as [Q _]. rewrite (Q o c). exact Acc.
      - specialize (Q o c). cbn beta iota in Q. lia. }
    assert (linv s' L' cur) as I'.
    { constructor; [exact Ws'|intros o Ho; apply cur_get, Ho|exact Acc'|].
      subst L'. destruct (o_out ob); cbn [is_none regs]; exact Fl. }
    split; [|exact I'].
    unfold law_step. cbn [iobs_of i_out]. fold L'. f_equal. f_equal. f_equal.
    assert (is_none (o_out ob) || snap_same univ (dead_objs s) prev cur = true) as C1.
    { destruct (o_out ob) as [y|] eqn:E; [|reflexivity]. cbn [is_none orb].
      apply (same_as_prev univ s s'); [exact Pv|intros o Ho; apply cur_get, Ho|].
      apply (failure_atomic_perm h s _ s' ob Ws S). congruence. }
    pose proof (balanced_same h univ H0 W0 s' L' (dead_objs s) cur Ws' (fun o Ho => cur_get s' prev o Ho) Acc') as C2.
    (* clause 4: nothing of this handler is registered -> the removal raises *)
    assert (negb (key_clear L (hd, x, dp) && negb (key_in_snap (hd, x, dp) init) && l_touches h gs x)
            || match o_out ob with
               | None => false
               | Some e => negb (forallb (fun g => l_struct_ok h g x) gs) || exn_eqb e NotifierNotFound
               end = true) as C4.
    { destruct (key_clear L (hd, x, dp) && negb (key_in_snap (hd, x, dp) init) && l_touches h gs x) eqn:Pre;
        [|reflexivity]. cbn [negb orb].
      apply andb_true_iff in Pre. destruct Pre as [Pre T]. apply andb_true_iff in Pre. destruct Pre as [KC KI].
      apply negb_true_iff in KI.
      destruct (touches_entry h (hd, x, dp) gs x Wf T) as (o & a & Ka & G0).
      assert (cntH (st_hooks s) o (CK a) = 0) as Z.
      { specialize (Acc o (CK a)). rewrite (init_key_absent univ H0 Cover (hd, x, dp) a o KI Ka) in Acc.
        rewrite !sigs_cnt_ssum in Acc.
        rewrite (sum_eq (fun s0 => sig_cnt h s0 o (CK a)) (fun s0 => key_eqb (sig_key s0) (hd, x, dp))
                        (unregs L) (regs L)) in Acc; [lia| |].
        - intros s0 K0. symmetry. apply (key_clear_counts L _ KC s0 K0).
        - intros s0 K0. apply sig_cnt_other_key. rewrite Ka. intros E. rewrite <- E, key_eqb_refl in K0. discriminate. }
      destruct (extra_unregister h s x hd dp gs s' ob (proj1 Ws)) as [(y & Ey & Ny) _]; [|exact S|].
      { exists o, (CK a). lia. }
      rewrite Ey. destruct (forallb (fun g => l_struct_ok h g x) gs) eqn:SO; [|reflexivity]. cbn [negb orb].
      rewrite Ny; [reflexivity|]. intros g Hg. apply struct_ok_flag; [exact Wf|].
      rewrite forallb_forall in SO. apply SO, Hg. }
    (* clause 9: the removal of a live registration succeeds *)
    assert (negb (Nat.ltb (cnt_sig (x, hd, dp, gs) (unregs L)) (cnt_sig (x, hd, dp, gs) (regs L))
                  && negb (key_overdrawn L (hd, x, dp))) || is_none (o_out ob) = true) as C9.
    { destruct (Nat.ltb (cnt_sig (x, hd, dp, gs) (unregs L)) (cnt_sig (x, hd, dp, gs) (regs L))
                && negb (key_overdrawn L (hd, x, dp))) eqn:Pre; [|reflexivity]. cbn [negb orb].
      apply andb_true_iff in Pre. destruct Pre as [Lt NO]. apply Nat.ltb_lt in Lt. apply negb_true_iff in NO.
      assert (In (x, hd, dp, gs) (regs L)) as Hin by (apply cnt_sig_pos_in; lia).
      assert (forall g, In g gs -> snd (plan h (hd, x, dp) false g x) = false) as Fg by (apply (Fl x hd dp gs Hin)).
      assert (forall o c, gsum h (hd, x, dp) gs x o c <= cntH (st_hooks s) o c) as Cn.
      { intros o c. destruct c as [a|i].
        - destruct (key_eqb (akey_key a) (hd, x, dp)) eqn:Ka.
          + specialize (Acc o (CK a)). rewrite !sigs_cnt_ssum in Acc.
            pose proof (sum_le_plus (fun s0 => sig_cnt h s0 o (CK a)) (fun s0 => key_eqb (sig_key s0) (hd, x, dp))
                          (unregs L) (regs L) (x, hd, dp, gs)) as SL.
            assert (ssum (fun s0 => sig_cnt h s0 o (CK a)) (unregs L) + gsum h (hd, x, dp) gs x o (CK a)
                    <= ssum (fun s0 => sig_cnt h s0 o (CK a)) (regs L)) as SL'.
            { change (gsum h (hd, x, dp) gs x o (CK a)) with (sig_cnt h (x, hd, dp, gs) o (CK a)). apply SL.
              - intros s0 K0. apply (not_overdrawn_counts L _ NO s0 K0).
              - intros s0 K0. apply sig_cnt_other_key. intros E. apply key_eqb_spec in Ka. rewrite Ka in E.
                rewrite <- E, key_eqb_refl in K0. discriminate.
              - cbn [sig_key]. apply key_eqb_refl.
              - exact Lt. }
            lia.
          + rewrite gsum_other_key; [lia|]. intros E. rewrite E, key_eqb_refl in Ka. discriminate.
        - assert (gsum h (hd, x, dp) gs x o (CF i) = 0) as ->; [|lia].
          clear. induction gs as [|g gs IH]; [reflexivity|]. cbn [gsum]. rewrite IH. unfold pcnt. rewrite plan_no_foreign. reflexivity. }
      destruct (apply_loop_rm_succeeds h (hd, x, dp) x gs (st_hooks s) [] (proj1 Ws) Fg Cn) as [H' E].
      cbn [step] in S. unfold apply_observers in S. rewrite E in S. inversion S. reflexivity. }
    assert (forall b2 b8 b4 b9, b2 = true -> b8 = true -> b4 = true -> b9 = true ->
                                chk 1 true ++ chk 2 b2 ++ chk 8 b8 ++ chk 4 b4 ++ chk 9 b9 = []) as K
        by (intros b2 b8 b4 b9 -> -> -> ->; reflexivity).
    rewrite C1. apply K; [exact C2|apply (clause8 s' L' (dead_objs s) cur I')|exact C4|exact C9].
  Qed.

  (* ---------- clause 3: call counts ---------- *)
  Lemma gsum_pos k gs x o c : 0 < gsum h k gs x o c <-> exists g, In g gs /\ 0 < pcnt h k false g x o c.
  Proof.
    induction gs as [|g gs IH]; cbn [gsum]; [split; [lia|intros (g & [] & _)]|]. split.
    - intros P. destruct (Nat.eq_dec (pcnt h k false g x o c) 0) as [Z|Z].
      + destruct (proj1 IH) as (g' & Hg & Pg); [lia|]. exists g'. split; [right; exact Hg|exact Pg].
      + exists g. split; [left; reflexivity|lia].
    - intros (g' & [->|Hg] & Pg); [lia|]. assert (0 < gsum h k gs x o c) by (apply IH; eauto). lia.
  Qed.

  Lemma sig_matched s L prev x hd dp gs tgt : linv s L prev -> In (x, hd, dp, gs) (regs L) ->
    (0 < sig_cnt h (x, hd, dp, gs) tgt (CK (AUser (hd, x, dp))) <-> existsb (fun g => l_matched h g x tgt) gs = true).
  Proof.
    intros I Hin. cbn [sig_cnt]. rewrite gsum_pos, existsb_exists. split.
    - intros (g & Hg & P). exists g. split; [exact Hg|].
      apply (plan_matched h (hd, x, dp) g x tgt (li_flags _ _ _ _ _ _ I x hd dp gs Hin g Hg)). exact P.
    - intros (g & Hg & M). exists g. split; [exact Hg|].
      apply (plan_matched h (hd, x, dp) g x tgt (li_flags _ _ _ _ _ _ I x hd dp gs Hin g Hg)). exact M.
  Qed.

  Lemma live_match_iff s L prev k tgt : linv s L prev ->
    key_overdrawn L k = false -> key_in_snap k init = false ->
    (0 <? cntH (st_hooks s) tgt (CK (AUser k))) = key_live_match h L k tgt.
  Proof.
    intros I OD KI. pose proof (li_acc _ _ _ _ _ _ I tgt (CK (AUser k))) as Acc.
    rewrite (init_key_absent univ H0 Cover k (AUser k) tgt KI eq_refl) in Acc. rewrite !sigs_cnt_ssum in Acc.
    set (F := fun s0 : sig => sig_cnt h s0 tgt (CK (AUser k))) in *.
    assert (forall s0, key_eqb (sig_key s0) k = false -> F s0 = 0) as Foff.
    { intros s0 K0. unfold F. apply sig_cnt_other_key. cbn [akey_key]. intros E. rewrite <- E, key_eqb_refl in K0. discriminate. }
    destruct (key_live_match h L k tgt) eqn:LM.
    - (* a live matching registration: strictly more planned than removed *)
      apply Nat.ltb_lt. unfold key_live_match in LM. apply existsb_exists in LM.
      destruct LM as (s0 & Hin & LM). apply andb_true_iff in LM. destruct LM as [LM M].
      apply andb_true_iff in LM. destruct LM as [K0 Lt]. apply Nat.ltb_lt in Lt.
      destruct s0 as [[[x hd] dp] gs]. assert (k = (hd, x, dp)) as -> by (symmetry; apply key_eqb_spec, K0).
      assert (ssum F (unregs L) < ssum F (regs L)); [|lia].
      apply (sum_lt F (fun s1 => key_eqb (sig_key s1) (hd, x, dp)) _ _ (x, hd, dp, gs)).
      + intros s1 K1. apply (not_overdrawn_counts L _ OD s1 K1).
      + exact Foff.
      + exact K0.
      + exact Lt.
      + unfold F. apply (sig_matched s L prev x hd dp gs tgt I Hin). exact M.
    - (* no live matching registration: everything planned for tgt has been removed again *)
      apply Nat.ltb_ge. assert (ssum F (regs L) <= ssum F (unregs L)); [|lia].
      apply (sum_le F (fun s1 => key_eqb (sig_key s1) k && (0 <? F s1))).
      + intros s1 P1. apply andb_true_iff in P1. destruct P1 as [K1 P1]. apply Nat.ltb_lt in P1.
        destruct (Nat.le_gt_cases (cnt_sig s1 (regs L)) (cnt_sig s1 (unregs L))) as [Le|Gt]; [exact Le|].
        exfalso. assert (In s1 (regs L)) as Hin by (apply cnt_sig_pos_in; lia).
        destruct s1 as [[[x hd] dp] gs]. assert (k = (hd, x, dp)) as -> by (symmetry; apply key_eqb_spec, K1).
        assert (key_live_match h L (hd, x, dp) tgt = true); [|congruence].
        unfold key_live_match. apply existsb_exists. exists (x, hd, dp, gs). split; [exact Hin|].
        rewrite K1. cbn [andb]. apply andb_true_iff. split; [apply Nat.ltb_lt, Gt|].
        apply (sig_matched s L prev x hd dp gs tgt I Hin). exact P1.
      + intros s1 P1. apply andb_false_iff in P1. destruct P1 as [K1|P1]; [apply Foff, K1|].
        apply Nat.ltb_ge in P1. lia.
  Qed.

  Lemma count_nat_map hd (l : list key) :
    count_nat hd (map k_handler l) = length (filter (fun k => Nat.eqb hd (k_handler k)) l).
  Proof.
    unfold count_nat. induction l as [|k l IH]; [reflexivity|]. cbn [map filter].
    destruct (Nat.eqb hd (k_handler k)); cbn [length]; rewrite IH; reflexivity.
  Qed.
  Lemma in_calls s l k : In k (calls_of s l) <-> alive s k = true /\ exists rc, In (NUser k rc) l.
  Proof.
    unfold calls_of. rewrite in_flat_map. split.
    - intros (n & Hn & Hk). destruct n as [k' rc| |]; try destruct Hk.
      destruct (alive s k') eqn:A; [|destruct Hk]. destruct Hk as [<-|[]]. split; [exact A|eauto].
    - intros (A & rc & Hin). exists (NUser k rc). split; [exact Hin|]. rewrite A. left. reflexivity.
  Qed.
  Lemma user_in_cnt l k : posb l = true -> ((exists rc, In (NUser k rc) l) <-> 0 < cnt (CK (AUser k)) l).
  Proof.
    intros P. split.
    - intros (rc & Hin). destruct (in_split _ _ Hin) as (l1 & l2 & ->). rewrite cnt_mid.
      destruct (posb_mid _ _ _ P) as [Pn _]. pose proof (weight_own _ Pn) as W. cbn [ckey_of] in W. lia.
    - intros C. destruct (cnt_pos_in _ _ C) as (n & Hn & W). pose proof (weight_pos_inv _ _ W) as K.
      destruct n as [k' rc| |]; cbn [ckey_of] in K; try discriminate. inversion K; subst. eauto.
  Qed.
  Lemma calls_nodup s l : uniqb l = true -> NoDup (calls_of s l).
  Proof.
    induction l as [|n r IH]; intros U; [constructor|]. cbn [uniqb] in U. apply andb_true_iff in U.
    destruct U as [Un Ur]. specialize (IH Ur).
    change (calls_of s (n :: r)) with
      ((match n with NUser k' _ => if alive s k' then [k'] else [] | _ => [] end) ++ calls_of s r).
    destruct n as [k rc| |]; try exact IH. destruct (alive s k); [|exact IH]. cbn [app]. constructor; [|exact IH].
    intros Hin. apply in_calls in Hin. destruct Hin as (_ & rc' & Hin). apply negb_true_iff in Un.
    assert (existsb (matches (AUser k)) r = true); [|congruence].
    apply existsb_exists. exists (NUser k rc'). split; [exact Hin|]. cbn. apply key_eqb_refl.
  Qed.
  Lemma dedup_in l k : In k (dedup_keys l) <-> In k l.
  Proof.
    induction l as [|a r IH]; [reflexivity|]. cbn [dedup_keys]. destruct (existsb (key_eqb a) r) eqn:E.
    - rewrite IH. split; [right; assumption|intros [<-|H]; [|exact H]].
      apply existsb_exists in E. destruct E as (b & Hb & Q). apply key_eqb_spec in Q. subst. exact Hb.
    - cbn [In]. rewrite IH. reflexivity.
  Qed.
  Lemma dedup_nodup l : NoDup (dedup_keys l).
  Proof.
    induction l as [|a r IH]; [constructor|]. cbn [dedup_keys]. destruct (existsb (key_eqb a) r) eqn:E; [exact IH|].
    constructor; [|exact IH]. rewrite dedup_in. intros Hin.
    assert (existsb (key_eqb a) r = true); [|congruence]. apply existsb_exists. exists a. split; [exact Hin|apply key_eqb_refl].
  Qed.
  Lemma hd_absent_key hd k : hd_in_snap hd init = false -> k_handler k = hd -> key_in_snap k init = false.
  Proof.
    intros A K. unfold key_in_snap. destruct (existsb (fun p => existsb (key_in_notifier k) (snd p)) init) eqn:E; [|reflexivity].
    apply existsb_exists in E. destruct E as (p & Hp & E). apply existsb_exists in E. destruct E as (n & Hn & E).
    assert (hd_in_snap hd init = true); [|congruence]. unfold hd_in_snap. apply existsb_exists. exists p.
    split; [exact Hp|]. apply existsb_exists. exists n. split; [exact Hn|].
    destruct n as [k' rc|m g k'|i]; cbn in E |- *; try discriminate; apply key_eqb_spec in E; subst k'; rewrite K; apply Nat.eqb_refl.
  Qed.

  Lemma law_change s L prev o f s' ob :
    linv s L prev -> step h s (Change o f) = (s', ob) ->
    let cur := snap_of_hooks univ (st_hooks s') ++ prev in
    law_step h univ init L (dead_handlers s) (dead_objs s) prev cur (Change o f) (iobs_of univ s' ob (Change o f))
    = ([], L, dead_handlers s', dead_objs s') /\ linv s' L cur.
  Proof.
    intros I S cur. destruct (step_dead_same _ _ _ _ S) as [-> ->].
    cbn [step] in S. inversion S; subst s' ob. clear S.
    assert (linv s L cur) as I'.
    { destruct I as [Ws Pv Acc Fl]. constructor; [exact Ws|intros o' Ho; apply cur_get, Ho|exact Acc|exact Fl]. }
    split; [|exact I']. unfold law_step. cbn [iobs_of i_out i_calls o_out o_calls is_none chk app].
    rewrite app_nil_r. f_equal. f_equal. f_equal.
    assert (forall b, b = true -> chk 3 b = []) as K by (intros b ->; reflexivity). apply K.
    apply forallb_forall. intros hd _.
    set (ks := dedup_keys (keys_of L)). set (mine := filter (fun k => Nat.eqb (k_handler k) hd) ks).
    destruct (existsb (fun k => key_overdrawn L k || key_in_snap k init) mine) eqn:Sil; [reflexivity|].
    destruct (hd_in_snap hd init) eqn:HI; [reflexivity|]. cbn [orb]. apply Nat.eqb_eq.
    set (l := st_hooks s (o, f)). destruct (li_wf _ _ _ _ _ _ I) as [Ps Us].
    rewrite count_nat_map. apply Permutation_length. apply NoDup_Permutation.
    - apply NoDup_filter, calls_nodup, Us.
    - apply NoDup_filter, NoDup_filter, dedup_nodup.
    - intros k. rewrite !filter_In. unfold mine, ks. rewrite filter_In, dedup_in. split.
      + (* a called handler has a live matching registration *)
        intros [Hc Hk]. apply Nat.eqb_eq in Hk. apply in_calls in Hc. destruct Hc as [A Hc].
        apply (user_in_cnt _ _ (Ps (o, f))) in Hc.
        pose proof (hd_absent_key hd k HI (eq_sym Hk)) as KI.
        assert (In k (keys_of L)) as Hin.
        { pose proof (li_acc _ _ _ _ _ _ I (o, f) (CK (AUser k))) as Acc.
          rewrite (init_key_absent univ H0 Cover k (AUser k) (o, f) KI eq_refl) in Acc.
          fold l in Hc. unfold cntH in Acc. fold l in Acc.
          assert (0 < sigs_cnt h (regs L) (o, f) (CK (AUser k))) as Pr by lia.
          rewrite sigs_cnt_ssum in Pr. clear Acc.
          assert (exists s0, In s0 (regs L) /\ 0 < sig_cnt h s0 (o, f) (CK (AUser k))) as (s0 & H1 & H2).
          { induction (regs L) as [|a r IHr]; [cbn in Pr; lia|]. cbn [ssum] in Pr.
            destruct (Nat.eq_dec (sig_cnt h a (o, f) (CK (AUser k))) 0) as [Z|Z].
            - destruct IHr as (s0 & H1 & H2); [lia|]. exists s0. split; [right; exact H1|exact H2].
            - exists a. split; [left; reflexivity|lia]. }
          unfold keys_of. apply in_map_iff. exists s0. split; [|apply in_or_app; left; exact H1].
          destruct (key_eqb (sig_key s0) k) eqn:Q; [apply key_eqb_spec, Q|].
          rewrite sig_cnt_other_key in H2; [lia|]. cbn [akey_key]. intros E. rewrite <- E, key_eqb_refl in Q. discriminate. }
        assert (In k mine) as Hm.
        { unfold mine, ks. apply filter_In. split; [apply dedup_in, Hin|]. rewrite Hk. apply Nat.eqb_refl. }
        assert (key_overdrawn L k = false) as OD.
        { destruct (key_overdrawn L k) eqn:E; [|reflexivity].
          assert (existsb (fun k0 => key_overdrawn L k0 || key_in_snap k0 init) mine = true); [|congruence].
          apply existsb_exists. exists k. split; [exact Hm|]. rewrite E. reflexivity. }
        split; [split; [exact Hin|rewrite Hk; apply Nat.eqb_refl]|].
        change (negb (memb (k_handler k) (dead_handlers s)) && negb (memb (k_target k) (dead_objs s))) with (alive s k).
        rewrite A. cbn [andb]. rewrite <- (live_match_iff s L prev k (o, f) I OD KI).
        apply Nat.ltb_lt. exact Hc.
      + intros [[Hin Hk] Pk]. apply Nat.eqb_eq in Hk.
        change (negb (memb (k_handler k) (dead_handlers s)) && negb (memb (k_target k) (dead_objs s))) with (alive s k) in Pk.
        apply andb_true_iff in Pk. destruct Pk as [A LM].
        assert (In k mine) as Hm.
        { unfold mine, ks. apply filter_In. split; [apply dedup_in, Hin|]. rewrite Hk. apply Nat.eqb_refl. }
        assert (key_overdrawn L k = false /\ key_in_snap k init = false) as [OD KI].
        { rewrite <- orb_false_iff. destruct (key_overdrawn L k || key_in_snap k init) eqn:E; [|reflexivity].
          assert (existsb (fun k0 => key_overdrawn L k0 || key_in_snap k0 init) mine = true); [|congruence].
          apply existsb_exists. exists k. split; [exact Hm|exact E]. }
        rewrite <- (live_match_iff s L prev k (o, f) I OD KI) in LM. apply Nat.ltb_lt in LM.
        split; [|rewrite Hk; apply Nat.eqb_refl]. apply in_calls. split; [exact A|].
        apply (user_in_cnt _ _ (Ps (o, f))). exact LM.
  Qed.

  Lemma law_collect s L prev o s' ob :
    match o with CollectOwner _ | CollectObj _ => True | _ => False end ->
    linv s L prev -> step h s o = (s', ob) ->
    let cur := snap_of_hooks univ (st_hooks s') ++ prev in
    law_step h univ init L (dead_handlers s) (dead_objs s) prev cur o (iobs_of univ s' ob o)
    = ([], L, dead_handlers s', dead_objs s') /\ linv s' L cur.
  Proof.
    intros Ko I S cur. pose proof (step_dead_same _ _ _ _ S) as D.
    destruct o as [| | |hd|t]; try destruct Ko; cbn [step] in S; inversion S; subst s' ob; clear S;
      cbn [dead_handlers dead_objs st_hooks] in *.
    - split.
      + unfold law_step. cbn [iobs_of i_dead chk app]. f_equal. f_equal. f_equal.
        assert (forall b, b = true -> chk 1 b = []) as K by (intros b ->; reflexivity). apply K.
        apply snap_same_intro. intros o Ho. unfold cur. cbn [st_hooks]. rewrite (cur_get _ prev o Ho).
        cbn [st_hooks]. rewrite (li_prev _ _ _ _ _ _ I o Ho). reflexivity.
      + destruct I as [Ws Pv Acc Fl]. constructor; cbn [st_hooks]; [exact Ws| |exact Acc|exact Fl].
        intros o Ho. unfold cur. apply (cur_get _ prev o Ho).
    - split; [reflexivity|].
      destruct I as [Ws Pv Acc Fl]. constructor; cbn [st_hooks]; [exact Ws| |exact Acc|exact Fl].
      intros o Ho. unfold cur. apply (cur_get _ prev o Ho).
  Qed.

  (* the whole law, all clauses, on the model's own observations of every history *)
  Lemma law_model : forall ops s L prev i, linv s L prev ->
    law_hist h univ init i L (dead_handlers s) (dead_objs s) prev (observe univ h s ops) = [].
  Proof.
    induction ops as [|o ops IH]; intros s L prev i I; [reflexivity|]. cbn [observe].
    destruct (step h s o) as [s' ob] eqn:S. cbn [law_hist].
    assert (exists L', law_step h univ init L (dead_handlers s) (dead_objs s) prev
                                (i_snap (iobs_of univ s' ob o) ++ prev) o (iobs_of univ s' ob o)
                       = ([], L', dead_handlers s', dead_objs s')
                       /\ linv s' L' (i_snap (iobs_of univ s' ob o) ++ prev)) as (L' & E & I').
    { cbn [iobs_of i_snap]. destruct o as [x hd dp gs|x hd dp gs|o f|hd|t].
      - eexists. apply (law_register s L prev x hd dp gs s' ob I S).
      - eexists. apply (law_unregister s L prev x hd dp gs s' ob I S).
      - eexists. apply (law_change s L prev o f s' ob I S).
      - eexists. apply (law_collect s L prev (CollectOwner hd) s' ob Logic.I I S).
      - eexists. apply (law_collect s L prev (CollectObj t) s' ob Logic.I I S). }
    rewrite E. cbn [map app]. apply IH. exact I'.
  Qed.
End LawStep.

(* the statement without section variables: any heap of the correspondence ([heap_wf]), any universe of
   observables covering the initial population, any well-formed start state, any history *)
Theorem law_holds_on_model : forall (h : heap) (univ : list obsv) (s0 : state) (ops : list op),
  heap_wf h -> wfH (st_hooks s0) -> (forall o, ~ In o univ -> st_hooks s0 o = []) ->
  law_hist h univ (snap_of_hooks univ (st_hooks s0)) 0 (mkL [] []) (dead_handlers s0) (dead_objs s0)
           (snap_of_hooks univ (st_hooks s0)) (observe univ h s0 ops) = [].
Proof.
  intros h univ s0 ops Wf W0 Cover.
  apply (law_model h univ (st_hooks s0) Wf W0 Cover ops s0 (mkL [] []) (snap_of_hooks univ (st_hooks s0)) 0).
  constructor; [exact W0| |intros; cbn; lia|intros ? ? ? ? []].
  intros o Ho. rewrite <- (app_nil_r (snap_of_hooks univ (st_hooks s0))). apply snap_get_of_hooks, Ho.
Qed.

(* the heaps built by the correspondence from object descriptions are well-formed *)
From TV Require C09.Corr.
Lemma heap_of_wf ds : heap_wf (C09.Corr.heap_of ds).
Proof.
  intros x f. unfold C09.Corr.heap_of, is_ht. cbn [has_trait kind_of].
  destruct (C09.Corr.find_obj ds x) as [[[[[y k] ts] ls] it]|]; [|discriminate].
  destruct k; try discriminate. reflexivity.
Qed.

(* on a history without heap mutations the dynamic law is the law *)
Lemma law_hist_dyn_static h univ init : forall hist i L dh dobj prev,
  law_hist_dyn univ init i h L dh dobj prev (map (fun p => (LStatic (fst p), snd p)) hist)
  = law_hist h univ init i L dh dobj prev hist.
Proof.
  induction hist as [|[o ob] r IH]; intros i L dh dobj prev; [reflexivity|].
  cbn [map fst snd law_hist_dyn law_hist].
  destruct (law_step h univ init L dh dobj prev (i_snap ob ++ prev) o ob) as [[[codes L'] dh'] dobj'].
  rewrite IH. reflexivity.
Qed.
